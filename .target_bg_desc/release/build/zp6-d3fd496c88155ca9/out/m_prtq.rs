use asn1rs::prelude::*;

#[asn(transparent)]

#[derive(Default, Debug, Clone, PartialEq, Hash)]
pub struct Tprtany(#[asn(printablestring)] pub String);

impl Tprtany {
}

impl Tprtany {
    pub const fn new(value: String) -> Self {
        Self(value)
    }
}

impl ::core::ops::Deref for Tprtany {
    type Target = String;

    fn deref(&self) -> &String {
        &self.0
    }
}

impl ::core::ops::DerefMut for Tprtany {
    fn deref_mut(&mut self) -> &mut String {
        &mut self.0
    }
}

impl ::core::convert::From<String> for Tprtany {
    fn from(value: String) -> Self {
        Self(value)
    }
}

impl ::core::convert::From<Tprtany> for String {
    fn from(value: Tprtany) -> Self {
        value.0
    }
}

#[asn(transparent)]

#[derive(Default, Debug, Clone, PartialEq, Hash)]
pub struct Tprtf1(#[asn(printablestring(size(1)))] pub String);

impl Tprtf1 {
}

impl Tprtf1 {
    pub const fn new(value: String) -> Self {
        Self(value)
    }
}

impl ::core::ops::Deref for Tprtf1 {
    type Target = String;

    fn deref(&self) -> &String {
        &self.0
    }
}

impl ::core::ops::DerefMut for Tprtf1 {
    fn deref_mut(&mut self) -> &mut String {
        &mut self.0
    }
}

impl ::core::convert::From<String> for Tprtf1 {
    fn from(value: String) -> Self {
        Self(value)
    }
}

impl ::core::convert::From<Tprtf1> for String {
    fn from(value: Tprtf1) -> Self {
        value.0
    }
}

#[asn(transparent)]

#[derive(Default, Debug, Clone, PartialEq, Hash)]
pub struct Tprtf3(#[asn(printablestring(size(3)))] pub String);

impl Tprtf3 {
}

impl Tprtf3 {
    pub const fn new(value: String) -> Self {
        Self(value)
    }
}

impl ::core::ops::Deref for Tprtf3 {
    type Target = String;

    fn deref(&self) -> &String {
        &self.0
    }
}

impl ::core::ops::DerefMut for Tprtf3 {
    fn deref_mut(&mut self) -> &mut String {
        &mut self.0
    }
}

impl ::core::convert::From<String> for Tprtf3 {
    fn from(value: String) -> Self {
        Self(value)
    }
}

impl ::core::convert::From<Tprtf3> for String {
    fn from(value: Tprtf3) -> Self {
        value.0
    }
}

#[asn(transparent)]

#[derive(Default, Debug, Clone, PartialEq, Hash)]
pub struct Tprtf65535(#[asn(printablestring(size(65535)))] pub String);

impl Tprtf65535 {
}

impl Tprtf65535 {
    pub const fn new(value: String) -> Self {
        Self(value)
    }
}

impl ::core::ops::Deref for Tprtf65535 {
    type Target = String;

    fn deref(&self) -> &String {
        &self.0
    }
}

impl ::core::ops::DerefMut for Tprtf65535 {
    fn deref_mut(&mut self) -> &mut String {
        &mut self.0
    }
}

impl ::core::convert::From<String> for Tprtf65535 {
    fn from(value: String) -> Self {
        Self(value)
    }
}

impl ::core::convert::From<Tprtf65535> for String {
    fn from(value: Tprtf65535) -> Self {
        value.0
    }
}

#[asn(transparent)]

#[derive(Default, Debug, Clone, PartialEq, Hash)]
pub struct Tprtf65536(#[asn(printablestring(size(65536)))] pub String);

impl Tprtf65536 {
}

impl Tprtf65536 {
    pub const fn new(value: String) -> Self {
        Self(value)
    }
}

impl ::core::ops::Deref for Tprtf65536 {
    type Target = String;

    fn deref(&self) -> &String {
        &self.0
    }
}

impl ::core::ops::DerefMut for Tprtf65536 {
    fn deref_mut(&mut self) -> &mut String {
        &mut self.0
    }
}

impl ::core::convert::From<String> for Tprtf65536 {
    fn from(value: String) -> Self {
        Self(value)
    }
}

impl ::core::convert::From<Tprtf65536> for String {
    fn from(value: Tprtf65536) -> Self {
        value.0
    }
}

#[asn(transparent)]

#[derive(Default, Debug, Clone, PartialEq, Hash)]
pub struct Tprtr1to4(#[asn(printablestring(size(1..4)))] pub String);

impl Tprtr1to4 {
}

impl Tprtr1to4 {
    pub const fn new(value: String) -> Self {
        Self(value)
    }
}

impl ::core::ops::Deref for Tprtr1to4 {
    type Target = String;

    fn deref(&self) -> &String {
        &self.0
    }
}

impl ::core::ops::DerefMut for Tprtr1to4 {
    fn deref_mut(&mut self) -> &mut String {
        &mut self.0
    }
}

impl ::core::convert::From<String> for Tprtr1to4 {
    fn from(value: String) -> Self {
        Self(value)
    }
}

impl ::core::convert::From<Tprtr1to4> for String {
    fn from(value: Tprtr1to4) -> Self {
        value.0
    }
}

#[asn(transparent)]

#[derive(Default, Debug, Clone, PartialEq, Hash)]
pub struct Tprtr4to6(#[asn(printablestring(size(4..6)))] pub String);

impl Tprtr4to6 {
}

impl Tprtr4to6 {
    pub const fn new(value: String) -> Self {
        Self(value)
    }
}

impl ::core::ops::Deref for Tprtr4to6 {
    type Target = String;

    fn deref(&self) -> &String {
        &self.0
    }
}

impl ::core::ops::DerefMut for Tprtr4to6 {
    fn deref_mut(&mut self) -> &mut String {
        &mut self.0
    }
}

impl ::core::convert::From<String> for Tprtr4to6 {
    fn from(value: String) -> Self {
        Self(value)
    }
}

impl ::core::convert::From<Tprtr4to6> for String {
    fn from(value: Tprtr4to6) -> Self {
        value.0
    }
}

#[asn(transparent)]

#[derive(Default, Debug, Clone, PartialEq, Hash)]
pub struct Tprtr1to70000(#[asn(printablestring(size(1..70000)))] pub String);

impl Tprtr1to70000 {
}

impl Tprtr1to70000 {
    pub const fn new(value: String) -> Self {
        Self(value)
    }
}

impl ::core::ops::Deref for Tprtr1to70000 {
    type Target = String;

    fn deref(&self) -> &String {
        &self.0
    }
}

impl ::core::ops::DerefMut for Tprtr1to70000 {
    fn deref_mut(&mut self) -> &mut String {
        &mut self.0
    }
}

impl ::core::convert::From<String> for Tprtr1to70000 {
    fn from(value: String) -> Self {
        Self(value)
    }
}

impl ::core::convert::From<Tprtr1to70000> for String {
    fn from(value: Tprtr1to70000) -> Self {
        value.0
    }
}

#[asn(transparent)]

#[derive(Default, Debug, Clone, PartialEq, Hash)]
pub struct Tprtr2tomax(#[asn(printablestring(size(2..9223372036854775807)))] pub String);

impl Tprtr2tomax {
}

impl Tprtr2tomax {
    pub const fn new(value: String) -> Self {
        Self(value)
    }
}

impl ::core::ops::Deref for Tprtr2tomax {
    type Target = String;

    fn deref(&self) -> &String {
        &self.0
    }
}

impl ::core::ops::DerefMut for Tprtr2tomax {
    fn deref_mut(&mut self) -> &mut String {
        &mut self.0
    }
}

impl ::core::convert::From<String> for Tprtr2tomax {
    fn from(value: String) -> Self {
        Self(value)
    }
}

impl ::core::convert::From<Tprtr2tomax> for String {
    fn from(value: Tprtr2tomax) -> Self {
        value.0
    }
}

#[asn(transparent)]

#[derive(Default, Debug, Clone, PartialEq, Hash)]
pub struct Tprtf3x(#[asn(printablestring(size(3,...)))] pub String);

impl Tprtf3x {
}

impl Tprtf3x {
    pub const fn new(value: String) -> Self {
        Self(value)
    }
}

impl ::core::ops::Deref for Tprtf3x {
    type Target = String;

    fn deref(&self) -> &String {
        &self.0
    }
}

impl ::core::ops::DerefMut for Tprtf3x {
    fn deref_mut(&mut self) -> &mut String {
        &mut self.0
    }
}

impl ::core::convert::From<String> for Tprtf3x {
    fn from(value: String) -> Self {
        Self(value)
    }
}

impl ::core::convert::From<Tprtf3x> for String {
    fn from(value: Tprtf3x) -> Self {
        value.0
    }
}

#[asn(transparent)]

#[derive(Default, Debug, Clone, PartialEq, Hash)]
pub struct Tprtr1to4x(#[asn(printablestring(size(1..4,...)))] pub String);

impl Tprtr1to4x {
}

impl Tprtr1to4x {
    pub const fn new(value: String) -> Self {
        Self(value)
    }
}

impl ::core::ops::Deref for Tprtr1to4x {
    type Target = String;

    fn deref(&self) -> &String {
        &self.0
    }
}

impl ::core::ops::DerefMut for Tprtr1to4x {
    fn deref_mut(&mut self) -> &mut String {
        &mut self.0
    }
}

impl ::core::convert::From<String> for Tprtr1to4x {
    fn from(value: String) -> Self {
        Self(value)
    }
}

impl ::core::convert::From<Tprtr1to4x> for String {
    fn from(value: Tprtr1to4x) -> Self {
        value.0
    }
}
// ---- harness conversions (generated by the zoo build script from the items above) ----
impl FromValue for Tprtany { fn from_value(v: &Value) -> Self { Tprtany(FromValue::from_value(v)) } }
impl ToValue for Tprtany { fn to_value(&self) -> Value { self.0.to_value() } }
impl FromValue for Tprtf1 { fn from_value(v: &Value) -> Self { Tprtf1(FromValue::from_value(v)) } }
impl ToValue for Tprtf1 { fn to_value(&self) -> Value { self.0.to_value() } }
impl FromValue for Tprtf3 { fn from_value(v: &Value) -> Self { Tprtf3(FromValue::from_value(v)) } }
impl ToValue for Tprtf3 { fn to_value(&self) -> Value { self.0.to_value() } }
impl FromValue for Tprtf65535 { fn from_value(v: &Value) -> Self { Tprtf65535(FromValue::from_value(v)) } }
impl ToValue for Tprtf65535 { fn to_value(&self) -> Value { self.0.to_value() } }
impl FromValue for Tprtf65536 { fn from_value(v: &Value) -> Self { Tprtf65536(FromValue::from_value(v)) } }
impl ToValue for Tprtf65536 { fn to_value(&self) -> Value { self.0.to_value() } }
impl FromValue for Tprtr1to4 { fn from_value(v: &Value) -> Self { Tprtr1to4(FromValue::from_value(v)) } }
impl ToValue for Tprtr1to4 { fn to_value(&self) -> Value { self.0.to_value() } }
impl FromValue for Tprtr4to6 { fn from_value(v: &Value) -> Self { Tprtr4to6(FromValue::from_value(v)) } }
impl ToValue for Tprtr4to6 { fn to_value(&self) -> Value { self.0.to_value() } }
impl FromValue for Tprtr1to70000 { fn from_value(v: &Value) -> Self { Tprtr1to70000(FromValue::from_value(v)) } }
impl ToValue for Tprtr1to70000 { fn to_value(&self) -> Value { self.0.to_value() } }
impl FromValue for Tprtr2tomax { fn from_value(v: &Value) -> Self { Tprtr2tomax(FromValue::from_value(v)) } }
impl ToValue for Tprtr2tomax { fn to_value(&self) -> Value { self.0.to_value() } }
impl FromValue for Tprtf3x { fn from_value(v: &Value) -> Self { Tprtf3x(FromValue::from_value(v)) } }
impl ToValue for Tprtf3x { fn to_value(&self) -> Value { self.0.to_value() } }
impl FromValue for Tprtr1to4x { fn from_value(v: &Value) -> Self { Tprtr1to4x(FromValue::from_value(v)) } }
impl ToValue for Tprtr1to4x { fn to_value(&self) -> Value { self.0.to_value() } }

use asn1rs::prelude::*;

#[asn(sequence, extensible_after(f3))]

#[derive(Default, Debug, Clone, PartialEq, Hash)]
pub struct Ts5odoode4 {
    #[asn(optional(integer(0..7)))] pub f0: Option<u8>,
    #[asn(default(integer(0..7), 5))] pub f1: u8,
    #[asn(optional(integer(0..7)))] pub f2: Option<u8>,
    #[asn(optional(integer(0..7)))] pub f3: Option<u8>,
    #[asn(default(integer(0..7), 5))] pub f4: u8,
}

impl Ts5odoode4 {
    pub const fn f0_min() -> u8 {
        0
    }

    pub const fn f0_max() -> u8 {
        7
    }

    pub const fn f1_min() -> u8 {
        0
    }

    pub const fn f1_max() -> u8 {
        7
    }

    pub const fn f2_min() -> u8 {
        0
    }

    pub const fn f2_max() -> u8 {
        7
    }

    pub const fn f3_min() -> u8 {
        0
    }

    pub const fn f3_max() -> u8 {
        7
    }

    pub const fn f4_min() -> u8 {
        0
    }

    pub const fn f4_max() -> u8 {
        7
    }
}

#[asn(sequence, extensible_after(f4))]

#[derive(Default, Debug, Clone, PartialEq, Hash)]
pub struct Ts5odoode5 {
    #[asn(optional(integer(0..7)))] pub f0: Option<u8>,
    #[asn(default(integer(0..7), 5))] pub f1: u8,
    #[asn(optional(integer(0..7)))] pub f2: Option<u8>,
    #[asn(optional(integer(0..7)))] pub f3: Option<u8>,
    #[asn(default(integer(0..7), 5))] pub f4: u8,
}

impl Ts5odoode5 {
    pub const fn f0_min() -> u8 {
        0
    }

    pub const fn f0_max() -> u8 {
        7
    }

    pub const fn f1_min() -> u8 {
        0
    }

    pub const fn f1_max() -> u8 {
        7
    }

    pub const fn f2_min() -> u8 {
        0
    }

    pub const fn f2_max() -> u8 {
        7
    }

    pub const fn f3_min() -> u8 {
        0
    }

    pub const fn f3_max() -> u8 {
        7
    }

    pub const fn f4_min() -> u8 {
        0
    }

    pub const fn f4_max() -> u8 {
        7
    }
}

#[asn(sequence)]

#[derive(Default, Debug, Clone, PartialEq, Hash)]
pub struct Ts5ddoodn {
    #[asn(default(integer(0..7), 5))] pub f0: u8,
    #[asn(default(integer(0..7), 5))] pub f1: u8,
    #[asn(optional(integer(0..7)))] pub f2: Option<u8>,
    #[asn(optional(integer(0..7)))] pub f3: Option<u8>,
    #[asn(default(integer(0..7), 5))] pub f4: u8,
}

impl Ts5ddoodn {
    pub const fn f0_min() -> u8 {
        0
    }

    pub const fn f0_max() -> u8 {
        7
    }

    pub const fn f1_min() -> u8 {
        0
    }

    pub const fn f1_max() -> u8 {
        7
    }

    pub const fn f2_min() -> u8 {
        0
    }

    pub const fn f2_max() -> u8 {
        7
    }

    pub const fn f3_min() -> u8 {
        0
    }

    pub const fn f3_max() -> u8 {
        7
    }

    pub const fn f4_min() -> u8 {
        0
    }

    pub const fn f4_max() -> u8 {
        7
    }
}

#[asn(sequence, extensible_after(f0))]

#[derive(Default, Debug, Clone, PartialEq, Hash)]
pub struct Ts5ddoode0 {
    #[asn(default(integer(0..7), 5))] pub f0: u8,
    #[asn(default(integer(0..7), 5))] pub f1: u8,
    #[asn(optional(integer(0..7)))] pub f2: Option<u8>,
    #[asn(optional(integer(0..7)))] pub f3: Option<u8>,
    #[asn(default(integer(0..7), 5))] pub f4: u8,
}

impl Ts5ddoode0 {
    pub const fn f0_min() -> u8 {
        0
    }

    pub const fn f0_max() -> u8 {
        7
    }

    pub const fn f1_min() -> u8 {
        0
    }

    pub const fn f1_max() -> u8 {
        7
    }

    pub const fn f2_min() -> u8 {
        0
    }

    pub const fn f2_max() -> u8 {
        7
    }

    pub const fn f3_min() -> u8 {
        0
    }

    pub const fn f3_max() -> u8 {
        7
    }

    pub const fn f4_min() -> u8 {
        0
    }

    pub const fn f4_max() -> u8 {
        7
    }
}

#[asn(sequence, extensible_after(f0))]

#[derive(Default, Debug, Clone, PartialEq, Hash)]
pub struct Ts5ddoode1 {
    #[asn(default(integer(0..7), 5))] pub f0: u8,
    #[asn(default(integer(0..7), 5))] pub f1: u8,
    #[asn(optional(integer(0..7)))] pub f2: Option<u8>,
    #[asn(optional(integer(0..7)))] pub f3: Option<u8>,
    #[asn(default(integer(0..7), 5))] pub f4: u8,
}

impl Ts5ddoode1 {
    pub const fn f0_min() -> u8 {
        0
    }

    pub const fn f0_max() -> u8 {
        7
    }

    pub const fn f1_min() -> u8 {
        0
    }

    pub const fn f1_max() -> u8 {
        7
    }

    pub const fn f2_min() -> u8 {
        0
    }

    pub const fn f2_max() -> u8 {
        7
    }

    pub const fn f3_min() -> u8 {
        0
    }

    pub const fn f3_max() -> u8 {
        7
    }

    pub const fn f4_min() -> u8 {
        0
    }

    pub const fn f4_max() -> u8 {
        7
    }
}

#[asn(sequence, extensible_after(f1))]

#[derive(Default, Debug, Clone, PartialEq, Hash)]
pub struct Ts5ddoode2 {
    #[asn(default(integer(0..7), 5))] pub f0: u8,
    #[asn(default(integer(0..7), 5))] pub f1: u8,
    #[asn(optional(integer(0..7)))] pub f2: Option<u8>,
    #[asn(optional(integer(0..7)))] pub f3: Option<u8>,
    #[asn(default(integer(0..7), 5))] pub f4: u8,
}

impl Ts5ddoode2 {
    pub const fn f0_min() -> u8 {
        0
    }

    pub const fn f0_max() -> u8 {
        7
    }

    pub const fn f1_min() -> u8 {
        0
    }

    pub const fn f1_max() -> u8 {
        7
    }

    pub const fn f2_min() -> u8 {
        0
    }

    pub const fn f2_max() -> u8 {
        7
    }

    pub const fn f3_min() -> u8 {
        0
    }

    pub const fn f3_max() -> u8 {
        7
    }

    pub const fn f4_min() -> u8 {
        0
    }

    pub const fn f4_max() -> u8 {
        7
    }
}

#[asn(sequence, extensible_after(f2))]

#[derive(Default, Debug, Clone, PartialEq, Hash)]
pub struct Ts5ddoode3 {
    #[asn(default(integer(0..7), 5))] pub f0: u8,
    #[asn(default(integer(0..7), 5))] pub f1: u8,
    #[asn(optional(integer(0..7)))] pub f2: Option<u8>,
    #[asn(optional(integer(0..7)))] pub f3: Option<u8>,
    #[asn(default(integer(0..7), 5))] pub f4: u8,
}

impl Ts5ddoode3 {
    pub const fn f0_min() -> u8 {
        0
    }

    pub const fn f0_max() -> u8 {
        7
    }

    pub const fn f1_min() -> u8 {
        0
    }

    pub const fn f1_max() -> u8 {
        7
    }

    pub const fn f2_min() -> u8 {
        0
    }

    pub const fn f2_max() -> u8 {
        7
    }

    pub const fn f3_min() -> u8 {
        0
    }

    pub const fn f3_max() -> u8 {
        7
    }

    pub const fn f4_min() -> u8 {
        0
    }

    pub const fn f4_max() -> u8 {
        7
    }
}

#[asn(sequence, extensible_after(f3))]

#[derive(Default, Debug, Clone, PartialEq, Hash)]
pub struct Ts5ddoode4 {
    #[asn(default(integer(0..7), 5))] pub f0: u8,
    #[asn(default(integer(0..7), 5))] pub f1: u8,
    #[asn(optional(integer(0..7)))] pub f2: Option<u8>,
    #[asn(optional(integer(0..7)))] pub f3: Option<u8>,
    #[asn(default(integer(0..7), 5))] pub f4: u8,
}

impl Ts5ddoode4 {
    pub const fn f0_min() -> u8 {
        0
    }

    pub const fn f0_max() -> u8 {
        7
    }

    pub const fn f1_min() -> u8 {
        0
    }

    pub const fn f1_max() -> u8 {
        7
    }

    pub const fn f2_min() -> u8 {
        0
    }

    pub const fn f2_max() -> u8 {
        7
    }

    pub const fn f3_min() -> u8 {
        0
    }

    pub const fn f3_max() -> u8 {
        7
    }

    pub const fn f4_min() -> u8 {
        0
    }

    pub const fn f4_max() -> u8 {
        7
    }
}

#[asn(sequence, extensible_after(f4))]

#[derive(Default, Debug, Clone, PartialEq, Hash)]
pub struct Ts5ddoode5 {
    #[asn(default(integer(0..7), 5))] pub f0: u8,
    #[asn(default(integer(0..7), 5))] pub f1: u8,
    #[asn(optional(integer(0..7)))] pub f2: Option<u8>,
    #[asn(optional(integer(0..7)))] pub f3: Option<u8>,
    #[asn(default(integer(0..7), 5))] pub f4: u8,
}

impl Ts5ddoode5 {
    pub const fn f0_min() -> u8 {
        0
    }

    pub const fn f0_max() -> u8 {
        7
    }

    pub const fn f1_min() -> u8 {
        0
    }

    pub const fn f1_max() -> u8 {
        7
    }

    pub const fn f2_min() -> u8 {
        0
    }

    pub const fn f2_max() -> u8 {
        7
    }

    pub const fn f3_min() -> u8 {
        0
    }

    pub const fn f3_max() -> u8 {
        7
    }

    pub const fn f4_min() -> u8 {
        0
    }

    pub const fn f4_max() -> u8 {
        7
    }
}

#[asn(sequence)]

#[derive(Default, Debug, Clone, PartialEq, Hash)]
pub struct Ts5mmdodn {
    #[asn(integer(0..7))] pub f0: u8,
    #[asn(integer(0..7))] pub f1: u8,
    #[asn(default(integer(0..7), 5))] pub f2: u8,
    #[asn(optional(integer(0..7)))] pub f3: Option<u8>,
    #[asn(default(integer(0..7), 5))] pub f4: u8,
}

impl Ts5mmdodn {
    pub const fn f0_min() -> u8 {
        0
    }

    pub const fn f0_max() -> u8 {
        7
    }

    pub const fn f1_min() -> u8 {
        0
    }

    pub const fn f1_max() -> u8 {
        7
    }

    pub const fn f2_min() -> u8 {
        0
    }

    pub const fn f2_max() -> u8 {
        7
    }

    pub const fn f3_min() -> u8 {
        0
    }

    pub const fn f3_max() -> u8 {
        7
    }

    pub const fn f4_min() -> u8 {
        0
    }

    pub const fn f4_max() -> u8 {
        7
    }
}

#[asn(sequence, extensible_after(f0))]

#[derive(Default, Debug, Clone, PartialEq, Hash)]
pub struct Ts5mmdode0 {
    #[asn(integer(0..7))] pub f0: u8,
    #[asn(optional(integer(0..7)))] pub f1: Option<u8>,
    #[asn(default(integer(0..7), 5))] pub f2: u8,
    #[asn(optional(integer(0..7)))] pub f3: Option<u8>,
    #[asn(default(integer(0..7), 5))] pub f4: u8,
}

impl Ts5mmdode0 {
    pub const fn f0_min() -> u8 {
        0
    }

    pub const fn f0_max() -> u8 {
        7
    }

    pub const fn f1_min() -> u8 {
        0
    }

    pub const fn f1_max() -> u8 {
        7
    }

    pub const fn f2_min() -> u8 {
        0
    }

    pub const fn f2_max() -> u8 {
        7
    }

    pub const fn f3_min() -> u8 {
        0
    }

    pub const fn f3_max() -> u8 {
        7
    }

    pub const fn f4_min() -> u8 {
        0
    }

    pub const fn f4_max() -> u8 {
        7
    }
}

#[asn(sequence, extensible_after(f0))]

#[derive(Default, Debug, Clone, PartialEq, Hash)]
pub struct Ts5mmdode1 {
    #[asn(integer(0..7))] pub f0: u8,
    #[asn(optional(integer(0..7)))] pub f1: Option<u8>,
    #[asn(default(integer(0..7), 5))] pub f2: u8,
    #[asn(optional(integer(0..7)))] pub f3: Option<u8>,
    #[asn(default(integer(0..7), 5))] pub f4: u8,
}

impl Ts5mmdode1 {
    pub const fn f0_min() -> u8 {
        0
    }

    pub const fn f0_max() -> u8 {
        7
    }

    pub const fn f1_min() -> u8 {
        0
    }

    pub const fn f1_max() -> u8 {
        7
    }

    pub const fn f2_min() -> u8 {
        0
    }

    pub const fn f2_max() -> u8 {
        7
    }

    pub const fn f3_min() -> u8 {
        0
    }

    pub const fn f3_max() -> u8 {
        7
    }

    pub const fn f4_min() -> u8 {
        0
    }

    pub const fn f4_max() -> u8 {
        7
    }
}

#[asn(sequence, extensible_after(f1))]

#[derive(Default, Debug, Clone, PartialEq, Hash)]
pub struct Ts5mmdode2 {
    #[asn(integer(0..7))] pub f0: u8,
    #[asn(integer(0..7))] pub f1: u8,
    #[asn(default(integer(0..7), 5))] pub f2: u8,
    #[asn(optional(integer(0..7)))] pub f3: Option<u8>,
    #[asn(default(integer(0..7), 5))] pub f4: u8,
}

impl Ts5mmdode2 {
    pub const fn f0_min() -> u8 {
        0
    }

    pub const fn f0_max() -> u8 {
        7
    }

    pub const fn f1_min() -> u8 {
        0
    }

    pub const fn f1_max() -> u8 {
        7
    }

    pub const fn f2_min() -> u8 {
        0
    }

    pub const fn f2_max() -> u8 {
        7
    }

    pub const fn f3_min() -> u8 {
        0
    }

    pub const fn f3_max() -> u8 {
        7
    }

    pub const fn f4_min() -> u8 {
        0
    }

    pub const fn f4_max() -> u8 {
        7
    }
}

#[asn(sequence, extensible_after(f2))]

#[derive(Default, Debug, Clone, PartialEq, Hash)]
pub struct Ts5mmdode3 {
    #[asn(integer(0..7))] pub f0: u8,
    #[asn(integer(0..7))] pub f1: u8,
    #[asn(default(integer(0..7), 5))] pub f2: u8,
    #[asn(optional(integer(0..7)))] pub f3: Option<u8>,
    #[asn(default(integer(0..7), 5))] pub f4: u8,
}

impl Ts5mmdode3 {
    pub const fn f0_min() -> u8 {
        0
    }

    pub const fn f0_max() -> u8 {
        7
    }

    pub const fn f1_min() -> u8 {
        0
    }

    pub const fn f1_max() -> u8 {
        7
    }

    pub const fn f2_min() -> u8 {
        0
    }

    pub const fn f2_max() -> u8 {
        7
    }

    pub const fn f3_min() -> u8 {
        0
    }

    pub const fn f3_max() -> u8 {
        7
    }

    pub const fn f4_min() -> u8 {
        0
    }

    pub const fn f4_max() -> u8 {
        7
    }
}

#[asn(sequence, extensible_after(f3))]

#[derive(Default, Debug, Clone, PartialEq, Hash)]
pub struct Ts5mmdode4 {
    #[asn(integer(0..7))] pub f0: u8,
    #[asn(integer(0..7))] pub f1: u8,
    #[asn(default(integer(0..7), 5))] pub f2: u8,
    #[asn(optional(integer(0..7)))] pub f3: Option<u8>,
    #[asn(default(integer(0..7), 5))] pub f4: u8,
}

impl Ts5mmdode4 {
    pub const fn f0_min() -> u8 {
        0
    }

    pub const fn f0_max() -> u8 {
        7
    }

    pub const fn f1_min() -> u8 {
        0
    }

    pub const fn f1_max() -> u8 {
        7
    }

    pub const fn f2_min() -> u8 {
        0
    }

    pub const fn f2_max() -> u8 {
        7
    }

    pub const fn f3_min() -> u8 {
        0
    }

    pub const fn f3_max() -> u8 {
        7
    }

    pub const fn f4_min() -> u8 {
        0
    }

    pub const fn f4_max() -> u8 {
        7
    }
}

#[asn(sequence, extensible_after(f4))]

#[derive(Default, Debug, Clone, PartialEq, Hash)]
pub struct Ts5mmdode5 {
    #[asn(integer(0..7))] pub f0: u8,
    #[asn(integer(0..7))] pub f1: u8,
    #[asn(default(integer(0..7), 5))] pub f2: u8,
    #[asn(optional(integer(0..7)))] pub f3: Option<u8>,
    #[asn(default(integer(0..7), 5))] pub f4: u8,
}

impl Ts5mmdode5 {
    pub const fn f0_min() -> u8 {
        0
    }

    pub const fn f0_max() -> u8 {
        7
    }

    pub const fn f1_min() -> u8 {
        0
    }

    pub const fn f1_max() -> u8 {
        7
    }

    pub const fn f2_min() -> u8 {
        0
    }

    pub const fn f2_max() -> u8 {
        7
    }

    pub const fn f3_min() -> u8 {
        0
    }

    pub const fn f3_max() -> u8 {
        7
    }

    pub const fn f4_min() -> u8 {
        0
    }

    pub const fn f4_max() -> u8 {
        7
    }
}

#[asn(sequence)]

#[derive(Default, Debug, Clone, PartialEq, Hash)]
pub struct Ts5omdodn {
    #[asn(optional(integer(0..7)))] pub f0: Option<u8>,
    #[asn(integer(0..7))] pub f1: u8,
    #[asn(default(integer(0..7), 5))] pub f2: u8,
    #[asn(optional(integer(0..7)))] pub f3: Option<u8>,
    #[asn(default(integer(0..7), 5))] pub f4: u8,
}

impl Ts5omdodn {
    pub const fn f0_min() -> u8 {
        0
    }

    pub const fn f0_max() -> u8 {
        7
    }

    pub const fn f1_min() -> u8 {
        0
    }

    pub const fn f1_max() -> u8 {
        7
    }

    pub const fn f2_min() -> u8 {
        0
    }

    pub const fn f2_max() -> u8 {
        7
    }

    pub const fn f3_min() -> u8 {
        0
    }

    pub const fn f3_max() -> u8 {
        7
    }

    pub const fn f4_min() -> u8 {
        0
    }

    pub const fn f4_max() -> u8 {
        7
    }
}

#[asn(sequence, extensible_after(f0))]

#[derive(Default, Debug, Clone, PartialEq, Hash)]
pub struct Ts5omdode0 {
    #[asn(optional(integer(0..7)))] pub f0: Option<u8>,
    #[asn(optional(integer(0..7)))] pub f1: Option<u8>,
    #[asn(default(integer(0..7), 5))] pub f2: u8,
    #[asn(optional(integer(0..7)))] pub f3: Option<u8>,
    #[asn(default(integer(0..7), 5))] pub f4: u8,
}

impl Ts5omdode0 {
    pub const fn f0_min() -> u8 {
        0
    }

    pub const fn f0_max() -> u8 {
        7
    }

    pub const fn f1_min() -> u8 {
        0
    }

    pub const fn f1_max() -> u8 {
        7
    }

    pub const fn f2_min() -> u8 {
        0
    }

    pub const fn f2_max() -> u8 {
        7
    }

    pub const fn f3_min() -> u8 {
        0
    }

    pub const fn f3_max() -> u8 {
        7
    }

    pub const fn f4_min() -> u8 {
        0
    }

    pub const fn f4_max() -> u8 {
        7
    }
}

#[asn(sequence, extensible_after(f0))]

#[derive(Default, Debug, Clone, PartialEq, Hash)]
pub struct Ts5omdode1 {
    #[asn(optional(integer(0..7)))] pub f0: Option<u8>,
    #[asn(optional(integer(0..7)))] pub f1: Option<u8>,
    #[asn(default(integer(0..7), 5))] pub f2: u8,
    #[asn(optional(integer(0..7)))] pub f3: Option<u8>,
    #[asn(default(integer(0..7), 5))] pub f4: u8,
}

impl Ts5omdode1 {
    pub const fn f0_min() -> u8 {
        0
    }

    pub const fn f0_max() -> u8 {
        7
    }

    pub const fn f1_min() -> u8 {
        0
    }

    pub const fn f1_max() -> u8 {
        7
    }

    pub const fn f2_min() -> u8 {
        0
    }

    pub const fn f2_max() -> u8 {
        7
    }

    pub const fn f3_min() -> u8 {
        0
    }

    pub const fn f3_max() -> u8 {
        7
    }

    pub const fn f4_min() -> u8 {
        0
    }

    pub const fn f4_max() -> u8 {
        7
    }
}

#[asn(sequence, extensible_after(f1))]

#[derive(Default, Debug, Clone, PartialEq, Hash)]
pub struct Ts5omdode2 {
    #[asn(optional(integer(0..7)))] pub f0: Option<u8>,
    #[asn(integer(0..7))] pub f1: u8,
    #[asn(default(integer(0..7), 5))] pub f2: u8,
    #[asn(optional(integer(0..7)))] pub f3: Option<u8>,
    #[asn(default(integer(0..7), 5))] pub f4: u8,
}

impl Ts5omdode2 {
    pub const fn f0_min() -> u8 {
        0
    }

    pub const fn f0_max() -> u8 {
        7
    }

    pub const fn f1_min() -> u8 {
        0
    }

    pub const fn f1_max() -> u8 {
        7
    }

    pub const fn f2_min() -> u8 {
        0
    }

    pub const fn f2_max() -> u8 {
        7
    }

    pub const fn f3_min() -> u8 {
        0
    }

    pub const fn f3_max() -> u8 {
        7
    }

    pub const fn f4_min() -> u8 {
        0
    }

    pub const fn f4_max() -> u8 {
        7
    }
}

#[asn(sequence, extensible_after(f2))]

#[derive(Default, Debug, Clone, PartialEq, Hash)]
pub struct Ts5omdode3 {
    #[asn(optional(integer(0..7)))] pub f0: Option<u8>,
    #[asn(integer(0..7))] pub f1: u8,
    #[asn(default(integer(0..7), 5))] pub f2: u8,
    #[asn(optional(integer(0..7)))] pub f3: Option<u8>,
    #[asn(default(integer(0..7), 5))] pub f4: u8,
}

impl Ts5omdode3 {
    pub const fn f0_min() -> u8 {
        0
    }

    pub const fn f0_max() -> u8 {
        7
    }

    pub const fn f1_min() -> u8 {
        0
    }

    pub const fn f1_max() -> u8 {
        7
    }

    pub const fn f2_min() -> u8 {
        0
    }

    pub const fn f2_max() -> u8 {
        7
    }

    pub const fn f3_min() -> u8 {
        0
    }

    pub const fn f3_max() -> u8 {
        7
    }

    pub const fn f4_min() -> u8 {
        0
    }

    pub const fn f4_max() -> u8 {
        7
    }
}

#[asn(sequence, extensible_after(f3))]

#[derive(Default, Debug, Clone, PartialEq, Hash)]
pub struct Ts5omdode4 {
    #[asn(optional(integer(0..7)))] pub f0: Option<u8>,
    #[asn(integer(0..7))] pub f1: u8,
    #[asn(default(integer(0..7), 5))] pub f2: u8,
    #[asn(optional(integer(0..7)))] pub f3: Option<u8>,
    #[asn(default(integer(0..7), 5))] pub f4: u8,
}

impl Ts5omdode4 {
    pub const fn f0_min() -> u8 {
        0
    }

    pub const fn f0_max() -> u8 {
        7
    }

    pub const fn f1_min() -> u8 {
        0
    }

    pub const fn f1_max() -> u8 {
        7
    }

    pub const fn f2_min() -> u8 {
        0
    }

    pub const fn f2_max() -> u8 {
        7
    }

    pub const fn f3_min() -> u8 {
        0
    }

    pub const fn f3_max() -> u8 {
        7
    }

    pub const fn f4_min() -> u8 {
        0
    }

    pub const fn f4_max() -> u8 {
        7
    }
}

#[asn(sequence, extensible_after(f4))]

#[derive(Default, Debug, Clone, PartialEq, Hash)]
pub struct Ts5omdode5 {
    #[asn(optional(integer(0..7)))] pub f0: Option<u8>,
    #[asn(integer(0..7))] pub f1: u8,
    #[asn(default(integer(0..7), 5))] pub f2: u8,
    #[asn(optional(integer(0..7)))] pub f3: Option<u8>,
    #[asn(default(integer(0..7), 5))] pub f4: u8,
}

impl Ts5omdode5 {
    pub const fn f0_min() -> u8 {
        0
    }

    pub const fn f0_max() -> u8 {
        7
    }

    pub const fn f1_min() -> u8 {
        0
    }

    pub const fn f1_max() -> u8 {
        7
    }

    pub const fn f2_min() -> u8 {
        0
    }

    pub const fn f2_max() -> u8 {
        7
    }

    pub const fn f3_min() -> u8 {
        0
    }

    pub const fn f3_max() -> u8 {
        7
    }

    pub const fn f4_min() -> u8 {
        0
    }

    pub const fn f4_max() -> u8 {
        7
    }
}

#[asn(sequence)]

#[derive(Default, Debug, Clone, PartialEq, Hash)]
pub struct Ts5dmdodn {
    #[asn(default(integer(0..7), 5))] pub f0: u8,
    #[asn(integer(0..7))] pub f1: u8,
    #[asn(default(integer(0..7), 5))] pub f2: u8,
    #[asn(optional(integer(0..7)))] pub f3: Option<u8>,
    #[asn(default(integer(0..7), 5))] pub f4: u8,
}

impl Ts5dmdodn {
    pub const fn f0_min() -> u8 {
        0
    }

    pub const fn f0_max() -> u8 {
        7
    }

    pub const fn f1_min() -> u8 {
        0
    }

    pub const fn f1_max() -> u8 {
        7
    }

    pub const fn f2_min() -> u8 {
        0
    }

    pub const fn f2_max() -> u8 {
        7
    }

    pub const fn f3_min() -> u8 {
        0
    }

    pub const fn f3_max() -> u8 {
        7
    }

    pub const fn f4_min() -> u8 {
        0
    }

    pub const fn f4_max() -> u8 {
        7
    }
}

#[asn(sequence, extensible_after(f0))]

#[derive(Default, Debug, Clone, PartialEq, Hash)]
pub struct Ts5dmdode0 {
    #[asn(default(integer(0..7), 5))] pub f0: u8,
    #[asn(optional(integer(0..7)))] pub f1: Option<u8>,
    #[asn(default(integer(0..7), 5))] pub f2: u8,
    #[asn(optional(integer(0..7)))] pub f3: Option<u8>,
    #[asn(default(integer(0..7), 5))] pub f4: u8,
}

impl Ts5dmdode0 {
    pub const fn f0_min() -> u8 {
        0
    }

    pub const fn f0_max() -> u8 {
        7
    }

    pub const fn f1_min() -> u8 {
        0
    }

    pub const fn f1_max() -> u8 {
        7
    }

    pub const fn f2_min() -> u8 {
        0
    }

    pub const fn f2_max() -> u8 {
        7
    }

    pub const fn f3_min() -> u8 {
        0
    }

    pub const fn f3_max() -> u8 {
        7
    }

    pub const fn f4_min() -> u8 {
        0
    }

    pub const fn f4_max() -> u8 {
        7
    }
}

#[asn(sequence, extensible_after(f0))]

#[derive(Default, Debug, Clone, PartialEq, Hash)]
pub struct Ts5dmdode1 {
    #[asn(default(integer(0..7), 5))] pub f0: u8,
    #[asn(optional(integer(0..7)))] pub f1: Option<u8>,
    #[asn(default(integer(0..7), 5))] pub f2: u8,
    #[asn(optional(integer(0..7)))] pub f3: Option<u8>,
    #[asn(default(integer(0..7), 5))] pub f4: u8,
}

impl Ts5dmdode1 {
    pub const fn f0_min() -> u8 {
        0
    }

    pub const fn f0_max() -> u8 {
        7
    }

    pub const fn f1_min() -> u8 {
        0
    }

    pub const fn f1_max() -> u8 {
        7
    }

    pub const fn f2_min() -> u8 {
        0
    }

    pub const fn f2_max() -> u8 {
        7
    }

    pub const fn f3_min() -> u8 {
        0
    }

    pub const fn f3_max() -> u8 {
        7
    }

    pub const fn f4_min() -> u8 {
        0
    }

    pub const fn f4_max() -> u8 {
        7
    }
}

#[asn(sequence, extensible_after(f1))]

#[derive(Default, Debug, Clone, PartialEq, Hash)]
pub struct Ts5dmdode2 {
    #[asn(default(integer(0..7), 5))] pub f0: u8,
    #[asn(integer(0..7))] pub f1: u8,
    #[asn(default(integer(0..7), 5))] pub f2: u8,
    #[asn(optional(integer(0..7)))] pub f3: Option<u8>,
    #[asn(default(integer(0..7), 5))] pub f4: u8,
}

impl Ts5dmdode2 {
    pub const fn f0_min() -> u8 {
        0
    }

    pub const fn f0_max() -> u8 {
        7
    }

    pub const fn f1_min() -> u8 {
        0
    }

    pub const fn f1_max() -> u8 {
        7
    }

    pub const fn f2_min() -> u8 {
        0
    }

    pub const fn f2_max() -> u8 {
        7
    }

    pub const fn f3_min() -> u8 {
        0
    }

    pub const fn f3_max() -> u8 {
        7
    }

    pub const fn f4_min() -> u8 {
        0
    }

    pub const fn f4_max() -> u8 {
        7
    }
}

#[asn(sequence, extensible_after(f2))]

#[derive(Default, Debug, Clone, PartialEq, Hash)]
pub struct Ts5dmdode3 {
    #[asn(default(integer(0..7), 5))] pub f0: u8,
    #[asn(integer(0..7))] pub f1: u8,
    #[asn(default(integer(0..7), 5))] pub f2: u8,
    #[asn(optional(integer(0..7)))] pub f3: Option<u8>,
    #[asn(default(integer(0..7), 5))] pub f4: u8,
}

impl Ts5dmdode3 {
    pub const fn f0_min() -> u8 {
        0
    }

    pub const fn f0_max() -> u8 {
        7
    }

    pub const fn f1_min() -> u8 {
        0
    }

    pub const fn f1_max() -> u8 {
        7
    }

    pub const fn f2_min() -> u8 {
        0
    }

    pub const fn f2_max() -> u8 {
        7
    }

    pub const fn f3_min() -> u8 {
        0
    }

    pub const fn f3_max() -> u8 {
        7
    }

    pub const fn f4_min() -> u8 {
        0
    }

    pub const fn f4_max() -> u8 {
        7
    }
}

#[asn(sequence, extensible_after(f3))]

#[derive(Default, Debug, Clone, PartialEq, Hash)]
pub struct Ts5dmdode4 {
    #[asn(default(integer(0..7), 5))] pub f0: u8,
    #[asn(integer(0..7))] pub f1: u8,
    #[asn(default(integer(0..7), 5))] pub f2: u8,
    #[asn(optional(integer(0..7)))] pub f3: Option<u8>,
    #[asn(default(integer(0..7), 5))] pub f4: u8,
}

impl Ts5dmdode4 {
    pub const fn f0_min() -> u8 {
        0
    }

    pub const fn f0_max() -> u8 {
        7
    }

    pub const fn f1_min() -> u8 {
        0
    }

    pub const fn f1_max() -> u8 {
        7
    }

    pub const fn f2_min() -> u8 {
        0
    }

    pub const fn f2_max() -> u8 {
        7
    }

    pub const fn f3_min() -> u8 {
        0
    }

    pub const fn f3_max() -> u8 {
        7
    }

    pub const fn f4_min() -> u8 {
        0
    }

    pub const fn f4_max() -> u8 {
        7
    }
}

#[asn(sequence, extensible_after(f4))]

#[derive(Default, Debug, Clone, PartialEq, Hash)]
pub struct Ts5dmdode5 {
    #[asn(default(integer(0..7), 5))] pub f0: u8,
    #[asn(integer(0..7))] pub f1: u8,
    #[asn(default(integer(0..7), 5))] pub f2: u8,
    #[asn(optional(integer(0..7)))] pub f3: Option<u8>,
    #[asn(default(integer(0..7), 5))] pub f4: u8,
}

impl Ts5dmdode5 {
    pub const fn f0_min() -> u8 {
        0
    }

    pub const fn f0_max() -> u8 {
        7
    }

    pub const fn f1_min() -> u8 {
        0
    }

    pub const fn f1_max() -> u8 {
        7
    }

    pub const fn f2_min() -> u8 {
        0
    }

    pub const fn f2_max() -> u8 {
        7
    }

    pub const fn f3_min() -> u8 {
        0
    }

    pub const fn f3_max() -> u8 {
        7
    }

    pub const fn f4_min() -> u8 {
        0
    }

    pub const fn f4_max() -> u8 {
        7
    }
}

#[asn(sequence)]

#[derive(Default, Debug, Clone, PartialEq, Hash)]
pub struct Ts5mododn {
    #[asn(integer(0..7))] pub f0: u8,
    #[asn(optional(integer(0..7)))] pub f1: Option<u8>,
    #[asn(default(integer(0..7), 5))] pub f2: u8,
    #[asn(optional(integer(0..7)))] pub f3: Option<u8>,
    #[asn(default(integer(0..7), 5))] pub f4: u8,
}

impl Ts5mododn {
    pub const fn f0_min() -> u8 {
        0
    }

    pub const fn f0_max() -> u8 {
        7
    }

    pub const fn f1_min() -> u8 {
        0
    }

    pub const fn f1_max() -> u8 {
        7
    }

    pub const fn f2_min() -> u8 {
        0
    }

    pub const fn f2_max() -> u8 {
        7
    }

    pub const fn f3_min() -> u8 {
        0
    }

    pub const fn f3_max() -> u8 {
        7
    }

    pub const fn f4_min() -> u8 {
        0
    }

    pub const fn f4_max() -> u8 {
        7
    }
}

#[asn(sequence, extensible_after(f0))]

#[derive(Default, Debug, Clone, PartialEq, Hash)]
pub struct Ts5modode0 {
    #[asn(integer(0..7))] pub f0: u8,
    #[asn(optional(integer(0..7)))] pub f1: Option<u8>,
    #[asn(default(integer(0..7), 5))] pub f2: u8,
    #[asn(optional(integer(0..7)))] pub f3: Option<u8>,
    #[asn(default(integer(0..7), 5))] pub f4: u8,
}

impl Ts5modode0 {
    pub const fn f0_min() -> u8 {
        0
    }

    pub const fn f0_max() -> u8 {
        7
    }

    pub const fn f1_min() -> u8 {
        0
    }

    pub const fn f1_max() -> u8 {
        7
    }

    pub const fn f2_min() -> u8 {
        0
    }

    pub const fn f2_max() -> u8 {
        7
    }

    pub const fn f3_min() -> u8 {
        0
    }

    pub const fn f3_max() -> u8 {
        7
    }

    pub const fn f4_min() -> u8 {
        0
    }

    pub const fn f4_max() -> u8 {
        7
    }
}

#[asn(sequence, extensible_after(f0))]

#[derive(Default, Debug, Clone, PartialEq, Hash)]
pub struct Ts5modode1 {
    #[asn(integer(0..7))] pub f0: u8,
    #[asn(optional(integer(0..7)))] pub f1: Option<u8>,
    #[asn(default(integer(0..7), 5))] pub f2: u8,
    #[asn(optional(integer(0..7)))] pub f3: Option<u8>,
    #[asn(default(integer(0..7), 5))] pub f4: u8,
}

impl Ts5modode1 {
    pub const fn f0_min() -> u8 {
        0
    }

    pub const fn f0_max() -> u8 {
        7
    }

    pub const fn f1_min() -> u8 {
        0
    }

    pub const fn f1_max() -> u8 {
        7
    }

    pub const fn f2_min() -> u8 {
        0
    }

    pub const fn f2_max() -> u8 {
        7
    }

    pub const fn f3_min() -> u8 {
        0
    }

    pub const fn f3_max() -> u8 {
        7
    }

    pub const fn f4_min() -> u8 {
        0
    }

    pub const fn f4_max() -> u8 {
        7
    }
}

#[asn(sequence, extensible_after(f1))]

#[derive(Default, Debug, Clone, PartialEq, Hash)]
pub struct Ts5modode2 {
    #[asn(integer(0..7))] pub f0: u8,
    #[asn(optional(integer(0..7)))] pub f1: Option<u8>,
    #[asn(default(integer(0..7), 5))] pub f2: u8,
    #[asn(optional(integer(0..7)))] pub f3: Option<u8>,
    #[asn(default(integer(0..7), 5))] pub f4: u8,
}

impl Ts5modode2 {
    pub const fn f0_min() -> u8 {
        0
    }

    pub const fn f0_max() -> u8 {
        7
    }

    pub const fn f1_min() -> u8 {
        0
    }

    pub const fn f1_max() -> u8 {
        7
    }

    pub const fn f2_min() -> u8 {
        0
    }

    pub const fn f2_max() -> u8 {
        7
    }

    pub const fn f3_min() -> u8 {
        0
    }

    pub const fn f3_max() -> u8 {
        7
    }

    pub const fn f4_min() -> u8 {
        0
    }

    pub const fn f4_max() -> u8 {
        7
    }
}

#[asn(sequence, extensible_after(f2))]

#[derive(Default, Debug, Clone, PartialEq, Hash)]
pub struct Ts5modode3 {
    #[asn(integer(0..7))] pub f0: u8,
    #[asn(optional(integer(0..7)))] pub f1: Option<u8>,
    #[asn(default(integer(0..7), 5))] pub f2: u8,
    #[asn(optional(integer(0..7)))] pub f3: Option<u8>,
    #[asn(default(integer(0..7), 5))] pub f4: u8,
}

impl Ts5modode3 {
    pub const fn f0_min() -> u8 {
        0
    }

    pub const fn f0_max() -> u8 {
        7
    }

    pub const fn f1_min() -> u8 {
        0
    }

    pub const fn f1_max() -> u8 {
        7
    }

    pub const fn f2_min() -> u8 {
        0
    }

    pub const fn f2_max() -> u8 {
        7
    }

    pub const fn f3_min() -> u8 {
        0
    }

    pub const fn f3_max() -> u8 {
        7
    }

    pub const fn f4_min() -> u8 {
        0
    }

    pub const fn f4_max() -> u8 {
        7
    }
}

#[asn(sequence, extensible_after(f3))]

#[derive(Default, Debug, Clone, PartialEq, Hash)]
pub struct Ts5modode4 {
    #[asn(integer(0..7))] pub f0: u8,
    #[asn(optional(integer(0..7)))] pub f1: Option<u8>,
    #[asn(default(integer(0..7), 5))] pub f2: u8,
    #[asn(optional(integer(0..7)))] pub f3: Option<u8>,
    #[asn(default(integer(0..7), 5))] pub f4: u8,
}

impl Ts5modode4 {
    pub const fn f0_min() -> u8 {
        0
    }

    pub const fn f0_max() -> u8 {
        7
    }

    pub const fn f1_min() -> u8 {
        0
    }

    pub const fn f1_max() -> u8 {
        7
    }

    pub const fn f2_min() -> u8 {
        0
    }

    pub const fn f2_max() -> u8 {
        7
    }

    pub const fn f3_min() -> u8 {
        0
    }

    pub const fn f3_max() -> u8 {
        7
    }

    pub const fn f4_min() -> u8 {
        0
    }

    pub const fn f4_max() -> u8 {
        7
    }
}

#[asn(sequence, extensible_after(f4))]

#[derive(Default, Debug, Clone, PartialEq, Hash)]
pub struct Ts5modode5 {
    #[asn(integer(0..7))] pub f0: u8,
    #[asn(optional(integer(0..7)))] pub f1: Option<u8>,
    #[asn(default(integer(0..7), 5))] pub f2: u8,
    #[asn(optional(integer(0..7)))] pub f3: Option<u8>,
    #[asn(default(integer(0..7), 5))] pub f4: u8,
}

impl Ts5modode5 {
    pub const fn f0_min() -> u8 {
        0
    }

    pub const fn f0_max() -> u8 {
        7
    }

    pub const fn f1_min() -> u8 {
        0
    }

    pub const fn f1_max() -> u8 {
        7
    }

    pub const fn f2_min() -> u8 {
        0
    }

    pub const fn f2_max() -> u8 {
        7
    }

    pub const fn f3_min() -> u8 {
        0
    }

    pub const fn f3_max() -> u8 {
        7
    }

    pub const fn f4_min() -> u8 {
        0
    }

    pub const fn f4_max() -> u8 {
        7
    }
}

#[asn(sequence)]

#[derive(Default, Debug, Clone, PartialEq, Hash)]
pub struct Ts5oododn {
    #[asn(optional(integer(0..7)))] pub f0: Option<u8>,
    #[asn(optional(integer(0..7)))] pub f1: Option<u8>,
    #[asn(default(integer(0..7), 5))] pub f2: u8,
    #[asn(optional(integer(0..7)))] pub f3: Option<u8>,
    #[asn(default(integer(0..7), 5))] pub f4: u8,
}

impl Ts5oododn {
    pub const fn f0_min() -> u8 {
        0
    }

    pub const fn f0_max() -> u8 {
        7
    }

    pub const fn f1_min() -> u8 {
        0
    }

    pub const fn f1_max() -> u8 {
        7
    }

    pub const fn f2_min() -> u8 {
        0
    }

    pub const fn f2_max() -> u8 {
        7
    }

    pub const fn f3_min() -> u8 {
        0
    }

    pub const fn f3_max() -> u8 {
        7
    }

    pub const fn f4_min() -> u8 {
        0
    }

    pub const fn f4_max() -> u8 {
        7
    }
}

#[asn(sequence, extensible_after(f0))]

#[derive(Default, Debug, Clone, PartialEq, Hash)]
pub struct Ts5oodode0 {
    #[asn(optional(integer(0..7)))] pub f0: Option<u8>,
    #[asn(optional(integer(0..7)))] pub f1: Option<u8>,
    #[asn(default(integer(0..7), 5))] pub f2: u8,
    #[asn(optional(integer(0..7)))] pub f3: Option<u8>,
    #[asn(default(integer(0..7), 5))] pub f4: u8,
}

impl Ts5oodode0 {
    pub const fn f0_min() -> u8 {
        0
    }

    pub const fn f0_max() -> u8 {
        7
    }

    pub const fn f1_min() -> u8 {
        0
    }

    pub const fn f1_max() -> u8 {
        7
    }

    pub const fn f2_min() -> u8 {
        0
    }

    pub const fn f2_max() -> u8 {
        7
    }

    pub const fn f3_min() -> u8 {
        0
    }

    pub const fn f3_max() -> u8 {
        7
    }

    pub const fn f4_min() -> u8 {
        0
    }

    pub const fn f4_max() -> u8 {
        7
    }
}

#[asn(sequence, extensible_after(f0))]

#[derive(Default, Debug, Clone, PartialEq, Hash)]
pub struct Ts5oodode1 {
    #[asn(optional(integer(0..7)))] pub f0: Option<u8>,
    #[asn(optional(integer(0..7)))] pub f1: Option<u8>,
    #[asn(default(integer(0..7), 5))] pub f2: u8,
    #[asn(optional(integer(0..7)))] pub f3: Option<u8>,
    #[asn(default(integer(0..7), 5))] pub f4: u8,
}

impl Ts5oodode1 {
    pub const fn f0_min() -> u8 {
        0
    }

    pub const fn f0_max() -> u8 {
        7
    }

    pub const fn f1_min() -> u8 {
        0
    }

    pub const fn f1_max() -> u8 {
        7
    }

    pub const fn f2_min() -> u8 {
        0
    }

    pub const fn f2_max() -> u8 {
        7
    }

    pub const fn f3_min() -> u8 {
        0
    }

    pub const fn f3_max() -> u8 {
        7
    }

    pub const fn f4_min() -> u8 {
        0
    }

    pub const fn f4_max() -> u8 {
        7
    }
}

#[asn(sequence, extensible_after(f1))]

#[derive(Default, Debug, Clone, PartialEq, Hash)]
pub struct Ts5oodode2 {
    #[asn(optional(integer(0..7)))] pub f0: Option<u8>,
    #[asn(optional(integer(0..7)))] pub f1: Option<u8>,
    #[asn(default(integer(0..7), 5))] pub f2: u8,
    #[asn(optional(integer(0..7)))] pub f3: Option<u8>,
    #[asn(default(integer(0..7), 5))] pub f4: u8,
}

impl Ts5oodode2 {
    pub const fn f0_min() -> u8 {
        0
    }

    pub const fn f0_max() -> u8 {
        7
    }

    pub const fn f1_min() -> u8 {
        0
    }

    pub const fn f1_max() -> u8 {
        7
    }

    pub const fn f2_min() -> u8 {
        0
    }

    pub const fn f2_max() -> u8 {
        7
    }

    pub const fn f3_min() -> u8 {
        0
    }

    pub const fn f3_max() -> u8 {
        7
    }

    pub const fn f4_min() -> u8 {
        0
    }

    pub const fn f4_max() -> u8 {
        7
    }
}

#[asn(sequence, extensible_after(f2))]

#[derive(Default, Debug, Clone, PartialEq, Hash)]
pub struct Ts5oodode3 {
    #[asn(optional(integer(0..7)))] pub f0: Option<u8>,
    #[asn(optional(integer(0..7)))] pub f1: Option<u8>,
    #[asn(default(integer(0..7), 5))] pub f2: u8,
    #[asn(optional(integer(0..7)))] pub f3: Option<u8>,
    #[asn(default(integer(0..7), 5))] pub f4: u8,
}

impl Ts5oodode3 {
    pub const fn f0_min() -> u8 {
        0
    }

    pub const fn f0_max() -> u8 {
        7
    }

    pub const fn f1_min() -> u8 {
        0
    }

    pub const fn f1_max() -> u8 {
        7
    }

    pub const fn f2_min() -> u8 {
        0
    }

    pub const fn f2_max() -> u8 {
        7
    }

    pub const fn f3_min() -> u8 {
        0
    }

    pub const fn f3_max() -> u8 {
        7
    }

    pub const fn f4_min() -> u8 {
        0
    }

    pub const fn f4_max() -> u8 {
        7
    }
}

#[asn(sequence, extensible_after(f3))]

#[derive(Default, Debug, Clone, PartialEq, Hash)]
pub struct Ts5oodode4 {
    #[asn(optional(integer(0..7)))] pub f0: Option<u8>,
    #[asn(optional(integer(0..7)))] pub f1: Option<u8>,
    #[asn(default(integer(0..7), 5))] pub f2: u8,
    #[asn(optional(integer(0..7)))] pub f3: Option<u8>,
    #[asn(default(integer(0..7), 5))] pub f4: u8,
}

impl Ts5oodode4 {
    pub const fn f0_min() -> u8 {
        0
    }

    pub const fn f0_max() -> u8 {
        7
    }

    pub const fn f1_min() -> u8 {
        0
    }

    pub const fn f1_max() -> u8 {
        7
    }

    pub const fn f2_min() -> u8 {
        0
    }

    pub const fn f2_max() -> u8 {
        7
    }

    pub const fn f3_min() -> u8 {
        0
    }

    pub const fn f3_max() -> u8 {
        7
    }

    pub const fn f4_min() -> u8 {
        0
    }

    pub const fn f4_max() -> u8 {
        7
    }
}

#[asn(sequence, extensible_after(f4))]

#[derive(Default, Debug, Clone, PartialEq, Hash)]
pub struct Ts5oodode5 {
    #[asn(optional(integer(0..7)))] pub f0: Option<u8>,
    #[asn(optional(integer(0..7)))] pub f1: Option<u8>,
    #[asn(default(integer(0..7), 5))] pub f2: u8,
    #[asn(optional(integer(0..7)))] pub f3: Option<u8>,
    #[asn(default(integer(0..7), 5))] pub f4: u8,
}

impl Ts5oodode5 {
    pub const fn f0_min() -> u8 {
        0
    }

    pub const fn f0_max() -> u8 {
        7
    }

    pub const fn f1_min() -> u8 {
        0
    }

    pub const fn f1_max() -> u8 {
        7
    }

    pub const fn f2_min() -> u8 {
        0
    }

    pub const fn f2_max() -> u8 {
        7
    }

    pub const fn f3_min() -> u8 {
        0
    }

    pub const fn f3_max() -> u8 {
        7
    }

    pub const fn f4_min() -> u8 {
        0
    }

    pub const fn f4_max() -> u8 {
        7
    }
}

#[asn(sequence)]

#[derive(Default, Debug, Clone, PartialEq, Hash)]
pub struct Ts5dododn {
    #[asn(default(integer(0..7), 5))] pub f0: u8,
    #[asn(optional(integer(0..7)))] pub f1: Option<u8>,
    #[asn(default(integer(0..7), 5))] pub f2: u8,
    #[asn(optional(integer(0..7)))] pub f3: Option<u8>,
    #[asn(default(integer(0..7), 5))] pub f4: u8,
}

impl Ts5dododn {
    pub const fn f0_min() -> u8 {
        0
    }

    pub const fn f0_max() -> u8 {
        7
    }

    pub const fn f1_min() -> u8 {
        0
    }

    pub const fn f1_max() -> u8 {
        7
    }

    pub const fn f2_min() -> u8 {
        0
    }

    pub const fn f2_max() -> u8 {
        7
    }

    pub const fn f3_min() -> u8 {
        0
    }

    pub const fn f3_max() -> u8 {
        7
    }

    pub const fn f4_min() -> u8 {
        0
    }

    pub const fn f4_max() -> u8 {
        7
    }
}

#[asn(sequence, extensible_after(f0))]

#[derive(Default, Debug, Clone, PartialEq, Hash)]
pub struct Ts5dodode0 {
    #[asn(default(integer(0..7), 5))] pub f0: u8,
    #[asn(optional(integer(0..7)))] pub f1: Option<u8>,
    #[asn(default(integer(0..7), 5))] pub f2: u8,
    #[asn(optional(integer(0..7)))] pub f3: Option<u8>,
    #[asn(default(integer(0..7), 5))] pub f4: u8,
}

impl Ts5dodode0 {
    pub const fn f0_min() -> u8 {
        0
    }

    pub const fn f0_max() -> u8 {
        7
    }

    pub const fn f1_min() -> u8 {
        0
    }

    pub const fn f1_max() -> u8 {
        7
    }

    pub const fn f2_min() -> u8 {
        0
    }

    pub const fn f2_max() -> u8 {
        7
    }

    pub const fn f3_min() -> u8 {
        0
    }

    pub const fn f3_max() -> u8 {
        7
    }

    pub const fn f4_min() -> u8 {
        0
    }

    pub const fn f4_max() -> u8 {
        7
    }
}

#[asn(sequence, extensible_after(f0))]

#[derive(Default, Debug, Clone, PartialEq, Hash)]
pub struct Ts5dodode1 {
    #[asn(default(integer(0..7), 5))] pub f0: u8,
    #[asn(optional(integer(0..7)))] pub f1: Option<u8>,
    #[asn(default(integer(0..7), 5))] pub f2: u8,
    #[asn(optional(integer(0..7)))] pub f3: Option<u8>,
    #[asn(default(integer(0..7), 5))] pub f4: u8,
}

impl Ts5dodode1 {
    pub const fn f0_min() -> u8 {
        0
    }

    pub const fn f0_max() -> u8 {
        7
    }

    pub const fn f1_min() -> u8 {
        0
    }

    pub const fn f1_max() -> u8 {
        7
    }

    pub const fn f2_min() -> u8 {
        0
    }

    pub const fn f2_max() -> u8 {
        7
    }

    pub const fn f3_min() -> u8 {
        0
    }

    pub const fn f3_max() -> u8 {
        7
    }

    pub const fn f4_min() -> u8 {
        0
    }

    pub const fn f4_max() -> u8 {
        7
    }
}

#[asn(sequence, extensible_after(f1))]

#[derive(Default, Debug, Clone, PartialEq, Hash)]
pub struct Ts5dodode2 {
    #[asn(default(integer(0..7), 5))] pub f0: u8,
    #[asn(optional(integer(0..7)))] pub f1: Option<u8>,
    #[asn(default(integer(0..7), 5))] pub f2: u8,
    #[asn(optional(integer(0..7)))] pub f3: Option<u8>,
    #[asn(default(integer(0..7), 5))] pub f4: u8,
}

impl Ts5dodode2 {
    pub const fn f0_min() -> u8 {
        0
    }

    pub const fn f0_max() -> u8 {
        7
    }

    pub const fn f1_min() -> u8 {
        0
    }

    pub const fn f1_max() -> u8 {
        7
    }

    pub const fn f2_min() -> u8 {
        0
    }

    pub const fn f2_max() -> u8 {
        7
    }

    pub const fn f3_min() -> u8 {
        0
    }

    pub const fn f3_max() -> u8 {
        7
    }

    pub const fn f4_min() -> u8 {
        0
    }

    pub const fn f4_max() -> u8 {
        7
    }
}

#[asn(sequence, extensible_after(f2))]

#[derive(Default, Debug, Clone, PartialEq, Hash)]
pub struct Ts5dodode3 {
    #[asn(default(integer(0..7), 5))] pub f0: u8,
    #[asn(optional(integer(0..7)))] pub f1: Option<u8>,
    #[asn(default(integer(0..7), 5))] pub f2: u8,
    #[asn(optional(integer(0..7)))] pub f3: Option<u8>,
    #[asn(default(integer(0..7), 5))] pub f4: u8,
}

impl Ts5dodode3 {
    pub const fn f0_min() -> u8 {
        0
    }

    pub const fn f0_max() -> u8 {
        7
    }

    pub const fn f1_min() -> u8 {
        0
    }

    pub const fn f1_max() -> u8 {
        7
    }

    pub const fn f2_min() -> u8 {
        0
    }

    pub const fn f2_max() -> u8 {
        7
    }

    pub const fn f3_min() -> u8 {
        0
    }

    pub const fn f3_max() -> u8 {
        7
    }

    pub const fn f4_min() -> u8 {
        0
    }

    pub const fn f4_max() -> u8 {
        7
    }
}

#[asn(sequence, extensible_after(f3))]

#[derive(Default, Debug, Clone, PartialEq, Hash)]
pub struct Ts5dodode4 {
    #[asn(default(integer(0..7), 5))] pub f0: u8,
    #[asn(optional(integer(0..7)))] pub f1: Option<u8>,
    #[asn(default(integer(0..7), 5))] pub f2: u8,
    #[asn(optional(integer(0..7)))] pub f3: Option<u8>,
    #[asn(default(integer(0..7), 5))] pub f4: u8,
}

impl Ts5dodode4 {
    pub const fn f0_min() -> u8 {
        0
    }

    pub const fn f0_max() -> u8 {
        7
    }

    pub const fn f1_min() -> u8 {
        0
    }

    pub const fn f1_max() -> u8 {
        7
    }

    pub const fn f2_min() -> u8 {
        0
    }

    pub const fn f2_max() -> u8 {
        7
    }

    pub const fn f3_min() -> u8 {
        0
    }

    pub const fn f3_max() -> u8 {
        7
    }

    pub const fn f4_min() -> u8 {
        0
    }

    pub const fn f4_max() -> u8 {
        7
    }
}

#[asn(sequence, extensible_after(f4))]

#[derive(Default, Debug, Clone, PartialEq, Hash)]
pub struct Ts5dodode5 {
    #[asn(default(integer(0..7), 5))] pub f0: u8,
    #[asn(optional(integer(0..7)))] pub f1: Option<u8>,
    #[asn(default(integer(0..7), 5))] pub f2: u8,
    #[asn(optional(integer(0..7)))] pub f3: Option<u8>,
    #[asn(default(integer(0..7), 5))] pub f4: u8,
}

impl Ts5dodode5 {
    pub const fn f0_min() -> u8 {
        0
    }

    pub const fn f0_max() -> u8 {
        7
    }

    pub const fn f1_min() -> u8 {
        0
    }

    pub const fn f1_max() -> u8 {
        7
    }

    pub const fn f2_min() -> u8 {
        0
    }

    pub const fn f2_max() -> u8 {
        7
    }

    pub const fn f3_min() -> u8 {
        0
    }

    pub const fn f3_max() -> u8 {
        7
    }

    pub const fn f4_min() -> u8 {
        0
    }

    pub const fn f4_max() -> u8 {
        7
    }
}

#[asn(sequence)]

#[derive(Default, Debug, Clone, PartialEq, Hash)]
pub struct Ts5mddodn {
    #[asn(integer(0..7))] pub f0: u8,
    #[asn(default(integer(0..7), 5))] pub f1: u8,
    #[asn(default(integer(0..7), 5))] pub f2: u8,
    #[asn(optional(integer(0..7)))] pub f3: Option<u8>,
    #[asn(default(integer(0..7), 5))] pub f4: u8,
}

impl Ts5mddodn {
    pub const fn f0_min() -> u8 {
        0
    }

    pub const fn f0_max() -> u8 {
        7
    }

    pub const fn f1_min() -> u8 {
        0
    }

    pub const fn f1_max() -> u8 {
        7
    }

    pub const fn f2_min() -> u8 {
        0
    }

    pub const fn f2_max() -> u8 {
        7
    }

    pub const fn f3_min() -> u8 {
        0
    }

    pub const fn f3_max() -> u8 {
        7
    }

    pub const fn f4_min() -> u8 {
        0
    }

    pub const fn f4_max() -> u8 {
        7
    }
}

#[asn(sequence, extensible_after(f0))]

#[derive(Default, Debug, Clone, PartialEq, Hash)]
pub struct Ts5mddode0 {
    #[asn(integer(0..7))] pub f0: u8,
    #[asn(default(integer(0..7), 5))] pub f1: u8,
    #[asn(default(integer(0..7), 5))] pub f2: u8,
    #[asn(optional(integer(0..7)))] pub f3: Option<u8>,
    #[asn(default(integer(0..7), 5))] pub f4: u8,
}

impl Ts5mddode0 {
    pub const fn f0_min() -> u8 {
        0
    }

    pub const fn f0_max() -> u8 {
        7
    }

    pub const fn f1_min() -> u8 {
        0
    }

    pub const fn f1_max() -> u8 {
        7
    }

    pub const fn f2_min() -> u8 {
        0
    }

    pub const fn f2_max() -> u8 {
        7
    }

    pub const fn f3_min() -> u8 {
        0
    }

    pub const fn f3_max() -> u8 {
        7
    }

    pub const fn f4_min() -> u8 {
        0
    }

    pub const fn f4_max() -> u8 {
        7
    }
}

#[asn(sequence, extensible_after(f0))]

#[derive(Default, Debug, Clone, PartialEq, Hash)]
pub struct Ts5mddode1 {
    #[asn(integer(0..7))] pub f0: u8,
    #[asn(default(integer(0..7), 5))] pub f1: u8,
    #[asn(default(integer(0..7), 5))] pub f2: u8,
    #[asn(optional(integer(0..7)))] pub f3: Option<u8>,
    #[asn(default(integer(0..7), 5))] pub f4: u8,
}

impl Ts5mddode1 {
    pub const fn f0_min() -> u8 {
        0
    }

    pub const fn f0_max() -> u8 {
        7
    }

    pub const fn f1_min() -> u8 {
        0
    }

    pub const fn f1_max() -> u8 {
        7
    }

    pub const fn f2_min() -> u8 {
        0
    }

    pub const fn f2_max() -> u8 {
        7
    }

    pub const fn f3_min() -> u8 {
        0
    }

    pub const fn f3_max() -> u8 {
        7
    }

    pub const fn f4_min() -> u8 {
        0
    }

    pub const fn f4_max() -> u8 {
        7
    }
}

#[asn(sequence, extensible_after(f1))]

#[derive(Default, Debug, Clone, PartialEq, Hash)]
pub struct Ts5mddode2 {
    #[asn(integer(0..7))] pub f0: u8,
    #[asn(default(integer(0..7), 5))] pub f1: u8,
    #[asn(default(integer(0..7), 5))] pub f2: u8,
    #[asn(optional(integer(0..7)))] pub f3: Option<u8>,
    #[asn(default(integer(0..7), 5))] pub f4: u8,
}

impl Ts5mddode2 {
    pub const fn f0_min() -> u8 {
        0
    }

    pub const fn f0_max() -> u8 {
        7
    }

    pub const fn f1_min() -> u8 {
        0
    }

    pub const fn f1_max() -> u8 {
        7
    }

    pub const fn f2_min() -> u8 {
        0
    }

    pub const fn f2_max() -> u8 {
        7
    }

    pub const fn f3_min() -> u8 {
        0
    }

    pub const fn f3_max() -> u8 {
        7
    }

    pub const fn f4_min() -> u8 {
        0
    }

    pub const fn f4_max() -> u8 {
        7
    }
}

#[asn(sequence, extensible_after(f2))]

#[derive(Default, Debug, Clone, PartialEq, Hash)]
pub struct Ts5mddode3 {
    #[asn(integer(0..7))] pub f0: u8,
    #[asn(default(integer(0..7), 5))] pub f1: u8,
    #[asn(default(integer(0..7), 5))] pub f2: u8,
    #[asn(optional(integer(0..7)))] pub f3: Option<u8>,
    #[asn(default(integer(0..7), 5))] pub f4: u8,
}

impl Ts5mddode3 {
    pub const fn f0_min() -> u8 {
        0
    }

    pub const fn f0_max() -> u8 {
        7
    }

    pub const fn f1_min() -> u8 {
        0
    }

    pub const fn f1_max() -> u8 {
        7
    }

    pub const fn f2_min() -> u8 {
        0
    }

    pub const fn f2_max() -> u8 {
        7
    }

    pub const fn f3_min() -> u8 {
        0
    }

    pub const fn f3_max() -> u8 {
        7
    }

    pub const fn f4_min() -> u8 {
        0
    }

    pub const fn f4_max() -> u8 {
        7
    }
}

#[asn(sequence, extensible_after(f3))]

#[derive(Default, Debug, Clone, PartialEq, Hash)]
pub struct Ts5mddode4 {
    #[asn(integer(0..7))] pub f0: u8,
    #[asn(default(integer(0..7), 5))] pub f1: u8,
    #[asn(default(integer(0..7), 5))] pub f2: u8,
    #[asn(optional(integer(0..7)))] pub f3: Option<u8>,
    #[asn(default(integer(0..7), 5))] pub f4: u8,
}

impl Ts5mddode4 {
    pub const fn f0_min() -> u8 {
        0
    }

    pub const fn f0_max() -> u8 {
        7
    }

    pub const fn f1_min() -> u8 {
        0
    }

    pub const fn f1_max() -> u8 {
        7
    }

    pub const fn f2_min() -> u8 {
        0
    }

    pub const fn f2_max() -> u8 {
        7
    }

    pub const fn f3_min() -> u8 {
        0
    }

    pub const fn f3_max() -> u8 {
        7
    }

    pub const fn f4_min() -> u8 {
        0
    }

    pub const fn f4_max() -> u8 {
        7
    }
}

#[asn(sequence, extensible_after(f4))]

#[derive(Default, Debug, Clone, PartialEq, Hash)]
pub struct Ts5mddode5 {
    #[asn(integer(0..7))] pub f0: u8,
    #[asn(default(integer(0..7), 5))] pub f1: u8,
    #[asn(default(integer(0..7), 5))] pub f2: u8,
    #[asn(optional(integer(0..7)))] pub f3: Option<u8>,
    #[asn(default(integer(0..7), 5))] pub f4: u8,
}

impl Ts5mddode5 {
    pub const fn f0_min() -> u8 {
        0
    }

    pub const fn f0_max() -> u8 {
        7
    }

    pub const fn f1_min() -> u8 {
        0
    }

    pub const fn f1_max() -> u8 {
        7
    }

    pub const fn f2_min() -> u8 {
        0
    }

    pub const fn f2_max() -> u8 {
        7
    }

    pub const fn f3_min() -> u8 {
        0
    }

    pub const fn f3_max() -> u8 {
        7
    }

    pub const fn f4_min() -> u8 {
        0
    }

    pub const fn f4_max() -> u8 {
        7
    }
}

#[asn(sequence)]

#[derive(Default, Debug, Clone, PartialEq, Hash)]
pub struct Ts5oddodn {
    #[asn(optional(integer(0..7)))] pub f0: Option<u8>,
    #[asn(default(integer(0..7), 5))] pub f1: u8,
    #[asn(default(integer(0..7), 5))] pub f2: u8,
    #[asn(optional(integer(0..7)))] pub f3: Option<u8>,
    #[asn(default(integer(0..7), 5))] pub f4: u8,
}

impl Ts5oddodn {
    pub const fn f0_min() -> u8 {
        0
    }

    pub const fn f0_max() -> u8 {
        7
    }

    pub const fn f1_min() -> u8 {
        0
    }

    pub const fn f1_max() -> u8 {
        7
    }

    pub const fn f2_min() -> u8 {
        0
    }

    pub const fn f2_max() -> u8 {
        7
    }

    pub const fn f3_min() -> u8 {
        0
    }

    pub const fn f3_max() -> u8 {
        7
    }

    pub const fn f4_min() -> u8 {
        0
    }

    pub const fn f4_max() -> u8 {
        7
    }
}

#[asn(sequence, extensible_after(f0))]

#[derive(Default, Debug, Clone, PartialEq, Hash)]
pub struct Ts5oddode0 {
    #[asn(optional(integer(0..7)))] pub f0: Option<u8>,
    #[asn(default(integer(0..7), 5))] pub f1: u8,
    #[asn(default(integer(0..7), 5))] pub f2: u8,
    #[asn(optional(integer(0..7)))] pub f3: Option<u8>,
    #[asn(default(integer(0..7), 5))] pub f4: u8,
}

impl Ts5oddode0 {
    pub const fn f0_min() -> u8 {
        0
    }

    pub const fn f0_max() -> u8 {
        7
    }

    pub const fn f1_min() -> u8 {
        0
    }

    pub const fn f1_max() -> u8 {
        7
    }

    pub const fn f2_min() -> u8 {
        0
    }

    pub const fn f2_max() -> u8 {
        7
    }

    pub const fn f3_min() -> u8 {
        0
    }

    pub const fn f3_max() -> u8 {
        7
    }

    pub const fn f4_min() -> u8 {
        0
    }

    pub const fn f4_max() -> u8 {
        7
    }
}

#[asn(sequence, extensible_after(f0))]

#[derive(Default, Debug, Clone, PartialEq, Hash)]
pub struct Ts5oddode1 {
    #[asn(optional(integer(0..7)))] pub f0: Option<u8>,
    #[asn(default(integer(0..7), 5))] pub f1: u8,
    #[asn(default(integer(0..7), 5))] pub f2: u8,
    #[asn(optional(integer(0..7)))] pub f3: Option<u8>,
    #[asn(default(integer(0..7), 5))] pub f4: u8,
}

impl Ts5oddode1 {
    pub const fn f0_min() -> u8 {
        0
    }

    pub const fn f0_max() -> u8 {
        7
    }

    pub const fn f1_min() -> u8 {
        0
    }

    pub const fn f1_max() -> u8 {
        7
    }

    pub const fn f2_min() -> u8 {
        0
    }

    pub const fn f2_max() -> u8 {
        7
    }

    pub const fn f3_min() -> u8 {
        0
    }

    pub const fn f3_max() -> u8 {
        7
    }

    pub const fn f4_min() -> u8 {
        0
    }

    pub const fn f4_max() -> u8 {
        7
    }
}

#[asn(sequence, extensible_after(f1))]

#[derive(Default, Debug, Clone, PartialEq, Hash)]
pub struct Ts5oddode2 {
    #[asn(optional(integer(0..7)))] pub f0: Option<u8>,
    #[asn(default(integer(0..7), 5))] pub f1: u8,
    #[asn(default(integer(0..7), 5))] pub f2: u8,
    #[asn(optional(integer(0..7)))] pub f3: Option<u8>,
    #[asn(default(integer(0..7), 5))] pub f4: u8,
}

impl Ts5oddode2 {
    pub const fn f0_min() -> u8 {
        0
    }

    pub const fn f0_max() -> u8 {
        7
    }

    pub const fn f1_min() -> u8 {
        0
    }

    pub const fn f1_max() -> u8 {
        7
    }

    pub const fn f2_min() -> u8 {
        0
    }

    pub const fn f2_max() -> u8 {
        7
    }

    pub const fn f3_min() -> u8 {
        0
    }

    pub const fn f3_max() -> u8 {
        7
    }

    pub const fn f4_min() -> u8 {
        0
    }

    pub const fn f4_max() -> u8 {
        7
    }
}

#[asn(sequence, extensible_after(f2))]

#[derive(Default, Debug, Clone, PartialEq, Hash)]
pub struct Ts5oddode3 {
    #[asn(optional(integer(0..7)))] pub f0: Option<u8>,
    #[asn(default(integer(0..7), 5))] pub f1: u8,
    #[asn(default(integer(0..7), 5))] pub f2: u8,
    #[asn(optional(integer(0..7)))] pub f3: Option<u8>,
    #[asn(default(integer(0..7), 5))] pub f4: u8,
}

impl Ts5oddode3 {
    pub const fn f0_min() -> u8 {
        0
    }

    pub const fn f0_max() -> u8 {
        7
    }

    pub const fn f1_min() -> u8 {
        0
    }

    pub const fn f1_max() -> u8 {
        7
    }

    pub const fn f2_min() -> u8 {
        0
    }

    pub const fn f2_max() -> u8 {
        7
    }

    pub const fn f3_min() -> u8 {
        0
    }

    pub const fn f3_max() -> u8 {
        7
    }

    pub const fn f4_min() -> u8 {
        0
    }

    pub const fn f4_max() -> u8 {
        7
    }
}

#[asn(sequence, extensible_after(f3))]

#[derive(Default, Debug, Clone, PartialEq, Hash)]
pub struct Ts5oddode4 {
    #[asn(optional(integer(0..7)))] pub f0: Option<u8>,
    #[asn(default(integer(0..7), 5))] pub f1: u8,
    #[asn(default(integer(0..7), 5))] pub f2: u8,
    #[asn(optional(integer(0..7)))] pub f3: Option<u8>,
    #[asn(default(integer(0..7), 5))] pub f4: u8,
}

impl Ts5oddode4 {
    pub const fn f0_min() -> u8 {
        0
    }

    pub const fn f0_max() -> u8 {
        7
    }

    pub const fn f1_min() -> u8 {
        0
    }

    pub const fn f1_max() -> u8 {
        7
    }

    pub const fn f2_min() -> u8 {
        0
    }

    pub const fn f2_max() -> u8 {
        7
    }

    pub const fn f3_min() -> u8 {
        0
    }

    pub const fn f3_max() -> u8 {
        7
    }

    pub const fn f4_min() -> u8 {
        0
    }

    pub const fn f4_max() -> u8 {
        7
    }
}

#[asn(sequence, extensible_after(f4))]

#[derive(Default, Debug, Clone, PartialEq, Hash)]
pub struct Ts5oddode5 {
    #[asn(optional(integer(0..7)))] pub f0: Option<u8>,
    #[asn(default(integer(0..7), 5))] pub f1: u8,
    #[asn(default(integer(0..7), 5))] pub f2: u8,
    #[asn(optional(integer(0..7)))] pub f3: Option<u8>,
    #[asn(default(integer(0..7), 5))] pub f4: u8,
}

impl Ts5oddode5 {
    pub const fn f0_min() -> u8 {
        0
    }

    pub const fn f0_max() -> u8 {
        7
    }

    pub const fn f1_min() -> u8 {
        0
    }

    pub const fn f1_max() -> u8 {
        7
    }

    pub const fn f2_min() -> u8 {
        0
    }

    pub const fn f2_max() -> u8 {
        7
    }

    pub const fn f3_min() -> u8 {
        0
    }

    pub const fn f3_max() -> u8 {
        7
    }

    pub const fn f4_min() -> u8 {
        0
    }

    pub const fn f4_max() -> u8 {
        7
    }
}

#[asn(sequence)]

#[derive(Default, Debug, Clone, PartialEq, Hash)]
pub struct Ts5dddodn {
    #[asn(default(integer(0..7), 5))] pub f0: u8,
    #[asn(default(integer(0..7), 5))] pub f1: u8,
    #[asn(default(integer(0..7), 5))] pub f2: u8,
    #[asn(optional(integer(0..7)))] pub f3: Option<u8>,
    #[asn(default(integer(0..7), 5))] pub f4: u8,
}

impl Ts5dddodn {
    pub const fn f0_min() -> u8 {
        0
    }

    pub const fn f0_max() -> u8 {
        7
    }

    pub const fn f1_min() -> u8 {
        0
    }

    pub const fn f1_max() -> u8 {
        7
    }

    pub const fn f2_min() -> u8 {
        0
    }

    pub const fn f2_max() -> u8 {
        7
    }

    pub const fn f3_min() -> u8 {
        0
    }

    pub const fn f3_max() -> u8 {
        7
    }

    pub const fn f4_min() -> u8 {
        0
    }

    pub const fn f4_max() -> u8 {
        7
    }
}

#[asn(sequence, extensible_after(f0))]

#[derive(Default, Debug, Clone, PartialEq, Hash)]
pub struct Ts5dddode0 {
    #[asn(default(integer(0..7), 5))] pub f0: u8,
    #[asn(default(integer(0..7), 5))] pub f1: u8,
    #[asn(default(integer(0..7), 5))] pub f2: u8,
    #[asn(optional(integer(0..7)))] pub f3: Option<u8>,
    #[asn(default(integer(0..7), 5))] pub f4: u8,
}

impl Ts5dddode0 {
    pub const fn f0_min() -> u8 {
        0
    }

    pub const fn f0_max() -> u8 {
        7
    }

    pub const fn f1_min() -> u8 {
        0
    }

    pub const fn f1_max() -> u8 {
        7
    }

    pub const fn f2_min() -> u8 {
        0
    }

    pub const fn f2_max() -> u8 {
        7
    }

    pub const fn f3_min() -> u8 {
        0
    }

    pub const fn f3_max() -> u8 {
        7
    }

    pub const fn f4_min() -> u8 {
        0
    }

    pub const fn f4_max() -> u8 {
        7
    }
}

#[asn(sequence, extensible_after(f0))]

#[derive(Default, Debug, Clone, PartialEq, Hash)]
pub struct Ts5dddode1 {
    #[asn(default(integer(0..7), 5))] pub f0: u8,
    #[asn(default(integer(0..7), 5))] pub f1: u8,
    #[asn(default(integer(0..7), 5))] pub f2: u8,
    #[asn(optional(integer(0..7)))] pub f3: Option<u8>,
    #[asn(default(integer(0..7), 5))] pub f4: u8,
}

impl Ts5dddode1 {
    pub const fn f0_min() -> u8 {
        0
    }

    pub const fn f0_max() -> u8 {
        7
    }

    pub const fn f1_min() -> u8 {
        0
    }

    pub const fn f1_max() -> u8 {
        7
    }

    pub const fn f2_min() -> u8 {
        0
    }

    pub const fn f2_max() -> u8 {
        7
    }

    pub const fn f3_min() -> u8 {
        0
    }

    pub const fn f3_max() -> u8 {
        7
    }

    pub const fn f4_min() -> u8 {
        0
    }

    pub const fn f4_max() -> u8 {
        7
    }
}

#[asn(sequence, extensible_after(f1))]

#[derive(Default, Debug, Clone, PartialEq, Hash)]
pub struct Ts5dddode2 {
    #[asn(default(integer(0..7), 5))] pub f0: u8,
    #[asn(default(integer(0..7), 5))] pub f1: u8,
    #[asn(default(integer(0..7), 5))] pub f2: u8,
    #[asn(optional(integer(0..7)))] pub f3: Option<u8>,
    #[asn(default(integer(0..7), 5))] pub f4: u8,
}

impl Ts5dddode2 {
    pub const fn f0_min() -> u8 {
        0
    }

    pub const fn f0_max() -> u8 {
        7
    }

    pub const fn f1_min() -> u8 {
        0
    }

    pub const fn f1_max() -> u8 {
        7
    }

    pub const fn f2_min() -> u8 {
        0
    }

    pub const fn f2_max() -> u8 {
        7
    }

    pub const fn f3_min() -> u8 {
        0
    }

    pub const fn f3_max() -> u8 {
        7
    }

    pub const fn f4_min() -> u8 {
        0
    }

    pub const fn f4_max() -> u8 {
        7
    }
}

#[asn(sequence, extensible_after(f2))]

#[derive(Default, Debug, Clone, PartialEq, Hash)]
pub struct Ts5dddode3 {
    #[asn(default(integer(0..7), 5))] pub f0: u8,
    #[asn(default(integer(0..7), 5))] pub f1: u8,
    #[asn(default(integer(0..7), 5))] pub f2: u8,
    #[asn(optional(integer(0..7)))] pub f3: Option<u8>,
    #[asn(default(integer(0..7), 5))] pub f4: u8,
}

impl Ts5dddode3 {
    pub const fn f0_min() -> u8 {
        0
    }

    pub const fn f0_max() -> u8 {
        7
    }

    pub const fn f1_min() -> u8 {
        0
    }

    pub const fn f1_max() -> u8 {
        7
    }

    pub const fn f2_min() -> u8 {
        0
    }

    pub const fn f2_max() -> u8 {
        7
    }

    pub const fn f3_min() -> u8 {
        0
    }

    pub const fn f3_max() -> u8 {
        7
    }

    pub const fn f4_min() -> u8 {
        0
    }

    pub const fn f4_max() -> u8 {
        7
    }
}

#[asn(sequence, extensible_after(f3))]

#[derive(Default, Debug, Clone, PartialEq, Hash)]
pub struct Ts5dddode4 {
    #[asn(default(integer(0..7), 5))] pub f0: u8,
    #[asn(default(integer(0..7), 5))] pub f1: u8,
    #[asn(default(integer(0..7), 5))] pub f2: u8,
    #[asn(optional(integer(0..7)))] pub f3: Option<u8>,
    #[asn(default(integer(0..7), 5))] pub f4: u8,
}

impl Ts5dddode4 {
    pub const fn f0_min() -> u8 {
        0
    }

    pub const fn f0_max() -> u8 {
        7
    }

    pub const fn f1_min() -> u8 {
        0
    }

    pub const fn f1_max() -> u8 {
        7
    }

    pub const fn f2_min() -> u8 {
        0
    }

    pub const fn f2_max() -> u8 {
        7
    }

    pub const fn f3_min() -> u8 {
        0
    }

    pub const fn f3_max() -> u8 {
        7
    }

    pub const fn f4_min() -> u8 {
        0
    }

    pub const fn f4_max() -> u8 {
        7
    }
}

#[asn(sequence, extensible_after(f4))]

#[derive(Default, Debug, Clone, PartialEq, Hash)]
pub struct Ts5dddode5 {
    #[asn(default(integer(0..7), 5))] pub f0: u8,
    #[asn(default(integer(0..7), 5))] pub f1: u8,
    #[asn(default(integer(0..7), 5))] pub f2: u8,
    #[asn(optional(integer(0..7)))] pub f3: Option<u8>,
    #[asn(default(integer(0..7), 5))] pub f4: u8,
}

impl Ts5dddode5 {
    pub const fn f0_min() -> u8 {
        0
    }

    pub const fn f0_max() -> u8 {
        7
    }

    pub const fn f1_min() -> u8 {
        0
    }

    pub const fn f1_max() -> u8 {
        7
    }

    pub const fn f2_min() -> u8 {
        0
    }

    pub const fn f2_max() -> u8 {
        7
    }

    pub const fn f3_min() -> u8 {
        0
    }

    pub const fn f3_max() -> u8 {
        7
    }

    pub const fn f4_min() -> u8 {
        0
    }

    pub const fn f4_max() -> u8 {
        7
    }
}

#[asn(sequence)]

#[derive(Default, Debug, Clone, PartialEq, Hash)]
pub struct Ts5mmmddn {
    #[asn(integer(0..7))] pub f0: u8,
    #[asn(integer(0..7))] pub f1: u8,
    #[asn(integer(0..7))] pub f2: u8,
    #[asn(default(integer(0..7), 5))] pub f3: u8,
    #[asn(default(integer(0..7), 5))] pub f4: u8,
}

impl Ts5mmmddn {
    pub const fn f0_min() -> u8 {
        0
    }

    pub const fn f0_max() -> u8 {
        7
    }

    pub const fn f1_min() -> u8 {
        0
    }

    pub const fn f1_max() -> u8 {
        7
    }

    pub const fn f2_min() -> u8 {
        0
    }

    pub const fn f2_max() -> u8 {
        7
    }

    pub const fn f3_min() -> u8 {
        0
    }

    pub const fn f3_max() -> u8 {
        7
    }

    pub const fn f4_min() -> u8 {
        0
    }

    pub const fn f4_max() -> u8 {
        7
    }
}

#[asn(sequence, extensible_after(f0))]

#[derive(Default, Debug, Clone, PartialEq, Hash)]
pub struct Ts5mmmdde0 {
    #[asn(integer(0..7))] pub f0: u8,
    #[asn(optional(integer(0..7)))] pub f1: Option<u8>,
    #[asn(optional(integer(0..7)))] pub f2: Option<u8>,
    #[asn(default(integer(0..7), 5))] pub f3: u8,
    #[asn(default(integer(0..7), 5))] pub f4: u8,
}

impl Ts5mmmdde0 {
    pub const fn f0_min() -> u8 {
        0
    }

    pub const fn f0_max() -> u8 {
        7
    }

    pub const fn f1_min() -> u8 {
        0
    }

    pub const fn f1_max() -> u8 {
        7
    }

    pub const fn f2_min() -> u8 {
        0
    }

    pub const fn f2_max() -> u8 {
        7
    }

    pub const fn f3_min() -> u8 {
        0
    }

    pub const fn f3_max() -> u8 {
        7
    }

    pub const fn f4_min() -> u8 {
        0
    }

    pub const fn f4_max() -> u8 {
        7
    }
}

#[asn(sequence, extensible_after(f0))]

#[derive(Default, Debug, Clone, PartialEq, Hash)]
pub struct Ts5mmmdde1 {
    #[asn(integer(0..7))] pub f0: u8,
    #[asn(optional(integer(0..7)))] pub f1: Option<u8>,
    #[asn(optional(integer(0..7)))] pub f2: Option<u8>,
    #[asn(default(integer(0..7), 5))] pub f3: u8,
    #[asn(default(integer(0..7), 5))] pub f4: u8,
}

impl Ts5mmmdde1 {
    pub const fn f0_min() -> u8 {
        0
    }

    pub const fn f0_max() -> u8 {
        7
    }

    pub const fn f1_min() -> u8 {
        0
    }

    pub const fn f1_max() -> u8 {
        7
    }

    pub const fn f2_min() -> u8 {
        0
    }

    pub const fn f2_max() -> u8 {
        7
    }

    pub const fn f3_min() -> u8 {
        0
    }

    pub const fn f3_max() -> u8 {
        7
    }

    pub const fn f4_min() -> u8 {
        0
    }

    pub const fn f4_max() -> u8 {
        7
    }
}

#[asn(sequence, extensible_after(f1))]

#[derive(Default, Debug, Clone, PartialEq, Hash)]
pub struct Ts5mmmdde2 {
    #[asn(integer(0..7))] pub f0: u8,
    #[asn(integer(0..7))] pub f1: u8,
    #[asn(optional(integer(0..7)))] pub f2: Option<u8>,
    #[asn(default(integer(0..7), 5))] pub f3: u8,
    #[asn(default(integer(0..7), 5))] pub f4: u8,
}

impl Ts5mmmdde2 {
    pub const fn f0_min() -> u8 {
        0
    }

    pub const fn f0_max() -> u8 {
        7
    }

    pub const fn f1_min() -> u8 {
        0
    }

    pub const fn f1_max() -> u8 {
        7
    }

    pub const fn f2_min() -> u8 {
        0
    }

    pub const fn f2_max() -> u8 {
        7
    }

    pub const fn f3_min() -> u8 {
        0
    }

    pub const fn f3_max() -> u8 {
        7
    }

    pub const fn f4_min() -> u8 {
        0
    }

    pub const fn f4_max() -> u8 {
        7
    }
}

#[asn(sequence, extensible_after(f2))]

#[derive(Default, Debug, Clone, PartialEq, Hash)]
pub struct Ts5mmmdde3 {
    #[asn(integer(0..7))] pub f0: u8,
    #[asn(integer(0..7))] pub f1: u8,
    #[asn(integer(0..7))] pub f2: u8,
    #[asn(default(integer(0..7), 5))] pub f3: u8,
    #[asn(default(integer(0..7), 5))] pub f4: u8,
}

impl Ts5mmmdde3 {
    pub const fn f0_min() -> u8 {
        0
    }

    pub const fn f0_max() -> u8 {
        7
    }

    pub const fn f1_min() -> u8 {
        0
    }

    pub const fn f1_max() -> u8 {
        7
    }

    pub const fn f2_min() -> u8 {
        0
    }

    pub const fn f2_max() -> u8 {
        7
    }

    pub const fn f3_min() -> u8 {
        0
    }

    pub const fn f3_max() -> u8 {
        7
    }

    pub const fn f4_min() -> u8 {
        0
    }

    pub const fn f4_max() -> u8 {
        7
    }
}

#[asn(sequence, extensible_after(f3))]

#[derive(Default, Debug, Clone, PartialEq, Hash)]
pub struct Ts5mmmdde4 {
    #[asn(integer(0..7))] pub f0: u8,
    #[asn(integer(0..7))] pub f1: u8,
    #[asn(integer(0..7))] pub f2: u8,
    #[asn(default(integer(0..7), 5))] pub f3: u8,
    #[asn(default(integer(0..7), 5))] pub f4: u8,
}

impl Ts5mmmdde4 {
    pub const fn f0_min() -> u8 {
        0
    }

    pub const fn f0_max() -> u8 {
        7
    }

    pub const fn f1_min() -> u8 {
        0
    }

    pub const fn f1_max() -> u8 {
        7
    }

    pub const fn f2_min() -> u8 {
        0
    }

    pub const fn f2_max() -> u8 {
        7
    }

    pub const fn f3_min() -> u8 {
        0
    }

    pub const fn f3_max() -> u8 {
        7
    }

    pub const fn f4_min() -> u8 {
        0
    }

    pub const fn f4_max() -> u8 {
        7
    }
}

#[asn(sequence, extensible_after(f4))]

#[derive(Default, Debug, Clone, PartialEq, Hash)]
pub struct Ts5mmmdde5 {
    #[asn(integer(0..7))] pub f0: u8,
    #[asn(integer(0..7))] pub f1: u8,
    #[asn(integer(0..7))] pub f2: u8,
    #[asn(default(integer(0..7), 5))] pub f3: u8,
    #[asn(default(integer(0..7), 5))] pub f4: u8,
}

impl Ts5mmmdde5 {
    pub const fn f0_min() -> u8 {
        0
    }

    pub const fn f0_max() -> u8 {
        7
    }

    pub const fn f1_min() -> u8 {
        0
    }

    pub const fn f1_max() -> u8 {
        7
    }

    pub const fn f2_min() -> u8 {
        0
    }

    pub const fn f2_max() -> u8 {
        7
    }

    pub const fn f3_min() -> u8 {
        0
    }

    pub const fn f3_max() -> u8 {
        7
    }

    pub const fn f4_min() -> u8 {
        0
    }

    pub const fn f4_max() -> u8 {
        7
    }
}

#[asn(sequence)]

#[derive(Default, Debug, Clone, PartialEq, Hash)]
pub struct Ts5ommddn {
    #[asn(optional(integer(0..7)))] pub f0: Option<u8>,
    #[asn(integer(0..7))] pub f1: u8,
    #[asn(integer(0..7))] pub f2: u8,
    #[asn(default(integer(0..7), 5))] pub f3: u8,
    #[asn(default(integer(0..7), 5))] pub f4: u8,
}

impl Ts5ommddn {
    pub const fn f0_min() -> u8 {
        0
    }

    pub const fn f0_max() -> u8 {
        7
    }

    pub const fn f1_min() -> u8 {
        0
    }

    pub const fn f1_max() -> u8 {
        7
    }

    pub const fn f2_min() -> u8 {
        0
    }

    pub const fn f2_max() -> u8 {
        7
    }

    pub const fn f3_min() -> u8 {
        0
    }

    pub const fn f3_max() -> u8 {
        7
    }

    pub const fn f4_min() -> u8 {
        0
    }

    pub const fn f4_max() -> u8 {
        7
    }
}

#[asn(sequence, extensible_after(f0))]

#[derive(Default, Debug, Clone, PartialEq, Hash)]
pub struct Ts5ommdde0 {
    #[asn(optional(integer(0..7)))] pub f0: Option<u8>,
    #[asn(optional(integer(0..7)))] pub f1: Option<u8>,
    #[asn(optional(integer(0..7)))] pub f2: Option<u8>,
    #[asn(default(integer(0..7), 5))] pub f3: u8,
    #[asn(default(integer(0..7), 5))] pub f4: u8,
}

impl Ts5ommdde0 {
    pub const fn f0_min() -> u8 {
        0
    }

    pub const fn f0_max() -> u8 {
        7
    }

    pub const fn f1_min() -> u8 {
        0
    }

    pub const fn f1_max() -> u8 {
        7
    }

    pub const fn f2_min() -> u8 {
        0
    }

    pub const fn f2_max() -> u8 {
        7
    }

    pub const fn f3_min() -> u8 {
        0
    }

    pub const fn f3_max() -> u8 {
        7
    }

    pub const fn f4_min() -> u8 {
        0
    }

    pub const fn f4_max() -> u8 {
        7
    }
}

#[asn(sequence, extensible_after(f0))]

#[derive(Default, Debug, Clone, PartialEq, Hash)]
pub struct Ts5ommdde1 {
    #[asn(optional(integer(0..7)))] pub f0: Option<u8>,
    #[asn(optional(integer(0..7)))] pub f1: Option<u8>,
    #[asn(optional(integer(0..7)))] pub f2: Option<u8>,
    #[asn(default(integer(0..7), 5))] pub f3: u8,
    #[asn(default(integer(0..7), 5))] pub f4: u8,
}

impl Ts5ommdde1 {
    pub const fn f0_min() -> u8 {
        0
    }

    pub const fn f0_max() -> u8 {
        7
    }

    pub const fn f1_min() -> u8 {
        0
    }

    pub const fn f1_max() -> u8 {
        7
    }

    pub const fn f2_min() -> u8 {
        0
    }

    pub const fn f2_max() -> u8 {
        7
    }

    pub const fn f3_min() -> u8 {
        0
    }

    pub const fn f3_max() -> u8 {
        7
    }

    pub const fn f4_min() -> u8 {
        0
    }

    pub const fn f4_max() -> u8 {
        7
    }
}

#[asn(sequence, extensible_after(f1))]

#[derive(Default, Debug, Clone, PartialEq, Hash)]
pub struct Ts5ommdde2 {
    #[asn(optional(integer(0..7)))] pub f0: Option<u8>,
    #[asn(integer(0..7))] pub f1: u8,
    #[asn(optional(integer(0..7)))] pub f2: Option<u8>,
    #[asn(default(integer(0..7), 5))] pub f3: u8,
    #[asn(default(integer(0..7), 5))] pub f4: u8,
}

impl Ts5ommdde2 {
    pub const fn f0_min() -> u8 {
        0
    }

    pub const fn f0_max() -> u8 {
        7
    }

    pub const fn f1_min() -> u8 {
        0
    }

    pub const fn f1_max() -> u8 {
        7
    }

    pub const fn f2_min() -> u8 {
        0
    }

    pub const fn f2_max() -> u8 {
        7
    }

    pub const fn f3_min() -> u8 {
        0
    }

    pub const fn f3_max() -> u8 {
        7
    }

    pub const fn f4_min() -> u8 {
        0
    }

    pub const fn f4_max() -> u8 {
        7
    }
}

#[asn(sequence, extensible_after(f2))]

#[derive(Default, Debug, Clone, PartialEq, Hash)]
pub struct Ts5ommdde3 {
    #[asn(optional(integer(0..7)))] pub f0: Option<u8>,
    #[asn(integer(0..7))] pub f1: u8,
    #[asn(integer(0..7))] pub f2: u8,
    #[asn(default(integer(0..7), 5))] pub f3: u8,
    #[asn(default(integer(0..7), 5))] pub f4: u8,
}

impl Ts5ommdde3 {
    pub const fn f0_min() -> u8 {
        0
    }

    pub const fn f0_max() -> u8 {
        7
    }

    pub const fn f1_min() -> u8 {
        0
    }

    pub const fn f1_max() -> u8 {
        7
    }

    pub const fn f2_min() -> u8 {
        0
    }

    pub const fn f2_max() -> u8 {
        7
    }

    pub const fn f3_min() -> u8 {
        0
    }

    pub const fn f3_max() -> u8 {
        7
    }

    pub const fn f4_min() -> u8 {
        0
    }

    pub const fn f4_max() -> u8 {
        7
    }
}

#[asn(sequence, extensible_after(f3))]

#[derive(Default, Debug, Clone, PartialEq, Hash)]
pub struct Ts5ommdde4 {
    #[asn(optional(integer(0..7)))] pub f0: Option<u8>,
    #[asn(integer(0..7))] pub f1: u8,
    #[asn(integer(0..7))] pub f2: u8,
    #[asn(default(integer(0..7), 5))] pub f3: u8,
    #[asn(default(integer(0..7), 5))] pub f4: u8,
}

impl Ts5ommdde4 {
    pub const fn f0_min() -> u8 {
        0
    }

    pub const fn f0_max() -> u8 {
        7
    }

    pub const fn f1_min() -> u8 {
        0
    }

    pub const fn f1_max() -> u8 {
        7
    }

    pub const fn f2_min() -> u8 {
        0
    }

    pub const fn f2_max() -> u8 {
        7
    }

    pub const fn f3_min() -> u8 {
        0
    }

    pub const fn f3_max() -> u8 {
        7
    }

    pub const fn f4_min() -> u8 {
        0
    }

    pub const fn f4_max() -> u8 {
        7
    }
}

#[asn(sequence, extensible_after(f4))]

#[derive(Default, Debug, Clone, PartialEq, Hash)]
pub struct Ts5ommdde5 {
    #[asn(optional(integer(0..7)))] pub f0: Option<u8>,
    #[asn(integer(0..7))] pub f1: u8,
    #[asn(integer(0..7))] pub f2: u8,
    #[asn(default(integer(0..7), 5))] pub f3: u8,
    #[asn(default(integer(0..7), 5))] pub f4: u8,
}

impl Ts5ommdde5 {
    pub const fn f0_min() -> u8 {
        0
    }

    pub const fn f0_max() -> u8 {
        7
    }

    pub const fn f1_min() -> u8 {
        0
    }

    pub const fn f1_max() -> u8 {
        7
    }

    pub const fn f2_min() -> u8 {
        0
    }

    pub const fn f2_max() -> u8 {
        7
    }

    pub const fn f3_min() -> u8 {
        0
    }

    pub const fn f3_max() -> u8 {
        7
    }

    pub const fn f4_min() -> u8 {
        0
    }

    pub const fn f4_max() -> u8 {
        7
    }
}

#[asn(sequence)]

#[derive(Default, Debug, Clone, PartialEq, Hash)]
pub struct Ts5dmmddn {
    #[asn(default(integer(0..7), 5))] pub f0: u8,
    #[asn(integer(0..7))] pub f1: u8,
    #[asn(integer(0..7))] pub f2: u8,
    #[asn(default(integer(0..7), 5))] pub f3: u8,
    #[asn(default(integer(0..7), 5))] pub f4: u8,
}

impl Ts5dmmddn {
    pub const fn f0_min() -> u8 {
        0
    }

    pub const fn f0_max() -> u8 {
        7
    }

    pub const fn f1_min() -> u8 {
        0
    }

    pub const fn f1_max() -> u8 {
        7
    }

    pub const fn f2_min() -> u8 {
        0
    }

    pub const fn f2_max() -> u8 {
        7
    }

    pub const fn f3_min() -> u8 {
        0
    }

    pub const fn f3_max() -> u8 {
        7
    }

    pub const fn f4_min() -> u8 {
        0
    }

    pub const fn f4_max() -> u8 {
        7
    }
}

#[asn(sequence, extensible_after(f0))]

#[derive(Default, Debug, Clone, PartialEq, Hash)]
pub struct Ts5dmmdde0 {
    #[asn(default(integer(0..7), 5))] pub f0: u8,
    #[asn(optional(integer(0..7)))] pub f1: Option<u8>,
    #[asn(optional(integer(0..7)))] pub f2: Option<u8>,
    #[asn(default(integer(0..7), 5))] pub f3: u8,
    #[asn(default(integer(0..7), 5))] pub f4: u8,
}

impl Ts5dmmdde0 {
    pub const fn f0_min() -> u8 {
        0
    }

    pub const fn f0_max() -> u8 {
        7
    }

    pub const fn f1_min() -> u8 {
        0
    }

    pub const fn f1_max() -> u8 {
        7
    }

    pub const fn f2_min() -> u8 {
        0
    }

    pub const fn f2_max() -> u8 {
        7
    }

    pub const fn f3_min() -> u8 {
        0
    }

    pub const fn f3_max() -> u8 {
        7
    }

    pub const fn f4_min() -> u8 {
        0
    }

    pub const fn f4_max() -> u8 {
        7
    }
}

#[asn(sequence, extensible_after(f0))]

#[derive(Default, Debug, Clone, PartialEq, Hash)]
pub struct Ts5dmmdde1 {
    #[asn(default(integer(0..7), 5))] pub f0: u8,
    #[asn(optional(integer(0..7)))] pub f1: Option<u8>,
    #[asn(optional(integer(0..7)))] pub f2: Option<u8>,
    #[asn(default(integer(0..7), 5))] pub f3: u8,
    #[asn(default(integer(0..7), 5))] pub f4: u8,
}

impl Ts5dmmdde1 {
    pub const fn f0_min() -> u8 {
        0
    }

    pub const fn f0_max() -> u8 {
        7
    }

    pub const fn f1_min() -> u8 {
        0
    }

    pub const fn f1_max() -> u8 {
        7
    }

    pub const fn f2_min() -> u8 {
        0
    }

    pub const fn f2_max() -> u8 {
        7
    }

    pub const fn f3_min() -> u8 {
        0
    }

    pub const fn f3_max() -> u8 {
        7
    }

    pub const fn f4_min() -> u8 {
        0
    }

    pub const fn f4_max() -> u8 {
        7
    }
}

#[asn(sequence, extensible_after(f1))]

#[derive(Default, Debug, Clone, PartialEq, Hash)]
pub struct Ts5dmmdde2 {
    #[asn(default(integer(0..7), 5))] pub f0: u8,
    #[asn(integer(0..7))] pub f1: u8,
    #[asn(optional(integer(0..7)))] pub f2: Option<u8>,
    #[asn(default(integer(0..7), 5))] pub f3: u8,
    #[asn(default(integer(0..7), 5))] pub f4: u8,
}

impl Ts5dmmdde2 {
    pub const fn f0_min() -> u8 {
        0
    }

    pub const fn f0_max() -> u8 {
        7
    }

    pub const fn f1_min() -> u8 {
        0
    }

    pub const fn f1_max() -> u8 {
        7
    }

    pub const fn f2_min() -> u8 {
        0
    }

    pub const fn f2_max() -> u8 {
        7
    }

    pub const fn f3_min() -> u8 {
        0
    }

    pub const fn f3_max() -> u8 {
        7
    }

    pub const fn f4_min() -> u8 {
        0
    }

    pub const fn f4_max() -> u8 {
        7
    }
}

#[asn(sequence, extensible_after(f2))]

#[derive(Default, Debug, Clone, PartialEq, Hash)]
pub struct Ts5dmmdde3 {
    #[asn(default(integer(0..7), 5))] pub f0: u8,
    #[asn(integer(0..7))] pub f1: u8,
    #[asn(integer(0..7))] pub f2: u8,
    #[asn(default(integer(0..7), 5))] pub f3: u8,
    #[asn(default(integer(0..7), 5))] pub f4: u8,
}

impl Ts5dmmdde3 {
    pub const fn f0_min() -> u8 {
        0
    }

    pub const fn f0_max() -> u8 {
        7
    }

    pub const fn f1_min() -> u8 {
        0
    }

    pub const fn f1_max() -> u8 {
        7
    }

    pub const fn f2_min() -> u8 {
        0
    }

    pub const fn f2_max() -> u8 {
        7
    }

    pub const fn f3_min() -> u8 {
        0
    }

    pub const fn f3_max() -> u8 {
        7
    }

    pub const fn f4_min() -> u8 {
        0
    }

    pub const fn f4_max() -> u8 {
        7
    }
}

#[asn(sequence, extensible_after(f3))]

#[derive(Default, Debug, Clone, PartialEq, Hash)]
pub struct Ts5dmmdde4 {
    #[asn(default(integer(0..7), 5))] pub f0: u8,
    #[asn(integer(0..7))] pub f1: u8,
    #[asn(integer(0..7))] pub f2: u8,
    #[asn(default(integer(0..7), 5))] pub f3: u8,
    #[asn(default(integer(0..7), 5))] pub f4: u8,
}

impl Ts5dmmdde4 {
    pub const fn f0_min() -> u8 {
        0
    }

    pub const fn f0_max() -> u8 {
        7
    }

    pub const fn f1_min() -> u8 {
        0
    }

    pub const fn f1_max() -> u8 {
        7
    }

    pub const fn f2_min() -> u8 {
        0
    }

    pub const fn f2_max() -> u8 {
        7
    }

    pub const fn f3_min() -> u8 {
        0
    }

    pub const fn f3_max() -> u8 {
        7
    }

    pub const fn f4_min() -> u8 {
        0
    }

    pub const fn f4_max() -> u8 {
        7
    }
}

#[asn(sequence, extensible_after(f4))]

#[derive(Default, Debug, Clone, PartialEq, Hash)]
pub struct Ts5dmmdde5 {
    #[asn(default(integer(0..7), 5))] pub f0: u8,
    #[asn(integer(0..7))] pub f1: u8,
    #[asn(integer(0..7))] pub f2: u8,
    #[asn(default(integer(0..7), 5))] pub f3: u8,
    #[asn(default(integer(0..7), 5))] pub f4: u8,
}

impl Ts5dmmdde5 {
    pub const fn f0_min() -> u8 {
        0
    }

    pub const fn f0_max() -> u8 {
        7
    }

    pub const fn f1_min() -> u8 {
        0
    }

    pub const fn f1_max() -> u8 {
        7
    }

    pub const fn f2_min() -> u8 {
        0
    }

    pub const fn f2_max() -> u8 {
        7
    }

    pub const fn f3_min() -> u8 {
        0
    }

    pub const fn f3_max() -> u8 {
        7
    }

    pub const fn f4_min() -> u8 {
        0
    }

    pub const fn f4_max() -> u8 {
        7
    }
}

#[asn(sequence)]

#[derive(Default, Debug, Clone, PartialEq, Hash)]
pub struct Ts5momddn {
    #[asn(integer(0..7))] pub f0: u8,
    #[asn(optional(integer(0..7)))] pub f1: Option<u8>,
    #[asn(integer(0..7))] pub f2: u8,
    #[asn(default(integer(0..7), 5))] pub f3: u8,
    #[asn(default(integer(0..7), 5))] pub f4: u8,
}

impl Ts5momddn {
    pub const fn f0_min() -> u8 {
        0
    }

    pub const fn f0_max() -> u8 {
        7
    }

    pub const fn f1_min() -> u8 {
        0
    }

    pub const fn f1_max() -> u8 {
        7
    }

    pub const fn f2_min() -> u8 {
        0
    }

    pub const fn f2_max() -> u8 {
        7
    }

    pub const fn f3_min() -> u8 {
        0
    }

    pub const fn f3_max() -> u8 {
        7
    }

    pub const fn f4_min() -> u8 {
        0
    }

    pub const fn f4_max() -> u8 {
        7
    }
}

#[asn(sequence, extensible_after(f0))]

#[derive(Default, Debug, Clone, PartialEq, Hash)]
pub struct Ts5momdde0 {
    #[asn(integer(0..7))] pub f0: u8,
    #[asn(optional(integer(0..7)))] pub f1: Option<u8>,
    #[asn(optional(integer(0..7)))] pub f2: Option<u8>,
    #[asn(default(integer(0..7), 5))] pub f3: u8,
    #[asn(default(integer(0..7), 5))] pub f4: u8,
}

impl Ts5momdde0 {
    pub const fn f0_min() -> u8 {
        0
    }

    pub const fn f0_max() -> u8 {
        7
    }

    pub const fn f1_min() -> u8 {
        0
    }

    pub const fn f1_max() -> u8 {
        7
    }

    pub const fn f2_min() -> u8 {
        0
    }

    pub const fn f2_max() -> u8 {
        7
    }

    pub const fn f3_min() -> u8 {
        0
    }

    pub const fn f3_max() -> u8 {
        7
    }

    pub const fn f4_min() -> u8 {
        0
    }

    pub const fn f4_max() -> u8 {
        7
    }
}

#[asn(sequence, extensible_after(f0))]

#[derive(Default, Debug, Clone, PartialEq, Hash)]
pub struct Ts5momdde1 {
    #[asn(integer(0..7))] pub f0: u8,
    #[asn(optional(integer(0..7)))] pub f1: Option<u8>,
    #[asn(optional(integer(0..7)))] pub f2: Option<u8>,
    #[asn(default(integer(0..7), 5))] pub f3: u8,
    #[asn(default(integer(0..7), 5))] pub f4: u8,
}

impl Ts5momdde1 {
    pub const fn f0_min() -> u8 {
        0
    }

    pub const fn f0_max() -> u8 {
        7
    }

    pub const fn f1_min() -> u8 {
        0
    }

    pub const fn f1_max() -> u8 {
        7
    }

    pub const fn f2_min() -> u8 {
        0
    }

    pub const fn f2_max() -> u8 {
        7
    }

    pub const fn f3_min() -> u8 {
        0
    }

    pub const fn f3_max() -> u8 {
        7
    }

    pub const fn f4_min() -> u8 {
        0
    }

    pub const fn f4_max() -> u8 {
        7
    }
}

#[asn(sequence, extensible_after(f1))]

#[derive(Default, Debug, Clone, PartialEq, Hash)]
pub struct Ts5momdde2 {
    #[asn(integer(0..7))] pub f0: u8,
    #[asn(optional(integer(0..7)))] pub f1: Option<u8>,
    #[asn(optional(integer(0..7)))] pub f2: Option<u8>,
    #[asn(default(integer(0..7), 5))] pub f3: u8,
    #[asn(default(integer(0..7), 5))] pub f4: u8,
}

impl Ts5momdde2 {
    pub const fn f0_min() -> u8 {
        0
    }

    pub const fn f0_max() -> u8 {
        7
    }

    pub const fn f1_min() -> u8 {
        0
    }

    pub const fn f1_max() -> u8 {
        7
    }

    pub const fn f2_min() -> u8 {
        0
    }

    pub const fn f2_max() -> u8 {
        7
    }

    pub const fn f3_min() -> u8 {
        0
    }

    pub const fn f3_max() -> u8 {
        7
    }

    pub const fn f4_min() -> u8 {
        0
    }

    pub const fn f4_max() -> u8 {
        7
    }
}

#[asn(sequence, extensible_after(f2))]

#[derive(Default, Debug, Clone, PartialEq, Hash)]
pub struct Ts5momdde3 {
    #[asn(integer(0..7))] pub f0: u8,
    #[asn(optional(integer(0..7)))] pub f1: Option<u8>,
    #[asn(integer(0..7))] pub f2: u8,
    #[asn(default(integer(0..7), 5))] pub f3: u8,
    #[asn(default(integer(0..7), 5))] pub f4: u8,
}

impl Ts5momdde3 {
    pub const fn f0_min() -> u8 {
        0
    }

    pub const fn f0_max() -> u8 {
        7
    }

    pub const fn f1_min() -> u8 {
        0
    }

    pub const fn f1_max() -> u8 {
        7
    }

    pub const fn f2_min() -> u8 {
        0
    }

    pub const fn f2_max() -> u8 {
        7
    }

    pub const fn f3_min() -> u8 {
        0
    }

    pub const fn f3_max() -> u8 {
        7
    }

    pub const fn f4_min() -> u8 {
        0
    }

    pub const fn f4_max() -> u8 {
        7
    }
}

#[asn(sequence, extensible_after(f3))]

#[derive(Default, Debug, Clone, PartialEq, Hash)]
pub struct Ts5momdde4 {
    #[asn(integer(0..7))] pub f0: u8,
    #[asn(optional(integer(0..7)))] pub f1: Option<u8>,
    #[asn(integer(0..7))] pub f2: u8,
    #[asn(default(integer(0..7), 5))] pub f3: u8,
    #[asn(default(integer(0..7), 5))] pub f4: u8,
}

impl Ts5momdde4 {
    pub const fn f0_min() -> u8 {
        0
    }

    pub const fn f0_max() -> u8 {
        7
    }

    pub const fn f1_min() -> u8 {
        0
    }

    pub const fn f1_max() -> u8 {
        7
    }

    pub const fn f2_min() -> u8 {
        0
    }

    pub const fn f2_max() -> u8 {
        7
    }

    pub const fn f3_min() -> u8 {
        0
    }

    pub const fn f3_max() -> u8 {
        7
    }

    pub const fn f4_min() -> u8 {
        0
    }

    pub const fn f4_max() -> u8 {
        7
    }
}

#[asn(sequence, extensible_after(f4))]

#[derive(Default, Debug, Clone, PartialEq, Hash)]
pub struct Ts5momdde5 {
    #[asn(integer(0..7))] pub f0: u8,
    #[asn(optional(integer(0..7)))] pub f1: Option<u8>,
    #[asn(integer(0..7))] pub f2: u8,
    #[asn(default(integer(0..7), 5))] pub f3: u8,
    #[asn(default(integer(0..7), 5))] pub f4: u8,
}

impl Ts5momdde5 {
    pub const fn f0_min() -> u8 {
        0
    }

    pub const fn f0_max() -> u8 {
        7
    }

    pub const fn f1_min() -> u8 {
        0
    }

    pub const fn f1_max() -> u8 {
        7
    }

    pub const fn f2_min() -> u8 {
        0
    }

    pub const fn f2_max() -> u8 {
        7
    }

    pub const fn f3_min() -> u8 {
        0
    }

    pub const fn f3_max() -> u8 {
        7
    }

    pub const fn f4_min() -> u8 {
        0
    }

    pub const fn f4_max() -> u8 {
        7
    }
}

#[asn(sequence)]

#[derive(Default, Debug, Clone, PartialEq, Hash)]
pub struct Ts5oomddn {
    #[asn(optional(integer(0..7)))] pub f0: Option<u8>,
    #[asn(optional(integer(0..7)))] pub f1: Option<u8>,
    #[asn(integer(0..7))] pub f2: u8,
    #[asn(default(integer(0..7), 5))] pub f3: u8,
    #[asn(default(integer(0..7), 5))] pub f4: u8,
}

impl Ts5oomddn {
    pub const fn f0_min() -> u8 {
        0
    }

    pub const fn f0_max() -> u8 {
        7
    }

    pub const fn f1_min() -> u8 {
        0
    }

    pub const fn f1_max() -> u8 {
        7
    }

    pub const fn f2_min() -> u8 {
        0
    }

    pub const fn f2_max() -> u8 {
        7
    }

    pub const fn f3_min() -> u8 {
        0
    }

    pub const fn f3_max() -> u8 {
        7
    }

    pub const fn f4_min() -> u8 {
        0
    }

    pub const fn f4_max() -> u8 {
        7
    }
}

#[asn(sequence, extensible_after(f0))]

#[derive(Default, Debug, Clone, PartialEq, Hash)]
pub struct Ts5oomdde0 {
    #[asn(optional(integer(0..7)))] pub f0: Option<u8>,
    #[asn(optional(integer(0..7)))] pub f1: Option<u8>,
    #[asn(optional(integer(0..7)))] pub f2: Option<u8>,
    #[asn(default(integer(0..7), 5))] pub f3: u8,
    #[asn(default(integer(0..7), 5))] pub f4: u8,
}

impl Ts5oomdde0 {
    pub const fn f0_min() -> u8 {
        0
    }

    pub const fn f0_max() -> u8 {
        7
    }

    pub const fn f1_min() -> u8 {
        0
    }

    pub const fn f1_max() -> u8 {
        7
    }

    pub const fn f2_min() -> u8 {
        0
    }

    pub const fn f2_max() -> u8 {
        7
    }

    pub const fn f3_min() -> u8 {
        0
    }

    pub const fn f3_max() -> u8 {
        7
    }

    pub const fn f4_min() -> u8 {
        0
    }

    pub const fn f4_max() -> u8 {
        7
    }
}

#[asn(sequence, extensible_after(f0))]

#[derive(Default, Debug, Clone, PartialEq, Hash)]
pub struct Ts5oomdde1 {
    #[asn(optional(integer(0..7)))] pub f0: Option<u8>,
    #[asn(optional(integer(0..7)))] pub f1: Option<u8>,
    #[asn(optional(integer(0..7)))] pub f2: Option<u8>,
    #[asn(default(integer(0..7), 5))] pub f3: u8,
    #[asn(default(integer(0..7), 5))] pub f4: u8,
}

impl Ts5oomdde1 {
    pub const fn f0_min() -> u8 {
        0
    }

    pub const fn f0_max() -> u8 {
        7
    }

    pub const fn f1_min() -> u8 {
        0
    }

    pub const fn f1_max() -> u8 {
        7
    }

    pub const fn f2_min() -> u8 {
        0
    }

    pub const fn f2_max() -> u8 {
        7
    }

    pub const fn f3_min() -> u8 {
        0
    }

    pub const fn f3_max() -> u8 {
        7
    }

    pub const fn f4_min() -> u8 {
        0
    }

    pub const fn f4_max() -> u8 {
        7
    }
}

#[asn(sequence, extensible_after(f1))]

#[derive(Default, Debug, Clone, PartialEq, Hash)]
pub struct Ts5oomdde2 {
    #[asn(optional(integer(0..7)))] pub f0: Option<u8>,
    #[asn(optional(integer(0..7)))] pub f1: Option<u8>,
    #[asn(optional(integer(0..7)))] pub f2: Option<u8>,
    #[asn(default(integer(0..7), 5))] pub f3: u8,
    #[asn(default(integer(0..7), 5))] pub f4: u8,
}

impl Ts5oomdde2 {
    pub const fn f0_min() -> u8 {
        0
    }

    pub const fn f0_max() -> u8 {
        7
    }

    pub const fn f1_min() -> u8 {
        0
    }

    pub const fn f1_max() -> u8 {
        7
    }

    pub const fn f2_min() -> u8 {
        0
    }

    pub const fn f2_max() -> u8 {
        7
    }

    pub const fn f3_min() -> u8 {
        0
    }

    pub const fn f3_max() -> u8 {
        7
    }

    pub const fn f4_min() -> u8 {
        0
    }

    pub const fn f4_max() -> u8 {
        7
    }
}

#[asn(sequence, extensible_after(f2))]

#[derive(Default, Debug, Clone, PartialEq, Hash)]
pub struct Ts5oomdde3 {
    #[asn(optional(integer(0..7)))] pub f0: Option<u8>,
    #[asn(optional(integer(0..7)))] pub f1: Option<u8>,
    #[asn(integer(0..7))] pub f2: u8,
    #[asn(default(integer(0..7), 5))] pub f3: u8,
    #[asn(default(integer(0..7), 5))] pub f4: u8,
}

impl Ts5oomdde3 {
    pub const fn f0_min() -> u8 {
        0
    }

    pub const fn f0_max() -> u8 {
        7
    }

    pub const fn f1_min() -> u8 {
        0
    }

    pub const fn f1_max() -> u8 {
        7
    }

    pub const fn f2_min() -> u8 {
        0
    }

    pub const fn f2_max() -> u8 {
        7
    }

    pub const fn f3_min() -> u8 {
        0
    }

    pub const fn f3_max() -> u8 {
        7
    }

    pub const fn f4_min() -> u8 {
        0
    }

    pub const fn f4_max() -> u8 {
        7
    }
}

#[asn(sequence, extensible_after(f3))]

#[derive(Default, Debug, Clone, PartialEq, Hash)]
pub struct Ts5oomdde4 {
    #[asn(optional(integer(0..7)))] pub f0: Option<u8>,
    #[asn(optional(integer(0..7)))] pub f1: Option<u8>,
    #[asn(integer(0..7))] pub f2: u8,
    #[asn(default(integer(0..7), 5))] pub f3: u8,
    #[asn(default(integer(0..7), 5))] pub f4: u8,
}

impl Ts5oomdde4 {
    pub const fn f0_min() -> u8 {
        0
    }

    pub const fn f0_max() -> u8 {
        7
    }

    pub const fn f1_min() -> u8 {
        0
    }

    pub const fn f1_max() -> u8 {
        7
    }

    pub const fn f2_min() -> u8 {
        0
    }

    pub const fn f2_max() -> u8 {
        7
    }

    pub const fn f3_min() -> u8 {
        0
    }

    pub const fn f3_max() -> u8 {
        7
    }

    pub const fn f4_min() -> u8 {
        0
    }

    pub const fn f4_max() -> u8 {
        7
    }
}

#[asn(sequence, extensible_after(f4))]

#[derive(Default, Debug, Clone, PartialEq, Hash)]
pub struct Ts5oomdde5 {
    #[asn(optional(integer(0..7)))] pub f0: Option<u8>,
    #[asn(optional(integer(0..7)))] pub f1: Option<u8>,
    #[asn(integer(0..7))] pub f2: u8,
    #[asn(default(integer(0..7), 5))] pub f3: u8,
    #[asn(default(integer(0..7), 5))] pub f4: u8,
}

impl Ts5oomdde5 {
    pub const fn f0_min() -> u8 {
        0
    }

    pub const fn f0_max() -> u8 {
        7
    }

    pub const fn f1_min() -> u8 {
        0
    }

    pub const fn f1_max() -> u8 {
        7
    }

    pub const fn f2_min() -> u8 {
        0
    }

    pub const fn f2_max() -> u8 {
        7
    }

    pub const fn f3_min() -> u8 {
        0
    }

    pub const fn f3_max() -> u8 {
        7
    }

    pub const fn f4_min() -> u8 {
        0
    }

    pub const fn f4_max() -> u8 {
        7
    }
}

#[asn(sequence)]

#[derive(Default, Debug, Clone, PartialEq, Hash)]
pub struct Ts5domddn {
    #[asn(default(integer(0..7), 5))] pub f0: u8,
    #[asn(optional(integer(0..7)))] pub f1: Option<u8>,
    #[asn(integer(0..7))] pub f2: u8,
    #[asn(default(integer(0..7), 5))] pub f3: u8,
    #[asn(default(integer(0..7), 5))] pub f4: u8,
}

impl Ts5domddn {
    pub const fn f0_min() -> u8 {
        0
    }

    pub const fn f0_max() -> u8 {
        7
    }

    pub const fn f1_min() -> u8 {
        0
    }

    pub const fn f1_max() -> u8 {
        7
    }

    pub const fn f2_min() -> u8 {
        0
    }

    pub const fn f2_max() -> u8 {
        7
    }

    pub const fn f3_min() -> u8 {
        0
    }

    pub const fn f3_max() -> u8 {
        7
    }

    pub const fn f4_min() -> u8 {
        0
    }

    pub const fn f4_max() -> u8 {
        7
    }
}

#[asn(sequence, extensible_after(f0))]

#[derive(Default, Debug, Clone, PartialEq, Hash)]
pub struct Ts5domdde0 {
    #[asn(default(integer(0..7), 5))] pub f0: u8,
    #[asn(optional(integer(0..7)))] pub f1: Option<u8>,
    #[asn(optional(integer(0..7)))] pub f2: Option<u8>,
    #[asn(default(integer(0..7), 5))] pub f3: u8,
    #[asn(default(integer(0..7), 5))] pub f4: u8,
}

impl Ts5domdde0 {
    pub const fn f0_min() -> u8 {
        0
    }

    pub const fn f0_max() -> u8 {
        7
    }

    pub const fn f1_min() -> u8 {
        0
    }

    pub const fn f1_max() -> u8 {
        7
    }

    pub const fn f2_min() -> u8 {
        0
    }

    pub const fn f2_max() -> u8 {
        7
    }

    pub const fn f3_min() -> u8 {
        0
    }

    pub const fn f3_max() -> u8 {
        7
    }

    pub const fn f4_min() -> u8 {
        0
    }

    pub const fn f4_max() -> u8 {
        7
    }
}

#[asn(sequence, extensible_after(f0))]

#[derive(Default, Debug, Clone, PartialEq, Hash)]
pub struct Ts5domdde1 {
    #[asn(default(integer(0..7), 5))] pub f0: u8,
    #[asn(optional(integer(0..7)))] pub f1: Option<u8>,
    #[asn(optional(integer(0..7)))] pub f2: Option<u8>,
    #[asn(default(integer(0..7), 5))] pub f3: u8,
    #[asn(default(integer(0..7), 5))] pub f4: u8,
}

impl Ts5domdde1 {
    pub const fn f0_min() -> u8 {
        0
    }

    pub const fn f0_max() -> u8 {
        7
    }

    pub const fn f1_min() -> u8 {
        0
    }

    pub const fn f1_max() -> u8 {
        7
    }

    pub const fn f2_min() -> u8 {
        0
    }

    pub const fn f2_max() -> u8 {
        7
    }

    pub const fn f3_min() -> u8 {
        0
    }

    pub const fn f3_max() -> u8 {
        7
    }

    pub const fn f4_min() -> u8 {
        0
    }

    pub const fn f4_max() -> u8 {
        7
    }
}

#[asn(sequence, extensible_after(f1))]

#[derive(Default, Debug, Clone, PartialEq, Hash)]
pub struct Ts5domdde2 {
    #[asn(default(integer(0..7), 5))] pub f0: u8,
    #[asn(optional(integer(0..7)))] pub f1: Option<u8>,
    #[asn(optional(integer(0..7)))] pub f2: Option<u8>,
    #[asn(default(integer(0..7), 5))] pub f3: u8,
    #[asn(default(integer(0..7), 5))] pub f4: u8,
}

impl Ts5domdde2 {
    pub const fn f0_min() -> u8 {
        0
    }

    pub const fn f0_max() -> u8 {
        7
    }

    pub const fn f1_min() -> u8 {
        0
    }

    pub const fn f1_max() -> u8 {
        7
    }

    pub const fn f2_min() -> u8 {
        0
    }

    pub const fn f2_max() -> u8 {
        7
    }

    pub const fn f3_min() -> u8 {
        0
    }

    pub const fn f3_max() -> u8 {
        7
    }

    pub const fn f4_min() -> u8 {
        0
    }

    pub const fn f4_max() -> u8 {
        7
    }
}

#[asn(sequence, extensible_after(f2))]

#[derive(Default, Debug, Clone, PartialEq, Hash)]
pub struct Ts5domdde3 {
    #[asn(default(integer(0..7), 5))] pub f0: u8,
    #[asn(optional(integer(0..7)))] pub f1: Option<u8>,
    #[asn(integer(0..7))] pub f2: u8,
    #[asn(default(integer(0..7), 5))] pub f3: u8,
    #[asn(default(integer(0..7), 5))] pub f4: u8,
}

impl Ts5domdde3 {
    pub const fn f0_min() -> u8 {
        0
    }

    pub const fn f0_max() -> u8 {
        7
    }

    pub const fn f1_min() -> u8 {
        0
    }

    pub const fn f1_max() -> u8 {
        7
    }

    pub const fn f2_min() -> u8 {
        0
    }

    pub const fn f2_max() -> u8 {
        7
    }

    pub const fn f3_min() -> u8 {
        0
    }

    pub const fn f3_max() -> u8 {
        7
    }

    pub const fn f4_min() -> u8 {
        0
    }

    pub const fn f4_max() -> u8 {
        7
    }
}

#[asn(sequence, extensible_after(f3))]

#[derive(Default, Debug, Clone, PartialEq, Hash)]
pub struct Ts5domdde4 {
    #[asn(default(integer(0..7), 5))] pub f0: u8,
    #[asn(optional(integer(0..7)))] pub f1: Option<u8>,
    #[asn(integer(0..7))] pub f2: u8,
    #[asn(default(integer(0..7), 5))] pub f3: u8,
    #[asn(default(integer(0..7), 5))] pub f4: u8,
}

impl Ts5domdde4 {
    pub const fn f0_min() -> u8 {
        0
    }

    pub const fn f0_max() -> u8 {
        7
    }

    pub const fn f1_min() -> u8 {
        0
    }

    pub const fn f1_max() -> u8 {
        7
    }

    pub const fn f2_min() -> u8 {
        0
    }

    pub const fn f2_max() -> u8 {
        7
    }

    pub const fn f3_min() -> u8 {
        0
    }

    pub const fn f3_max() -> u8 {
        7
    }

    pub const fn f4_min() -> u8 {
        0
    }

    pub const fn f4_max() -> u8 {
        7
    }
}

#[asn(sequence, extensible_after(f4))]

#[derive(Default, Debug, Clone, PartialEq, Hash)]
pub struct Ts5domdde5 {
    #[asn(default(integer(0..7), 5))] pub f0: u8,
    #[asn(optional(integer(0..7)))] pub f1: Option<u8>,
    #[asn(integer(0..7))] pub f2: u8,
    #[asn(default(integer(0..7), 5))] pub f3: u8,
    #[asn(default(integer(0..7), 5))] pub f4: u8,
}

impl Ts5domdde5 {
    pub const fn f0_min() -> u8 {
        0
    }

    pub const fn f0_max() -> u8 {
        7
    }

    pub const fn f1_min() -> u8 {
        0
    }

    pub const fn f1_max() -> u8 {
        7
    }

    pub const fn f2_min() -> u8 {
        0
    }

    pub const fn f2_max() -> u8 {
        7
    }

    pub const fn f3_min() -> u8 {
        0
    }

    pub const fn f3_max() -> u8 {
        7
    }

    pub const fn f4_min() -> u8 {
        0
    }

    pub const fn f4_max() -> u8 {
        7
    }
}

#[asn(sequence)]

#[derive(Default, Debug, Clone, PartialEq, Hash)]
pub struct Ts5mdmddn {
    #[asn(integer(0..7))] pub f0: u8,
    #[asn(default(integer(0..7), 5))] pub f1: u8,
    #[asn(integer(0..7))] pub f2: u8,
    #[asn(default(integer(0..7), 5))] pub f3: u8,
    #[asn(default(integer(0..7), 5))] pub f4: u8,
}

impl Ts5mdmddn {
    pub const fn f0_min() -> u8 {
        0
    }

    pub const fn f0_max() -> u8 {
        7
    }

    pub const fn f1_min() -> u8 {
        0
    }

    pub const fn f1_max() -> u8 {
        7
    }

    pub const fn f2_min() -> u8 {
        0
    }

    pub const fn f2_max() -> u8 {
        7
    }

    pub const fn f3_min() -> u8 {
        0
    }

    pub const fn f3_max() -> u8 {
        7
    }

    pub const fn f4_min() -> u8 {
        0
    }

    pub const fn f4_max() -> u8 {
        7
    }
}

#[asn(sequence, extensible_after(f0))]

#[derive(Default, Debug, Clone, PartialEq, Hash)]
pub struct Ts5mdmdde0 {
    #[asn(integer(0..7))] pub f0: u8,
    #[asn(default(integer(0..7), 5))] pub f1: u8,
    #[asn(optional(integer(0..7)))] pub f2: Option<u8>,
    #[asn(default(integer(0..7), 5))] pub f3: u8,
    #[asn(default(integer(0..7), 5))] pub f4: u8,
}

impl Ts5mdmdde0 {
    pub const fn f0_min() -> u8 {
        0
    }

    pub const fn f0_max() -> u8 {
        7
    }

    pub const fn f1_min() -> u8 {
        0
    }

    pub const fn f1_max() -> u8 {
        7
    }

    pub const fn f2_min() -> u8 {
        0
    }

    pub const fn f2_max() -> u8 {
        7
    }

    pub const fn f3_min() -> u8 {
        0
    }

    pub const fn f3_max() -> u8 {
        7
    }

    pub const fn f4_min() -> u8 {
        0
    }

    pub const fn f4_max() -> u8 {
        7
    }
}

#[asn(sequence, extensible_after(f0))]

#[derive(Default, Debug, Clone, PartialEq, Hash)]
pub struct Ts5mdmdde1 {
    #[asn(integer(0..7))] pub f0: u8,
    #[asn(default(integer(0..7), 5))] pub f1: u8,
    #[asn(optional(integer(0..7)))] pub f2: Option<u8>,
    #[asn(default(integer(0..7), 5))] pub f3: u8,
    #[asn(default(integer(0..7), 5))] pub f4: u8,
}

impl Ts5mdmdde1 {
    pub const fn f0_min() -> u8 {
        0
    }

    pub const fn f0_max() -> u8 {
        7
    }

    pub const fn f1_min() -> u8 {
        0
    }

    pub const fn f1_max() -> u8 {
        7
    }

    pub const fn f2_min() -> u8 {
        0
    }

    pub const fn f2_max() -> u8 {
        7
    }

    pub const fn f3_min() -> u8 {
        0
    }

    pub const fn f3_max() -> u8 {
        7
    }

    pub const fn f4_min() -> u8 {
        0
    }

    pub const fn f4_max() -> u8 {
        7
    }
}

#[asn(sequence, extensible_after(f1))]

#[derive(Default, Debug, Clone, PartialEq, Hash)]
pub struct Ts5mdmdde2 {
    #[asn(integer(0..7))] pub f0: u8,
    #[asn(default(integer(0..7), 5))] pub f1: u8,
    #[asn(optional(integer(0..7)))] pub f2: Option<u8>,
    #[asn(default(integer(0..7), 5))] pub f3: u8,
    #[asn(default(integer(0..7), 5))] pub f4: u8,
}

impl Ts5mdmdde2 {
    pub const fn f0_min() -> u8 {
        0
    }

    pub const fn f0_max() -> u8 {
        7
    }

    pub const fn f1_min() -> u8 {
        0
    }

    pub const fn f1_max() -> u8 {
        7
    }

    pub const fn f2_min() -> u8 {
        0
    }

    pub const fn f2_max() -> u8 {
        7
    }

    pub const fn f3_min() -> u8 {
        0
    }

    pub const fn f3_max() -> u8 {
        7
    }

    pub const fn f4_min() -> u8 {
        0
    }

    pub const fn f4_max() -> u8 {
        7
    }
}

#[asn(sequence, extensible_after(f2))]

#[derive(Default, Debug, Clone, PartialEq, Hash)]
pub struct Ts5mdmdde3 {
    #[asn(integer(0..7))] pub f0: u8,
    #[asn(default(integer(0..7), 5))] pub f1: u8,
    #[asn(integer(0..7))] pub f2: u8,
    #[asn(default(integer(0..7), 5))] pub f3: u8,
    #[asn(default(integer(0..7), 5))] pub f4: u8,
}

impl Ts5mdmdde3 {
    pub const fn f0_min() -> u8 {
        0
    }

    pub const fn f0_max() -> u8 {
        7
    }

    pub const fn f1_min() -> u8 {
        0
    }

    pub const fn f1_max() -> u8 {
        7
    }

    pub const fn f2_min() -> u8 {
        0
    }

    pub const fn f2_max() -> u8 {
        7
    }

    pub const fn f3_min() -> u8 {
        0
    }

    pub const fn f3_max() -> u8 {
        7
    }

    pub const fn f4_min() -> u8 {
        0
    }

    pub const fn f4_max() -> u8 {
        7
    }
}

#[asn(sequence, extensible_after(f3))]

#[derive(Default, Debug, Clone, PartialEq, Hash)]
pub struct Ts5mdmdde4 {
    #[asn(integer(0..7))] pub f0: u8,
    #[asn(default(integer(0..7), 5))] pub f1: u8,
    #[asn(integer(0..7))] pub f2: u8,
    #[asn(default(integer(0..7), 5))] pub f3: u8,
    #[asn(default(integer(0..7), 5))] pub f4: u8,
}

impl Ts5mdmdde4 {
    pub const fn f0_min() -> u8 {
        0
    }

    pub const fn f0_max() -> u8 {
        7
    }

    pub const fn f1_min() -> u8 {
        0
    }

    pub const fn f1_max() -> u8 {
        7
    }

    pub const fn f2_min() -> u8 {
        0
    }

    pub const fn f2_max() -> u8 {
        7
    }

    pub const fn f3_min() -> u8 {
        0
    }

    pub const fn f3_max() -> u8 {
        7
    }

    pub const fn f4_min() -> u8 {
        0
    }

    pub const fn f4_max() -> u8 {
        7
    }
}
// ---- harness conversions (generated by the zoo build script from the items above) ----
impl FromValue for Ts5odoode4 {
    fn from_value(v: &Value) -> Self {
        let s = match v { Value::Seq(s) => s, other => panic!("Ts5odoode4: expected Seq, got {other:?}") };
        assert_eq!(s.len(), 5, "Ts5odoode4: component count");
        let _ = s;
        Ts5odoode4 {
            f0: s[0].as_ref().map(FromValue::from_value),
            f1: FromValue::from_value(s[1].as_ref().expect("component f1 of Ts5odoode4 must be present")),
            f2: s[2].as_ref().map(FromValue::from_value),
            f3: s[3].as_ref().map(FromValue::from_value),
            f4: FromValue::from_value(s[4].as_ref().expect("component f4 of Ts5odoode4 must be present")),
        }
    }
}
impl ToValue for Ts5odoode4 {
    fn to_value(&self) -> Value {
        Value::Seq(vec![
            self.f0.as_ref().map(|x| x.to_value()),
            Some(self.f1.to_value()),
            self.f2.as_ref().map(|x| x.to_value()),
            self.f3.as_ref().map(|x| x.to_value()),
            Some(self.f4.to_value()),
        ])
    }
}
impl FromValue for Ts5odoode5 {
    fn from_value(v: &Value) -> Self {
        let s = match v { Value::Seq(s) => s, other => panic!("Ts5odoode5: expected Seq, got {other:?}") };
        assert_eq!(s.len(), 5, "Ts5odoode5: component count");
        let _ = s;
        Ts5odoode5 {
            f0: s[0].as_ref().map(FromValue::from_value),
            f1: FromValue::from_value(s[1].as_ref().expect("component f1 of Ts5odoode5 must be present")),
            f2: s[2].as_ref().map(FromValue::from_value),
            f3: s[3].as_ref().map(FromValue::from_value),
            f4: FromValue::from_value(s[4].as_ref().expect("component f4 of Ts5odoode5 must be present")),
        }
    }
}
impl ToValue for Ts5odoode5 {
    fn to_value(&self) -> Value {
        Value::Seq(vec![
            self.f0.as_ref().map(|x| x.to_value()),
            Some(self.f1.to_value()),
            self.f2.as_ref().map(|x| x.to_value()),
            self.f3.as_ref().map(|x| x.to_value()),
            Some(self.f4.to_value()),
        ])
    }
}
impl FromValue for Ts5ddoodn {
    fn from_value(v: &Value) -> Self {
        let s = match v { Value::Seq(s) => s, other => panic!("Ts5ddoodn: expected Seq, got {other:?}") };
        assert_eq!(s.len(), 5, "Ts5ddoodn: component count");
        let _ = s;
        Ts5ddoodn {
            f0: FromValue::from_value(s[0].as_ref().expect("component f0 of Ts5ddoodn must be present")),
            f1: FromValue::from_value(s[1].as_ref().expect("component f1 of Ts5ddoodn must be present")),
            f2: s[2].as_ref().map(FromValue::from_value),
            f3: s[3].as_ref().map(FromValue::from_value),
            f4: FromValue::from_value(s[4].as_ref().expect("component f4 of Ts5ddoodn must be present")),
        }
    }
}
impl ToValue for Ts5ddoodn {
    fn to_value(&self) -> Value {
        Value::Seq(vec![
            Some(self.f0.to_value()),
            Some(self.f1.to_value()),
            self.f2.as_ref().map(|x| x.to_value()),
            self.f3.as_ref().map(|x| x.to_value()),
            Some(self.f4.to_value()),
        ])
    }
}
impl FromValue for Ts5ddoode0 {
    fn from_value(v: &Value) -> Self {
        let s = match v { Value::Seq(s) => s, other => panic!("Ts5ddoode0: expected Seq, got {other:?}") };
        assert_eq!(s.len(), 5, "Ts5ddoode0: component count");
        let _ = s;
        Ts5ddoode0 {
            f0: FromValue::from_value(s[0].as_ref().expect("component f0 of Ts5ddoode0 must be present")),
            f1: FromValue::from_value(s[1].as_ref().expect("component f1 of Ts5ddoode0 must be present")),
            f2: s[2].as_ref().map(FromValue::from_value),
            f3: s[3].as_ref().map(FromValue::from_value),
            f4: FromValue::from_value(s[4].as_ref().expect("component f4 of Ts5ddoode0 must be present")),
        }
    }
}
impl ToValue for Ts5ddoode0 {
    fn to_value(&self) -> Value {
        Value::Seq(vec![
            Some(self.f0.to_value()),
            Some(self.f1.to_value()),
            self.f2.as_ref().map(|x| x.to_value()),
            self.f3.as_ref().map(|x| x.to_value()),
            Some(self.f4.to_value()),
        ])
    }
}
impl FromValue for Ts5ddoode1 {
    fn from_value(v: &Value) -> Self {
        let s = match v { Value::Seq(s) => s, other => panic!("Ts5ddoode1: expected Seq, got {other:?}") };
        assert_eq!(s.len(), 5, "Ts5ddoode1: component count");
        let _ = s;
        Ts5ddoode1 {
            f0: FromValue::from_value(s[0].as_ref().expect("component f0 of Ts5ddoode1 must be present")),
            f1: FromValue::from_value(s[1].as_ref().expect("component f1 of Ts5ddoode1 must be present")),
            f2: s[2].as_ref().map(FromValue::from_value),
            f3: s[3].as_ref().map(FromValue::from_value),
            f4: FromValue::from_value(s[4].as_ref().expect("component f4 of Ts5ddoode1 must be present")),
        }
    }
}
impl ToValue for Ts5ddoode1 {
    fn to_value(&self) -> Value {
        Value::Seq(vec![
            Some(self.f0.to_value()),
            Some(self.f1.to_value()),
            self.f2.as_ref().map(|x| x.to_value()),
            self.f3.as_ref().map(|x| x.to_value()),
            Some(self.f4.to_value()),
        ])
    }
}
impl FromValue for Ts5ddoode2 {
    fn from_value(v: &Value) -> Self {
        let s = match v { Value::Seq(s) => s, other => panic!("Ts5ddoode2: expected Seq, got {other:?}") };
        assert_eq!(s.len(), 5, "Ts5ddoode2: component count");
        let _ = s;
        Ts5ddoode2 {
            f0: FromValue::from_value(s[0].as_ref().expect("component f0 of Ts5ddoode2 must be present")),
            f1: FromValue::from_value(s[1].as_ref().expect("component f1 of Ts5ddoode2 must be present")),
            f2: s[2].as_ref().map(FromValue::from_value),
            f3: s[3].as_ref().map(FromValue::from_value),
            f4: FromValue::from_value(s[4].as_ref().expect("component f4 of Ts5ddoode2 must be present")),
        }
    }
}
impl ToValue for Ts5ddoode2 {
    fn to_value(&self) -> Value {
        Value::Seq(vec![
            Some(self.f0.to_value()),
            Some(self.f1.to_value()),
            self.f2.as_ref().map(|x| x.to_value()),
            self.f3.as_ref().map(|x| x.to_value()),
            Some(self.f4.to_value()),
        ])
    }
}
impl FromValue for Ts5ddoode3 {
    fn from_value(v: &Value) -> Self {
        let s = match v { Value::Seq(s) => s, other => panic!("Ts5ddoode3: expected Seq, got {other:?}") };
        assert_eq!(s.len(), 5, "Ts5ddoode3: component count");
        let _ = s;
        Ts5ddoode3 {
            f0: FromValue::from_value(s[0].as_ref().expect("component f0 of Ts5ddoode3 must be present")),
            f1: FromValue::from_value(s[1].as_ref().expect("component f1 of Ts5ddoode3 must be present")),
            f2: s[2].as_ref().map(FromValue::from_value),
            f3: s[3].as_ref().map(FromValue::from_value),
            f4: FromValue::from_value(s[4].as_ref().expect("component f4 of Ts5ddoode3 must be present")),
        }
    }
}
impl ToValue for Ts5ddoode3 {
    fn to_value(&self) -> Value {
        Value::Seq(vec![
            Some(self.f0.to_value()),
            Some(self.f1.to_value()),
            self.f2.as_ref().map(|x| x.to_value()),
            self.f3.as_ref().map(|x| x.to_value()),
            Some(self.f4.to_value()),
        ])
    }
}
impl FromValue for Ts5ddoode4 {
    fn from_value(v: &Value) -> Self {
        let s = match v { Value::Seq(s) => s, other => panic!("Ts5ddoode4: expected Seq, got {other:?}") };
        assert_eq!(s.len(), 5, "Ts5ddoode4: component count");
        let _ = s;
        Ts5ddoode4 {
            f0: FromValue::from_value(s[0].as_ref().expect("component f0 of Ts5ddoode4 must be present")),
            f1: FromValue::from_value(s[1].as_ref().expect("component f1 of Ts5ddoode4 must be present")),
            f2: s[2].as_ref().map(FromValue::from_value),
            f3: s[3].as_ref().map(FromValue::from_value),
            f4: FromValue::from_value(s[4].as_ref().expect("component f4 of Ts5ddoode4 must be present")),
        }
    }
}
impl ToValue for Ts5ddoode4 {
    fn to_value(&self) -> Value {
        Value::Seq(vec![
            Some(self.f0.to_value()),
            Some(self.f1.to_value()),
            self.f2.as_ref().map(|x| x.to_value()),
            self.f3.as_ref().map(|x| x.to_value()),
            Some(self.f4.to_value()),
        ])
    }
}
impl FromValue for Ts5ddoode5 {
    fn from_value(v: &Value) -> Self {
        let s = match v { Value::Seq(s) => s, other => panic!("Ts5ddoode5: expected Seq, got {other:?}") };
        assert_eq!(s.len(), 5, "Ts5ddoode5: component count");
        let _ = s;
        Ts5ddoode5 {
            f0: FromValue::from_value(s[0].as_ref().expect("component f0 of Ts5ddoode5 must be present")),
            f1: FromValue::from_value(s[1].as_ref().expect("component f1 of Ts5ddoode5 must be present")),
            f2: s[2].as_ref().map(FromValue::from_value),
            f3: s[3].as_ref().map(FromValue::from_value),
            f4: FromValue::from_value(s[4].as_ref().expect("component f4 of Ts5ddoode5 must be present")),
        }
    }
}
impl ToValue for Ts5ddoode5 {
    fn to_value(&self) -> Value {
        Value::Seq(vec![
            Some(self.f0.to_value()),
            Some(self.f1.to_value()),
            self.f2.as_ref().map(|x| x.to_value()),
            self.f3.as_ref().map(|x| x.to_value()),
            Some(self.f4.to_value()),
        ])
    }
}
impl FromValue for Ts5mmdodn {
    fn from_value(v: &Value) -> Self {
        let s = match v { Value::Seq(s) => s, other => panic!("Ts5mmdodn: expected Seq, got {other:?}") };
        assert_eq!(s.len(), 5, "Ts5mmdodn: component count");
        let _ = s;
        Ts5mmdodn {
            f0: FromValue::from_value(s[0].as_ref().expect("component f0 of Ts5mmdodn must be present")),
            f1: FromValue::from_value(s[1].as_ref().expect("component f1 of Ts5mmdodn must be present")),
            f2: FromValue::from_value(s[2].as_ref().expect("component f2 of Ts5mmdodn must be present")),
            f3: s[3].as_ref().map(FromValue::from_value),
            f4: FromValue::from_value(s[4].as_ref().expect("component f4 of Ts5mmdodn must be present")),
        }
    }
}
impl ToValue for Ts5mmdodn {
    fn to_value(&self) -> Value {
        Value::Seq(vec![
            Some(self.f0.to_value()),
            Some(self.f1.to_value()),
            Some(self.f2.to_value()),
            self.f3.as_ref().map(|x| x.to_value()),
            Some(self.f4.to_value()),
        ])
    }
}
impl FromValue for Ts5mmdode0 {
    fn from_value(v: &Value) -> Self {
        let s = match v { Value::Seq(s) => s, other => panic!("Ts5mmdode0: expected Seq, got {other:?}") };
        assert_eq!(s.len(), 5, "Ts5mmdode0: component count");
        let _ = s;
        Ts5mmdode0 {
            f0: FromValue::from_value(s[0].as_ref().expect("component f0 of Ts5mmdode0 must be present")),
            f1: s[1].as_ref().map(FromValue::from_value),
            f2: FromValue::from_value(s[2].as_ref().expect("component f2 of Ts5mmdode0 must be present")),
            f3: s[3].as_ref().map(FromValue::from_value),
            f4: FromValue::from_value(s[4].as_ref().expect("component f4 of Ts5mmdode0 must be present")),
        }
    }
}
impl ToValue for Ts5mmdode0 {
    fn to_value(&self) -> Value {
        Value::Seq(vec![
            Some(self.f0.to_value()),
            self.f1.as_ref().map(|x| x.to_value()),
            Some(self.f2.to_value()),
            self.f3.as_ref().map(|x| x.to_value()),
            Some(self.f4.to_value()),
        ])
    }
}
impl FromValue for Ts5mmdode1 {
    fn from_value(v: &Value) -> Self {
        let s = match v { Value::Seq(s) => s, other => panic!("Ts5mmdode1: expected Seq, got {other:?}") };
        assert_eq!(s.len(), 5, "Ts5mmdode1: component count");
        let _ = s;
        Ts5mmdode1 {
            f0: FromValue::from_value(s[0].as_ref().expect("component f0 of Ts5mmdode1 must be present")),
            f1: s[1].as_ref().map(FromValue::from_value),
            f2: FromValue::from_value(s[2].as_ref().expect("component f2 of Ts5mmdode1 must be present")),
            f3: s[3].as_ref().map(FromValue::from_value),
            f4: FromValue::from_value(s[4].as_ref().expect("component f4 of Ts5mmdode1 must be present")),
        }
    }
}
impl ToValue for Ts5mmdode1 {
    fn to_value(&self) -> Value {
        Value::Seq(vec![
            Some(self.f0.to_value()),
            self.f1.as_ref().map(|x| x.to_value()),
            Some(self.f2.to_value()),
            self.f3.as_ref().map(|x| x.to_value()),
            Some(self.f4.to_value()),
        ])
    }
}
impl FromValue for Ts5mmdode2 {
    fn from_value(v: &Value) -> Self {
        let s = match v { Value::Seq(s) => s, other => panic!("Ts5mmdode2: expected Seq, got {other:?}") };
        assert_eq!(s.len(), 5, "Ts5mmdode2: component count");
        let _ = s;
        Ts5mmdode2 {
            f0: FromValue::from_value(s[0].as_ref().expect("component f0 of Ts5mmdode2 must be present")),
            f1: FromValue::from_value(s[1].as_ref().expect("component f1 of Ts5mmdode2 must be present")),
            f2: FromValue::from_value(s[2].as_ref().expect("component f2 of Ts5mmdode2 must be present")),
            f3: s[3].as_ref().map(FromValue::from_value),
            f4: FromValue::from_value(s[4].as_ref().expect("component f4 of Ts5mmdode2 must be present")),
        }
    }
}
impl ToValue for Ts5mmdode2 {
    fn to_value(&self) -> Value {
        Value::Seq(vec![
            Some(self.f0.to_value()),
            Some(self.f1.to_value()),
            Some(self.f2.to_value()),
            self.f3.as_ref().map(|x| x.to_value()),
            Some(self.f4.to_value()),
        ])
    }
}
impl FromValue for Ts5mmdode3 {
    fn from_value(v: &Value) -> Self {
        let s = match v { Value::Seq(s) => s, other => panic!("Ts5mmdode3: expected Seq, got {other:?}") };
        assert_eq!(s.len(), 5, "Ts5mmdode3: component count");
        let _ = s;
        Ts5mmdode3 {
            f0: FromValue::from_value(s[0].as_ref().expect("component f0 of Ts5mmdode3 must be present")),
            f1: FromValue::from_value(s[1].as_ref().expect("component f1 of Ts5mmdode3 must be present")),
            f2: FromValue::from_value(s[2].as_ref().expect("component f2 of Ts5mmdode3 must be present")),
            f3: s[3].as_ref().map(FromValue::from_value),
            f4: FromValue::from_value(s[4].as_ref().expect("component f4 of Ts5mmdode3 must be present")),
        }
    }
}
impl ToValue for Ts5mmdode3 {
    fn to_value(&self) -> Value {
        Value::Seq(vec![
            Some(self.f0.to_value()),
            Some(self.f1.to_value()),
            Some(self.f2.to_value()),
            self.f3.as_ref().map(|x| x.to_value()),
            Some(self.f4.to_value()),
        ])
    }
}
impl FromValue for Ts5mmdode4 {
    fn from_value(v: &Value) -> Self {
        let s = match v { Value::Seq(s) => s, other => panic!("Ts5mmdode4: expected Seq, got {other:?}") };
        assert_eq!(s.len(), 5, "Ts5mmdode4: component count");
        let _ = s;
        Ts5mmdode4 {
            f0: FromValue::from_value(s[0].as_ref().expect("component f0 of Ts5mmdode4 must be present")),
            f1: FromValue::from_value(s[1].as_ref().expect("component f1 of Ts5mmdode4 must be present")),
            f2: FromValue::from_value(s[2].as_ref().expect("component f2 of Ts5mmdode4 must be present")),
            f3: s[3].as_ref().map(FromValue::from_value),
            f4: FromValue::from_value(s[4].as_ref().expect("component f4 of Ts5mmdode4 must be present")),
        }
    }
}
impl ToValue for Ts5mmdode4 {
    fn to_value(&self) -> Value {
        Value::Seq(vec![
            Some(self.f0.to_value()),
            Some(self.f1.to_value()),
            Some(self.f2.to_value()),
            self.f3.as_ref().map(|x| x.to_value()),
            Some(self.f4.to_value()),
        ])
    }
}
impl FromValue for Ts5mmdode5 {
    fn from_value(v: &Value) -> Self {
        let s = match v { Value::Seq(s) => s, other => panic!("Ts5mmdode5: expected Seq, got {other:?}") };
        assert_eq!(s.len(), 5, "Ts5mmdode5: component count");
        let _ = s;
        Ts5mmdode5 {
            f0: FromValue::from_value(s[0].as_ref().expect("component f0 of Ts5mmdode5 must be present")),
            f1: FromValue::from_value(s[1].as_ref().expect("component f1 of Ts5mmdode5 must be present")),
            f2: FromValue::from_value(s[2].as_ref().expect("component f2 of Ts5mmdode5 must be present")),
            f3: s[3].as_ref().map(FromValue::from_value),
            f4: FromValue::from_value(s[4].as_ref().expect("component f4 of Ts5mmdode5 must be present")),
        }
    }
}
impl ToValue for Ts5mmdode5 {
    fn to_value(&self) -> Value {
        Value::Seq(vec![
            Some(self.f0.to_value()),
            Some(self.f1.to_value()),
            Some(self.f2.to_value()),
            self.f3.as_ref().map(|x| x.to_value()),
            Some(self.f4.to_value()),
        ])
    }
}
impl FromValue for Ts5omdodn {
    fn from_value(v: &Value) -> Self {
        let s = match v { Value::Seq(s) => s, other => panic!("Ts5omdodn: expected Seq, got {other:?}") };
        assert_eq!(s.len(), 5, "Ts5omdodn: component count");
        let _ = s;
        Ts5omdodn {
            f0: s[0].as_ref().map(FromValue::from_value),
            f1: FromValue::from_value(s[1].as_ref().expect("component f1 of Ts5omdodn must be present")),
            f2: FromValue::from_value(s[2].as_ref().expect("component f2 of Ts5omdodn must be present")),
            f3: s[3].as_ref().map(FromValue::from_value),
            f4: FromValue::from_value(s[4].as_ref().expect("component f4 of Ts5omdodn must be present")),
        }
    }
}
impl ToValue for Ts5omdodn {
    fn to_value(&self) -> Value {
        Value::Seq(vec![
            self.f0.as_ref().map(|x| x.to_value()),
            Some(self.f1.to_value()),
            Some(self.f2.to_value()),
            self.f3.as_ref().map(|x| x.to_value()),
            Some(self.f4.to_value()),
        ])
    }
}
impl FromValue for Ts5omdode0 {
    fn from_value(v: &Value) -> Self {
        let s = match v { Value::Seq(s) => s, other => panic!("Ts5omdode0: expected Seq, got {other:?}") };
        assert_eq!(s.len(), 5, "Ts5omdode0: component count");
        let _ = s;
        Ts5omdode0 {
            f0: s[0].as_ref().map(FromValue::from_value),
            f1: s[1].as_ref().map(FromValue::from_value),
            f2: FromValue::from_value(s[2].as_ref().expect("component f2 of Ts5omdode0 must be present")),
            f3: s[3].as_ref().map(FromValue::from_value),
            f4: FromValue::from_value(s[4].as_ref().expect("component f4 of Ts5omdode0 must be present")),
        }
    }
}
impl ToValue for Ts5omdode0 {
    fn to_value(&self) -> Value {
        Value::Seq(vec![
            self.f0.as_ref().map(|x| x.to_value()),
            self.f1.as_ref().map(|x| x.to_value()),
            Some(self.f2.to_value()),
            self.f3.as_ref().map(|x| x.to_value()),
            Some(self.f4.to_value()),
        ])
    }
}
impl FromValue for Ts5omdode1 {
    fn from_value(v: &Value) -> Self {
        let s = match v { Value::Seq(s) => s, other => panic!("Ts5omdode1: expected Seq, got {other:?}") };
        assert_eq!(s.len(), 5, "Ts5omdode1: component count");
        let _ = s;
        Ts5omdode1 {
            f0: s[0].as_ref().map(FromValue::from_value),
            f1: s[1].as_ref().map(FromValue::from_value),
            f2: FromValue::from_value(s[2].as_ref().expect("component f2 of Ts5omdode1 must be present")),
            f3: s[3].as_ref().map(FromValue::from_value),
            f4: FromValue::from_value(s[4].as_ref().expect("component f4 of Ts5omdode1 must be present")),
        }
    }
}
impl ToValue for Ts5omdode1 {
    fn to_value(&self) -> Value {
        Value::Seq(vec![
            self.f0.as_ref().map(|x| x.to_value()),
            self.f1.as_ref().map(|x| x.to_value()),
            Some(self.f2.to_value()),
            self.f3.as_ref().map(|x| x.to_value()),
            Some(self.f4.to_value()),
        ])
    }
}
impl FromValue for Ts5omdode2 {
    fn from_value(v: &Value) -> Self {
        let s = match v { Value::Seq(s) => s, other => panic!("Ts5omdode2: expected Seq, got {other:?}") };
        assert_eq!(s.len(), 5, "Ts5omdode2: component count");
        let _ = s;
        Ts5omdode2 {
            f0: s[0].as_ref().map(FromValue::from_value),
            f1: FromValue::from_value(s[1].as_ref().expect("component f1 of Ts5omdode2 must be present")),
            f2: FromValue::from_value(s[2].as_ref().expect("component f2 of Ts5omdode2 must be present")),
            f3: s[3].as_ref().map(FromValue::from_value),
            f4: FromValue::from_value(s[4].as_ref().expect("component f4 of Ts5omdode2 must be present")),
        }
    }
}
impl ToValue for Ts5omdode2 {
    fn to_value(&self) -> Value {
        Value::Seq(vec![
            self.f0.as_ref().map(|x| x.to_value()),
            Some(self.f1.to_value()),
            Some(self.f2.to_value()),
            self.f3.as_ref().map(|x| x.to_value()),
            Some(self.f4.to_value()),
        ])
    }
}
impl FromValue for Ts5omdode3 {
    fn from_value(v: &Value) -> Self {
        let s = match v { Value::Seq(s) => s, other => panic!("Ts5omdode3: expected Seq, got {other:?}") };
        assert_eq!(s.len(), 5, "Ts5omdode3: component count");
        let _ = s;
        Ts5omdode3 {
            f0: s[0].as_ref().map(FromValue::from_value),
            f1: FromValue::from_value(s[1].as_ref().expect("component f1 of Ts5omdode3 must be present")),
            f2: FromValue::from_value(s[2].as_ref().expect("component f2 of Ts5omdode3 must be present")),
            f3: s[3].as_ref().map(FromValue::from_value),
            f4: FromValue::from_value(s[4].as_ref().expect("component f4 of Ts5omdode3 must be present")),
        }
    }
}
impl ToValue for Ts5omdode3 {
    fn to_value(&self) -> Value {
        Value::Seq(vec![
            self.f0.as_ref().map(|x| x.to_value()),
            Some(self.f1.to_value()),
            Some(self.f2.to_value()),
            self.f3.as_ref().map(|x| x.to_value()),
            Some(self.f4.to_value()),
        ])
    }
}
impl FromValue for Ts5omdode4 {
    fn from_value(v: &Value) -> Self {
        let s = match v { Value::Seq(s) => s, other => panic!("Ts5omdode4: expected Seq, got {other:?}") };
        assert_eq!(s.len(), 5, "Ts5omdode4: component count");
        let _ = s;
        Ts5omdode4 {
            f0: s[0].as_ref().map(FromValue::from_value),
            f1: FromValue::from_value(s[1].as_ref().expect("component f1 of Ts5omdode4 must be present")),
            f2: FromValue::from_value(s[2].as_ref().expect("component f2 of Ts5omdode4 must be present")),
            f3: s[3].as_ref().map(FromValue::from_value),
            f4: FromValue::from_value(s[4].as_ref().expect("component f4 of Ts5omdode4 must be present")),
        }
    }
}
impl ToValue for Ts5omdode4 {
    fn to_value(&self) -> Value {
        Value::Seq(vec![
            self.f0.as_ref().map(|x| x.to_value()),
            Some(self.f1.to_value()),
            Some(self.f2.to_value()),
            self.f3.as_ref().map(|x| x.to_value()),
            Some(self.f4.to_value()),
        ])
    }
}
impl FromValue for Ts5omdode5 {
    fn from_value(v: &Value) -> Self {
        let s = match v { Value::Seq(s) => s, other => panic!("Ts5omdode5: expected Seq, got {other:?}") };
        assert_eq!(s.len(), 5, "Ts5omdode5: component count");
        let _ = s;
        Ts5omdode5 {
            f0: s[0].as_ref().map(FromValue::from_value),
            f1: FromValue::from_value(s[1].as_ref().expect("component f1 of Ts5omdode5 must be present")),
            f2: FromValue::from_value(s[2].as_ref().expect("component f2 of Ts5omdode5 must be present")),
            f3: s[3].as_ref().map(FromValue::from_value),
            f4: FromValue::from_value(s[4].as_ref().expect("component f4 of Ts5omdode5 must be present")),
        }
    }
}
impl ToValue for Ts5omdode5 {
    fn to_value(&self) -> Value {
        Value::Seq(vec![
            self.f0.as_ref().map(|x| x.to_value()),
            Some(self.f1.to_value()),
            Some(self.f2.to_value()),
            self.f3.as_ref().map(|x| x.to_value()),
            Some(self.f4.to_value()),
        ])
    }
}
impl FromValue for Ts5dmdodn {
    fn from_value(v: &Value) -> Self {
        let s = match v { Value::Seq(s) => s, other => panic!("Ts5dmdodn: expected Seq, got {other:?}") };
        assert_eq!(s.len(), 5, "Ts5dmdodn: component count");
        let _ = s;
        Ts5dmdodn {
            f0: FromValue::from_value(s[0].as_ref().expect("component f0 of Ts5dmdodn must be present")),
            f1: FromValue::from_value(s[1].as_ref().expect("component f1 of Ts5dmdodn must be present")),
            f2: FromValue::from_value(s[2].as_ref().expect("component f2 of Ts5dmdodn must be present")),
            f3: s[3].as_ref().map(FromValue::from_value),
            f4: FromValue::from_value(s[4].as_ref().expect("component f4 of Ts5dmdodn must be present")),
        }
    }
}
impl ToValue for Ts5dmdodn {
    fn to_value(&self) -> Value {
        Value::Seq(vec![
            Some(self.f0.to_value()),
            Some(self.f1.to_value()),
            Some(self.f2.to_value()),
            self.f3.as_ref().map(|x| x.to_value()),
            Some(self.f4.to_value()),
        ])
    }
}
impl FromValue for Ts5dmdode0 {
    fn from_value(v: &Value) -> Self {
        let s = match v { Value::Seq(s) => s, other => panic!("Ts5dmdode0: expected Seq, got {other:?}") };
        assert_eq!(s.len(), 5, "Ts5dmdode0: component count");
        let _ = s;
        Ts5dmdode0 {
            f0: FromValue::from_value(s[0].as_ref().expect("component f0 of Ts5dmdode0 must be present")),
            f1: s[1].as_ref().map(FromValue::from_value),
            f2: FromValue::from_value(s[2].as_ref().expect("component f2 of Ts5dmdode0 must be present")),
            f3: s[3].as_ref().map(FromValue::from_value),
            f4: FromValue::from_value(s[4].as_ref().expect("component f4 of Ts5dmdode0 must be present")),
        }
    }
}
impl ToValue for Ts5dmdode0 {
    fn to_value(&self) -> Value {
        Value::Seq(vec![
            Some(self.f0.to_value()),
            self.f1.as_ref().map(|x| x.to_value()),
            Some(self.f2.to_value()),
            self.f3.as_ref().map(|x| x.to_value()),
            Some(self.f4.to_value()),
        ])
    }
}
impl FromValue for Ts5dmdode1 {
    fn from_value(v: &Value) -> Self {
        let s = match v { Value::Seq(s) => s, other => panic!("Ts5dmdode1: expected Seq, got {other:?}") };
        assert_eq!(s.len(), 5, "Ts5dmdode1: component count");
        let _ = s;
        Ts5dmdode1 {
            f0: FromValue::from_value(s[0].as_ref().expect("component f0 of Ts5dmdode1 must be present")),
            f1: s[1].as_ref().map(FromValue::from_value),
            f2: FromValue::from_value(s[2].as_ref().expect("component f2 of Ts5dmdode1 must be present")),
            f3: s[3].as_ref().map(FromValue::from_value),
            f4: FromValue::from_value(s[4].as_ref().expect("component f4 of Ts5dmdode1 must be present")),
        }
    }
}
impl ToValue for Ts5dmdode1 {
    fn to_value(&self) -> Value {
        Value::Seq(vec![
            Some(self.f0.to_value()),
            self.f1.as_ref().map(|x| x.to_value()),
            Some(self.f2.to_value()),
            self.f3.as_ref().map(|x| x.to_value()),
            Some(self.f4.to_value()),
        ])
    }
}
impl FromValue for Ts5dmdode2 {
    fn from_value(v: &Value) -> Self {
        let s = match v { Value::Seq(s) => s, other => panic!("Ts5dmdode2: expected Seq, got {other:?}") };
        assert_eq!(s.len(), 5, "Ts5dmdode2: component count");
        let _ = s;
        Ts5dmdode2 {
            f0: FromValue::from_value(s[0].as_ref().expect("component f0 of Ts5dmdode2 must be present")),
            f1: FromValue::from_value(s[1].as_ref().expect("component f1 of Ts5dmdode2 must be present")),
            f2: FromValue::from_value(s[2].as_ref().expect("component f2 of Ts5dmdode2 must be present")),
            f3: s[3].as_ref().map(FromValue::from_value),
            f4: FromValue::from_value(s[4].as_ref().expect("component f4 of Ts5dmdode2 must be present")),
        }
    }
}
impl ToValue for Ts5dmdode2 {
    fn to_value(&self) -> Value {
        Value::Seq(vec![
            Some(self.f0.to_value()),
            Some(self.f1.to_value()),
            Some(self.f2.to_value()),
            self.f3.as_ref().map(|x| x.to_value()),
            Some(self.f4.to_value()),
        ])
    }
}
impl FromValue for Ts5dmdode3 {
    fn from_value(v: &Value) -> Self {
        let s = match v { Value::Seq(s) => s, other => panic!("Ts5dmdode3: expected Seq, got {other:?}") };
        assert_eq!(s.len(), 5, "Ts5dmdode3: component count");
        let _ = s;
        Ts5dmdode3 {
            f0: FromValue::from_value(s[0].as_ref().expect("component f0 of Ts5dmdode3 must be present")),
            f1: FromValue::from_value(s[1].as_ref().expect("component f1 of Ts5dmdode3 must be present")),
            f2: FromValue::from_value(s[2].as_ref().expect("component f2 of Ts5dmdode3 must be present")),
            f3: s[3].as_ref().map(FromValue::from_value),
            f4: FromValue::from_value(s[4].as_ref().expect("component f4 of Ts5dmdode3 must be present")),
        }
    }
}
impl ToValue for Ts5dmdode3 {
    fn to_value(&self) -> Value {
        Value::Seq(vec![
            Some(self.f0.to_value()),
            Some(self.f1.to_value()),
            Some(self.f2.to_value()),
            self.f3.as_ref().map(|x| x.to_value()),
            Some(self.f4.to_value()),
        ])
    }
}
impl FromValue for Ts5dmdode4 {
    fn from_value(v: &Value) -> Self {
        let s = match v { Value::Seq(s) => s, other => panic!("Ts5dmdode4: expected Seq, got {other:?}") };
        assert_eq!(s.len(), 5, "Ts5dmdode4: component count");
        let _ = s;
        Ts5dmdode4 {
            f0: FromValue::from_value(s[0].as_ref().expect("component f0 of Ts5dmdode4 must be present")),
            f1: FromValue::from_value(s[1].as_ref().expect("component f1 of Ts5dmdode4 must be present")),
            f2: FromValue::from_value(s[2].as_ref().expect("component f2 of Ts5dmdode4 must be present")),
            f3: s[3].as_ref().map(FromValue::from_value),
            f4: FromValue::from_value(s[4].as_ref().expect("component f4 of Ts5dmdode4 must be present")),
        }
    }
}
impl ToValue for Ts5dmdode4 {
    fn to_value(&self) -> Value {
        Value::Seq(vec![
            Some(self.f0.to_value()),
            Some(self.f1.to_value()),
            Some(self.f2.to_value()),
            self.f3.as_ref().map(|x| x.to_value()),
            Some(self.f4.to_value()),
        ])
    }
}
impl FromValue for Ts5dmdode5 {
    fn from_value(v: &Value) -> Self {
        let s = match v { Value::Seq(s) => s, other => panic!("Ts5dmdode5: expected Seq, got {other:?}") };
        assert_eq!(s.len(), 5, "Ts5dmdode5: component count");
        let _ = s;
        Ts5dmdode5 {
            f0: FromValue::from_value(s[0].as_ref().expect("component f0 of Ts5dmdode5 must be present")),
            f1: FromValue::from_value(s[1].as_ref().expect("component f1 of Ts5dmdode5 must be present")),
            f2: FromValue::from_value(s[2].as_ref().expect("component f2 of Ts5dmdode5 must be present")),
            f3: s[3].as_ref().map(FromValue::from_value),
            f4: FromValue::from_value(s[4].as_ref().expect("component f4 of Ts5dmdode5 must be present")),
        }
    }
}
impl ToValue for Ts5dmdode5 {
    fn to_value(&self) -> Value {
        Value::Seq(vec![
            Some(self.f0.to_value()),
            Some(self.f1.to_value()),
            Some(self.f2.to_value()),
            self.f3.as_ref().map(|x| x.to_value()),
            Some(self.f4.to_value()),
        ])
    }
}
impl FromValue for Ts5mododn {
    fn from_value(v: &Value) -> Self {
        let s = match v { Value::Seq(s) => s, other => panic!("Ts5mododn: expected Seq, got {other:?}") };
        assert_eq!(s.len(), 5, "Ts5mododn: component count");
        let _ = s;
        Ts5mododn {
            f0: FromValue::from_value(s[0].as_ref().expect("component f0 of Ts5mododn must be present")),
            f1: s[1].as_ref().map(FromValue::from_value),
            f2: FromValue::from_value(s[2].as_ref().expect("component f2 of Ts5mododn must be present")),
            f3: s[3].as_ref().map(FromValue::from_value),
            f4: FromValue::from_value(s[4].as_ref().expect("component f4 of Ts5mododn must be present")),
        }
    }
}
impl ToValue for Ts5mododn {
    fn to_value(&self) -> Value {
        Value::Seq(vec![
            Some(self.f0.to_value()),
            self.f1.as_ref().map(|x| x.to_value()),
            Some(self.f2.to_value()),
            self.f3.as_ref().map(|x| x.to_value()),
            Some(self.f4.to_value()),
        ])
    }
}
impl FromValue for Ts5modode0 {
    fn from_value(v: &Value) -> Self {
        let s = match v { Value::Seq(s) => s, other => panic!("Ts5modode0: expected Seq, got {other:?}") };
        assert_eq!(s.len(), 5, "Ts5modode0: component count");
        let _ = s;
        Ts5modode0 {
            f0: FromValue::from_value(s[0].as_ref().expect("component f0 of Ts5modode0 must be present")),
            f1: s[1].as_ref().map(FromValue::from_value),
            f2: FromValue::from_value(s[2].as_ref().expect("component f2 of Ts5modode0 must be present")),
            f3: s[3].as_ref().map(FromValue::from_value),
            f4: FromValue::from_value(s[4].as_ref().expect("component f4 of Ts5modode0 must be present")),
        }
    }
}
impl ToValue for Ts5modode0 {
    fn to_value(&self) -> Value {
        Value::Seq(vec![
            Some(self.f0.to_value()),
            self.f1.as_ref().map(|x| x.to_value()),
            Some(self.f2.to_value()),
            self.f3.as_ref().map(|x| x.to_value()),
            Some(self.f4.to_value()),
        ])
    }
}
impl FromValue for Ts5modode1 {
    fn from_value(v: &Value) -> Self {
        let s = match v { Value::Seq(s) => s, other => panic!("Ts5modode1: expected Seq, got {other:?}") };
        assert_eq!(s.len(), 5, "Ts5modode1: component count");
        let _ = s;
        Ts5modode1 {
            f0: FromValue::from_value(s[0].as_ref().expect("component f0 of Ts5modode1 must be present")),
            f1: s[1].as_ref().map(FromValue::from_value),
            f2: FromValue::from_value(s[2].as_ref().expect("component f2 of Ts5modode1 must be present")),
            f3: s[3].as_ref().map(FromValue::from_value),
            f4: FromValue::from_value(s[4].as_ref().expect("component f4 of Ts5modode1 must be present")),
        }
    }
}
impl ToValue for Ts5modode1 {
    fn to_value(&self) -> Value {
        Value::Seq(vec![
            Some(self.f0.to_value()),
            self.f1.as_ref().map(|x| x.to_value()),
            Some(self.f2.to_value()),
            self.f3.as_ref().map(|x| x.to_value()),
            Some(self.f4.to_value()),
        ])
    }
}
impl FromValue for Ts5modode2 {
    fn from_value(v: &Value) -> Self {
        let s = match v { Value::Seq(s) => s, other => panic!("Ts5modode2: expected Seq, got {other:?}") };
        assert_eq!(s.len(), 5, "Ts5modode2: component count");
        let _ = s;
        Ts5modode2 {
            f0: FromValue::from_value(s[0].as_ref().expect("component f0 of Ts5modode2 must be present")),
            f1: s[1].as_ref().map(FromValue::from_value),
            f2: FromValue::from_value(s[2].as_ref().expect("component f2 of Ts5modode2 must be present")),
            f3: s[3].as_ref().map(FromValue::from_value),
            f4: FromValue::from_value(s[4].as_ref().expect("component f4 of Ts5modode2 must be present")),
        }
    }
}
impl ToValue for Ts5modode2 {
    fn to_value(&self) -> Value {
        Value::Seq(vec![
            Some(self.f0.to_value()),
            self.f1.as_ref().map(|x| x.to_value()),
            Some(self.f2.to_value()),
            self.f3.as_ref().map(|x| x.to_value()),
            Some(self.f4.to_value()),
        ])
    }
}
impl FromValue for Ts5modode3 {
    fn from_value(v: &Value) -> Self {
        let s = match v { Value::Seq(s) => s, other => panic!("Ts5modode3: expected Seq, got {other:?}") };
        assert_eq!(s.len(), 5, "Ts5modode3: component count");
        let _ = s;
        Ts5modode3 {
            f0: FromValue::from_value(s[0].as_ref().expect("component f0 of Ts5modode3 must be present")),
            f1: s[1].as_ref().map(FromValue::from_value),
            f2: FromValue::from_value(s[2].as_ref().expect("component f2 of Ts5modode3 must be present")),
            f3: s[3].as_ref().map(FromValue::from_value),
            f4: FromValue::from_value(s[4].as_ref().expect("component f4 of Ts5modode3 must be present")),
        }
    }
}
impl ToValue for Ts5modode3 {
    fn to_value(&self) -> Value {
        Value::Seq(vec![
            Some(self.f0.to_value()),
            self.f1.as_ref().map(|x| x.to_value()),
            Some(self.f2.to_value()),
            self.f3.as_ref().map(|x| x.to_value()),
            Some(self.f4.to_value()),
        ])
    }
}
impl FromValue for Ts5modode4 {
    fn from_value(v: &Value) -> Self {
        let s = match v { Value::Seq(s) => s, other => panic!("Ts5modode4: expected Seq, got {other:?}") };
        assert_eq!(s.len(), 5, "Ts5modode4: component count");
        let _ = s;
        Ts5modode4 {
            f0: FromValue::from_value(s[0].as_ref().expect("component f0 of Ts5modode4 must be present")),
            f1: s[1].as_ref().map(FromValue::from_value),
            f2: FromValue::from_value(s[2].as_ref().expect("component f2 of Ts5modode4 must be present")),
            f3: s[3].as_ref().map(FromValue::from_value),
            f4: FromValue::from_value(s[4].as_ref().expect("component f4 of Ts5modode4 must be present")),
        }
    }
}
impl ToValue for Ts5modode4 {
    fn to_value(&self) -> Value {
        Value::Seq(vec![
            Some(self.f0.to_value()),
            self.f1.as_ref().map(|x| x.to_value()),
            Some(self.f2.to_value()),
            self.f3.as_ref().map(|x| x.to_value()),
            Some(self.f4.to_value()),
        ])
    }
}
impl FromValue for Ts5modode5 {
    fn from_value(v: &Value) -> Self {
        let s = match v { Value::Seq(s) => s, other => panic!("Ts5modode5: expected Seq, got {other:?}") };
        assert_eq!(s.len(), 5, "Ts5modode5: component count");
        let _ = s;
        Ts5modode5 {
            f0: FromValue::from_value(s[0].as_ref().expect("component f0 of Ts5modode5 must be present")),
            f1: s[1].as_ref().map(FromValue::from_value),
            f2: FromValue::from_value(s[2].as_ref().expect("component f2 of Ts5modode5 must be present")),
            f3: s[3].as_ref().map(FromValue::from_value),
            f4: FromValue::from_value(s[4].as_ref().expect("component f4 of Ts5modode5 must be present")),
        }
    }
}
impl ToValue for Ts5modode5 {
    fn to_value(&self) -> Value {
        Value::Seq(vec![
            Some(self.f0.to_value()),
            self.f1.as_ref().map(|x| x.to_value()),
            Some(self.f2.to_value()),
            self.f3.as_ref().map(|x| x.to_value()),
            Some(self.f4.to_value()),
        ])
    }
}
impl FromValue for Ts5oododn {
    fn from_value(v: &Value) -> Self {
        let s = match v { Value::Seq(s) => s, other => panic!("Ts5oododn: expected Seq, got {other:?}") };
        assert_eq!(s.len(), 5, "Ts5oododn: component count");
        let _ = s;
        Ts5oododn {
            f0: s[0].as_ref().map(FromValue::from_value),
            f1: s[1].as_ref().map(FromValue::from_value),
            f2: FromValue::from_value(s[2].as_ref().expect("component f2 of Ts5oododn must be present")),
            f3: s[3].as_ref().map(FromValue::from_value),
            f4: FromValue::from_value(s[4].as_ref().expect("component f4 of Ts5oododn must be present")),
        }
    }
}
impl ToValue for Ts5oododn {
    fn to_value(&self) -> Value {
        Value::Seq(vec![
            self.f0.as_ref().map(|x| x.to_value()),
            self.f1.as_ref().map(|x| x.to_value()),
            Some(self.f2.to_value()),
            self.f3.as_ref().map(|x| x.to_value()),
            Some(self.f4.to_value()),
        ])
    }
}
impl FromValue for Ts5oodode0 {
    fn from_value(v: &Value) -> Self {
        let s = match v { Value::Seq(s) => s, other => panic!("Ts5oodode0: expected Seq, got {other:?}") };
        assert_eq!(s.len(), 5, "Ts5oodode0: component count");
        let _ = s;
        Ts5oodode0 {
            f0: s[0].as_ref().map(FromValue::from_value),
            f1: s[1].as_ref().map(FromValue::from_value),
            f2: FromValue::from_value(s[2].as_ref().expect("component f2 of Ts5oodode0 must be present")),
            f3: s[3].as_ref().map(FromValue::from_value),
            f4: FromValue::from_value(s[4].as_ref().expect("component f4 of Ts5oodode0 must be present")),
        }
    }
}
impl ToValue for Ts5oodode0 {
    fn to_value(&self) -> Value {
        Value::Seq(vec![
            self.f0.as_ref().map(|x| x.to_value()),
            self.f1.as_ref().map(|x| x.to_value()),
            Some(self.f2.to_value()),
            self.f3.as_ref().map(|x| x.to_value()),
            Some(self.f4.to_value()),
        ])
    }
}
impl FromValue for Ts5oodode1 {
    fn from_value(v: &Value) -> Self {
        let s = match v { Value::Seq(s) => s, other => panic!("Ts5oodode1: expected Seq, got {other:?}") };
        assert_eq!(s.len(), 5, "Ts5oodode1: component count");
        let _ = s;
        Ts5oodode1 {
            f0: s[0].as_ref().map(FromValue::from_value),
            f1: s[1].as_ref().map(FromValue::from_value),
            f2: FromValue::from_value(s[2].as_ref().expect("component f2 of Ts5oodode1 must be present")),
            f3: s[3].as_ref().map(FromValue::from_value),
            f4: FromValue::from_value(s[4].as_ref().expect("component f4 of Ts5oodode1 must be present")),
        }
    }
}
impl ToValue for Ts5oodode1 {
    fn to_value(&self) -> Value {
        Value::Seq(vec![
            self.f0.as_ref().map(|x| x.to_value()),
            self.f1.as_ref().map(|x| x.to_value()),
            Some(self.f2.to_value()),
            self.f3.as_ref().map(|x| x.to_value()),
            Some(self.f4.to_value()),
        ])
    }
}
impl FromValue for Ts5oodode2 {
    fn from_value(v: &Value) -> Self {
        let s = match v { Value::Seq(s) => s, other => panic!("Ts5oodode2: expected Seq, got {other:?}") };
        assert_eq!(s.len(), 5, "Ts5oodode2: component count");
        let _ = s;
        Ts5oodode2 {
            f0: s[0].as_ref().map(FromValue::from_value),
            f1: s[1].as_ref().map(FromValue::from_value),
            f2: FromValue::from_value(s[2].as_ref().expect("component f2 of Ts5oodode2 must be present")),
            f3: s[3].as_ref().map(FromValue::from_value),
            f4: FromValue::from_value(s[4].as_ref().expect("component f4 of Ts5oodode2 must be present")),
        }
    }
}
impl ToValue for Ts5oodode2 {
    fn to_value(&self) -> Value {
        Value::Seq(vec![
            self.f0.as_ref().map(|x| x.to_value()),
            self.f1.as_ref().map(|x| x.to_value()),
            Some(self.f2.to_value()),
            self.f3.as_ref().map(|x| x.to_value()),
            Some(self.f4.to_value()),
        ])
    }
}
impl FromValue for Ts5oodode3 {
    fn from_value(v: &Value) -> Self {
        let s = match v { Value::Seq(s) => s, other => panic!("Ts5oodode3: expected Seq, got {other:?}") };
        assert_eq!(s.len(), 5, "Ts5oodode3: component count");
        let _ = s;
        Ts5oodode3 {
            f0: s[0].as_ref().map(FromValue::from_value),
            f1: s[1].as_ref().map(FromValue::from_value),
            f2: FromValue::from_value(s[2].as_ref().expect("component f2 of Ts5oodode3 must be present")),
            f3: s[3].as_ref().map(FromValue::from_value),
            f4: FromValue::from_value(s[4].as_ref().expect("component f4 of Ts5oodode3 must be present")),
        }
    }
}
impl ToValue for Ts5oodode3 {
    fn to_value(&self) -> Value {
        Value::Seq(vec![
            self.f0.as_ref().map(|x| x.to_value()),
            self.f1.as_ref().map(|x| x.to_value()),
            Some(self.f2.to_value()),
            self.f3.as_ref().map(|x| x.to_value()),
            Some(self.f4.to_value()),
        ])
    }
}
impl FromValue for Ts5oodode4 {
    fn from_value(v: &Value) -> Self {
        let s = match v { Value::Seq(s) => s, other => panic!("Ts5oodode4: expected Seq, got {other:?}") };
        assert_eq!(s.len(), 5, "Ts5oodode4: component count");
        let _ = s;
        Ts5oodode4 {
            f0: s[0].as_ref().map(FromValue::from_value),
            f1: s[1].as_ref().map(FromValue::from_value),
            f2: FromValue::from_value(s[2].as_ref().expect("component f2 of Ts5oodode4 must be present")),
            f3: s[3].as_ref().map(FromValue::from_value),
            f4: FromValue::from_value(s[4].as_ref().expect("component f4 of Ts5oodode4 must be present")),
        }
    }
}
impl ToValue for Ts5oodode4 {
    fn to_value(&self) -> Value {
        Value::Seq(vec![
            self.f0.as_ref().map(|x| x.to_value()),
            self.f1.as_ref().map(|x| x.to_value()),
            Some(self.f2.to_value()),
            self.f3.as_ref().map(|x| x.to_value()),
            Some(self.f4.to_value()),
        ])
    }
}
impl FromValue for Ts5oodode5 {
    fn from_value(v: &Value) -> Self {
        let s = match v { Value::Seq(s) => s, other => panic!("Ts5oodode5: expected Seq, got {other:?}") };
        assert_eq!(s.len(), 5, "Ts5oodode5: component count");
        let _ = s;
        Ts5oodode5 {
            f0: s[0].as_ref().map(FromValue::from_value),
            f1: s[1].as_ref().map(FromValue::from_value),
            f2: FromValue::from_value(s[2].as_ref().expect("component f2 of Ts5oodode5 must be present")),
            f3: s[3].as_ref().map(FromValue::from_value),
            f4: FromValue::from_value(s[4].as_ref().expect("component f4 of Ts5oodode5 must be present")),
        }
    }
}
impl ToValue for Ts5oodode5 {
    fn to_value(&self) -> Value {
        Value::Seq(vec![
            self.f0.as_ref().map(|x| x.to_value()),
            self.f1.as_ref().map(|x| x.to_value()),
            Some(self.f2.to_value()),
            self.f3.as_ref().map(|x| x.to_value()),
            Some(self.f4.to_value()),
        ])
    }
}
impl FromValue for Ts5dododn {
    fn from_value(v: &Value) -> Self {
        let s = match v { Value::Seq(s) => s, other => panic!("Ts5dododn: expected Seq, got {other:?}") };
        assert_eq!(s.len(), 5, "Ts5dododn: component count");
        let _ = s;
        Ts5dododn {
            f0: FromValue::from_value(s[0].as_ref().expect("component f0 of Ts5dododn must be present")),
            f1: s[1].as_ref().map(FromValue::from_value),
            f2: FromValue::from_value(s[2].as_ref().expect("component f2 of Ts5dododn must be present")),
            f3: s[3].as_ref().map(FromValue::from_value),
            f4: FromValue::from_value(s[4].as_ref().expect("component f4 of Ts5dododn must be present")),
        }
    }
}
impl ToValue for Ts5dododn {
    fn to_value(&self) -> Value {
        Value::Seq(vec![
            Some(self.f0.to_value()),
            self.f1.as_ref().map(|x| x.to_value()),
            Some(self.f2.to_value()),
            self.f3.as_ref().map(|x| x.to_value()),
            Some(self.f4.to_value()),
        ])
    }
}
impl FromValue for Ts5dodode0 {
    fn from_value(v: &Value) -> Self {
        let s = match v { Value::Seq(s) => s, other => panic!("Ts5dodode0: expected Seq, got {other:?}") };
        assert_eq!(s.len(), 5, "Ts5dodode0: component count");
        let _ = s;
        Ts5dodode0 {
            f0: FromValue::from_value(s[0].as_ref().expect("component f0 of Ts5dodode0 must be present")),
            f1: s[1].as_ref().map(FromValue::from_value),
            f2: FromValue::from_value(s[2].as_ref().expect("component f2 of Ts5dodode0 must be present")),
            f3: s[3].as_ref().map(FromValue::from_value),
            f4: FromValue::from_value(s[4].as_ref().expect("component f4 of Ts5dodode0 must be present")),
        }
    }
}
impl ToValue for Ts5dodode0 {
    fn to_value(&self) -> Value {
        Value::Seq(vec![
            Some(self.f0.to_value()),
            self.f1.as_ref().map(|x| x.to_value()),
            Some(self.f2.to_value()),
            self.f3.as_ref().map(|x| x.to_value()),
            Some(self.f4.to_value()),
        ])
    }
}
impl FromValue for Ts5dodode1 {
    fn from_value(v: &Value) -> Self {
        let s = match v { Value::Seq(s) => s, other => panic!("Ts5dodode1: expected Seq, got {other:?}") };
        assert_eq!(s.len(), 5, "Ts5dodode1: component count");
        let _ = s;
        Ts5dodode1 {
            f0: FromValue::from_value(s[0].as_ref().expect("component f0 of Ts5dodode1 must be present")),
            f1: s[1].as_ref().map(FromValue::from_value),
            f2: FromValue::from_value(s[2].as_ref().expect("component f2 of Ts5dodode1 must be present")),
            f3: s[3].as_ref().map(FromValue::from_value),
            f4: FromValue::from_value(s[4].as_ref().expect("component f4 of Ts5dodode1 must be present")),
        }
    }
}
impl ToValue for Ts5dodode1 {
    fn to_value(&self) -> Value {
        Value::Seq(vec![
            Some(self.f0.to_value()),
            self.f1.as_ref().map(|x| x.to_value()),
            Some(self.f2.to_value()),
            self.f3.as_ref().map(|x| x.to_value()),
            Some(self.f4.to_value()),
        ])
    }
}
impl FromValue for Ts5dodode2 {
    fn from_value(v: &Value) -> Self {
        let s = match v { Value::Seq(s) => s, other => panic!("Ts5dodode2: expected Seq, got {other:?}") };
        assert_eq!(s.len(), 5, "Ts5dodode2: component count");
        let _ = s;
        Ts5dodode2 {
            f0: FromValue::from_value(s[0].as_ref().expect("component f0 of Ts5dodode2 must be present")),
            f1: s[1].as_ref().map(FromValue::from_value),
            f2: FromValue::from_value(s[2].as_ref().expect("component f2 of Ts5dodode2 must be present")),
            f3: s[3].as_ref().map(FromValue::from_value),
            f4: FromValue::from_value(s[4].as_ref().expect("component f4 of Ts5dodode2 must be present")),
        }
    }
}
impl ToValue for Ts5dodode2 {
    fn to_value(&self) -> Value {
        Value::Seq(vec![
            Some(self.f0.to_value()),
            self.f1.as_ref().map(|x| x.to_value()),
            Some(self.f2.to_value()),
            self.f3.as_ref().map(|x| x.to_value()),
            Some(self.f4.to_value()),
        ])
    }
}
impl FromValue for Ts5dodode3 {
    fn from_value(v: &Value) -> Self {
        let s = match v { Value::Seq(s) => s, other => panic!("Ts5dodode3: expected Seq, got {other:?}") };
        assert_eq!(s.len(), 5, "Ts5dodode3: component count");
        let _ = s;
        Ts5dodode3 {
            f0: FromValue::from_value(s[0].as_ref().expect("component f0 of Ts5dodode3 must be present")),
            f1: s[1].as_ref().map(FromValue::from_value),
            f2: FromValue::from_value(s[2].as_ref().expect("component f2 of Ts5dodode3 must be present")),
            f3: s[3].as_ref().map(FromValue::from_value),
            f4: FromValue::from_value(s[4].as_ref().expect("component f4 of Ts5dodode3 must be present")),
        }
    }
}
impl ToValue for Ts5dodode3 {
    fn to_value(&self) -> Value {
        Value::Seq(vec![
            Some(self.f0.to_value()),
            self.f1.as_ref().map(|x| x.to_value()),
            Some(self.f2.to_value()),
            self.f3.as_ref().map(|x| x.to_value()),
            Some(self.f4.to_value()),
        ])
    }
}
impl FromValue for Ts5dodode4 {
    fn from_value(v: &Value) -> Self {
        let s = match v { Value::Seq(s) => s, other => panic!("Ts5dodode4: expected Seq, got {other:?}") };
        assert_eq!(s.len(), 5, "Ts5dodode4: component count");
        let _ = s;
        Ts5dodode4 {
            f0: FromValue::from_value(s[0].as_ref().expect("component f0 of Ts5dodode4 must be present")),
            f1: s[1].as_ref().map(FromValue::from_value),
            f2: FromValue::from_value(s[2].as_ref().expect("component f2 of Ts5dodode4 must be present")),
            f3: s[3].as_ref().map(FromValue::from_value),
            f4: FromValue::from_value(s[4].as_ref().expect("component f4 of Ts5dodode4 must be present")),
        }
    }
}
impl ToValue for Ts5dodode4 {
    fn to_value(&self) -> Value {
        Value::Seq(vec![
            Some(self.f0.to_value()),
            self.f1.as_ref().map(|x| x.to_value()),
            Some(self.f2.to_value()),
            self.f3.as_ref().map(|x| x.to_value()),
            Some(self.f4.to_value()),
        ])
    }
}
impl FromValue for Ts5dodode5 {
    fn from_value(v: &Value) -> Self {
        let s = match v { Value::Seq(s) => s, other => panic!("Ts5dodode5: expected Seq, got {other:?}") };
        assert_eq!(s.len(), 5, "Ts5dodode5: component count");
        let _ = s;
        Ts5dodode5 {
            f0: FromValue::from_value(s[0].as_ref().expect("component f0 of Ts5dodode5 must be present")),
            f1: s[1].as_ref().map(FromValue::from_value),
            f2: FromValue::from_value(s[2].as_ref().expect("component f2 of Ts5dodode5 must be present")),
            f3: s[3].as_ref().map(FromValue::from_value),
            f4: FromValue::from_value(s[4].as_ref().expect("component f4 of Ts5dodode5 must be present")),
        }
    }
}
impl ToValue for Ts5dodode5 {
    fn to_value(&self) -> Value {
        Value::Seq(vec![
            Some(self.f0.to_value()),
            self.f1.as_ref().map(|x| x.to_value()),
            Some(self.f2.to_value()),
            self.f3.as_ref().map(|x| x.to_value()),
            Some(self.f4.to_value()),
        ])
    }
}
impl FromValue for Ts5mddodn {
    fn from_value(v: &Value) -> Self {
        let s = match v { Value::Seq(s) => s, other => panic!("Ts5mddodn: expected Seq, got {other:?}") };
        assert_eq!(s.len(), 5, "Ts5mddodn: component count");
        let _ = s;
        Ts5mddodn {
            f0: FromValue::from_value(s[0].as_ref().expect("component f0 of Ts5mddodn must be present")),
            f1: FromValue::from_value(s[1].as_ref().expect("component f1 of Ts5mddodn must be present")),
            f2: FromValue::from_value(s[2].as_ref().expect("component f2 of Ts5mddodn must be present")),
            f3: s[3].as_ref().map(FromValue::from_value),
            f4: FromValue::from_value(s[4].as_ref().expect("component f4 of Ts5mddodn must be present")),
        }
    }
}
impl ToValue for Ts5mddodn {
    fn to_value(&self) -> Value {
        Value::Seq(vec![
            Some(self.f0.to_value()),
            Some(self.f1.to_value()),
            Some(self.f2.to_value()),
            self.f3.as_ref().map(|x| x.to_value()),
            Some(self.f4.to_value()),
        ])
    }
}
impl FromValue for Ts5mddode0 {
    fn from_value(v: &Value) -> Self {
        let s = match v { Value::Seq(s) => s, other => panic!("Ts5mddode0: expected Seq, got {other:?}") };
        assert_eq!(s.len(), 5, "Ts5mddode0: component count");
        let _ = s;
        Ts5mddode0 {
            f0: FromValue::from_value(s[0].as_ref().expect("component f0 of Ts5mddode0 must be present")),
            f1: FromValue::from_value(s[1].as_ref().expect("component f1 of Ts5mddode0 must be present")),
            f2: FromValue::from_value(s[2].as_ref().expect("component f2 of Ts5mddode0 must be present")),
            f3: s[3].as_ref().map(FromValue::from_value),
            f4: FromValue::from_value(s[4].as_ref().expect("component f4 of Ts5mddode0 must be present")),
        }
    }
}
impl ToValue for Ts5mddode0 {
    fn to_value(&self) -> Value {
        Value::Seq(vec![
            Some(self.f0.to_value()),
            Some(self.f1.to_value()),
            Some(self.f2.to_value()),
            self.f3.as_ref().map(|x| x.to_value()),
            Some(self.f4.to_value()),
        ])
    }
}
impl FromValue for Ts5mddode1 {
    fn from_value(v: &Value) -> Self {
        let s = match v { Value::Seq(s) => s, other => panic!("Ts5mddode1: expected Seq, got {other:?}") };
        assert_eq!(s.len(), 5, "Ts5mddode1: component count");
        let _ = s;
        Ts5mddode1 {
            f0: FromValue::from_value(s[0].as_ref().expect("component f0 of Ts5mddode1 must be present")),
            f1: FromValue::from_value(s[1].as_ref().expect("component f1 of Ts5mddode1 must be present")),
            f2: FromValue::from_value(s[2].as_ref().expect("component f2 of Ts5mddode1 must be present")),
            f3: s[3].as_ref().map(FromValue::from_value),
            f4: FromValue::from_value(s[4].as_ref().expect("component f4 of Ts5mddode1 must be present")),
        }
    }
}
impl ToValue for Ts5mddode1 {
    fn to_value(&self) -> Value {
        Value::Seq(vec![
            Some(self.f0.to_value()),
            Some(self.f1.to_value()),
            Some(self.f2.to_value()),
            self.f3.as_ref().map(|x| x.to_value()),
            Some(self.f4.to_value()),
        ])
    }
}
impl FromValue for Ts5mddode2 {
    fn from_value(v: &Value) -> Self {
        let s = match v { Value::Seq(s) => s, other => panic!("Ts5mddode2: expected Seq, got {other:?}") };
        assert_eq!(s.len(), 5, "Ts5mddode2: component count");
        let _ = s;
        Ts5mddode2 {
            f0: FromValue::from_value(s[0].as_ref().expect("component f0 of Ts5mddode2 must be present")),
            f1: FromValue::from_value(s[1].as_ref().expect("component f1 of Ts5mddode2 must be present")),
            f2: FromValue::from_value(s[2].as_ref().expect("component f2 of Ts5mddode2 must be present")),
            f3: s[3].as_ref().map(FromValue::from_value),
            f4: FromValue::from_value(s[4].as_ref().expect("component f4 of Ts5mddode2 must be present")),
        }
    }
}
impl ToValue for Ts5mddode2 {
    fn to_value(&self) -> Value {
        Value::Seq(vec![
            Some(self.f0.to_value()),
            Some(self.f1.to_value()),
            Some(self.f2.to_value()),
            self.f3.as_ref().map(|x| x.to_value()),
            Some(self.f4.to_value()),
        ])
    }
}
impl FromValue for Ts5mddode3 {
    fn from_value(v: &Value) -> Self {
        let s = match v { Value::Seq(s) => s, other => panic!("Ts5mddode3: expected Seq, got {other:?}") };
        assert_eq!(s.len(), 5, "Ts5mddode3: component count");
        let _ = s;
        Ts5mddode3 {
            f0: FromValue::from_value(s[0].as_ref().expect("component f0 of Ts5mddode3 must be present")),
            f1: FromValue::from_value(s[1].as_ref().expect("component f1 of Ts5mddode3 must be present")),
            f2: FromValue::from_value(s[2].as_ref().expect("component f2 of Ts5mddode3 must be present")),
            f3: s[3].as_ref().map(FromValue::from_value),
            f4: FromValue::from_value(s[4].as_ref().expect("component f4 of Ts5mddode3 must be present")),
        }
    }
}
impl ToValue for Ts5mddode3 {
    fn to_value(&self) -> Value {
        Value::Seq(vec![
            Some(self.f0.to_value()),
            Some(self.f1.to_value()),
            Some(self.f2.to_value()),
            self.f3.as_ref().map(|x| x.to_value()),
            Some(self.f4.to_value()),
        ])
    }
}
impl FromValue for Ts5mddode4 {
    fn from_value(v: &Value) -> Self {
        let s = match v { Value::Seq(s) => s, other => panic!("Ts5mddode4: expected Seq, got {other:?}") };
        assert_eq!(s.len(), 5, "Ts5mddode4: component count");
        let _ = s;
        Ts5mddode4 {
            f0: FromValue::from_value(s[0].as_ref().expect("component f0 of Ts5mddode4 must be present")),
            f1: FromValue::from_value(s[1].as_ref().expect("component f1 of Ts5mddode4 must be present")),
            f2: FromValue::from_value(s[2].as_ref().expect("component f2 of Ts5mddode4 must be present")),
            f3: s[3].as_ref().map(FromValue::from_value),
            f4: FromValue::from_value(s[4].as_ref().expect("component f4 of Ts5mddode4 must be present")),
        }
    }
}
impl ToValue for Ts5mddode4 {
    fn to_value(&self) -> Value {
        Value::Seq(vec![
            Some(self.f0.to_value()),
            Some(self.f1.to_value()),
            Some(self.f2.to_value()),
            self.f3.as_ref().map(|x| x.to_value()),
            Some(self.f4.to_value()),
        ])
    }
}
impl FromValue for Ts5mddode5 {
    fn from_value(v: &Value) -> Self {
        let s = match v { Value::Seq(s) => s, other => panic!("Ts5mddode5: expected Seq, got {other:?}") };
        assert_eq!(s.len(), 5, "Ts5mddode5: component count");
        let _ = s;
        Ts5mddode5 {
            f0: FromValue::from_value(s[0].as_ref().expect("component f0 of Ts5mddode5 must be present")),
            f1: FromValue::from_value(s[1].as_ref().expect("component f1 of Ts5mddode5 must be present")),
            f2: FromValue::from_value(s[2].as_ref().expect("component f2 of Ts5mddode5 must be present")),
            f3: s[3].as_ref().map(FromValue::from_value),
            f4: FromValue::from_value(s[4].as_ref().expect("component f4 of Ts5mddode5 must be present")),
        }
    }
}
impl ToValue for Ts5mddode5 {
    fn to_value(&self) -> Value {
        Value::Seq(vec![
            Some(self.f0.to_value()),
            Some(self.f1.to_value()),
            Some(self.f2.to_value()),
            self.f3.as_ref().map(|x| x.to_value()),
            Some(self.f4.to_value()),
        ])
    }
}
impl FromValue for Ts5oddodn {
    fn from_value(v: &Value) -> Self {
        let s = match v { Value::Seq(s) => s, other => panic!("Ts5oddodn: expected Seq, got {other:?}") };
        assert_eq!(s.len(), 5, "Ts5oddodn: component count");
        let _ = s;
        Ts5oddodn {
            f0: s[0].as_ref().map(FromValue::from_value),
            f1: FromValue::from_value(s[1].as_ref().expect("component f1 of Ts5oddodn must be present")),
            f2: FromValue::from_value(s[2].as_ref().expect("component f2 of Ts5oddodn must be present")),
            f3: s[3].as_ref().map(FromValue::from_value),
            f4: FromValue::from_value(s[4].as_ref().expect("component f4 of Ts5oddodn must be present")),
        }
    }
}
impl ToValue for Ts5oddodn {
    fn to_value(&self) -> Value {
        Value::Seq(vec![
            self.f0.as_ref().map(|x| x.to_value()),
            Some(self.f1.to_value()),
            Some(self.f2.to_value()),
            self.f3.as_ref().map(|x| x.to_value()),
            Some(self.f4.to_value()),
        ])
    }
}
impl FromValue for Ts5oddode0 {
    fn from_value(v: &Value) -> Self {
        let s = match v { Value::Seq(s) => s, other => panic!("Ts5oddode0: expected Seq, got {other:?}") };
        assert_eq!(s.len(), 5, "Ts5oddode0: component count");
        let _ = s;
        Ts5oddode0 {
            f0: s[0].as_ref().map(FromValue::from_value),
            f1: FromValue::from_value(s[1].as_ref().expect("component f1 of Ts5oddode0 must be present")),
            f2: FromValue::from_value(s[2].as_ref().expect("component f2 of Ts5oddode0 must be present")),
            f3: s[3].as_ref().map(FromValue::from_value),
            f4: FromValue::from_value(s[4].as_ref().expect("component f4 of Ts5oddode0 must be present")),
        }
    }
}
impl ToValue for Ts5oddode0 {
    fn to_value(&self) -> Value {
        Value::Seq(vec![
            self.f0.as_ref().map(|x| x.to_value()),
            Some(self.f1.to_value()),
            Some(self.f2.to_value()),
            self.f3.as_ref().map(|x| x.to_value()),
            Some(self.f4.to_value()),
        ])
    }
}
impl FromValue for Ts5oddode1 {
    fn from_value(v: &Value) -> Self {
        let s = match v { Value::Seq(s) => s, other => panic!("Ts5oddode1: expected Seq, got {other:?}") };
        assert_eq!(s.len(), 5, "Ts5oddode1: component count");
        let _ = s;
        Ts5oddode1 {
            f0: s[0].as_ref().map(FromValue::from_value),
            f1: FromValue::from_value(s[1].as_ref().expect("component f1 of Ts5oddode1 must be present")),
            f2: FromValue::from_value(s[2].as_ref().expect("component f2 of Ts5oddode1 must be present")),
            f3: s[3].as_ref().map(FromValue::from_value),
            f4: FromValue::from_value(s[4].as_ref().expect("component f4 of Ts5oddode1 must be present")),
        }
    }
}
impl ToValue for Ts5oddode1 {
    fn to_value(&self) -> Value {
        Value::Seq(vec![
            self.f0.as_ref().map(|x| x.to_value()),
            Some(self.f1.to_value()),
            Some(self.f2.to_value()),
            self.f3.as_ref().map(|x| x.to_value()),
            Some(self.f4.to_value()),
        ])
    }
}
impl FromValue for Ts5oddode2 {
    fn from_value(v: &Value) -> Self {
        let s = match v { Value::Seq(s) => s, other => panic!("Ts5oddode2: expected Seq, got {other:?}") };
        assert_eq!(s.len(), 5, "Ts5oddode2: component count");
        let _ = s;
        Ts5oddode2 {
            f0: s[0].as_ref().map(FromValue::from_value),
            f1: FromValue::from_value(s[1].as_ref().expect("component f1 of Ts5oddode2 must be present")),
            f2: FromValue::from_value(s[2].as_ref().expect("component f2 of Ts5oddode2 must be present")),
            f3: s[3].as_ref().map(FromValue::from_value),
            f4: FromValue::from_value(s[4].as_ref().expect("component f4 of Ts5oddode2 must be present")),
        }
    }
}
impl ToValue for Ts5oddode2 {
    fn to_value(&self) -> Value {
        Value::Seq(vec![
            self.f0.as_ref().map(|x| x.to_value()),
            Some(self.f1.to_value()),
            Some(self.f2.to_value()),
            self.f3.as_ref().map(|x| x.to_value()),
            Some(self.f4.to_value()),
        ])
    }
}
impl FromValue for Ts5oddode3 {
    fn from_value(v: &Value) -> Self {
        let s = match v { Value::Seq(s) => s, other => panic!("Ts5oddode3: expected Seq, got {other:?}") };
        assert_eq!(s.len(), 5, "Ts5oddode3: component count");
        let _ = s;
        Ts5oddode3 {
            f0: s[0].as_ref().map(FromValue::from_value),
            f1: FromValue::from_value(s[1].as_ref().expect("component f1 of Ts5oddode3 must be present")),
            f2: FromValue::from_value(s[2].as_ref().expect("component f2 of Ts5oddode3 must be present")),
            f3: s[3].as_ref().map(FromValue::from_value),
            f4: FromValue::from_value(s[4].as_ref().expect("component f4 of Ts5oddode3 must be present")),
        }
    }
}
impl ToValue for Ts5oddode3 {
    fn to_value(&self) -> Value {
        Value::Seq(vec![
            self.f0.as_ref().map(|x| x.to_value()),
            Some(self.f1.to_value()),
            Some(self.f2.to_value()),
            self.f3.as_ref().map(|x| x.to_value()),
            Some(self.f4.to_value()),
        ])
    }
}
impl FromValue for Ts5oddode4 {
    fn from_value(v: &Value) -> Self {
        let s = match v { Value::Seq(s) => s, other => panic!("Ts5oddode4: expected Seq, got {other:?}") };
        assert_eq!(s.len(), 5, "Ts5oddode4: component count");
        let _ = s;
        Ts5oddode4 {
            f0: s[0].as_ref().map(FromValue::from_value),
            f1: FromValue::from_value(s[1].as_ref().expect("component f1 of Ts5oddode4 must be present")),
            f2: FromValue::from_value(s[2].as_ref().expect("component f2 of Ts5oddode4 must be present")),
            f3: s[3].as_ref().map(FromValue::from_value),
            f4: FromValue::from_value(s[4].as_ref().expect("component f4 of Ts5oddode4 must be present")),
        }
    }
}
impl ToValue for Ts5oddode4 {
    fn to_value(&self) -> Value {
        Value::Seq(vec![
            self.f0.as_ref().map(|x| x.to_value()),
            Some(self.f1.to_value()),
            Some(self.f2.to_value()),
            self.f3.as_ref().map(|x| x.to_value()),
            Some(self.f4.to_value()),
        ])
    }
}
impl FromValue for Ts5oddode5 {
    fn from_value(v: &Value) -> Self {
        let s = match v { Value::Seq(s) => s, other => panic!("Ts5oddode5: expected Seq, got {other:?}") };
        assert_eq!(s.len(), 5, "Ts5oddode5: component count");
        let _ = s;
        Ts5oddode5 {
            f0: s[0].as_ref().map(FromValue::from_value),
            f1: FromValue::from_value(s[1].as_ref().expect("component f1 of Ts5oddode5 must be present")),
            f2: FromValue::from_value(s[2].as_ref().expect("component f2 of Ts5oddode5 must be present")),
            f3: s[3].as_ref().map(FromValue::from_value),
            f4: FromValue::from_value(s[4].as_ref().expect("component f4 of Ts5oddode5 must be present")),
        }
    }
}
impl ToValue for Ts5oddode5 {
    fn to_value(&self) -> Value {
        Value::Seq(vec![
            self.f0.as_ref().map(|x| x.to_value()),
            Some(self.f1.to_value()),
            Some(self.f2.to_value()),
            self.f3.as_ref().map(|x| x.to_value()),
            Some(self.f4.to_value()),
        ])
    }
}
impl FromValue for Ts5dddodn {
    fn from_value(v: &Value) -> Self {
        let s = match v { Value::Seq(s) => s, other => panic!("Ts5dddodn: expected Seq, got {other:?}") };
        assert_eq!(s.len(), 5, "Ts5dddodn: component count");
        let _ = s;
        Ts5dddodn {
            f0: FromValue::from_value(s[0].as_ref().expect("component f0 of Ts5dddodn must be present")),
            f1: FromValue::from_value(s[1].as_ref().expect("component f1 of Ts5dddodn must be present")),
            f2: FromValue::from_value(s[2].as_ref().expect("component f2 of Ts5dddodn must be present")),
            f3: s[3].as_ref().map(FromValue::from_value),
            f4: FromValue::from_value(s[4].as_ref().expect("component f4 of Ts5dddodn must be present")),
        }
    }
}
impl ToValue for Ts5dddodn {
    fn to_value(&self) -> Value {
        Value::Seq(vec![
            Some(self.f0.to_value()),
            Some(self.f1.to_value()),
            Some(self.f2.to_value()),
            self.f3.as_ref().map(|x| x.to_value()),
            Some(self.f4.to_value()),
        ])
    }
}
impl FromValue for Ts5dddode0 {
    fn from_value(v: &Value) -> Self {
        let s = match v { Value::Seq(s) => s, other => panic!("Ts5dddode0: expected Seq, got {other:?}") };
        assert_eq!(s.len(), 5, "Ts5dddode0: component count");
        let _ = s;
        Ts5dddode0 {
            f0: FromValue::from_value(s[0].as_ref().expect("component f0 of Ts5dddode0 must be present")),
            f1: FromValue::from_value(s[1].as_ref().expect("component f1 of Ts5dddode0 must be present")),
            f2: FromValue::from_value(s[2].as_ref().expect("component f2 of Ts5dddode0 must be present")),
            f3: s[3].as_ref().map(FromValue::from_value),
            f4: FromValue::from_value(s[4].as_ref().expect("component f4 of Ts5dddode0 must be present")),
        }
    }
}
impl ToValue for Ts5dddode0 {
    fn to_value(&self) -> Value {
        Value::Seq(vec![
            Some(self.f0.to_value()),
            Some(self.f1.to_value()),
            Some(self.f2.to_value()),
            self.f3.as_ref().map(|x| x.to_value()),
            Some(self.f4.to_value()),
        ])
    }
}
impl FromValue for Ts5dddode1 {
    fn from_value(v: &Value) -> Self {
        let s = match v { Value::Seq(s) => s, other => panic!("Ts5dddode1: expected Seq, got {other:?}") };
        assert_eq!(s.len(), 5, "Ts5dddode1: component count");
        let _ = s;
        Ts5dddode1 {
            f0: FromValue::from_value(s[0].as_ref().expect("component f0 of Ts5dddode1 must be present")),
            f1: FromValue::from_value(s[1].as_ref().expect("component f1 of Ts5dddode1 must be present")),
            f2: FromValue::from_value(s[2].as_ref().expect("component f2 of Ts5dddode1 must be present")),
            f3: s[3].as_ref().map(FromValue::from_value),
            f4: FromValue::from_value(s[4].as_ref().expect("component f4 of Ts5dddode1 must be present")),
        }
    }
}
impl ToValue for Ts5dddode1 {
    fn to_value(&self) -> Value {
        Value::Seq(vec![
            Some(self.f0.to_value()),
            Some(self.f1.to_value()),
            Some(self.f2.to_value()),
            self.f3.as_ref().map(|x| x.to_value()),
            Some(self.f4.to_value()),
        ])
    }
}
impl FromValue for Ts5dddode2 {
    fn from_value(v: &Value) -> Self {
        let s = match v { Value::Seq(s) => s, other => panic!("Ts5dddode2: expected Seq, got {other:?}") };
        assert_eq!(s.len(), 5, "Ts5dddode2: component count");
        let _ = s;
        Ts5dddode2 {
            f0: FromValue::from_value(s[0].as_ref().expect("component f0 of Ts5dddode2 must be present")),
            f1: FromValue::from_value(s[1].as_ref().expect("component f1 of Ts5dddode2 must be present")),
            f2: FromValue::from_value(s[2].as_ref().expect("component f2 of Ts5dddode2 must be present")),
            f3: s[3].as_ref().map(FromValue::from_value),
            f4: FromValue::from_value(s[4].as_ref().expect("component f4 of Ts5dddode2 must be present")),
        }
    }
}
impl ToValue for Ts5dddode2 {
    fn to_value(&self) -> Value {
        Value::Seq(vec![
            Some(self.f0.to_value()),
            Some(self.f1.to_value()),
            Some(self.f2.to_value()),
            self.f3.as_ref().map(|x| x.to_value()),
            Some(self.f4.to_value()),
        ])
    }
}
impl FromValue for Ts5dddode3 {
    fn from_value(v: &Value) -> Self {
        let s = match v { Value::Seq(s) => s, other => panic!("Ts5dddode3: expected Seq, got {other:?}") };
        assert_eq!(s.len(), 5, "Ts5dddode3: component count");
        let _ = s;
        Ts5dddode3 {
            f0: FromValue::from_value(s[0].as_ref().expect("component f0 of Ts5dddode3 must be present")),
            f1: FromValue::from_value(s[1].as_ref().expect("component f1 of Ts5dddode3 must be present")),
            f2: FromValue::from_value(s[2].as_ref().expect("component f2 of Ts5dddode3 must be present")),
            f3: s[3].as_ref().map(FromValue::from_value),
            f4: FromValue::from_value(s[4].as_ref().expect("component f4 of Ts5dddode3 must be present")),
        }
    }
}
impl ToValue for Ts5dddode3 {
    fn to_value(&self) -> Value {
        Value::Seq(vec![
            Some(self.f0.to_value()),
            Some(self.f1.to_value()),
            Some(self.f2.to_value()),
            self.f3.as_ref().map(|x| x.to_value()),
            Some(self.f4.to_value()),
        ])
    }
}
impl FromValue for Ts5dddode4 {
    fn from_value(v: &Value) -> Self {
        let s = match v { Value::Seq(s) => s, other => panic!("Ts5dddode4: expected Seq, got {other:?}") };
        assert_eq!(s.len(), 5, "Ts5dddode4: component count");
        let _ = s;
        Ts5dddode4 {
            f0: FromValue::from_value(s[0].as_ref().expect("component f0 of Ts5dddode4 must be present")),
            f1: FromValue::from_value(s[1].as_ref().expect("component f1 of Ts5dddode4 must be present")),
            f2: FromValue::from_value(s[2].as_ref().expect("component f2 of Ts5dddode4 must be present")),
            f3: s[3].as_ref().map(FromValue::from_value),
            f4: FromValue::from_value(s[4].as_ref().expect("component f4 of Ts5dddode4 must be present")),
        }
    }
}
impl ToValue for Ts5dddode4 {
    fn to_value(&self) -> Value {
        Value::Seq(vec![
            Some(self.f0.to_value()),
            Some(self.f1.to_value()),
            Some(self.f2.to_value()),
            self.f3.as_ref().map(|x| x.to_value()),
            Some(self.f4.to_value()),
        ])
    }
}
impl FromValue for Ts5dddode5 {
    fn from_value(v: &Value) -> Self {
        let s = match v { Value::Seq(s) => s, other => panic!("Ts5dddode5: expected Seq, got {other:?}") };
        assert_eq!(s.len(), 5, "Ts5dddode5: component count");
        let _ = s;
        Ts5dddode5 {
            f0: FromValue::from_value(s[0].as_ref().expect("component f0 of Ts5dddode5 must be present")),
            f1: FromValue::from_value(s[1].as_ref().expect("component f1 of Ts5dddode5 must be present")),
            f2: FromValue::from_value(s[2].as_ref().expect("component f2 of Ts5dddode5 must be present")),
            f3: s[3].as_ref().map(FromValue::from_value),
            f4: FromValue::from_value(s[4].as_ref().expect("component f4 of Ts5dddode5 must be present")),
        }
    }
}
impl ToValue for Ts5dddode5 {
    fn to_value(&self) -> Value {
        Value::Seq(vec![
            Some(self.f0.to_value()),
            Some(self.f1.to_value()),
            Some(self.f2.to_value()),
            self.f3.as_ref().map(|x| x.to_value()),
            Some(self.f4.to_value()),
        ])
    }
}
impl FromValue for Ts5mmmddn {
    fn from_value(v: &Value) -> Self {
        let s = match v { Value::Seq(s) => s, other => panic!("Ts5mmmddn: expected Seq, got {other:?}") };
        assert_eq!(s.len(), 5, "Ts5mmmddn: component count");
        let _ = s;
        Ts5mmmddn {
            f0: FromValue::from_value(s[0].as_ref().expect("component f0 of Ts5mmmddn must be present")),
            f1: FromValue::from_value(s[1].as_ref().expect("component f1 of Ts5mmmddn must be present")),
            f2: FromValue::from_value(s[2].as_ref().expect("component f2 of Ts5mmmddn must be present")),
            f3: FromValue::from_value(s[3].as_ref().expect("component f3 of Ts5mmmddn must be present")),
            f4: FromValue::from_value(s[4].as_ref().expect("component f4 of Ts5mmmddn must be present")),
        }
    }
}
impl ToValue for Ts5mmmddn {
    fn to_value(&self) -> Value {
        Value::Seq(vec![
            Some(self.f0.to_value()),
            Some(self.f1.to_value()),
            Some(self.f2.to_value()),
            Some(self.f3.to_value()),
            Some(self.f4.to_value()),
        ])
    }
}
impl FromValue for Ts5mmmdde0 {
    fn from_value(v: &Value) -> Self {
        let s = match v { Value::Seq(s) => s, other => panic!("Ts5mmmdde0: expected Seq, got {other:?}") };
        assert_eq!(s.len(), 5, "Ts5mmmdde0: component count");
        let _ = s;
        Ts5mmmdde0 {
            f0: FromValue::from_value(s[0].as_ref().expect("component f0 of Ts5mmmdde0 must be present")),
            f1: s[1].as_ref().map(FromValue::from_value),
            f2: s[2].as_ref().map(FromValue::from_value),
            f3: FromValue::from_value(s[3].as_ref().expect("component f3 of Ts5mmmdde0 must be present")),
            f4: FromValue::from_value(s[4].as_ref().expect("component f4 of Ts5mmmdde0 must be present")),
        }
    }
}
impl ToValue for Ts5mmmdde0 {
    fn to_value(&self) -> Value {
        Value::Seq(vec![
            Some(self.f0.to_value()),
            self.f1.as_ref().map(|x| x.to_value()),
            self.f2.as_ref().map(|x| x.to_value()),
            Some(self.f3.to_value()),
            Some(self.f4.to_value()),
        ])
    }
}
impl FromValue for Ts5mmmdde1 {
    fn from_value(v: &Value) -> Self {
        let s = match v { Value::Seq(s) => s, other => panic!("Ts5mmmdde1: expected Seq, got {other:?}") };
        assert_eq!(s.len(), 5, "Ts5mmmdde1: component count");
        let _ = s;
        Ts5mmmdde1 {
            f0: FromValue::from_value(s[0].as_ref().expect("component f0 of Ts5mmmdde1 must be present")),
            f1: s[1].as_ref().map(FromValue::from_value),
            f2: s[2].as_ref().map(FromValue::from_value),
            f3: FromValue::from_value(s[3].as_ref().expect("component f3 of Ts5mmmdde1 must be present")),
            f4: FromValue::from_value(s[4].as_ref().expect("component f4 of Ts5mmmdde1 must be present")),
        }
    }
}
impl ToValue for Ts5mmmdde1 {
    fn to_value(&self) -> Value {
        Value::Seq(vec![
            Some(self.f0.to_value()),
            self.f1.as_ref().map(|x| x.to_value()),
            self.f2.as_ref().map(|x| x.to_value()),
            Some(self.f3.to_value()),
            Some(self.f4.to_value()),
        ])
    }
}
impl FromValue for Ts5mmmdde2 {
    fn from_value(v: &Value) -> Self {
        let s = match v { Value::Seq(s) => s, other => panic!("Ts5mmmdde2: expected Seq, got {other:?}") };
        assert_eq!(s.len(), 5, "Ts5mmmdde2: component count");
        let _ = s;
        Ts5mmmdde2 {
            f0: FromValue::from_value(s[0].as_ref().expect("component f0 of Ts5mmmdde2 must be present")),
            f1: FromValue::from_value(s[1].as_ref().expect("component f1 of Ts5mmmdde2 must be present")),
            f2: s[2].as_ref().map(FromValue::from_value),
            f3: FromValue::from_value(s[3].as_ref().expect("component f3 of Ts5mmmdde2 must be present")),
            f4: FromValue::from_value(s[4].as_ref().expect("component f4 of Ts5mmmdde2 must be present")),
        }
    }
}
impl ToValue for Ts5mmmdde2 {
    fn to_value(&self) -> Value {
        Value::Seq(vec![
            Some(self.f0.to_value()),
            Some(self.f1.to_value()),
            self.f2.as_ref().map(|x| x.to_value()),
            Some(self.f3.to_value()),
            Some(self.f4.to_value()),
        ])
    }
}
impl FromValue for Ts5mmmdde3 {
    fn from_value(v: &Value) -> Self {
        let s = match v { Value::Seq(s) => s, other => panic!("Ts5mmmdde3: expected Seq, got {other:?}") };
        assert_eq!(s.len(), 5, "Ts5mmmdde3: component count");
        let _ = s;
        Ts5mmmdde3 {
            f0: FromValue::from_value(s[0].as_ref().expect("component f0 of Ts5mmmdde3 must be present")),
            f1: FromValue::from_value(s[1].as_ref().expect("component f1 of Ts5mmmdde3 must be present")),
            f2: FromValue::from_value(s[2].as_ref().expect("component f2 of Ts5mmmdde3 must be present")),
            f3: FromValue::from_value(s[3].as_ref().expect("component f3 of Ts5mmmdde3 must be present")),
            f4: FromValue::from_value(s[4].as_ref().expect("component f4 of Ts5mmmdde3 must be present")),
        }
    }
}
impl ToValue for Ts5mmmdde3 {
    fn to_value(&self) -> Value {
        Value::Seq(vec![
            Some(self.f0.to_value()),
            Some(self.f1.to_value()),
            Some(self.f2.to_value()),
            Some(self.f3.to_value()),
            Some(self.f4.to_value()),
        ])
    }
}
impl FromValue for Ts5mmmdde4 {
    fn from_value(v: &Value) -> Self {
        let s = match v { Value::Seq(s) => s, other => panic!("Ts5mmmdde4: expected Seq, got {other:?}") };
        assert_eq!(s.len(), 5, "Ts5mmmdde4: component count");
        let _ = s;
        Ts5mmmdde4 {
            f0: FromValue::from_value(s[0].as_ref().expect("component f0 of Ts5mmmdde4 must be present")),
            f1: FromValue::from_value(s[1].as_ref().expect("component f1 of Ts5mmmdde4 must be present")),
            f2: FromValue::from_value(s[2].as_ref().expect("component f2 of Ts5mmmdde4 must be present")),
            f3: FromValue::from_value(s[3].as_ref().expect("component f3 of Ts5mmmdde4 must be present")),
            f4: FromValue::from_value(s[4].as_ref().expect("component f4 of Ts5mmmdde4 must be present")),
        }
    }
}
impl ToValue for Ts5mmmdde4 {
    fn to_value(&self) -> Value {
        Value::Seq(vec![
            Some(self.f0.to_value()),
            Some(self.f1.to_value()),
            Some(self.f2.to_value()),
            Some(self.f3.to_value()),
            Some(self.f4.to_value()),
        ])
    }
}
impl FromValue for Ts5mmmdde5 {
    fn from_value(v: &Value) -> Self {
        let s = match v { Value::Seq(s) => s, other => panic!("Ts5mmmdde5: expected Seq, got {other:?}") };
        assert_eq!(s.len(), 5, "Ts5mmmdde5: component count");
        let _ = s;
        Ts5mmmdde5 {
            f0: FromValue::from_value(s[0].as_ref().expect("component f0 of Ts5mmmdde5 must be present")),
            f1: FromValue::from_value(s[1].as_ref().expect("component f1 of Ts5mmmdde5 must be present")),
            f2: FromValue::from_value(s[2].as_ref().expect("component f2 of Ts5mmmdde5 must be present")),
            f3: FromValue::from_value(s[3].as_ref().expect("component f3 of Ts5mmmdde5 must be present")),
            f4: FromValue::from_value(s[4].as_ref().expect("component f4 of Ts5mmmdde5 must be present")),
        }
    }
}
impl ToValue for Ts5mmmdde5 {
    fn to_value(&self) -> Value {
        Value::Seq(vec![
            Some(self.f0.to_value()),
            Some(self.f1.to_value()),
            Some(self.f2.to_value()),
            Some(self.f3.to_value()),
            Some(self.f4.to_value()),
        ])
    }
}
impl FromValue for Ts5ommddn {
    fn from_value(v: &Value) -> Self {
        let s = match v { Value::Seq(s) => s, other => panic!("Ts5ommddn: expected Seq, got {other:?}") };
        assert_eq!(s.len(), 5, "Ts5ommddn: component count");
        let _ = s;
        Ts5ommddn {
            f0: s[0].as_ref().map(FromValue::from_value),
            f1: FromValue::from_value(s[1].as_ref().expect("component f1 of Ts5ommddn must be present")),
            f2: FromValue::from_value(s[2].as_ref().expect("component f2 of Ts5ommddn must be present")),
            f3: FromValue::from_value(s[3].as_ref().expect("component f3 of Ts5ommddn must be present")),
            f4: FromValue::from_value(s[4].as_ref().expect("component f4 of Ts5ommddn must be present")),
        }
    }
}
impl ToValue for Ts5ommddn {
    fn to_value(&self) -> Value {
        Value::Seq(vec![
            self.f0.as_ref().map(|x| x.to_value()),
            Some(self.f1.to_value()),
            Some(self.f2.to_value()),
            Some(self.f3.to_value()),
            Some(self.f4.to_value()),
        ])
    }
}
impl FromValue for Ts5ommdde0 {
    fn from_value(v: &Value) -> Self {
        let s = match v { Value::Seq(s) => s, other => panic!("Ts5ommdde0: expected Seq, got {other:?}") };
        assert_eq!(s.len(), 5, "Ts5ommdde0: component count");
        let _ = s;
        Ts5ommdde0 {
            f0: s[0].as_ref().map(FromValue::from_value),
            f1: s[1].as_ref().map(FromValue::from_value),
            f2: s[2].as_ref().map(FromValue::from_value),
            f3: FromValue::from_value(s[3].as_ref().expect("component f3 of Ts5ommdde0 must be present")),
            f4: FromValue::from_value(s[4].as_ref().expect("component f4 of Ts5ommdde0 must be present")),
        }
    }
}
impl ToValue for Ts5ommdde0 {
    fn to_value(&self) -> Value {
        Value::Seq(vec![
            self.f0.as_ref().map(|x| x.to_value()),
            self.f1.as_ref().map(|x| x.to_value()),
            self.f2.as_ref().map(|x| x.to_value()),
            Some(self.f3.to_value()),
            Some(self.f4.to_value()),
        ])
    }
}
impl FromValue for Ts5ommdde1 {
    fn from_value(v: &Value) -> Self {
        let s = match v { Value::Seq(s) => s, other => panic!("Ts5ommdde1: expected Seq, got {other:?}") };
        assert_eq!(s.len(), 5, "Ts5ommdde1: component count");
        let _ = s;
        Ts5ommdde1 {
            f0: s[0].as_ref().map(FromValue::from_value),
            f1: s[1].as_ref().map(FromValue::from_value),
            f2: s[2].as_ref().map(FromValue::from_value),
            f3: FromValue::from_value(s[3].as_ref().expect("component f3 of Ts5ommdde1 must be present")),
            f4: FromValue::from_value(s[4].as_ref().expect("component f4 of Ts5ommdde1 must be present")),
        }
    }
}
impl ToValue for Ts5ommdde1 {
    fn to_value(&self) -> Value {
        Value::Seq(vec![
            self.f0.as_ref().map(|x| x.to_value()),
            self.f1.as_ref().map(|x| x.to_value()),
            self.f2.as_ref().map(|x| x.to_value()),
            Some(self.f3.to_value()),
            Some(self.f4.to_value()),
        ])
    }
}
impl FromValue for Ts5ommdde2 {
    fn from_value(v: &Value) -> Self {
        let s = match v { Value::Seq(s) => s, other => panic!("Ts5ommdde2: expected Seq, got {other:?}") };
        assert_eq!(s.len(), 5, "Ts5ommdde2: component count");
        let _ = s;
        Ts5ommdde2 {
            f0: s[0].as_ref().map(FromValue::from_value),
            f1: FromValue::from_value(s[1].as_ref().expect("component f1 of Ts5ommdde2 must be present")),
            f2: s[2].as_ref().map(FromValue::from_value),
            f3: FromValue::from_value(s[3].as_ref().expect("component f3 of Ts5ommdde2 must be present")),
            f4: FromValue::from_value(s[4].as_ref().expect("component f4 of Ts5ommdde2 must be present")),
        }
    }
}
impl ToValue for Ts5ommdde2 {
    fn to_value(&self) -> Value {
        Value::Seq(vec![
            self.f0.as_ref().map(|x| x.to_value()),
            Some(self.f1.to_value()),
            self.f2.as_ref().map(|x| x.to_value()),
            Some(self.f3.to_value()),
            Some(self.f4.to_value()),
        ])
    }
}
impl FromValue for Ts5ommdde3 {
    fn from_value(v: &Value) -> Self {
        let s = match v { Value::Seq(s) => s, other => panic!("Ts5ommdde3: expected Seq, got {other:?}") };
        assert_eq!(s.len(), 5, "Ts5ommdde3: component count");
        let _ = s;
        Ts5ommdde3 {
            f0: s[0].as_ref().map(FromValue::from_value),
            f1: FromValue::from_value(s[1].as_ref().expect("component f1 of Ts5ommdde3 must be present")),
            f2: FromValue::from_value(s[2].as_ref().expect("component f2 of Ts5ommdde3 must be present")),
            f3: FromValue::from_value(s[3].as_ref().expect("component f3 of Ts5ommdde3 must be present")),
            f4: FromValue::from_value(s[4].as_ref().expect("component f4 of Ts5ommdde3 must be present")),
        }
    }
}
impl ToValue for Ts5ommdde3 {
    fn to_value(&self) -> Value {
        Value::Seq(vec![
            self.f0.as_ref().map(|x| x.to_value()),
            Some(self.f1.to_value()),
            Some(self.f2.to_value()),
            Some(self.f3.to_value()),
            Some(self.f4.to_value()),
        ])
    }
}
impl FromValue for Ts5ommdde4 {
    fn from_value(v: &Value) -> Self {
        let s = match v { Value::Seq(s) => s, other => panic!("Ts5ommdde4: expected Seq, got {other:?}") };
        assert_eq!(s.len(), 5, "Ts5ommdde4: component count");
        let _ = s;
        Ts5ommdde4 {
            f0: s[0].as_ref().map(FromValue::from_value),
            f1: FromValue::from_value(s[1].as_ref().expect("component f1 of Ts5ommdde4 must be present")),
            f2: FromValue::from_value(s[2].as_ref().expect("component f2 of Ts5ommdde4 must be present")),
            f3: FromValue::from_value(s[3].as_ref().expect("component f3 of Ts5ommdde4 must be present")),
            f4: FromValue::from_value(s[4].as_ref().expect("component f4 of Ts5ommdde4 must be present")),
        }
    }
}
impl ToValue for Ts5ommdde4 {
    fn to_value(&self) -> Value {
        Value::Seq(vec![
            self.f0.as_ref().map(|x| x.to_value()),
            Some(self.f1.to_value()),
            Some(self.f2.to_value()),
            Some(self.f3.to_value()),
            Some(self.f4.to_value()),
        ])
    }
}
impl FromValue for Ts5ommdde5 {
    fn from_value(v: &Value) -> Self {
        let s = match v { Value::Seq(s) => s, other => panic!("Ts5ommdde5: expected Seq, got {other:?}") };
        assert_eq!(s.len(), 5, "Ts5ommdde5: component count");
        let _ = s;
        Ts5ommdde5 {
            f0: s[0].as_ref().map(FromValue::from_value),
            f1: FromValue::from_value(s[1].as_ref().expect("component f1 of Ts5ommdde5 must be present")),
            f2: FromValue::from_value(s[2].as_ref().expect("component f2 of Ts5ommdde5 must be present")),
            f3: FromValue::from_value(s[3].as_ref().expect("component f3 of Ts5ommdde5 must be present")),
            f4: FromValue::from_value(s[4].as_ref().expect("component f4 of Ts5ommdde5 must be present")),
        }
    }
}
impl ToValue for Ts5ommdde5 {
    fn to_value(&self) -> Value {
        Value::Seq(vec![
            self.f0.as_ref().map(|x| x.to_value()),
            Some(self.f1.to_value()),
            Some(self.f2.to_value()),
            Some(self.f3.to_value()),
            Some(self.f4.to_value()),
        ])
    }
}
impl FromValue for Ts5dmmddn {
    fn from_value(v: &Value) -> Self {
        let s = match v { Value::Seq(s) => s, other => panic!("Ts5dmmddn: expected Seq, got {other:?}") };
        assert_eq!(s.len(), 5, "Ts5dmmddn: component count");
        let _ = s;
        Ts5dmmddn {
            f0: FromValue::from_value(s[0].as_ref().expect("component f0 of Ts5dmmddn must be present")),
            f1: FromValue::from_value(s[1].as_ref().expect("component f1 of Ts5dmmddn must be present")),
            f2: FromValue::from_value(s[2].as_ref().expect("component f2 of Ts5dmmddn must be present")),
            f3: FromValue::from_value(s[3].as_ref().expect("component f3 of Ts5dmmddn must be present")),
            f4: FromValue::from_value(s[4].as_ref().expect("component f4 of Ts5dmmddn must be present")),
        }
    }
}
impl ToValue for Ts5dmmddn {
    fn to_value(&self) -> Value {
        Value::Seq(vec![
            Some(self.f0.to_value()),
            Some(self.f1.to_value()),
            Some(self.f2.to_value()),
            Some(self.f3.to_value()),
            Some(self.f4.to_value()),
        ])
    }
}
impl FromValue for Ts5dmmdde0 {
    fn from_value(v: &Value) -> Self {
        let s = match v { Value::Seq(s) => s, other => panic!("Ts5dmmdde0: expected Seq, got {other:?}") };
        assert_eq!(s.len(), 5, "Ts5dmmdde0: component count");
        let _ = s;
        Ts5dmmdde0 {
            f0: FromValue::from_value(s[0].as_ref().expect("component f0 of Ts5dmmdde0 must be present")),
            f1: s[1].as_ref().map(FromValue::from_value),
            f2: s[2].as_ref().map(FromValue::from_value),
            f3: FromValue::from_value(s[3].as_ref().expect("component f3 of Ts5dmmdde0 must be present")),
            f4: FromValue::from_value(s[4].as_ref().expect("component f4 of Ts5dmmdde0 must be present")),
        }
    }
}
impl ToValue for Ts5dmmdde0 {
    fn to_value(&self) -> Value {
        Value::Seq(vec![
            Some(self.f0.to_value()),
            self.f1.as_ref().map(|x| x.to_value()),
            self.f2.as_ref().map(|x| x.to_value()),
            Some(self.f3.to_value()),
            Some(self.f4.to_value()),
        ])
    }
}
impl FromValue for Ts5dmmdde1 {
    fn from_value(v: &Value) -> Self {
        let s = match v { Value::Seq(s) => s, other => panic!("Ts5dmmdde1: expected Seq, got {other:?}") };
        assert_eq!(s.len(), 5, "Ts5dmmdde1: component count");
        let _ = s;
        Ts5dmmdde1 {
            f0: FromValue::from_value(s[0].as_ref().expect("component f0 of Ts5dmmdde1 must be present")),
            f1: s[1].as_ref().map(FromValue::from_value),
            f2: s[2].as_ref().map(FromValue::from_value),
            f3: FromValue::from_value(s[3].as_ref().expect("component f3 of Ts5dmmdde1 must be present")),
            f4: FromValue::from_value(s[4].as_ref().expect("component f4 of Ts5dmmdde1 must be present")),
        }
    }
}
impl ToValue for Ts5dmmdde1 {
    fn to_value(&self) -> Value {
        Value::Seq(vec![
            Some(self.f0.to_value()),
            self.f1.as_ref().map(|x| x.to_value()),
            self.f2.as_ref().map(|x| x.to_value()),
            Some(self.f3.to_value()),
            Some(self.f4.to_value()),
        ])
    }
}
impl FromValue for Ts5dmmdde2 {
    fn from_value(v: &Value) -> Self {
        let s = match v { Value::Seq(s) => s, other => panic!("Ts5dmmdde2: expected Seq, got {other:?}") };
        assert_eq!(s.len(), 5, "Ts5dmmdde2: component count");
        let _ = s;
        Ts5dmmdde2 {
            f0: FromValue::from_value(s[0].as_ref().expect("component f0 of Ts5dmmdde2 must be present")),
            f1: FromValue::from_value(s[1].as_ref().expect("component f1 of Ts5dmmdde2 must be present")),
            f2: s[2].as_ref().map(FromValue::from_value),
            f3: FromValue::from_value(s[3].as_ref().expect("component f3 of Ts5dmmdde2 must be present")),
            f4: FromValue::from_value(s[4].as_ref().expect("component f4 of Ts5dmmdde2 must be present")),
        }
    }
}
impl ToValue for Ts5dmmdde2 {
    fn to_value(&self) -> Value {
        Value::Seq(vec![
            Some(self.f0.to_value()),
            Some(self.f1.to_value()),
            self.f2.as_ref().map(|x| x.to_value()),
            Some(self.f3.to_value()),
            Some(self.f4.to_value()),
        ])
    }
}
impl FromValue for Ts5dmmdde3 {
    fn from_value(v: &Value) -> Self {
        let s = match v { Value::Seq(s) => s, other => panic!("Ts5dmmdde3: expected Seq, got {other:?}") };
        assert_eq!(s.len(), 5, "Ts5dmmdde3: component count");
        let _ = s;
        Ts5dmmdde3 {
            f0: FromValue::from_value(s[0].as_ref().expect("component f0 of Ts5dmmdde3 must be present")),
            f1: FromValue::from_value(s[1].as_ref().expect("component f1 of Ts5dmmdde3 must be present")),
            f2: FromValue::from_value(s[2].as_ref().expect("component f2 of Ts5dmmdde3 must be present")),
            f3: FromValue::from_value(s[3].as_ref().expect("component f3 of Ts5dmmdde3 must be present")),
            f4: FromValue::from_value(s[4].as_ref().expect("component f4 of Ts5dmmdde3 must be present")),
        }
    }
}
impl ToValue for Ts5dmmdde3 {
    fn to_value(&self) -> Value {
        Value::Seq(vec![
            Some(self.f0.to_value()),
            Some(self.f1.to_value()),
            Some(self.f2.to_value()),
            Some(self.f3.to_value()),
            Some(self.f4.to_value()),
        ])
    }
}
impl FromValue for Ts5dmmdde4 {
    fn from_value(v: &Value) -> Self {
        let s = match v { Value::Seq(s) => s, other => panic!("Ts5dmmdde4: expected Seq, got {other:?}") };
        assert_eq!(s.len(), 5, "Ts5dmmdde4: component count");
        let _ = s;
        Ts5dmmdde4 {
            f0: FromValue::from_value(s[0].as_ref().expect("component f0 of Ts5dmmdde4 must be present")),
            f1: FromValue::from_value(s[1].as_ref().expect("component f1 of Ts5dmmdde4 must be present")),
            f2: FromValue::from_value(s[2].as_ref().expect("component f2 of Ts5dmmdde4 must be present")),
            f3: FromValue::from_value(s[3].as_ref().expect("component f3 of Ts5dmmdde4 must be present")),
            f4: FromValue::from_value(s[4].as_ref().expect("component f4 of Ts5dmmdde4 must be present")),
        }
    }
}
impl ToValue for Ts5dmmdde4 {
    fn to_value(&self) -> Value {
        Value::Seq(vec![
            Some(self.f0.to_value()),
            Some(self.f1.to_value()),
            Some(self.f2.to_value()),
            Some(self.f3.to_value()),
            Some(self.f4.to_value()),
        ])
    }
}
impl FromValue for Ts5dmmdde5 {
    fn from_value(v: &Value) -> Self {
        let s = match v { Value::Seq(s) => s, other => panic!("Ts5dmmdde5: expected Seq, got {other:?}") };
        assert_eq!(s.len(), 5, "Ts5dmmdde5: component count");
        let _ = s;
        Ts5dmmdde5 {
            f0: FromValue::from_value(s[0].as_ref().expect("component f0 of Ts5dmmdde5 must be present")),
            f1: FromValue::from_value(s[1].as_ref().expect("component f1 of Ts5dmmdde5 must be present")),
            f2: FromValue::from_value(s[2].as_ref().expect("component f2 of Ts5dmmdde5 must be present")),
            f3: FromValue::from_value(s[3].as_ref().expect("component f3 of Ts5dmmdde5 must be present")),
            f4: FromValue::from_value(s[4].as_ref().expect("component f4 of Ts5dmmdde5 must be present")),
        }
    }
}
impl ToValue for Ts5dmmdde5 {
    fn to_value(&self) -> Value {
        Value::Seq(vec![
            Some(self.f0.to_value()),
            Some(self.f1.to_value()),
            Some(self.f2.to_value()),
            Some(self.f3.to_value()),
            Some(self.f4.to_value()),
        ])
    }
}
impl FromValue for Ts5momddn {
    fn from_value(v: &Value) -> Self {
        let s = match v { Value::Seq(s) => s, other => panic!("Ts5momddn: expected Seq, got {other:?}") };
        assert_eq!(s.len(), 5, "Ts5momddn: component count");
        let _ = s;
        Ts5momddn {
            f0: FromValue::from_value(s[0].as_ref().expect("component f0 of Ts5momddn must be present")),
            f1: s[1].as_ref().map(FromValue::from_value),
            f2: FromValue::from_value(s[2].as_ref().expect("component f2 of Ts5momddn must be present")),
            f3: FromValue::from_value(s[3].as_ref().expect("component f3 of Ts5momddn must be present")),
            f4: FromValue::from_value(s[4].as_ref().expect("component f4 of Ts5momddn must be present")),
        }
    }
}
impl ToValue for Ts5momddn {
    fn to_value(&self) -> Value {
        Value::Seq(vec![
            Some(self.f0.to_value()),
            self.f1.as_ref().map(|x| x.to_value()),
            Some(self.f2.to_value()),
            Some(self.f3.to_value()),
            Some(self.f4.to_value()),
        ])
    }
}
impl FromValue for Ts5momdde0 {
    fn from_value(v: &Value) -> Self {
        let s = match v { Value::Seq(s) => s, other => panic!("Ts5momdde0: expected Seq, got {other:?}") };
        assert_eq!(s.len(), 5, "Ts5momdde0: component count");
        let _ = s;
        Ts5momdde0 {
            f0: FromValue::from_value(s[0].as_ref().expect("component f0 of Ts5momdde0 must be present")),
            f1: s[1].as_ref().map(FromValue::from_value),
            f2: s[2].as_ref().map(FromValue::from_value),
            f3: FromValue::from_value(s[3].as_ref().expect("component f3 of Ts5momdde0 must be present")),
            f4: FromValue::from_value(s[4].as_ref().expect("component f4 of Ts5momdde0 must be present")),
        }
    }
}
impl ToValue for Ts5momdde0 {
    fn to_value(&self) -> Value {
        Value::Seq(vec![
            Some(self.f0.to_value()),
            self.f1.as_ref().map(|x| x.to_value()),
            self.f2.as_ref().map(|x| x.to_value()),
            Some(self.f3.to_value()),
            Some(self.f4.to_value()),
        ])
    }
}
impl FromValue for Ts5momdde1 {
    fn from_value(v: &Value) -> Self {
        let s = match v { Value::Seq(s) => s, other => panic!("Ts5momdde1: expected Seq, got {other:?}") };
        assert_eq!(s.len(), 5, "Ts5momdde1: component count");
        let _ = s;
        Ts5momdde1 {
            f0: FromValue::from_value(s[0].as_ref().expect("component f0 of Ts5momdde1 must be present")),
            f1: s[1].as_ref().map(FromValue::from_value),
            f2: s[2].as_ref().map(FromValue::from_value),
            f3: FromValue::from_value(s[3].as_ref().expect("component f3 of Ts5momdde1 must be present")),
            f4: FromValue::from_value(s[4].as_ref().expect("component f4 of Ts5momdde1 must be present")),
        }
    }
}
impl ToValue for Ts5momdde1 {
    fn to_value(&self) -> Value {
        Value::Seq(vec![
            Some(self.f0.to_value()),
            self.f1.as_ref().map(|x| x.to_value()),
            self.f2.as_ref().map(|x| x.to_value()),
            Some(self.f3.to_value()),
            Some(self.f4.to_value()),
        ])
    }
}
impl FromValue for Ts5momdde2 {
    fn from_value(v: &Value) -> Self {
        let s = match v { Value::Seq(s) => s, other => panic!("Ts5momdde2: expected Seq, got {other:?}") };
        assert_eq!(s.len(), 5, "Ts5momdde2: component count");
        let _ = s;
        Ts5momdde2 {
            f0: FromValue::from_value(s[0].as_ref().expect("component f0 of Ts5momdde2 must be present")),
            f1: s[1].as_ref().map(FromValue::from_value),
            f2: s[2].as_ref().map(FromValue::from_value),
            f3: FromValue::from_value(s[3].as_ref().expect("component f3 of Ts5momdde2 must be present")),
            f4: FromValue::from_value(s[4].as_ref().expect("component f4 of Ts5momdde2 must be present")),
        }
    }
}
impl ToValue for Ts5momdde2 {
    fn to_value(&self) -> Value {
        Value::Seq(vec![
            Some(self.f0.to_value()),
            self.f1.as_ref().map(|x| x.to_value()),
            self.f2.as_ref().map(|x| x.to_value()),
            Some(self.f3.to_value()),
            Some(self.f4.to_value()),
        ])
    }
}
impl FromValue for Ts5momdde3 {
    fn from_value(v: &Value) -> Self {
        let s = match v { Value::Seq(s) => s, other => panic!("Ts5momdde3: expected Seq, got {other:?}") };
        assert_eq!(s.len(), 5, "Ts5momdde3: component count");
        let _ = s;
        Ts5momdde3 {
            f0: FromValue::from_value(s[0].as_ref().expect("component f0 of Ts5momdde3 must be present")),
            f1: s[1].as_ref().map(FromValue::from_value),
            f2: FromValue::from_value(s[2].as_ref().expect("component f2 of Ts5momdde3 must be present")),
            f3: FromValue::from_value(s[3].as_ref().expect("component f3 of Ts5momdde3 must be present")),
            f4: FromValue::from_value(s[4].as_ref().expect("component f4 of Ts5momdde3 must be present")),
        }
    }
}
impl ToValue for Ts5momdde3 {
    fn to_value(&self) -> Value {
        Value::Seq(vec![
            Some(self.f0.to_value()),
            self.f1.as_ref().map(|x| x.to_value()),
            Some(self.f2.to_value()),
            Some(self.f3.to_value()),
            Some(self.f4.to_value()),
        ])
    }
}
impl FromValue for Ts5momdde4 {
    fn from_value(v: &Value) -> Self {
        let s = match v { Value::Seq(s) => s, other => panic!("Ts5momdde4: expected Seq, got {other:?}") };
        assert_eq!(s.len(), 5, "Ts5momdde4: component count");
        let _ = s;
        Ts5momdde4 {
            f0: FromValue::from_value(s[0].as_ref().expect("component f0 of Ts5momdde4 must be present")),
            f1: s[1].as_ref().map(FromValue::from_value),
            f2: FromValue::from_value(s[2].as_ref().expect("component f2 of Ts5momdde4 must be present")),
            f3: FromValue::from_value(s[3].as_ref().expect("component f3 of Ts5momdde4 must be present")),
            f4: FromValue::from_value(s[4].as_ref().expect("component f4 of Ts5momdde4 must be present")),
        }
    }
}
impl ToValue for Ts5momdde4 {
    fn to_value(&self) -> Value {
        Value::Seq(vec![
            Some(self.f0.to_value()),
            self.f1.as_ref().map(|x| x.to_value()),
            Some(self.f2.to_value()),
            Some(self.f3.to_value()),
            Some(self.f4.to_value()),
        ])
    }
}
impl FromValue for Ts5momdde5 {
    fn from_value(v: &Value) -> Self {
        let s = match v { Value::Seq(s) => s, other => panic!("Ts5momdde5: expected Seq, got {other:?}") };
        assert_eq!(s.len(), 5, "Ts5momdde5: component count");
        let _ = s;
        Ts5momdde5 {
            f0: FromValue::from_value(s[0].as_ref().expect("component f0 of Ts5momdde5 must be present")),
            f1: s[1].as_ref().map(FromValue::from_value),
            f2: FromValue::from_value(s[2].as_ref().expect("component f2 of Ts5momdde5 must be present")),
            f3: FromValue::from_value(s[3].as_ref().expect("component f3 of Ts5momdde5 must be present")),
            f4: FromValue::from_value(s[4].as_ref().expect("component f4 of Ts5momdde5 must be present")),
        }
    }
}
impl ToValue for Ts5momdde5 {
    fn to_value(&self) -> Value {
        Value::Seq(vec![
            Some(self.f0.to_value()),
            self.f1.as_ref().map(|x| x.to_value()),
            Some(self.f2.to_value()),
            Some(self.f3.to_value()),
            Some(self.f4.to_value()),
        ])
    }
}
impl FromValue for Ts5oomddn {
    fn from_value(v: &Value) -> Self {
        let s = match v { Value::Seq(s) => s, other => panic!("Ts5oomddn: expected Seq, got {other:?}") };
        assert_eq!(s.len(), 5, "Ts5oomddn: component count");
        let _ = s;
        Ts5oomddn {
            f0: s[0].as_ref().map(FromValue::from_value),
            f1: s[1].as_ref().map(FromValue::from_value),
            f2: FromValue::from_value(s[2].as_ref().expect("component f2 of Ts5oomddn must be present")),
            f3: FromValue::from_value(s[3].as_ref().expect("component f3 of Ts5oomddn must be present")),
            f4: FromValue::from_value(s[4].as_ref().expect("component f4 of Ts5oomddn must be present")),
        }
    }
}
impl ToValue for Ts5oomddn {
    fn to_value(&self) -> Value {
        Value::Seq(vec![
            self.f0.as_ref().map(|x| x.to_value()),
            self.f1.as_ref().map(|x| x.to_value()),
            Some(self.f2.to_value()),
            Some(self.f3.to_value()),
            Some(self.f4.to_value()),
        ])
    }
}
impl FromValue for Ts5oomdde0 {
    fn from_value(v: &Value) -> Self {
        let s = match v { Value::Seq(s) => s, other => panic!("Ts5oomdde0: expected Seq, got {other:?}") };
        assert_eq!(s.len(), 5, "Ts5oomdde0: component count");
        let _ = s;
        Ts5oomdde0 {
            f0: s[0].as_ref().map(FromValue::from_value),
            f1: s[1].as_ref().map(FromValue::from_value),
            f2: s[2].as_ref().map(FromValue::from_value),
            f3: FromValue::from_value(s[3].as_ref().expect("component f3 of Ts5oomdde0 must be present")),
            f4: FromValue::from_value(s[4].as_ref().expect("component f4 of Ts5oomdde0 must be present")),
        }
    }
}
impl ToValue for Ts5oomdde0 {
    fn to_value(&self) -> Value {
        Value::Seq(vec![
            self.f0.as_ref().map(|x| x.to_value()),
            self.f1.as_ref().map(|x| x.to_value()),
            self.f2.as_ref().map(|x| x.to_value()),
            Some(self.f3.to_value()),
            Some(self.f4.to_value()),
        ])
    }
}
impl FromValue for Ts5oomdde1 {
    fn from_value(v: &Value) -> Self {
        let s = match v { Value::Seq(s) => s, other => panic!("Ts5oomdde1: expected Seq, got {other:?}") };
        assert_eq!(s.len(), 5, "Ts5oomdde1: component count");
        let _ = s;
        Ts5oomdde1 {
            f0: s[0].as_ref().map(FromValue::from_value),
            f1: s[1].as_ref().map(FromValue::from_value),
            f2: s[2].as_ref().map(FromValue::from_value),
            f3: FromValue::from_value(s[3].as_ref().expect("component f3 of Ts5oomdde1 must be present")),
            f4: FromValue::from_value(s[4].as_ref().expect("component f4 of Ts5oomdde1 must be present")),
        }
    }
}
impl ToValue for Ts5oomdde1 {
    fn to_value(&self) -> Value {
        Value::Seq(vec![
            self.f0.as_ref().map(|x| x.to_value()),
            self.f1.as_ref().map(|x| x.to_value()),
            self.f2.as_ref().map(|x| x.to_value()),
            Some(self.f3.to_value()),
            Some(self.f4.to_value()),
        ])
    }
}
impl FromValue for Ts5oomdde2 {
    fn from_value(v: &Value) -> Self {
        let s = match v { Value::Seq(s) => s, other => panic!("Ts5oomdde2: expected Seq, got {other:?}") };
        assert_eq!(s.len(), 5, "Ts5oomdde2: component count");
        let _ = s;
        Ts5oomdde2 {
            f0: s[0].as_ref().map(FromValue::from_value),
            f1: s[1].as_ref().map(FromValue::from_value),
            f2: s[2].as_ref().map(FromValue::from_value),
            f3: FromValue::from_value(s[3].as_ref().expect("component f3 of Ts5oomdde2 must be present")),
            f4: FromValue::from_value(s[4].as_ref().expect("component f4 of Ts5oomdde2 must be present")),
        }
    }
}
impl ToValue for Ts5oomdde2 {
    fn to_value(&self) -> Value {
        Value::Seq(vec![
            self.f0.as_ref().map(|x| x.to_value()),
            self.f1.as_ref().map(|x| x.to_value()),
            self.f2.as_ref().map(|x| x.to_value()),
            Some(self.f3.to_value()),
            Some(self.f4.to_value()),
        ])
    }
}
impl FromValue for Ts5oomdde3 {
    fn from_value(v: &Value) -> Self {
        let s = match v { Value::Seq(s) => s, other => panic!("Ts5oomdde3: expected Seq, got {other:?}") };
        assert_eq!(s.len(), 5, "Ts5oomdde3: component count");
        let _ = s;
        Ts5oomdde3 {
            f0: s[0].as_ref().map(FromValue::from_value),
            f1: s[1].as_ref().map(FromValue::from_value),
            f2: FromValue::from_value(s[2].as_ref().expect("component f2 of Ts5oomdde3 must be present")),
            f3: FromValue::from_value(s[3].as_ref().expect("component f3 of Ts5oomdde3 must be present")),
            f4: FromValue::from_value(s[4].as_ref().expect("component f4 of Ts5oomdde3 must be present")),
        }
    }
}
impl ToValue for Ts5oomdde3 {
    fn to_value(&self) -> Value {
        Value::Seq(vec![
            self.f0.as_ref().map(|x| x.to_value()),
            self.f1.as_ref().map(|x| x.to_value()),
            Some(self.f2.to_value()),
            Some(self.f3.to_value()),
            Some(self.f4.to_value()),
        ])
    }
}
impl FromValue for Ts5oomdde4 {
    fn from_value(v: &Value) -> Self {
        let s = match v { Value::Seq(s) => s, other => panic!("Ts5oomdde4: expected Seq, got {other:?}") };
        assert_eq!(s.len(), 5, "Ts5oomdde4: component count");
        let _ = s;
        Ts5oomdde4 {
            f0: s[0].as_ref().map(FromValue::from_value),
            f1: s[1].as_ref().map(FromValue::from_value),
            f2: FromValue::from_value(s[2].as_ref().expect("component f2 of Ts5oomdde4 must be present")),
            f3: FromValue::from_value(s[3].as_ref().expect("component f3 of Ts5oomdde4 must be present")),
            f4: FromValue::from_value(s[4].as_ref().expect("component f4 of Ts5oomdde4 must be present")),
        }
    }
}
impl ToValue for Ts5oomdde4 {
    fn to_value(&self) -> Value {
        Value::Seq(vec![
            self.f0.as_ref().map(|x| x.to_value()),
            self.f1.as_ref().map(|x| x.to_value()),
            Some(self.f2.to_value()),
            Some(self.f3.to_value()),
            Some(self.f4.to_value()),
        ])
    }
}
impl FromValue for Ts5oomdde5 {
    fn from_value(v: &Value) -> Self {
        let s = match v { Value::Seq(s) => s, other => panic!("Ts5oomdde5: expected Seq, got {other:?}") };
        assert_eq!(s.len(), 5, "Ts5oomdde5: component count");
        let _ = s;
        Ts5oomdde5 {
            f0: s[0].as_ref().map(FromValue::from_value),
            f1: s[1].as_ref().map(FromValue::from_value),
            f2: FromValue::from_value(s[2].as_ref().expect("component f2 of Ts5oomdde5 must be present")),
            f3: FromValue::from_value(s[3].as_ref().expect("component f3 of Ts5oomdde5 must be present")),
            f4: FromValue::from_value(s[4].as_ref().expect("component f4 of Ts5oomdde5 must be present")),
        }
    }
}
impl ToValue for Ts5oomdde5 {
    fn to_value(&self) -> Value {
        Value::Seq(vec![
            self.f0.as_ref().map(|x| x.to_value()),
            self.f1.as_ref().map(|x| x.to_value()),
            Some(self.f2.to_value()),
            Some(self.f3.to_value()),
            Some(self.f4.to_value()),
        ])
    }
}
impl FromValue for Ts5domddn {
    fn from_value(v: &Value) -> Self {
        let s = match v { Value::Seq(s) => s, other => panic!("Ts5domddn: expected Seq, got {other:?}") };
        assert_eq!(s.len(), 5, "Ts5domddn: component count");
        let _ = s;
        Ts5domddn {
            f0: FromValue::from_value(s[0].as_ref().expect("component f0 of Ts5domddn must be present")),
            f1: s[1].as_ref().map(FromValue::from_value),
            f2: FromValue::from_value(s[2].as_ref().expect("component f2 of Ts5domddn must be present")),
            f3: FromValue::from_value(s[3].as_ref().expect("component f3 of Ts5domddn must be present")),
            f4: FromValue::from_value(s[4].as_ref().expect("component f4 of Ts5domddn must be present")),
        }
    }
}
impl ToValue for Ts5domddn {
    fn to_value(&self) -> Value {
        Value::Seq(vec![
            Some(self.f0.to_value()),
            self.f1.as_ref().map(|x| x.to_value()),
            Some(self.f2.to_value()),
            Some(self.f3.to_value()),
            Some(self.f4.to_value()),
        ])
    }
}
impl FromValue for Ts5domdde0 {
    fn from_value(v: &Value) -> Self {
        let s = match v { Value::Seq(s) => s, other => panic!("Ts5domdde0: expected Seq, got {other:?}") };
        assert_eq!(s.len(), 5, "Ts5domdde0: component count");
        let _ = s;
        Ts5domdde0 {
            f0: FromValue::from_value(s[0].as_ref().expect("component f0 of Ts5domdde0 must be present")),
            f1: s[1].as_ref().map(FromValue::from_value),
            f2: s[2].as_ref().map(FromValue::from_value),
            f3: FromValue::from_value(s[3].as_ref().expect("component f3 of Ts5domdde0 must be present")),
            f4: FromValue::from_value(s[4].as_ref().expect("component f4 of Ts5domdde0 must be present")),
        }
    }
}
impl ToValue for Ts5domdde0 {
    fn to_value(&self) -> Value {
        Value::Seq(vec![
            Some(self.f0.to_value()),
            self.f1.as_ref().map(|x| x.to_value()),
            self.f2.as_ref().map(|x| x.to_value()),
            Some(self.f3.to_value()),
            Some(self.f4.to_value()),
        ])
    }
}
impl FromValue for Ts5domdde1 {
    fn from_value(v: &Value) -> Self {
        let s = match v { Value::Seq(s) => s, other => panic!("Ts5domdde1: expected Seq, got {other:?}") };
        assert_eq!(s.len(), 5, "Ts5domdde1: component count");
        let _ = s;
        Ts5domdde1 {
            f0: FromValue::from_value(s[0].as_ref().expect("component f0 of Ts5domdde1 must be present")),
            f1: s[1].as_ref().map(FromValue::from_value),
            f2: s[2].as_ref().map(FromValue::from_value),
            f3: FromValue::from_value(s[3].as_ref().expect("component f3 of Ts5domdde1 must be present")),
            f4: FromValue::from_value(s[4].as_ref().expect("component f4 of Ts5domdde1 must be present")),
        }
    }
}
impl ToValue for Ts5domdde1 {
    fn to_value(&self) -> Value {
        Value::Seq(vec![
            Some(self.f0.to_value()),
            self.f1.as_ref().map(|x| x.to_value()),
            self.f2.as_ref().map(|x| x.to_value()),
            Some(self.f3.to_value()),
            Some(self.f4.to_value()),
        ])
    }
}
impl FromValue for Ts5domdde2 {
    fn from_value(v: &Value) -> Self {
        let s = match v { Value::Seq(s) => s, other => panic!("Ts5domdde2: expected Seq, got {other:?}") };
        assert_eq!(s.len(), 5, "Ts5domdde2: component count");
        let _ = s;
        Ts5domdde2 {
            f0: FromValue::from_value(s[0].as_ref().expect("component f0 of Ts5domdde2 must be present")),
            f1: s[1].as_ref().map(FromValue::from_value),
            f2: s[2].as_ref().map(FromValue::from_value),
            f3: FromValue::from_value(s[3].as_ref().expect("component f3 of Ts5domdde2 must be present")),
            f4: FromValue::from_value(s[4].as_ref().expect("component f4 of Ts5domdde2 must be present")),
        }
    }
}
impl ToValue for Ts5domdde2 {
    fn to_value(&self) -> Value {
        Value::Seq(vec![
            Some(self.f0.to_value()),
            self.f1.as_ref().map(|x| x.to_value()),
            self.f2.as_ref().map(|x| x.to_value()),
            Some(self.f3.to_value()),
            Some(self.f4.to_value()),
        ])
    }
}
impl FromValue for Ts5domdde3 {
    fn from_value(v: &Value) -> Self {
        let s = match v { Value::Seq(s) => s, other => panic!("Ts5domdde3: expected Seq, got {other:?}") };
        assert_eq!(s.len(), 5, "Ts5domdde3: component count");
        let _ = s;
        Ts5domdde3 {
            f0: FromValue::from_value(s[0].as_ref().expect("component f0 of Ts5domdde3 must be present")),
            f1: s[1].as_ref().map(FromValue::from_value),
            f2: FromValue::from_value(s[2].as_ref().expect("component f2 of Ts5domdde3 must be present")),
            f3: FromValue::from_value(s[3].as_ref().expect("component f3 of Ts5domdde3 must be present")),
            f4: FromValue::from_value(s[4].as_ref().expect("component f4 of Ts5domdde3 must be present")),
        }
    }
}
impl ToValue for Ts5domdde3 {
    fn to_value(&self) -> Value {
        Value::Seq(vec![
            Some(self.f0.to_value()),
            self.f1.as_ref().map(|x| x.to_value()),
            Some(self.f2.to_value()),
            Some(self.f3.to_value()),
            Some(self.f4.to_value()),
        ])
    }
}
impl FromValue for Ts5domdde4 {
    fn from_value(v: &Value) -> Self {
        let s = match v { Value::Seq(s) => s, other => panic!("Ts5domdde4: expected Seq, got {other:?}") };
        assert_eq!(s.len(), 5, "Ts5domdde4: component count");
        let _ = s;
        Ts5domdde4 {
            f0: FromValue::from_value(s[0].as_ref().expect("component f0 of Ts5domdde4 must be present")),
            f1: s[1].as_ref().map(FromValue::from_value),
            f2: FromValue::from_value(s[2].as_ref().expect("component f2 of Ts5domdde4 must be present")),
            f3: FromValue::from_value(s[3].as_ref().expect("component f3 of Ts5domdde4 must be present")),
            f4: FromValue::from_value(s[4].as_ref().expect("component f4 of Ts5domdde4 must be present")),
        }
    }
}
impl ToValue for Ts5domdde4 {
    fn to_value(&self) -> Value {
        Value::Seq(vec![
            Some(self.f0.to_value()),
            self.f1.as_ref().map(|x| x.to_value()),
            Some(self.f2.to_value()),
            Some(self.f3.to_value()),
            Some(self.f4.to_value()),
        ])
    }
}
impl FromValue for Ts5domdde5 {
    fn from_value(v: &Value) -> Self {
        let s = match v { Value::Seq(s) => s, other => panic!("Ts5domdde5: expected Seq, got {other:?}") };
        assert_eq!(s.len(), 5, "Ts5domdde5: component count");
        let _ = s;
        Ts5domdde5 {
            f0: FromValue::from_value(s[0].as_ref().expect("component f0 of Ts5domdde5 must be present")),
            f1: s[1].as_ref().map(FromValue::from_value),
            f2: FromValue::from_value(s[2].as_ref().expect("component f2 of Ts5domdde5 must be present")),
            f3: FromValue::from_value(s[3].as_ref().expect("component f3 of Ts5domdde5 must be present")),
            f4: FromValue::from_value(s[4].as_ref().expect("component f4 of Ts5domdde5 must be present")),
        }
    }
}
impl ToValue for Ts5domdde5 {
    fn to_value(&self) -> Value {
        Value::Seq(vec![
            Some(self.f0.to_value()),
            self.f1.as_ref().map(|x| x.to_value()),
            Some(self.f2.to_value()),
            Some(self.f3.to_value()),
            Some(self.f4.to_value()),
        ])
    }
}
impl FromValue for Ts5mdmddn {
    fn from_value(v: &Value) -> Self {
        let s = match v { Value::Seq(s) => s, other => panic!("Ts5mdmddn: expected Seq, got {other:?}") };
        assert_eq!(s.len(), 5, "Ts5mdmddn: component count");
        let _ = s;
        Ts5mdmddn {
            f0: FromValue::from_value(s[0].as_ref().expect("component f0 of Ts5mdmddn must be present")),
            f1: FromValue::from_value(s[1].as_ref().expect("component f1 of Ts5mdmddn must be present")),
            f2: FromValue::from_value(s[2].as_ref().expect("component f2 of Ts5mdmddn must be present")),
            f3: FromValue::from_value(s[3].as_ref().expect("component f3 of Ts5mdmddn must be present")),
            f4: FromValue::from_value(s[4].as_ref().expect("component f4 of Ts5mdmddn must be present")),
        }
    }
}
impl ToValue for Ts5mdmddn {
    fn to_value(&self) -> Value {
        Value::Seq(vec![
            Some(self.f0.to_value()),
            Some(self.f1.to_value()),
            Some(self.f2.to_value()),
            Some(self.f3.to_value()),
            Some(self.f4.to_value()),
        ])
    }
}
impl FromValue for Ts5mdmdde0 {
    fn from_value(v: &Value) -> Self {
        let s = match v { Value::Seq(s) => s, other => panic!("Ts5mdmdde0: expected Seq, got {other:?}") };
        assert_eq!(s.len(), 5, "Ts5mdmdde0: component count");
        let _ = s;
        Ts5mdmdde0 {
            f0: FromValue::from_value(s[0].as_ref().expect("component f0 of Ts5mdmdde0 must be present")),
            f1: FromValue::from_value(s[1].as_ref().expect("component f1 of Ts5mdmdde0 must be present")),
            f2: s[2].as_ref().map(FromValue::from_value),
            f3: FromValue::from_value(s[3].as_ref().expect("component f3 of Ts5mdmdde0 must be present")),
            f4: FromValue::from_value(s[4].as_ref().expect("component f4 of Ts5mdmdde0 must be present")),
        }
    }
}
impl ToValue for Ts5mdmdde0 {
    fn to_value(&self) -> Value {
        Value::Seq(vec![
            Some(self.f0.to_value()),
            Some(self.f1.to_value()),
            self.f2.as_ref().map(|x| x.to_value()),
            Some(self.f3.to_value()),
            Some(self.f4.to_value()),
        ])
    }
}
impl FromValue for Ts5mdmdde1 {
    fn from_value(v: &Value) -> Self {
        let s = match v { Value::Seq(s) => s, other => panic!("Ts5mdmdde1: expected Seq, got {other:?}") };
        assert_eq!(s.len(), 5, "Ts5mdmdde1: component count");
        let _ = s;
        Ts5mdmdde1 {
            f0: FromValue::from_value(s[0].as_ref().expect("component f0 of Ts5mdmdde1 must be present")),
            f1: FromValue::from_value(s[1].as_ref().expect("component f1 of Ts5mdmdde1 must be present")),
            f2: s[2].as_ref().map(FromValue::from_value),
            f3: FromValue::from_value(s[3].as_ref().expect("component f3 of Ts5mdmdde1 must be present")),
            f4: FromValue::from_value(s[4].as_ref().expect("component f4 of Ts5mdmdde1 must be present")),
        }
    }
}
impl ToValue for Ts5mdmdde1 {
    fn to_value(&self) -> Value {
        Value::Seq(vec![
            Some(self.f0.to_value()),
            Some(self.f1.to_value()),
            self.f2.as_ref().map(|x| x.to_value()),
            Some(self.f3.to_value()),
            Some(self.f4.to_value()),
        ])
    }
}
impl FromValue for Ts5mdmdde2 {
    fn from_value(v: &Value) -> Self {
        let s = match v { Value::Seq(s) => s, other => panic!("Ts5mdmdde2: expected Seq, got {other:?}") };
        assert_eq!(s.len(), 5, "Ts5mdmdde2: component count");
        let _ = s;
        Ts5mdmdde2 {
            f0: FromValue::from_value(s[0].as_ref().expect("component f0 of Ts5mdmdde2 must be present")),
            f1: FromValue::from_value(s[1].as_ref().expect("component f1 of Ts5mdmdde2 must be present")),
            f2: s[2].as_ref().map(FromValue::from_value),
            f3: FromValue::from_value(s[3].as_ref().expect("component f3 of Ts5mdmdde2 must be present")),
            f4: FromValue::from_value(s[4].as_ref().expect("component f4 of Ts5mdmdde2 must be present")),
        }
    }
}
impl ToValue for Ts5mdmdde2 {
    fn to_value(&self) -> Value {
        Value::Seq(vec![
            Some(self.f0.to_value()),
            Some(self.f1.to_value()),
            self.f2.as_ref().map(|x| x.to_value()),
            Some(self.f3.to_value()),
            Some(self.f4.to_value()),
        ])
    }
}
impl FromValue for Ts5mdmdde3 {
    fn from_value(v: &Value) -> Self {
        let s = match v { Value::Seq(s) => s, other => panic!("Ts5mdmdde3: expected Seq, got {other:?}") };
        assert_eq!(s.len(), 5, "Ts5mdmdde3: component count");
        let _ = s;
        Ts5mdmdde3 {
            f0: FromValue::from_value(s[0].as_ref().expect("component f0 of Ts5mdmdde3 must be present")),
            f1: FromValue::from_value(s[1].as_ref().expect("component f1 of Ts5mdmdde3 must be present")),
            f2: FromValue::from_value(s[2].as_ref().expect("component f2 of Ts5mdmdde3 must be present")),
            f3: FromValue::from_value(s[3].as_ref().expect("component f3 of Ts5mdmdde3 must be present")),
            f4: FromValue::from_value(s[4].as_ref().expect("component f4 of Ts5mdmdde3 must be present")),
        }
    }
}
impl ToValue for Ts5mdmdde3 {
    fn to_value(&self) -> Value {
        Value::Seq(vec![
            Some(self.f0.to_value()),
            Some(self.f1.to_value()),
            Some(self.f2.to_value()),
            Some(self.f3.to_value()),
            Some(self.f4.to_value()),
        ])
    }
}
impl FromValue for Ts5mdmdde4 {
    fn from_value(v: &Value) -> Self {
        let s = match v { Value::Seq(s) => s, other => panic!("Ts5mdmdde4: expected Seq, got {other:?}") };
        assert_eq!(s.len(), 5, "Ts5mdmdde4: component count");
        let _ = s;
        Ts5mdmdde4 {
            f0: FromValue::from_value(s[0].as_ref().expect("component f0 of Ts5mdmdde4 must be present")),
            f1: FromValue::from_value(s[1].as_ref().expect("component f1 of Ts5mdmdde4 must be present")),
            f2: FromValue::from_value(s[2].as_ref().expect("component f2 of Ts5mdmdde4 must be present")),
            f3: FromValue::from_value(s[3].as_ref().expect("component f3 of Ts5mdmdde4 must be present")),
            f4: FromValue::from_value(s[4].as_ref().expect("component f4 of Ts5mdmdde4 must be present")),
        }
    }
}
impl ToValue for Ts5mdmdde4 {
    fn to_value(&self) -> Value {
        Value::Seq(vec![
            Some(self.f0.to_value()),
            Some(self.f1.to_value()),
            Some(self.f2.to_value()),
            Some(self.f3.to_value()),
            Some(self.f4.to_value()),
        ])
    }
}

use asn1rs::prelude::*;

#[asn(sequence)]

#[derive(Default, Debug, Clone, PartialEq, Hash)]
pub struct Ts5mddddn {
    #[asn(integer(0..7))] pub f0: u8,
    #[asn(default(integer(0..7), 5))] pub f1: u8,
    #[asn(default(integer(0..7), 5))] pub f2: u8,
    #[asn(default(integer(0..7), 5))] pub f3: u8,
    #[asn(default(integer(0..7), 5))] pub f4: u8,
}

impl Ts5mddddn {
    pub const fn f0_min() -> u8 {
        0
    }

    pub const fn f0_max() -> u8 {
        7
    }

    pub const fn f1_min() -> u8 {
        0
    }

    pub const fn f1_max() -> u8 {
        7
    }

    pub const fn f2_min() -> u8 {
        0
    }

    pub const fn f2_max() -> u8 {
        7
    }

    pub const fn f3_min() -> u8 {
        0
    }

    pub const fn f3_max() -> u8 {
        7
    }

    pub const fn f4_min() -> u8 {
        0
    }

    pub const fn f4_max() -> u8 {
        7
    }
}

#[asn(sequence, extensible_after(f0))]

#[derive(Default, Debug, Clone, PartialEq, Hash)]
pub struct Ts5mdddde0 {
    #[asn(integer(0..7))] pub f0: u8,
    #[asn(default(integer(0..7), 5))] pub f1: u8,
    #[asn(default(integer(0..7), 5))] pub f2: u8,
    #[asn(default(integer(0..7), 5))] pub f3: u8,
    #[asn(default(integer(0..7), 5))] pub f4: u8,
}

impl Ts5mdddde0 {
    pub const fn f0_min() -> u8 {
        0
    }

    pub const fn f0_max() -> u8 {
        7
    }

    pub const fn f1_min() -> u8 {
        0
    }

    pub const fn f1_max() -> u8 {
        7
    }

    pub const fn f2_min() -> u8 {
        0
    }

    pub const fn f2_max() -> u8 {
        7
    }

    pub const fn f3_min() -> u8 {
        0
    }

    pub const fn f3_max() -> u8 {
        7
    }

    pub const fn f4_min() -> u8 {
        0
    }

    pub const fn f4_max() -> u8 {
        7
    }
}

#[asn(sequence, extensible_after(f0))]

#[derive(Default, Debug, Clone, PartialEq, Hash)]
pub struct Ts5mdddde1 {
    #[asn(integer(0..7))] pub f0: u8,
    #[asn(default(integer(0..7), 5))] pub f1: u8,
    #[asn(default(integer(0..7), 5))] pub f2: u8,
    #[asn(default(integer(0..7), 5))] pub f3: u8,
    #[asn(default(integer(0..7), 5))] pub f4: u8,
}

impl Ts5mdddde1 {
    pub const fn f0_min() -> u8 {
        0
    }

    pub const fn f0_max() -> u8 {
        7
    }

    pub const fn f1_min() -> u8 {
        0
    }

    pub const fn f1_max() -> u8 {
        7
    }

    pub const fn f2_min() -> u8 {
        0
    }

    pub const fn f2_max() -> u8 {
        7
    }

    pub const fn f3_min() -> u8 {
        0
    }

    pub const fn f3_max() -> u8 {
        7
    }

    pub const fn f4_min() -> u8 {
        0
    }

    pub const fn f4_max() -> u8 {
        7
    }
}

#[asn(sequence, extensible_after(f1))]

#[derive(Default, Debug, Clone, PartialEq, Hash)]
pub struct Ts5mdddde2 {
    #[asn(integer(0..7))] pub f0: u8,
    #[asn(default(integer(0..7), 5))] pub f1: u8,
    #[asn(default(integer(0..7), 5))] pub f2: u8,
    #[asn(default(integer(0..7), 5))] pub f3: u8,
    #[asn(default(integer(0..7), 5))] pub f4: u8,
}

impl Ts5mdddde2 {
    pub const fn f0_min() -> u8 {
        0
    }

    pub const fn f0_max() -> u8 {
        7
    }

    pub const fn f1_min() -> u8 {
        0
    }

    pub const fn f1_max() -> u8 {
        7
    }

    pub const fn f2_min() -> u8 {
        0
    }

    pub const fn f2_max() -> u8 {
        7
    }

    pub const fn f3_min() -> u8 {
        0
    }

    pub const fn f3_max() -> u8 {
        7
    }

    pub const fn f4_min() -> u8 {
        0
    }

    pub const fn f4_max() -> u8 {
        7
    }
}

#[asn(sequence, extensible_after(f2))]

#[derive(Default, Debug, Clone, PartialEq, Hash)]
pub struct Ts5mdddde3 {
    #[asn(integer(0..7))] pub f0: u8,
    #[asn(default(integer(0..7), 5))] pub f1: u8,
    #[asn(default(integer(0..7), 5))] pub f2: u8,
    #[asn(default(integer(0..7), 5))] pub f3: u8,
    #[asn(default(integer(0..7), 5))] pub f4: u8,
}

impl Ts5mdddde3 {
    pub const fn f0_min() -> u8 {
        0
    }

    pub const fn f0_max() -> u8 {
        7
    }

    pub const fn f1_min() -> u8 {
        0
    }

    pub const fn f1_max() -> u8 {
        7
    }

    pub const fn f2_min() -> u8 {
        0
    }

    pub const fn f2_max() -> u8 {
        7
    }

    pub const fn f3_min() -> u8 {
        0
    }

    pub const fn f3_max() -> u8 {
        7
    }

    pub const fn f4_min() -> u8 {
        0
    }

    pub const fn f4_max() -> u8 {
        7
    }
}

#[asn(sequence, extensible_after(f3))]

#[derive(Default, Debug, Clone, PartialEq, Hash)]
pub struct Ts5mdddde4 {
    #[asn(integer(0..7))] pub f0: u8,
    #[asn(default(integer(0..7), 5))] pub f1: u8,
    #[asn(default(integer(0..7), 5))] pub f2: u8,
    #[asn(default(integer(0..7), 5))] pub f3: u8,
    #[asn(default(integer(0..7), 5))] pub f4: u8,
}

impl Ts5mdddde4 {
    pub const fn f0_min() -> u8 {
        0
    }

    pub const fn f0_max() -> u8 {
        7
    }

    pub const fn f1_min() -> u8 {
        0
    }

    pub const fn f1_max() -> u8 {
        7
    }

    pub const fn f2_min() -> u8 {
        0
    }

    pub const fn f2_max() -> u8 {
        7
    }

    pub const fn f3_min() -> u8 {
        0
    }

    pub const fn f3_max() -> u8 {
        7
    }

    pub const fn f4_min() -> u8 {
        0
    }

    pub const fn f4_max() -> u8 {
        7
    }
}

#[asn(sequence, extensible_after(f4))]

#[derive(Default, Debug, Clone, PartialEq, Hash)]
pub struct Ts5mdddde5 {
    #[asn(integer(0..7))] pub f0: u8,
    #[asn(default(integer(0..7), 5))] pub f1: u8,
    #[asn(default(integer(0..7), 5))] pub f2: u8,
    #[asn(default(integer(0..7), 5))] pub f3: u8,
    #[asn(default(integer(0..7), 5))] pub f4: u8,
}

impl Ts5mdddde5 {
    pub const fn f0_min() -> u8 {
        0
    }

    pub const fn f0_max() -> u8 {
        7
    }

    pub const fn f1_min() -> u8 {
        0
    }

    pub const fn f1_max() -> u8 {
        7
    }

    pub const fn f2_min() -> u8 {
        0
    }

    pub const fn f2_max() -> u8 {
        7
    }

    pub const fn f3_min() -> u8 {
        0
    }

    pub const fn f3_max() -> u8 {
        7
    }

    pub const fn f4_min() -> u8 {
        0
    }

    pub const fn f4_max() -> u8 {
        7
    }
}

#[asn(sequence)]

#[derive(Default, Debug, Clone, PartialEq, Hash)]
pub struct Ts5oddddn {
    #[asn(optional(integer(0..7)))] pub f0: Option<u8>,
    #[asn(default(integer(0..7), 5))] pub f1: u8,
    #[asn(default(integer(0..7), 5))] pub f2: u8,
    #[asn(default(integer(0..7), 5))] pub f3: u8,
    #[asn(default(integer(0..7), 5))] pub f4: u8,
}

impl Ts5oddddn {
    pub const fn f0_min() -> u8 {
        0
    }

    pub const fn f0_max() -> u8 {
        7
    }

    pub const fn f1_min() -> u8 {
        0
    }

    pub const fn f1_max() -> u8 {
        7
    }

    pub const fn f2_min() -> u8 {
        0
    }

    pub const fn f2_max() -> u8 {
        7
    }

    pub const fn f3_min() -> u8 {
        0
    }

    pub const fn f3_max() -> u8 {
        7
    }

    pub const fn f4_min() -> u8 {
        0
    }

    pub const fn f4_max() -> u8 {
        7
    }
}

#[asn(sequence, extensible_after(f0))]

#[derive(Default, Debug, Clone, PartialEq, Hash)]
pub struct Ts5odddde0 {
    #[asn(optional(integer(0..7)))] pub f0: Option<u8>,
    #[asn(default(integer(0..7), 5))] pub f1: u8,
    #[asn(default(integer(0..7), 5))] pub f2: u8,
    #[asn(default(integer(0..7), 5))] pub f3: u8,
    #[asn(default(integer(0..7), 5))] pub f4: u8,
}

impl Ts5odddde0 {
    pub const fn f0_min() -> u8 {
        0
    }

    pub const fn f0_max() -> u8 {
        7
    }

    pub const fn f1_min() -> u8 {
        0
    }

    pub const fn f1_max() -> u8 {
        7
    }

    pub const fn f2_min() -> u8 {
        0
    }

    pub const fn f2_max() -> u8 {
        7
    }

    pub const fn f3_min() -> u8 {
        0
    }

    pub const fn f3_max() -> u8 {
        7
    }

    pub const fn f4_min() -> u8 {
        0
    }

    pub const fn f4_max() -> u8 {
        7
    }
}

#[asn(sequence, extensible_after(f0))]

#[derive(Default, Debug, Clone, PartialEq, Hash)]
pub struct Ts5odddde1 {
    #[asn(optional(integer(0..7)))] pub f0: Option<u8>,
    #[asn(default(integer(0..7), 5))] pub f1: u8,
    #[asn(default(integer(0..7), 5))] pub f2: u8,
    #[asn(default(integer(0..7), 5))] pub f3: u8,
    #[asn(default(integer(0..7), 5))] pub f4: u8,
}

impl Ts5odddde1 {
    pub const fn f0_min() -> u8 {
        0
    }

    pub const fn f0_max() -> u8 {
        7
    }

    pub const fn f1_min() -> u8 {
        0
    }

    pub const fn f1_max() -> u8 {
        7
    }

    pub const fn f2_min() -> u8 {
        0
    }

    pub const fn f2_max() -> u8 {
        7
    }

    pub const fn f3_min() -> u8 {
        0
    }

    pub const fn f3_max() -> u8 {
        7
    }

    pub const fn f4_min() -> u8 {
        0
    }

    pub const fn f4_max() -> u8 {
        7
    }
}

#[asn(sequence, extensible_after(f1))]

#[derive(Default, Debug, Clone, PartialEq, Hash)]
pub struct Ts5odddde2 {
    #[asn(optional(integer(0..7)))] pub f0: Option<u8>,
    #[asn(default(integer(0..7), 5))] pub f1: u8,
    #[asn(default(integer(0..7), 5))] pub f2: u8,
    #[asn(default(integer(0..7), 5))] pub f3: u8,
    #[asn(default(integer(0..7), 5))] pub f4: u8,
}

impl Ts5odddde2 {
    pub const fn f0_min() -> u8 {
        0
    }

    pub const fn f0_max() -> u8 {
        7
    }

    pub const fn f1_min() -> u8 {
        0
    }

    pub const fn f1_max() -> u8 {
        7
    }

    pub const fn f2_min() -> u8 {
        0
    }

    pub const fn f2_max() -> u8 {
        7
    }

    pub const fn f3_min() -> u8 {
        0
    }

    pub const fn f3_max() -> u8 {
        7
    }

    pub const fn f4_min() -> u8 {
        0
    }

    pub const fn f4_max() -> u8 {
        7
    }
}

#[asn(sequence, extensible_after(f2))]

#[derive(Default, Debug, Clone, PartialEq, Hash)]
pub struct Ts5odddde3 {
    #[asn(optional(integer(0..7)))] pub f0: Option<u8>,
    #[asn(default(integer(0..7), 5))] pub f1: u8,
    #[asn(default(integer(0..7), 5))] pub f2: u8,
    #[asn(default(integer(0..7), 5))] pub f3: u8,
    #[asn(default(integer(0..7), 5))] pub f4: u8,
}

impl Ts5odddde3 {
    pub const fn f0_min() -> u8 {
        0
    }

    pub const fn f0_max() -> u8 {
        7
    }

    pub const fn f1_min() -> u8 {
        0
    }

    pub const fn f1_max() -> u8 {
        7
    }

    pub const fn f2_min() -> u8 {
        0
    }

    pub const fn f2_max() -> u8 {
        7
    }

    pub const fn f3_min() -> u8 {
        0
    }

    pub const fn f3_max() -> u8 {
        7
    }

    pub const fn f4_min() -> u8 {
        0
    }

    pub const fn f4_max() -> u8 {
        7
    }
}

#[asn(sequence, extensible_after(f3))]

#[derive(Default, Debug, Clone, PartialEq, Hash)]
pub struct Ts5odddde4 {
    #[asn(optional(integer(0..7)))] pub f0: Option<u8>,
    #[asn(default(integer(0..7), 5))] pub f1: u8,
    #[asn(default(integer(0..7), 5))] pub f2: u8,
    #[asn(default(integer(0..7), 5))] pub f3: u8,
    #[asn(default(integer(0..7), 5))] pub f4: u8,
}

impl Ts5odddde4 {
    pub const fn f0_min() -> u8 {
        0
    }

    pub const fn f0_max() -> u8 {
        7
    }

    pub const fn f1_min() -> u8 {
        0
    }

    pub const fn f1_max() -> u8 {
        7
    }

    pub const fn f2_min() -> u8 {
        0
    }

    pub const fn f2_max() -> u8 {
        7
    }

    pub const fn f3_min() -> u8 {
        0
    }

    pub const fn f3_max() -> u8 {
        7
    }

    pub const fn f4_min() -> u8 {
        0
    }

    pub const fn f4_max() -> u8 {
        7
    }
}

#[asn(sequence, extensible_after(f4))]

#[derive(Default, Debug, Clone, PartialEq, Hash)]
pub struct Ts5odddde5 {
    #[asn(optional(integer(0..7)))] pub f0: Option<u8>,
    #[asn(default(integer(0..7), 5))] pub f1: u8,
    #[asn(default(integer(0..7), 5))] pub f2: u8,
    #[asn(default(integer(0..7), 5))] pub f3: u8,
    #[asn(default(integer(0..7), 5))] pub f4: u8,
}

impl Ts5odddde5 {
    pub const fn f0_min() -> u8 {
        0
    }

    pub const fn f0_max() -> u8 {
        7
    }

    pub const fn f1_min() -> u8 {
        0
    }

    pub const fn f1_max() -> u8 {
        7
    }

    pub const fn f2_min() -> u8 {
        0
    }

    pub const fn f2_max() -> u8 {
        7
    }

    pub const fn f3_min() -> u8 {
        0
    }

    pub const fn f3_max() -> u8 {
        7
    }

    pub const fn f4_min() -> u8 {
        0
    }

    pub const fn f4_max() -> u8 {
        7
    }
}

#[asn(sequence)]

#[derive(Default, Debug, Clone, PartialEq, Hash)]
pub struct Ts5dddddn {
    #[asn(default(integer(0..7), 5))] pub f0: u8,
    #[asn(default(integer(0..7), 5))] pub f1: u8,
    #[asn(default(integer(0..7), 5))] pub f2: u8,
    #[asn(default(integer(0..7), 5))] pub f3: u8,
    #[asn(default(integer(0..7), 5))] pub f4: u8,
}

impl Ts5dddddn {
    pub const fn f0_min() -> u8 {
        0
    }

    pub const fn f0_max() -> u8 {
        7
    }

    pub const fn f1_min() -> u8 {
        0
    }

    pub const fn f1_max() -> u8 {
        7
    }

    pub const fn f2_min() -> u8 {
        0
    }

    pub const fn f2_max() -> u8 {
        7
    }

    pub const fn f3_min() -> u8 {
        0
    }

    pub const fn f3_max() -> u8 {
        7
    }

    pub const fn f4_min() -> u8 {
        0
    }

    pub const fn f4_max() -> u8 {
        7
    }
}

#[asn(sequence, extensible_after(f0))]

#[derive(Default, Debug, Clone, PartialEq, Hash)]
pub struct Ts5ddddde0 {
    #[asn(default(integer(0..7), 5))] pub f0: u8,
    #[asn(default(integer(0..7), 5))] pub f1: u8,
    #[asn(default(integer(0..7), 5))] pub f2: u8,
    #[asn(default(integer(0..7), 5))] pub f3: u8,
    #[asn(default(integer(0..7), 5))] pub f4: u8,
}

impl Ts5ddddde0 {
    pub const fn f0_min() -> u8 {
        0
    }

    pub const fn f0_max() -> u8 {
        7
    }

    pub const fn f1_min() -> u8 {
        0
    }

    pub const fn f1_max() -> u8 {
        7
    }

    pub const fn f2_min() -> u8 {
        0
    }

    pub const fn f2_max() -> u8 {
        7
    }

    pub const fn f3_min() -> u8 {
        0
    }

    pub const fn f3_max() -> u8 {
        7
    }

    pub const fn f4_min() -> u8 {
        0
    }

    pub const fn f4_max() -> u8 {
        7
    }
}

#[asn(sequence, extensible_after(f0))]

#[derive(Default, Debug, Clone, PartialEq, Hash)]
pub struct Ts5ddddde1 {
    #[asn(default(integer(0..7), 5))] pub f0: u8,
    #[asn(default(integer(0..7), 5))] pub f1: u8,
    #[asn(default(integer(0..7), 5))] pub f2: u8,
    #[asn(default(integer(0..7), 5))] pub f3: u8,
    #[asn(default(integer(0..7), 5))] pub f4: u8,
}

impl Ts5ddddde1 {
    pub const fn f0_min() -> u8 {
        0
    }

    pub const fn f0_max() -> u8 {
        7
    }

    pub const fn f1_min() -> u8 {
        0
    }

    pub const fn f1_max() -> u8 {
        7
    }

    pub const fn f2_min() -> u8 {
        0
    }

    pub const fn f2_max() -> u8 {
        7
    }

    pub const fn f3_min() -> u8 {
        0
    }

    pub const fn f3_max() -> u8 {
        7
    }

    pub const fn f4_min() -> u8 {
        0
    }

    pub const fn f4_max() -> u8 {
        7
    }
}

#[asn(sequence, extensible_after(f1))]

#[derive(Default, Debug, Clone, PartialEq, Hash)]
pub struct Ts5ddddde2 {
    #[asn(default(integer(0..7), 5))] pub f0: u8,
    #[asn(default(integer(0..7), 5))] pub f1: u8,
    #[asn(default(integer(0..7), 5))] pub f2: u8,
    #[asn(default(integer(0..7), 5))] pub f3: u8,
    #[asn(default(integer(0..7), 5))] pub f4: u8,
}

impl Ts5ddddde2 {
    pub const fn f0_min() -> u8 {
        0
    }

    pub const fn f0_max() -> u8 {
        7
    }

    pub const fn f1_min() -> u8 {
        0
    }

    pub const fn f1_max() -> u8 {
        7
    }

    pub const fn f2_min() -> u8 {
        0
    }

    pub const fn f2_max() -> u8 {
        7
    }

    pub const fn f3_min() -> u8 {
        0
    }

    pub const fn f3_max() -> u8 {
        7
    }

    pub const fn f4_min() -> u8 {
        0
    }

    pub const fn f4_max() -> u8 {
        7
    }
}

#[asn(sequence, extensible_after(f2))]

#[derive(Default, Debug, Clone, PartialEq, Hash)]
pub struct Ts5ddddde3 {
    #[asn(default(integer(0..7), 5))] pub f0: u8,
    #[asn(default(integer(0..7), 5))] pub f1: u8,
    #[asn(default(integer(0..7), 5))] pub f2: u8,
    #[asn(default(integer(0..7), 5))] pub f3: u8,
    #[asn(default(integer(0..7), 5))] pub f4: u8,
}

impl Ts5ddddde3 {
    pub const fn f0_min() -> u8 {
        0
    }

    pub const fn f0_max() -> u8 {
        7
    }

    pub const fn f1_min() -> u8 {
        0
    }

    pub const fn f1_max() -> u8 {
        7
    }

    pub const fn f2_min() -> u8 {
        0
    }

    pub const fn f2_max() -> u8 {
        7
    }

    pub const fn f3_min() -> u8 {
        0
    }

    pub const fn f3_max() -> u8 {
        7
    }

    pub const fn f4_min() -> u8 {
        0
    }

    pub const fn f4_max() -> u8 {
        7
    }
}

#[asn(sequence, extensible_after(f3))]

#[derive(Default, Debug, Clone, PartialEq, Hash)]
pub struct Ts5ddddde4 {
    #[asn(default(integer(0..7), 5))] pub f0: u8,
    #[asn(default(integer(0..7), 5))] pub f1: u8,
    #[asn(default(integer(0..7), 5))] pub f2: u8,
    #[asn(default(integer(0..7), 5))] pub f3: u8,
    #[asn(default(integer(0..7), 5))] pub f4: u8,
}

impl Ts5ddddde4 {
    pub const fn f0_min() -> u8 {
        0
    }

    pub const fn f0_max() -> u8 {
        7
    }

    pub const fn f1_min() -> u8 {
        0
    }

    pub const fn f1_max() -> u8 {
        7
    }

    pub const fn f2_min() -> u8 {
        0
    }

    pub const fn f2_max() -> u8 {
        7
    }

    pub const fn f3_min() -> u8 {
        0
    }

    pub const fn f3_max() -> u8 {
        7
    }

    pub const fn f4_min() -> u8 {
        0
    }

    pub const fn f4_max() -> u8 {
        7
    }
}

#[asn(sequence, extensible_after(f4))]

#[derive(Default, Debug, Clone, PartialEq, Hash)]
pub struct Ts5ddddde5 {
    #[asn(default(integer(0..7), 5))] pub f0: u8,
    #[asn(default(integer(0..7), 5))] pub f1: u8,
    #[asn(default(integer(0..7), 5))] pub f2: u8,
    #[asn(default(integer(0..7), 5))] pub f3: u8,
    #[asn(default(integer(0..7), 5))] pub f4: u8,
}

impl Ts5ddddde5 {
    pub const fn f0_min() -> u8 {
        0
    }

    pub const fn f0_max() -> u8 {
        7
    }

    pub const fn f1_min() -> u8 {
        0
    }

    pub const fn f1_max() -> u8 {
        7
    }

    pub const fn f2_min() -> u8 {
        0
    }

    pub const fn f2_max() -> u8 {
        7
    }

    pub const fn f3_min() -> u8 {
        0
    }

    pub const fn f3_max() -> u8 {
        7
    }

    pub const fn f4_min() -> u8 {
        0
    }

    pub const fn f4_max() -> u8 {
        7
    }
}
// ---- harness conversions (generated by the zoo build script from the items above) ----
impl FromValue for Ts5mddddn {
    fn from_value(v: &Value) -> Self {
        let s = match v { Value::Seq(s) => s, other => panic!("Ts5mddddn: expected Seq, got {other:?}") };
        assert_eq!(s.len(), 5, "Ts5mddddn: component count");
        let _ = s;
        Ts5mddddn {
            f0: FromValue::from_value(s[0].as_ref().expect("component f0 of Ts5mddddn must be present")),
            f1: FromValue::from_value(s[1].as_ref().expect("component f1 of Ts5mddddn must be present")),
            f2: FromValue::from_value(s[2].as_ref().expect("component f2 of Ts5mddddn must be present")),
            f3: FromValue::from_value(s[3].as_ref().expect("component f3 of Ts5mddddn must be present")),
            f4: FromValue::from_value(s[4].as_ref().expect("component f4 of Ts5mddddn must be present")),
        }
    }
}
impl ToValue for Ts5mddddn {
    fn to_value(&self) -> Value {
        Value::Seq(vec![
            Some(self.f0.to_value()),
            Some(self.f1.to_value()),
            Some(self.f2.to_value()),
            Some(self.f3.to_value()),
            Some(self.f4.to_value()),
        ])
    }
}
impl FromValue for Ts5mdddde0 {
    fn from_value(v: &Value) -> Self {
        let s = match v { Value::Seq(s) => s, other => panic!("Ts5mdddde0: expected Seq, got {other:?}") };
        assert_eq!(s.len(), 5, "Ts5mdddde0: component count");
        let _ = s;
        Ts5mdddde0 {
            f0: FromValue::from_value(s[0].as_ref().expect("component f0 of Ts5mdddde0 must be present")),
            f1: FromValue::from_value(s[1].as_ref().expect("component f1 of Ts5mdddde0 must be present")),
            f2: FromValue::from_value(s[2].as_ref().expect("component f2 of Ts5mdddde0 must be present")),
            f3: FromValue::from_value(s[3].as_ref().expect("component f3 of Ts5mdddde0 must be present")),
            f4: FromValue::from_value(s[4].as_ref().expect("component f4 of Ts5mdddde0 must be present")),
        }
    }
}
impl ToValue for Ts5mdddde0 {
    fn to_value(&self) -> Value {
        Value::Seq(vec![
            Some(self.f0.to_value()),
            Some(self.f1.to_value()),
            Some(self.f2.to_value()),
            Some(self.f3.to_value()),
            Some(self.f4.to_value()),
        ])
    }
}
impl FromValue for Ts5mdddde1 {
    fn from_value(v: &Value) -> Self {
        let s = match v { Value::Seq(s) => s, other => panic!("Ts5mdddde1: expected Seq, got {other:?}") };
        assert_eq!(s.len(), 5, "Ts5mdddde1: component count");
        let _ = s;
        Ts5mdddde1 {
            f0: FromValue::from_value(s[0].as_ref().expect("component f0 of Ts5mdddde1 must be present")),
            f1: FromValue::from_value(s[1].as_ref().expect("component f1 of Ts5mdddde1 must be present")),
            f2: FromValue::from_value(s[2].as_ref().expect("component f2 of Ts5mdddde1 must be present")),
            f3: FromValue::from_value(s[3].as_ref().expect("component f3 of Ts5mdddde1 must be present")),
            f4: FromValue::from_value(s[4].as_ref().expect("component f4 of Ts5mdddde1 must be present")),
        }
    }
}
impl ToValue for Ts5mdddde1 {
    fn to_value(&self) -> Value {
        Value::Seq(vec![
            Some(self.f0.to_value()),
            Some(self.f1.to_value()),
            Some(self.f2.to_value()),
            Some(self.f3.to_value()),
            Some(self.f4.to_value()),
        ])
    }
}
impl FromValue for Ts5mdddde2 {
    fn from_value(v: &Value) -> Self {
        let s = match v { Value::Seq(s) => s, other => panic!("Ts5mdddde2: expected Seq, got {other:?}") };
        assert_eq!(s.len(), 5, "Ts5mdddde2: component count");
        let _ = s;
        Ts5mdddde2 {
            f0: FromValue::from_value(s[0].as_ref().expect("component f0 of Ts5mdddde2 must be present")),
            f1: FromValue::from_value(s[1].as_ref().expect("component f1 of Ts5mdddde2 must be present")),
            f2: FromValue::from_value(s[2].as_ref().expect("component f2 of Ts5mdddde2 must be present")),
            f3: FromValue::from_value(s[3].as_ref().expect("component f3 of Ts5mdddde2 must be present")),
            f4: FromValue::from_value(s[4].as_ref().expect("component f4 of Ts5mdddde2 must be present")),
        }
    }
}
impl ToValue for Ts5mdddde2 {
    fn to_value(&self) -> Value {
        Value::Seq(vec![
            Some(self.f0.to_value()),
            Some(self.f1.to_value()),
            Some(self.f2.to_value()),
            Some(self.f3.to_value()),
            Some(self.f4.to_value()),
        ])
    }
}
impl FromValue for Ts5mdddde3 {
    fn from_value(v: &Value) -> Self {
        let s = match v { Value::Seq(s) => s, other => panic!("Ts5mdddde3: expected Seq, got {other:?}") };
        assert_eq!(s.len(), 5, "Ts5mdddde3: component count");
        let _ = s;
        Ts5mdddde3 {
            f0: FromValue::from_value(s[0].as_ref().expect("component f0 of Ts5mdddde3 must be present")),
            f1: FromValue::from_value(s[1].as_ref().expect("component f1 of Ts5mdddde3 must be present")),
            f2: FromValue::from_value(s[2].as_ref().expect("component f2 of Ts5mdddde3 must be present")),
            f3: FromValue::from_value(s[3].as_ref().expect("component f3 of Ts5mdddde3 must be present")),
            f4: FromValue::from_value(s[4].as_ref().expect("component f4 of Ts5mdddde3 must be present")),
        }
    }
}
impl ToValue for Ts5mdddde3 {
    fn to_value(&self) -> Value {
        Value::Seq(vec![
            Some(self.f0.to_value()),
            Some(self.f1.to_value()),
            Some(self.f2.to_value()),
            Some(self.f3.to_value()),
            Some(self.f4.to_value()),
        ])
    }
}
impl FromValue for Ts5mdddde4 {
    fn from_value(v: &Value) -> Self {
        let s = match v { Value::Seq(s) => s, other => panic!("Ts5mdddde4: expected Seq, got {other:?}") };
        assert_eq!(s.len(), 5, "Ts5mdddde4: component count");
        let _ = s;
        Ts5mdddde4 {
            f0: FromValue::from_value(s[0].as_ref().expect("component f0 of Ts5mdddde4 must be present")),
            f1: FromValue::from_value(s[1].as_ref().expect("component f1 of Ts5mdddde4 must be present")),
            f2: FromValue::from_value(s[2].as_ref().expect("component f2 of Ts5mdddde4 must be present")),
            f3: FromValue::from_value(s[3].as_ref().expect("component f3 of Ts5mdddde4 must be present")),
            f4: FromValue::from_value(s[4].as_ref().expect("component f4 of Ts5mdddde4 must be present")),
        }
    }
}
impl ToValue for Ts5mdddde4 {
    fn to_value(&self) -> Value {
        Value::Seq(vec![
            Some(self.f0.to_value()),
            Some(self.f1.to_value()),
            Some(self.f2.to_value()),
            Some(self.f3.to_value()),
            Some(self.f4.to_value()),
        ])
    }
}
impl FromValue for Ts5mdddde5 {
    fn from_value(v: &Value) -> Self {
        let s = match v { Value::Seq(s) => s, other => panic!("Ts5mdddde5: expected Seq, got {other:?}") };
        assert_eq!(s.len(), 5, "Ts5mdddde5: component count");
        let _ = s;
        Ts5mdddde5 {
            f0: FromValue::from_value(s[0].as_ref().expect("component f0 of Ts5mdddde5 must be present")),
            f1: FromValue::from_value(s[1].as_ref().expect("component f1 of Ts5mdddde5 must be present")),
            f2: FromValue::from_value(s[2].as_ref().expect("component f2 of Ts5mdddde5 must be present")),
            f3: FromValue::from_value(s[3].as_ref().expect("component f3 of Ts5mdddde5 must be present")),
            f4: FromValue::from_value(s[4].as_ref().expect("component f4 of Ts5mdddde5 must be present")),
        }
    }
}
impl ToValue for Ts5mdddde5 {
    fn to_value(&self) -> Value {
        Value::Seq(vec![
            Some(self.f0.to_value()),
            Some(self.f1.to_value()),
            Some(self.f2.to_value()),
            Some(self.f3.to_value()),
            Some(self.f4.to_value()),
        ])
    }
}
impl FromValue for Ts5oddddn {
    fn from_value(v: &Value) -> Self {
        let s = match v { Value::Seq(s) => s, other => panic!("Ts5oddddn: expected Seq, got {other:?}") };
        assert_eq!(s.len(), 5, "Ts5oddddn: component count");
        let _ = s;
        Ts5oddddn {
            f0: s[0].as_ref().map(FromValue::from_value),
            f1: FromValue::from_value(s[1].as_ref().expect("component f1 of Ts5oddddn must be present")),
            f2: FromValue::from_value(s[2].as_ref().expect("component f2 of Ts5oddddn must be present")),
            f3: FromValue::from_value(s[3].as_ref().expect("component f3 of Ts5oddddn must be present")),
            f4: FromValue::from_value(s[4].as_ref().expect("component f4 of Ts5oddddn must be present")),
        }
    }
}
impl ToValue for Ts5oddddn {
    fn to_value(&self) -> Value {
        Value::Seq(vec![
            self.f0.as_ref().map(|x| x.to_value()),
            Some(self.f1.to_value()),
            Some(self.f2.to_value()),
            Some(self.f3.to_value()),
            Some(self.f4.to_value()),
        ])
    }
}
impl FromValue for Ts5odddde0 {
    fn from_value(v: &Value) -> Self {
        let s = match v { Value::Seq(s) => s, other => panic!("Ts5odddde0: expected Seq, got {other:?}") };
        assert_eq!(s.len(), 5, "Ts5odddde0: component count");
        let _ = s;
        Ts5odddde0 {
            f0: s[0].as_ref().map(FromValue::from_value),
            f1: FromValue::from_value(s[1].as_ref().expect("component f1 of Ts5odddde0 must be present")),
            f2: FromValue::from_value(s[2].as_ref().expect("component f2 of Ts5odddde0 must be present")),
            f3: FromValue::from_value(s[3].as_ref().expect("component f3 of Ts5odddde0 must be present")),
            f4: FromValue::from_value(s[4].as_ref().expect("component f4 of Ts5odddde0 must be present")),
        }
    }
}
impl ToValue for Ts5odddde0 {
    fn to_value(&self) -> Value {
        Value::Seq(vec![
            self.f0.as_ref().map(|x| x.to_value()),
            Some(self.f1.to_value()),
            Some(self.f2.to_value()),
            Some(self.f3.to_value()),
            Some(self.f4.to_value()),
        ])
    }
}
impl FromValue for Ts5odddde1 {
    fn from_value(v: &Value) -> Self {
        let s = match v { Value::Seq(s) => s, other => panic!("Ts5odddde1: expected Seq, got {other:?}") };
        assert_eq!(s.len(), 5, "Ts5odddde1: component count");
        let _ = s;
        Ts5odddde1 {
            f0: s[0].as_ref().map(FromValue::from_value),
            f1: FromValue::from_value(s[1].as_ref().expect("component f1 of Ts5odddde1 must be present")),
            f2: FromValue::from_value(s[2].as_ref().expect("component f2 of Ts5odddde1 must be present")),
            f3: FromValue::from_value(s[3].as_ref().expect("component f3 of Ts5odddde1 must be present")),
            f4: FromValue::from_value(s[4].as_ref().expect("component f4 of Ts5odddde1 must be present")),
        }
    }
}
impl ToValue for Ts5odddde1 {
    fn to_value(&self) -> Value {
        Value::Seq(vec![
            self.f0.as_ref().map(|x| x.to_value()),
            Some(self.f1.to_value()),
            Some(self.f2.to_value()),
            Some(self.f3.to_value()),
            Some(self.f4.to_value()),
        ])
    }
}
impl FromValue for Ts5odddde2 {
    fn from_value(v: &Value) -> Self {
        let s = match v { Value::Seq(s) => s, other => panic!("Ts5odddde2: expected Seq, got {other:?}") };
        assert_eq!(s.len(), 5, "Ts5odddde2: component count");
        let _ = s;
        Ts5odddde2 {
            f0: s[0].as_ref().map(FromValue::from_value),
            f1: FromValue::from_value(s[1].as_ref().expect("component f1 of Ts5odddde2 must be present")),
            f2: FromValue::from_value(s[2].as_ref().expect("component f2 of Ts5odddde2 must be present")),
            f3: FromValue::from_value(s[3].as_ref().expect("component f3 of Ts5odddde2 must be present")),
            f4: FromValue::from_value(s[4].as_ref().expect("component f4 of Ts5odddde2 must be present")),
        }
    }
}
impl ToValue for Ts5odddde2 {
    fn to_value(&self) -> Value {
        Value::Seq(vec![
            self.f0.as_ref().map(|x| x.to_value()),
            Some(self.f1.to_value()),
            Some(self.f2.to_value()),
            Some(self.f3.to_value()),
            Some(self.f4.to_value()),
        ])
    }
}
impl FromValue for Ts5odddde3 {
    fn from_value(v: &Value) -> Self {
        let s = match v { Value::Seq(s) => s, other => panic!("Ts5odddde3: expected Seq, got {other:?}") };
        assert_eq!(s.len(), 5, "Ts5odddde3: component count");
        let _ = s;
        Ts5odddde3 {
            f0: s[0].as_ref().map(FromValue::from_value),
            f1: FromValue::from_value(s[1].as_ref().expect("component f1 of Ts5odddde3 must be present")),
            f2: FromValue::from_value(s[2].as_ref().expect("component f2 of Ts5odddde3 must be present")),
            f3: FromValue::from_value(s[3].as_ref().expect("component f3 of Ts5odddde3 must be present")),
            f4: FromValue::from_value(s[4].as_ref().expect("component f4 of Ts5odddde3 must be present")),
        }
    }
}
impl ToValue for Ts5odddde3 {
    fn to_value(&self) -> Value {
        Value::Seq(vec![
            self.f0.as_ref().map(|x| x.to_value()),
            Some(self.f1.to_value()),
            Some(self.f2.to_value()),
            Some(self.f3.to_value()),
            Some(self.f4.to_value()),
        ])
    }
}
impl FromValue for Ts5odddde4 {
    fn from_value(v: &Value) -> Self {
        let s = match v { Value::Seq(s) => s, other => panic!("Ts5odddde4: expected Seq, got {other:?}") };
        assert_eq!(s.len(), 5, "Ts5odddde4: component count");
        let _ = s;
        Ts5odddde4 {
            f0: s[0].as_ref().map(FromValue::from_value),
            f1: FromValue::from_value(s[1].as_ref().expect("component f1 of Ts5odddde4 must be present")),
            f2: FromValue::from_value(s[2].as_ref().expect("component f2 of Ts5odddde4 must be present")),
            f3: FromValue::from_value(s[3].as_ref().expect("component f3 of Ts5odddde4 must be present")),
            f4: FromValue::from_value(s[4].as_ref().expect("component f4 of Ts5odddde4 must be present")),
        }
    }
}
impl ToValue for Ts5odddde4 {
    fn to_value(&self) -> Value {
        Value::Seq(vec![
            self.f0.as_ref().map(|x| x.to_value()),
            Some(self.f1.to_value()),
            Some(self.f2.to_value()),
            Some(self.f3.to_value()),
            Some(self.f4.to_value()),
        ])
    }
}
impl FromValue for Ts5odddde5 {
    fn from_value(v: &Value) -> Self {
        let s = match v { Value::Seq(s) => s, other => panic!("Ts5odddde5: expected Seq, got {other:?}") };
        assert_eq!(s.len(), 5, "Ts5odddde5: component count");
        let _ = s;
        Ts5odddde5 {
            f0: s[0].as_ref().map(FromValue::from_value),
            f1: FromValue::from_value(s[1].as_ref().expect("component f1 of Ts5odddde5 must be present")),
            f2: FromValue::from_value(s[2].as_ref().expect("component f2 of Ts5odddde5 must be present")),
            f3: FromValue::from_value(s[3].as_ref().expect("component f3 of Ts5odddde5 must be present")),
            f4: FromValue::from_value(s[4].as_ref().expect("component f4 of Ts5odddde5 must be present")),
        }
    }
}
impl ToValue for Ts5odddde5 {
    fn to_value(&self) -> Value {
        Value::Seq(vec![
            self.f0.as_ref().map(|x| x.to_value()),
            Some(self.f1.to_value()),
            Some(self.f2.to_value()),
            Some(self.f3.to_value()),
            Some(self.f4.to_value()),
        ])
    }
}
impl FromValue for Ts5dddddn {
    fn from_value(v: &Value) -> Self {
        let s = match v { Value::Seq(s) => s, other => panic!("Ts5dddddn: expected Seq, got {other:?}") };
        assert_eq!(s.len(), 5, "Ts5dddddn: component count");
        let _ = s;
        Ts5dddddn {
            f0: FromValue::from_value(s[0].as_ref().expect("component f0 of Ts5dddddn must be present")),
            f1: FromValue::from_value(s[1].as_ref().expect("component f1 of Ts5dddddn must be present")),
            f2: FromValue::from_value(s[2].as_ref().expect("component f2 of Ts5dddddn must be present")),
            f3: FromValue::from_value(s[3].as_ref().expect("component f3 of Ts5dddddn must be present")),
            f4: FromValue::from_value(s[4].as_ref().expect("component f4 of Ts5dddddn must be present")),
        }
    }
}
impl ToValue for Ts5dddddn {
    fn to_value(&self) -> Value {
        Value::Seq(vec![
            Some(self.f0.to_value()),
            Some(self.f1.to_value()),
            Some(self.f2.to_value()),
            Some(self.f3.to_value()),
            Some(self.f4.to_value()),
        ])
    }
}
impl FromValue for Ts5ddddde0 {
    fn from_value(v: &Value) -> Self {
        let s = match v { Value::Seq(s) => s, other => panic!("Ts5ddddde0: expected Seq, got {other:?}") };
        assert_eq!(s.len(), 5, "Ts5ddddde0: component count");
        let _ = s;
        Ts5ddddde0 {
            f0: FromValue::from_value(s[0].as_ref().expect("component f0 of Ts5ddddde0 must be present")),
            f1: FromValue::from_value(s[1].as_ref().expect("component f1 of Ts5ddddde0 must be present")),
            f2: FromValue::from_value(s[2].as_ref().expect("component f2 of Ts5ddddde0 must be present")),
            f3: FromValue::from_value(s[3].as_ref().expect("component f3 of Ts5ddddde0 must be present")),
            f4: FromValue::from_value(s[4].as_ref().expect("component f4 of Ts5ddddde0 must be present")),
        }
    }
}
impl ToValue for Ts5ddddde0 {
    fn to_value(&self) -> Value {
        Value::Seq(vec![
            Some(self.f0.to_value()),
            Some(self.f1.to_value()),
            Some(self.f2.to_value()),
            Some(self.f3.to_value()),
            Some(self.f4.to_value()),
        ])
    }
}
impl FromValue for Ts5ddddde1 {
    fn from_value(v: &Value) -> Self {
        let s = match v { Value::Seq(s) => s, other => panic!("Ts5ddddde1: expected Seq, got {other:?}") };
        assert_eq!(s.len(), 5, "Ts5ddddde1: component count");
        let _ = s;
        Ts5ddddde1 {
            f0: FromValue::from_value(s[0].as_ref().expect("component f0 of Ts5ddddde1 must be present")),
            f1: FromValue::from_value(s[1].as_ref().expect("component f1 of Ts5ddddde1 must be present")),
            f2: FromValue::from_value(s[2].as_ref().expect("component f2 of Ts5ddddde1 must be present")),
            f3: FromValue::from_value(s[3].as_ref().expect("component f3 of Ts5ddddde1 must be present")),
            f4: FromValue::from_value(s[4].as_ref().expect("component f4 of Ts5ddddde1 must be present")),
        }
    }
}
impl ToValue for Ts5ddddde1 {
    fn to_value(&self) -> Value {
        Value::Seq(vec![
            Some(self.f0.to_value()),
            Some(self.f1.to_value()),
            Some(self.f2.to_value()),
            Some(self.f3.to_value()),
            Some(self.f4.to_value()),
        ])
    }
}
impl FromValue for Ts5ddddde2 {
    fn from_value(v: &Value) -> Self {
        let s = match v { Value::Seq(s) => s, other => panic!("Ts5ddddde2: expected Seq, got {other:?}") };
        assert_eq!(s.len(), 5, "Ts5ddddde2: component count");
        let _ = s;
        Ts5ddddde2 {
            f0: FromValue::from_value(s[0].as_ref().expect("component f0 of Ts5ddddde2 must be present")),
            f1: FromValue::from_value(s[1].as_ref().expect("component f1 of Ts5ddddde2 must be present")),
            f2: FromValue::from_value(s[2].as_ref().expect("component f2 of Ts5ddddde2 must be present")),
            f3: FromValue::from_value(s[3].as_ref().expect("component f3 of Ts5ddddde2 must be present")),
            f4: FromValue::from_value(s[4].as_ref().expect("component f4 of Ts5ddddde2 must be present")),
        }
    }
}
impl ToValue for Ts5ddddde2 {
    fn to_value(&self) -> Value {
        Value::Seq(vec![
            Some(self.f0.to_value()),
            Some(self.f1.to_value()),
            Some(self.f2.to_value()),
            Some(self.f3.to_value()),
            Some(self.f4.to_value()),
        ])
    }
}
impl FromValue for Ts5ddddde3 {
    fn from_value(v: &Value) -> Self {
        let s = match v { Value::Seq(s) => s, other => panic!("Ts5ddddde3: expected Seq, got {other:?}") };
        assert_eq!(s.len(), 5, "Ts5ddddde3: component count");
        let _ = s;
        Ts5ddddde3 {
            f0: FromValue::from_value(s[0].as_ref().expect("component f0 of Ts5ddddde3 must be present")),
            f1: FromValue::from_value(s[1].as_ref().expect("component f1 of Ts5ddddde3 must be present")),
            f2: FromValue::from_value(s[2].as_ref().expect("component f2 of Ts5ddddde3 must be present")),
            f3: FromValue::from_value(s[3].as_ref().expect("component f3 of Ts5ddddde3 must be present")),
            f4: FromValue::from_value(s[4].as_ref().expect("component f4 of Ts5ddddde3 must be present")),
        }
    }
}
impl ToValue for Ts5ddddde3 {
    fn to_value(&self) -> Value {
        Value::Seq(vec![
            Some(self.f0.to_value()),
            Some(self.f1.to_value()),
            Some(self.f2.to_value()),
            Some(self.f3.to_value()),
            Some(self.f4.to_value()),
        ])
    }
}
impl FromValue for Ts5ddddde4 {
    fn from_value(v: &Value) -> Self {
        let s = match v { Value::Seq(s) => s, other => panic!("Ts5ddddde4: expected Seq, got {other:?}") };
        assert_eq!(s.len(), 5, "Ts5ddddde4: component count");
        let _ = s;
        Ts5ddddde4 {
            f0: FromValue::from_value(s[0].as_ref().expect("component f0 of Ts5ddddde4 must be present")),
            f1: FromValue::from_value(s[1].as_ref().expect("component f1 of Ts5ddddde4 must be present")),
            f2: FromValue::from_value(s[2].as_ref().expect("component f2 of Ts5ddddde4 must be present")),
            f3: FromValue::from_value(s[3].as_ref().expect("component f3 of Ts5ddddde4 must be present")),
            f4: FromValue::from_value(s[4].as_ref().expect("component f4 of Ts5ddddde4 must be present")),
        }
    }
}
impl ToValue for Ts5ddddde4 {
    fn to_value(&self) -> Value {
        Value::Seq(vec![
            Some(self.f0.to_value()),
            Some(self.f1.to_value()),
            Some(self.f2.to_value()),
            Some(self.f3.to_value()),
            Some(self.f4.to_value()),
        ])
    }
}
impl FromValue for Ts5ddddde5 {
    fn from_value(v: &Value) -> Self {
        let s = match v { Value::Seq(s) => s, other => panic!("Ts5ddddde5: expected Seq, got {other:?}") };
        assert_eq!(s.len(), 5, "Ts5ddddde5: component count");
        let _ = s;
        Ts5ddddde5 {
            f0: FromValue::from_value(s[0].as_ref().expect("component f0 of Ts5ddddde5 must be present")),
            f1: FromValue::from_value(s[1].as_ref().expect("component f1 of Ts5ddddde5 must be present")),
            f2: FromValue::from_value(s[2].as_ref().expect("component f2 of Ts5ddddde5 must be present")),
            f3: FromValue::from_value(s[3].as_ref().expect("component f3 of Ts5ddddde5 must be present")),
            f4: FromValue::from_value(s[4].as_ref().expect("component f4 of Ts5ddddde5 must be present")),
        }
    }
}
impl ToValue for Ts5ddddde5 {
    fn to_value(&self) -> Value {
        Value::Seq(vec![
            Some(self.f0.to_value()),
            Some(self.f1.to_value()),
            Some(self.f2.to_value()),
            Some(self.f3.to_value()),
            Some(self.f4.to_value()),
        ])
    }
}

use asn1rs::prelude::*;

#[asn(sequence, extensible_after(f2))]

#[derive(Default, Debug, Clone, PartialEq, Hash)]
pub struct Ts5doodme3 {
    #[asn(default(integer(0..7), 5))] pub f0: u8,
    #[asn(optional(integer(0..7)))] pub f1: Option<u8>,
    #[asn(optional(integer(0..7)))] pub f2: Option<u8>,
    #[asn(default(integer(0..7), 5))] pub f3: u8,
    #[asn(optional(integer(0..7)))] pub f4: Option<u8>,
}

impl Ts5doodme3 {
    pub const fn f0_min() -> u8 {
        0
    }

    pub const fn f0_max() -> u8 {
        7
    }

    pub const fn f1_min() -> u8 {
        0
    }

    pub const fn f1_max() -> u8 {
        7
    }

    pub const fn f2_min() -> u8 {
        0
    }

    pub const fn f2_max() -> u8 {
        7
    }

    pub const fn f3_min() -> u8 {
        0
    }

    pub const fn f3_max() -> u8 {
        7
    }

    pub const fn f4_min() -> u8 {
        0
    }

    pub const fn f4_max() -> u8 {
        7
    }
}

#[asn(sequence, extensible_after(f3))]

#[derive(Default, Debug, Clone, PartialEq, Hash)]
pub struct Ts5doodme4 {
    #[asn(default(integer(0..7), 5))] pub f0: u8,
    #[asn(optional(integer(0..7)))] pub f1: Option<u8>,
    #[asn(optional(integer(0..7)))] pub f2: Option<u8>,
    #[asn(default(integer(0..7), 5))] pub f3: u8,
    #[asn(optional(integer(0..7)))] pub f4: Option<u8>,
}

impl Ts5doodme4 {
    pub const fn f0_min() -> u8 {
        0
    }

    pub const fn f0_max() -> u8 {
        7
    }

    pub const fn f1_min() -> u8 {
        0
    }

    pub const fn f1_max() -> u8 {
        7
    }

    pub const fn f2_min() -> u8 {
        0
    }

    pub const fn f2_max() -> u8 {
        7
    }

    pub const fn f3_min() -> u8 {
        0
    }

    pub const fn f3_max() -> u8 {
        7
    }

    pub const fn f4_min() -> u8 {
        0
    }

    pub const fn f4_max() -> u8 {
        7
    }
}

#[asn(sequence, extensible_after(f4))]

#[derive(Default, Debug, Clone, PartialEq, Hash)]
pub struct Ts5doodme5 {
    #[asn(default(integer(0..7), 5))] pub f0: u8,
    #[asn(optional(integer(0..7)))] pub f1: Option<u8>,
    #[asn(optional(integer(0..7)))] pub f2: Option<u8>,
    #[asn(default(integer(0..7), 5))] pub f3: u8,
    #[asn(integer(0..7))] pub f4: u8,
}

impl Ts5doodme5 {
    pub const fn f0_min() -> u8 {
        0
    }

    pub const fn f0_max() -> u8 {
        7
    }

    pub const fn f1_min() -> u8 {
        0
    }

    pub const fn f1_max() -> u8 {
        7
    }

    pub const fn f2_min() -> u8 {
        0
    }

    pub const fn f2_max() -> u8 {
        7
    }

    pub const fn f3_min() -> u8 {
        0
    }

    pub const fn f3_max() -> u8 {
        7
    }

    pub const fn f4_min() -> u8 {
        0
    }

    pub const fn f4_max() -> u8 {
        7
    }
}

#[asn(sequence)]

#[derive(Default, Debug, Clone, PartialEq, Hash)]
pub struct Ts5mdodmn {
    #[asn(integer(0..7))] pub f0: u8,
    #[asn(default(integer(0..7), 5))] pub f1: u8,
    #[asn(optional(integer(0..7)))] pub f2: Option<u8>,
    #[asn(default(integer(0..7), 5))] pub f3: u8,
    #[asn(integer(0..7))] pub f4: u8,
}

impl Ts5mdodmn {
    pub const fn f0_min() -> u8 {
        0
    }

    pub const fn f0_max() -> u8 {
        7
    }

    pub const fn f1_min() -> u8 {
        0
    }

    pub const fn f1_max() -> u8 {
        7
    }

    pub const fn f2_min() -> u8 {
        0
    }

    pub const fn f2_max() -> u8 {
        7
    }

    pub const fn f3_min() -> u8 {
        0
    }

    pub const fn f3_max() -> u8 {
        7
    }

    pub const fn f4_min() -> u8 {
        0
    }

    pub const fn f4_max() -> u8 {
        7
    }
}

#[asn(sequence, extensible_after(f0))]

#[derive(Default, Debug, Clone, PartialEq, Hash)]
pub struct Ts5mdodme0 {
    #[asn(integer(0..7))] pub f0: u8,
    #[asn(default(integer(0..7), 5))] pub f1: u8,
    #[asn(optional(integer(0..7)))] pub f2: Option<u8>,
    #[asn(default(integer(0..7), 5))] pub f3: u8,
    #[asn(optional(integer(0..7)))] pub f4: Option<u8>,
}

impl Ts5mdodme0 {
    pub const fn f0_min() -> u8 {
        0
    }

    pub const fn f0_max() -> u8 {
        7
    }

    pub const fn f1_min() -> u8 {
        0
    }

    pub const fn f1_max() -> u8 {
        7
    }

    pub const fn f2_min() -> u8 {
        0
    }

    pub const fn f2_max() -> u8 {
        7
    }

    pub const fn f3_min() -> u8 {
        0
    }

    pub const fn f3_max() -> u8 {
        7
    }

    pub const fn f4_min() -> u8 {
        0
    }

    pub const fn f4_max() -> u8 {
        7
    }
}

#[asn(sequence, extensible_after(f0))]

#[derive(Default, Debug, Clone, PartialEq, Hash)]
pub struct Ts5mdodme1 {
    #[asn(integer(0..7))] pub f0: u8,
    #[asn(default(integer(0..7), 5))] pub f1: u8,
    #[asn(optional(integer(0..7)))] pub f2: Option<u8>,
    #[asn(default(integer(0..7), 5))] pub f3: u8,
    #[asn(optional(integer(0..7)))] pub f4: Option<u8>,
}

impl Ts5mdodme1 {
    pub const fn f0_min() -> u8 {
        0
    }

    pub const fn f0_max() -> u8 {
        7
    }

    pub const fn f1_min() -> u8 {
        0
    }

    pub const fn f1_max() -> u8 {
        7
    }

    pub const fn f2_min() -> u8 {
        0
    }

    pub const fn f2_max() -> u8 {
        7
    }

    pub const fn f3_min() -> u8 {
        0
    }

    pub const fn f3_max() -> u8 {
        7
    }

    pub const fn f4_min() -> u8 {
        0
    }

    pub const fn f4_max() -> u8 {
        7
    }
}

#[asn(sequence, extensible_after(f1))]

#[derive(Default, Debug, Clone, PartialEq, Hash)]
pub struct Ts5mdodme2 {
    #[asn(integer(0..7))] pub f0: u8,
    #[asn(default(integer(0..7), 5))] pub f1: u8,
    #[asn(optional(integer(0..7)))] pub f2: Option<u8>,
    #[asn(default(integer(0..7), 5))] pub f3: u8,
    #[asn(optional(integer(0..7)))] pub f4: Option<u8>,
}

impl Ts5mdodme2 {
    pub const fn f0_min() -> u8 {
        0
    }

    pub const fn f0_max() -> u8 {
        7
    }

    pub const fn f1_min() -> u8 {
        0
    }

    pub const fn f1_max() -> u8 {
        7
    }

    pub const fn f2_min() -> u8 {
        0
    }

    pub const fn f2_max() -> u8 {
        7
    }

    pub const fn f3_min() -> u8 {
        0
    }

    pub const fn f3_max() -> u8 {
        7
    }

    pub const fn f4_min() -> u8 {
        0
    }

    pub const fn f4_max() -> u8 {
        7
    }
}

#[asn(sequence, extensible_after(f2))]

#[derive(Default, Debug, Clone, PartialEq, Hash)]
pub struct Ts5mdodme3 {
    #[asn(integer(0..7))] pub f0: u8,
    #[asn(default(integer(0..7), 5))] pub f1: u8,
    #[asn(optional(integer(0..7)))] pub f2: Option<u8>,
    #[asn(default(integer(0..7), 5))] pub f3: u8,
    #[asn(optional(integer(0..7)))] pub f4: Option<u8>,
}

impl Ts5mdodme3 {
    pub const fn f0_min() -> u8 {
        0
    }

    pub const fn f0_max() -> u8 {
        7
    }

    pub const fn f1_min() -> u8 {
        0
    }

    pub const fn f1_max() -> u8 {
        7
    }

    pub const fn f2_min() -> u8 {
        0
    }

    pub const fn f2_max() -> u8 {
        7
    }

    pub const fn f3_min() -> u8 {
        0
    }

    pub const fn f3_max() -> u8 {
        7
    }

    pub const fn f4_min() -> u8 {
        0
    }

    pub const fn f4_max() -> u8 {
        7
    }
}

#[asn(sequence, extensible_after(f3))]

#[derive(Default, Debug, Clone, PartialEq, Hash)]
pub struct Ts5mdodme4 {
    #[asn(integer(0..7))] pub f0: u8,
    #[asn(default(integer(0..7), 5))] pub f1: u8,
    #[asn(optional(integer(0..7)))] pub f2: Option<u8>,
    #[asn(default(integer(0..7), 5))] pub f3: u8,
    #[asn(optional(integer(0..7)))] pub f4: Option<u8>,
}

impl Ts5mdodme4 {
    pub const fn f0_min() -> u8 {
        0
    }

    pub const fn f0_max() -> u8 {
        7
    }

    pub const fn f1_min() -> u8 {
        0
    }

    pub const fn f1_max() -> u8 {
        7
    }

    pub const fn f2_min() -> u8 {
        0
    }

    pub const fn f2_max() -> u8 {
        7
    }

    pub const fn f3_min() -> u8 {
        0
    }

    pub const fn f3_max() -> u8 {
        7
    }

    pub const fn f4_min() -> u8 {
        0
    }

    pub const fn f4_max() -> u8 {
        7
    }
}

#[asn(sequence, extensible_after(f4))]

#[derive(Default, Debug, Clone, PartialEq, Hash)]
pub struct Ts5mdodme5 {
    #[asn(integer(0..7))] pub f0: u8,
    #[asn(default(integer(0..7), 5))] pub f1: u8,
    #[asn(optional(integer(0..7)))] pub f2: Option<u8>,
    #[asn(default(integer(0..7), 5))] pub f3: u8,
    #[asn(integer(0..7))] pub f4: u8,
}

impl Ts5mdodme5 {
    pub const fn f0_min() -> u8 {
        0
    }

    pub const fn f0_max() -> u8 {
        7
    }

    pub const fn f1_min() -> u8 {
        0
    }

    pub const fn f1_max() -> u8 {
        7
    }

    pub const fn f2_min() -> u8 {
        0
    }

    pub const fn f2_max() -> u8 {
        7
    }

    pub const fn f3_min() -> u8 {
        0
    }

    pub const fn f3_max() -> u8 {
        7
    }

    pub const fn f4_min() -> u8 {
        0
    }

    pub const fn f4_max() -> u8 {
        7
    }
}

#[asn(sequence)]

#[derive(Default, Debug, Clone, PartialEq, Hash)]
pub struct Ts5ododmn {
    #[asn(optional(integer(0..7)))] pub f0: Option<u8>,
    #[asn(default(integer(0..7), 5))] pub f1: u8,
    #[asn(optional(integer(0..7)))] pub f2: Option<u8>,
    #[asn(default(integer(0..7), 5))] pub f3: u8,
    #[asn(integer(0..7))] pub f4: u8,
}

impl Ts5ododmn {
    pub const fn f0_min() -> u8 {
        0
    }

    pub const fn f0_max() -> u8 {
        7
    }

    pub const fn f1_min() -> u8 {
        0
    }

    pub const fn f1_max() -> u8 {
        7
    }

    pub const fn f2_min() -> u8 {
        0
    }

    pub const fn f2_max() -> u8 {
        7
    }

    pub const fn f3_min() -> u8 {
        0
    }

    pub const fn f3_max() -> u8 {
        7
    }

    pub const fn f4_min() -> u8 {
        0
    }

    pub const fn f4_max() -> u8 {
        7
    }
}

#[asn(sequence, extensible_after(f0))]

#[derive(Default, Debug, Clone, PartialEq, Hash)]
pub struct Ts5ododme0 {
    #[asn(optional(integer(0..7)))] pub f0: Option<u8>,
    #[asn(default(integer(0..7), 5))] pub f1: u8,
    #[asn(optional(integer(0..7)))] pub f2: Option<u8>,
    #[asn(default(integer(0..7), 5))] pub f3: u8,
    #[asn(optional(integer(0..7)))] pub f4: Option<u8>,
}

impl Ts5ododme0 {
    pub const fn f0_min() -> u8 {
        0
    }

    pub const fn f0_max() -> u8 {
        7
    }

    pub const fn f1_min() -> u8 {
        0
    }

    pub const fn f1_max() -> u8 {
        7
    }

    pub const fn f2_min() -> u8 {
        0
    }

    pub const fn f2_max() -> u8 {
        7
    }

    pub const fn f3_min() -> u8 {
        0
    }

    pub const fn f3_max() -> u8 {
        7
    }

    pub const fn f4_min() -> u8 {
        0
    }

    pub const fn f4_max() -> u8 {
        7
    }
}

#[asn(sequence, extensible_after(f0))]

#[derive(Default, Debug, Clone, PartialEq, Hash)]
pub struct Ts5ododme1 {
    #[asn(optional(integer(0..7)))] pub f0: Option<u8>,
    #[asn(default(integer(0..7), 5))] pub f1: u8,
    #[asn(optional(integer(0..7)))] pub f2: Option<u8>,
    #[asn(default(integer(0..7), 5))] pub f3: u8,
    #[asn(optional(integer(0..7)))] pub f4: Option<u8>,
}

impl Ts5ododme1 {
    pub const fn f0_min() -> u8 {
        0
    }

    pub const fn f0_max() -> u8 {
        7
    }

    pub const fn f1_min() -> u8 {
        0
    }

    pub const fn f1_max() -> u8 {
        7
    }

    pub const fn f2_min() -> u8 {
        0
    }

    pub const fn f2_max() -> u8 {
        7
    }

    pub const fn f3_min() -> u8 {
        0
    }

    pub const fn f3_max() -> u8 {
        7
    }

    pub const fn f4_min() -> u8 {
        0
    }

    pub const fn f4_max() -> u8 {
        7
    }
}

#[asn(sequence, extensible_after(f1))]

#[derive(Default, Debug, Clone, PartialEq, Hash)]
pub struct Ts5ododme2 {
    #[asn(optional(integer(0..7)))] pub f0: Option<u8>,
    #[asn(default(integer(0..7), 5))] pub f1: u8,
    #[asn(optional(integer(0..7)))] pub f2: Option<u8>,
    #[asn(default(integer(0..7), 5))] pub f3: u8,
    #[asn(optional(integer(0..7)))] pub f4: Option<u8>,
}

impl Ts5ododme2 {
    pub const fn f0_min() -> u8 {
        0
    }

    pub const fn f0_max() -> u8 {
        7
    }

    pub const fn f1_min() -> u8 {
        0
    }

    pub const fn f1_max() -> u8 {
        7
    }

    pub const fn f2_min() -> u8 {
        0
    }

    pub const fn f2_max() -> u8 {
        7
    }

    pub const fn f3_min() -> u8 {
        0
    }

    pub const fn f3_max() -> u8 {
        7
    }

    pub const fn f4_min() -> u8 {
        0
    }

    pub const fn f4_max() -> u8 {
        7
    }
}

#[asn(sequence, extensible_after(f2))]

#[derive(Default, Debug, Clone, PartialEq, Hash)]
pub struct Ts5ododme3 {
    #[asn(optional(integer(0..7)))] pub f0: Option<u8>,
    #[asn(default(integer(0..7), 5))] pub f1: u8,
    #[asn(optional(integer(0..7)))] pub f2: Option<u8>,
    #[asn(default(integer(0..7), 5))] pub f3: u8,
    #[asn(optional(integer(0..7)))] pub f4: Option<u8>,
}

impl Ts5ododme3 {
    pub const fn f0_min() -> u8 {
        0
    }

    pub const fn f0_max() -> u8 {
        7
    }

    pub const fn f1_min() -> u8 {
        0
    }

    pub const fn f1_max() -> u8 {
        7
    }

    pub const fn f2_min() -> u8 {
        0
    }

    pub const fn f2_max() -> u8 {
        7
    }

    pub const fn f3_min() -> u8 {
        0
    }

    pub const fn f3_max() -> u8 {
        7
    }

    pub const fn f4_min() -> u8 {
        0
    }

    pub const fn f4_max() -> u8 {
        7
    }
}

#[asn(sequence, extensible_after(f3))]

#[derive(Default, Debug, Clone, PartialEq, Hash)]
pub struct Ts5ododme4 {
    #[asn(optional(integer(0..7)))] pub f0: Option<u8>,
    #[asn(default(integer(0..7), 5))] pub f1: u8,
    #[asn(optional(integer(0..7)))] pub f2: Option<u8>,
    #[asn(default(integer(0..7), 5))] pub f3: u8,
    #[asn(optional(integer(0..7)))] pub f4: Option<u8>,
}

impl Ts5ododme4 {
    pub const fn f0_min() -> u8 {
        0
    }

    pub const fn f0_max() -> u8 {
        7
    }

    pub const fn f1_min() -> u8 {
        0
    }

    pub const fn f1_max() -> u8 {
        7
    }

    pub const fn f2_min() -> u8 {
        0
    }

    pub const fn f2_max() -> u8 {
        7
    }

    pub const fn f3_min() -> u8 {
        0
    }

    pub const fn f3_max() -> u8 {
        7
    }

    pub const fn f4_min() -> u8 {
        0
    }

    pub const fn f4_max() -> u8 {
        7
    }
}

#[asn(sequence, extensible_after(f4))]

#[derive(Default, Debug, Clone, PartialEq, Hash)]
pub struct Ts5ododme5 {
    #[asn(optional(integer(0..7)))] pub f0: Option<u8>,
    #[asn(default(integer(0..7), 5))] pub f1: u8,
    #[asn(optional(integer(0..7)))] pub f2: Option<u8>,
    #[asn(default(integer(0..7), 5))] pub f3: u8,
    #[asn(integer(0..7))] pub f4: u8,
}

impl Ts5ododme5 {
    pub const fn f0_min() -> u8 {
        0
    }

    pub const fn f0_max() -> u8 {
        7
    }

    pub const fn f1_min() -> u8 {
        0
    }

    pub const fn f1_max() -> u8 {
        7
    }

    pub const fn f2_min() -> u8 {
        0
    }

    pub const fn f2_max() -> u8 {
        7
    }

    pub const fn f3_min() -> u8 {
        0
    }

    pub const fn f3_max() -> u8 {
        7
    }

    pub const fn f4_min() -> u8 {
        0
    }

    pub const fn f4_max() -> u8 {
        7
    }
}

#[asn(sequence)]

#[derive(Default, Debug, Clone, PartialEq, Hash)]
pub struct Ts5ddodmn {
    #[asn(default(integer(0..7), 5))] pub f0: u8,
    #[asn(default(integer(0..7), 5))] pub f1: u8,
    #[asn(optional(integer(0..7)))] pub f2: Option<u8>,
    #[asn(default(integer(0..7), 5))] pub f3: u8,
    #[asn(integer(0..7))] pub f4: u8,
}

impl Ts5ddodmn {
    pub const fn f0_min() -> u8 {
        0
    }

    pub const fn f0_max() -> u8 {
        7
    }

    pub const fn f1_min() -> u8 {
        0
    }

    pub const fn f1_max() -> u8 {
        7
    }

    pub const fn f2_min() -> u8 {
        0
    }

    pub const fn f2_max() -> u8 {
        7
    }

    pub const fn f3_min() -> u8 {
        0
    }

    pub const fn f3_max() -> u8 {
        7
    }

    pub const fn f4_min() -> u8 {
        0
    }

    pub const fn f4_max() -> u8 {
        7
    }
}

#[asn(sequence, extensible_after(f0))]

#[derive(Default, Debug, Clone, PartialEq, Hash)]
pub struct Ts5ddodme0 {
    #[asn(default(integer(0..7), 5))] pub f0: u8,
    #[asn(default(integer(0..7), 5))] pub f1: u8,
    #[asn(optional(integer(0..7)))] pub f2: Option<u8>,
    #[asn(default(integer(0..7), 5))] pub f3: u8,
    #[asn(optional(integer(0..7)))] pub f4: Option<u8>,
}

impl Ts5ddodme0 {
    pub const fn f0_min() -> u8 {
        0
    }

    pub const fn f0_max() -> u8 {
        7
    }

    pub const fn f1_min() -> u8 {
        0
    }

    pub const fn f1_max() -> u8 {
        7
    }

    pub const fn f2_min() -> u8 {
        0
    }

    pub const fn f2_max() -> u8 {
        7
    }

    pub const fn f3_min() -> u8 {
        0
    }

    pub const fn f3_max() -> u8 {
        7
    }

    pub const fn f4_min() -> u8 {
        0
    }

    pub const fn f4_max() -> u8 {
        7
    }
}

#[asn(sequence, extensible_after(f0))]

#[derive(Default, Debug, Clone, PartialEq, Hash)]
pub struct Ts5ddodme1 {
    #[asn(default(integer(0..7), 5))] pub f0: u8,
    #[asn(default(integer(0..7), 5))] pub f1: u8,
    #[asn(optional(integer(0..7)))] pub f2: Option<u8>,
    #[asn(default(integer(0..7), 5))] pub f3: u8,
    #[asn(optional(integer(0..7)))] pub f4: Option<u8>,
}

impl Ts5ddodme1 {
    pub const fn f0_min() -> u8 {
        0
    }

    pub const fn f0_max() -> u8 {
        7
    }

    pub const fn f1_min() -> u8 {
        0
    }

    pub const fn f1_max() -> u8 {
        7
    }

    pub const fn f2_min() -> u8 {
        0
    }

    pub const fn f2_max() -> u8 {
        7
    }

    pub const fn f3_min() -> u8 {
        0
    }

    pub const fn f3_max() -> u8 {
        7
    }

    pub const fn f4_min() -> u8 {
        0
    }

    pub const fn f4_max() -> u8 {
        7
    }
}

#[asn(sequence, extensible_after(f1))]

#[derive(Default, Debug, Clone, PartialEq, Hash)]
pub struct Ts5ddodme2 {
    #[asn(default(integer(0..7), 5))] pub f0: u8,
    #[asn(default(integer(0..7), 5))] pub f1: u8,
    #[asn(optional(integer(0..7)))] pub f2: Option<u8>,
    #[asn(default(integer(0..7), 5))] pub f3: u8,
    #[asn(optional(integer(0..7)))] pub f4: Option<u8>,
}

impl Ts5ddodme2 {
    pub const fn f0_min() -> u8 {
        0
    }

    pub const fn f0_max() -> u8 {
        7
    }

    pub const fn f1_min() -> u8 {
        0
    }

    pub const fn f1_max() -> u8 {
        7
    }

    pub const fn f2_min() -> u8 {
        0
    }

    pub const fn f2_max() -> u8 {
        7
    }

    pub const fn f3_min() -> u8 {
        0
    }

    pub const fn f3_max() -> u8 {
        7
    }

    pub const fn f4_min() -> u8 {
        0
    }

    pub const fn f4_max() -> u8 {
        7
    }
}

#[asn(sequence, extensible_after(f2))]

#[derive(Default, Debug, Clone, PartialEq, Hash)]
pub struct Ts5ddodme3 {
    #[asn(default(integer(0..7), 5))] pub f0: u8,
    #[asn(default(integer(0..7), 5))] pub f1: u8,
    #[asn(optional(integer(0..7)))] pub f2: Option<u8>,
    #[asn(default(integer(0..7), 5))] pub f3: u8,
    #[asn(optional(integer(0..7)))] pub f4: Option<u8>,
}

impl Ts5ddodme3 {
    pub const fn f0_min() -> u8 {
        0
    }

    pub const fn f0_max() -> u8 {
        7
    }

    pub const fn f1_min() -> u8 {
        0
    }

    pub const fn f1_max() -> u8 {
        7
    }

    pub const fn f2_min() -> u8 {
        0
    }

    pub const fn f2_max() -> u8 {
        7
    }

    pub const fn f3_min() -> u8 {
        0
    }

    pub const fn f3_max() -> u8 {
        7
    }

    pub const fn f4_min() -> u8 {
        0
    }

    pub const fn f4_max() -> u8 {
        7
    }
}

#[asn(sequence, extensible_after(f3))]

#[derive(Default, Debug, Clone, PartialEq, Hash)]
pub struct Ts5ddodme4 {
    #[asn(default(integer(0..7), 5))] pub f0: u8,
    #[asn(default(integer(0..7), 5))] pub f1: u8,
    #[asn(optional(integer(0..7)))] pub f2: Option<u8>,
    #[asn(default(integer(0..7), 5))] pub f3: u8,
    #[asn(optional(integer(0..7)))] pub f4: Option<u8>,
}

impl Ts5ddodme4 {
    pub const fn f0_min() -> u8 {
        0
    }

    pub const fn f0_max() -> u8 {
        7
    }

    pub const fn f1_min() -> u8 {
        0
    }

    pub const fn f1_max() -> u8 {
        7
    }

    pub const fn f2_min() -> u8 {
        0
    }

    pub const fn f2_max() -> u8 {
        7
    }

    pub const fn f3_min() -> u8 {
        0
    }

    pub const fn f3_max() -> u8 {
        7
    }

    pub const fn f4_min() -> u8 {
        0
    }

    pub const fn f4_max() -> u8 {
        7
    }
}

#[asn(sequence, extensible_after(f4))]

#[derive(Default, Debug, Clone, PartialEq, Hash)]
pub struct Ts5ddodme5 {
    #[asn(default(integer(0..7), 5))] pub f0: u8,
    #[asn(default(integer(0..7), 5))] pub f1: u8,
    #[asn(optional(integer(0..7)))] pub f2: Option<u8>,
    #[asn(default(integer(0..7), 5))] pub f3: u8,
    #[asn(integer(0..7))] pub f4: u8,
}

impl Ts5ddodme5 {
    pub const fn f0_min() -> u8 {
        0
    }

    pub const fn f0_max() -> u8 {
        7
    }

    pub const fn f1_min() -> u8 {
        0
    }

    pub const fn f1_max() -> u8 {
        7
    }

    pub const fn f2_min() -> u8 {
        0
    }

    pub const fn f2_max() -> u8 {
        7
    }

    pub const fn f3_min() -> u8 {
        0
    }

    pub const fn f3_max() -> u8 {
        7
    }

    pub const fn f4_min() -> u8 {
        0
    }

    pub const fn f4_max() -> u8 {
        7
    }
}

#[asn(sequence)]

#[derive(Default, Debug, Clone, PartialEq, Hash)]
pub struct Ts5mmddmn {
    #[asn(integer(0..7))] pub f0: u8,
    #[asn(integer(0..7))] pub f1: u8,
    #[asn(default(integer(0..7), 5))] pub f2: u8,
    #[asn(default(integer(0..7), 5))] pub f3: u8,
    #[asn(integer(0..7))] pub f4: u8,
}

impl Ts5mmddmn {
    pub const fn f0_min() -> u8 {
        0
    }

    pub const fn f0_max() -> u8 {
        7
    }

    pub const fn f1_min() -> u8 {
        0
    }

    pub const fn f1_max() -> u8 {
        7
    }

    pub const fn f2_min() -> u8 {
        0
    }

    pub const fn f2_max() -> u8 {
        7
    }

    pub const fn f3_min() -> u8 {
        0
    }

    pub const fn f3_max() -> u8 {
        7
    }

    pub const fn f4_min() -> u8 {
        0
    }

    pub const fn f4_max() -> u8 {
        7
    }
}

#[asn(sequence, extensible_after(f0))]

#[derive(Default, Debug, Clone, PartialEq, Hash)]
pub struct Ts5mmddme0 {
    #[asn(integer(0..7))] pub f0: u8,
    #[asn(optional(integer(0..7)))] pub f1: Option<u8>,
    #[asn(default(integer(0..7), 5))] pub f2: u8,
    #[asn(default(integer(0..7), 5))] pub f3: u8,
    #[asn(optional(integer(0..7)))] pub f4: Option<u8>,
}

impl Ts5mmddme0 {
    pub const fn f0_min() -> u8 {
        0
    }

    pub const fn f0_max() -> u8 {
        7
    }

    pub const fn f1_min() -> u8 {
        0
    }

    pub const fn f1_max() -> u8 {
        7
    }

    pub const fn f2_min() -> u8 {
        0
    }

    pub const fn f2_max() -> u8 {
        7
    }

    pub const fn f3_min() -> u8 {
        0
    }

    pub const fn f3_max() -> u8 {
        7
    }

    pub const fn f4_min() -> u8 {
        0
    }

    pub const fn f4_max() -> u8 {
        7
    }
}

#[asn(sequence, extensible_after(f0))]

#[derive(Default, Debug, Clone, PartialEq, Hash)]
pub struct Ts5mmddme1 {
    #[asn(integer(0..7))] pub f0: u8,
    #[asn(optional(integer(0..7)))] pub f1: Option<u8>,
    #[asn(default(integer(0..7), 5))] pub f2: u8,
    #[asn(default(integer(0..7), 5))] pub f3: u8,
    #[asn(optional(integer(0..7)))] pub f4: Option<u8>,
}

impl Ts5mmddme1 {
    pub const fn f0_min() -> u8 {
        0
    }

    pub const fn f0_max() -> u8 {
        7
    }

    pub const fn f1_min() -> u8 {
        0
    }

    pub const fn f1_max() -> u8 {
        7
    }

    pub const fn f2_min() -> u8 {
        0
    }

    pub const fn f2_max() -> u8 {
        7
    }

    pub const fn f3_min() -> u8 {
        0
    }

    pub const fn f3_max() -> u8 {
        7
    }

    pub const fn f4_min() -> u8 {
        0
    }

    pub const fn f4_max() -> u8 {
        7
    }
}

#[asn(sequence, extensible_after(f1))]

#[derive(Default, Debug, Clone, PartialEq, Hash)]
pub struct Ts5mmddme2 {
    #[asn(integer(0..7))] pub f0: u8,
    #[asn(integer(0..7))] pub f1: u8,
    #[asn(default(integer(0..7), 5))] pub f2: u8,
    #[asn(default(integer(0..7), 5))] pub f3: u8,
    #[asn(optional(integer(0..7)))] pub f4: Option<u8>,
}

impl Ts5mmddme2 {
    pub const fn f0_min() -> u8 {
        0
    }

    pub const fn f0_max() -> u8 {
        7
    }

    pub const fn f1_min() -> u8 {
        0
    }

    pub const fn f1_max() -> u8 {
        7
    }

    pub const fn f2_min() -> u8 {
        0
    }

    pub const fn f2_max() -> u8 {
        7
    }

    pub const fn f3_min() -> u8 {
        0
    }

    pub const fn f3_max() -> u8 {
        7
    }

    pub const fn f4_min() -> u8 {
        0
    }

    pub const fn f4_max() -> u8 {
        7
    }
}

#[asn(sequence, extensible_after(f2))]

#[derive(Default, Debug, Clone, PartialEq, Hash)]
pub struct Ts5mmddme3 {
    #[asn(integer(0..7))] pub f0: u8,
    #[asn(integer(0..7))] pub f1: u8,
    #[asn(default(integer(0..7), 5))] pub f2: u8,
    #[asn(default(integer(0..7), 5))] pub f3: u8,
    #[asn(optional(integer(0..7)))] pub f4: Option<u8>,
}

impl Ts5mmddme3 {
    pub const fn f0_min() -> u8 {
        0
    }

    pub const fn f0_max() -> u8 {
        7
    }

    pub const fn f1_min() -> u8 {
        0
    }

    pub const fn f1_max() -> u8 {
        7
    }

    pub const fn f2_min() -> u8 {
        0
    }

    pub const fn f2_max() -> u8 {
        7
    }

    pub const fn f3_min() -> u8 {
        0
    }

    pub const fn f3_max() -> u8 {
        7
    }

    pub const fn f4_min() -> u8 {
        0
    }

    pub const fn f4_max() -> u8 {
        7
    }
}

#[asn(sequence, extensible_after(f3))]

#[derive(Default, Debug, Clone, PartialEq, Hash)]
pub struct Ts5mmddme4 {
    #[asn(integer(0..7))] pub f0: u8,
    #[asn(integer(0..7))] pub f1: u8,
    #[asn(default(integer(0..7), 5))] pub f2: u8,
    #[asn(default(integer(0..7), 5))] pub f3: u8,
    #[asn(optional(integer(0..7)))] pub f4: Option<u8>,
}

impl Ts5mmddme4 {
    pub const fn f0_min() -> u8 {
        0
    }

    pub const fn f0_max() -> u8 {
        7
    }

    pub const fn f1_min() -> u8 {
        0
    }

    pub const fn f1_max() -> u8 {
        7
    }

    pub const fn f2_min() -> u8 {
        0
    }

    pub const fn f2_max() -> u8 {
        7
    }

    pub const fn f3_min() -> u8 {
        0
    }

    pub const fn f3_max() -> u8 {
        7
    }

    pub const fn f4_min() -> u8 {
        0
    }

    pub const fn f4_max() -> u8 {
        7
    }
}

#[asn(sequence, extensible_after(f4))]

#[derive(Default, Debug, Clone, PartialEq, Hash)]
pub struct Ts5mmddme5 {
    #[asn(integer(0..7))] pub f0: u8,
    #[asn(integer(0..7))] pub f1: u8,
    #[asn(default(integer(0..7), 5))] pub f2: u8,
    #[asn(default(integer(0..7), 5))] pub f3: u8,
    #[asn(integer(0..7))] pub f4: u8,
}

impl Ts5mmddme5 {
    pub const fn f0_min() -> u8 {
        0
    }

    pub const fn f0_max() -> u8 {
        7
    }

    pub const fn f1_min() -> u8 {
        0
    }

    pub const fn f1_max() -> u8 {
        7
    }

    pub const fn f2_min() -> u8 {
        0
    }

    pub const fn f2_max() -> u8 {
        7
    }

    pub const fn f3_min() -> u8 {
        0
    }

    pub const fn f3_max() -> u8 {
        7
    }

    pub const fn f4_min() -> u8 {
        0
    }

    pub const fn f4_max() -> u8 {
        7
    }
}

#[asn(sequence)]

#[derive(Default, Debug, Clone, PartialEq, Hash)]
pub struct Ts5omddmn {
    #[asn(optional(integer(0..7)))] pub f0: Option<u8>,
    #[asn(integer(0..7))] pub f1: u8,
    #[asn(default(integer(0..7), 5))] pub f2: u8,
    #[asn(default(integer(0..7), 5))] pub f3: u8,
    #[asn(integer(0..7))] pub f4: u8,
}

impl Ts5omddmn {
    pub const fn f0_min() -> u8 {
        0
    }

    pub const fn f0_max() -> u8 {
        7
    }

    pub const fn f1_min() -> u8 {
        0
    }

    pub const fn f1_max() -> u8 {
        7
    }

    pub const fn f2_min() -> u8 {
        0
    }

    pub const fn f2_max() -> u8 {
        7
    }

    pub const fn f3_min() -> u8 {
        0
    }

    pub const fn f3_max() -> u8 {
        7
    }

    pub const fn f4_min() -> u8 {
        0
    }

    pub const fn f4_max() -> u8 {
        7
    }
}

#[asn(sequence, extensible_after(f0))]

#[derive(Default, Debug, Clone, PartialEq, Hash)]
pub struct Ts5omddme0 {
    #[asn(optional(integer(0..7)))] pub f0: Option<u8>,
    #[asn(optional(integer(0..7)))] pub f1: Option<u8>,
    #[asn(default(integer(0..7), 5))] pub f2: u8,
    #[asn(default(integer(0..7), 5))] pub f3: u8,
    #[asn(optional(integer(0..7)))] pub f4: Option<u8>,
}

impl Ts5omddme0 {
    pub const fn f0_min() -> u8 {
        0
    }

    pub const fn f0_max() -> u8 {
        7
    }

    pub const fn f1_min() -> u8 {
        0
    }

    pub const fn f1_max() -> u8 {
        7
    }

    pub const fn f2_min() -> u8 {
        0
    }

    pub const fn f2_max() -> u8 {
        7
    }

    pub const fn f3_min() -> u8 {
        0
    }

    pub const fn f3_max() -> u8 {
        7
    }

    pub const fn f4_min() -> u8 {
        0
    }

    pub const fn f4_max() -> u8 {
        7
    }
}

#[asn(sequence, extensible_after(f0))]

#[derive(Default, Debug, Clone, PartialEq, Hash)]
pub struct Ts5omddme1 {
    #[asn(optional(integer(0..7)))] pub f0: Option<u8>,
    #[asn(optional(integer(0..7)))] pub f1: Option<u8>,
    #[asn(default(integer(0..7), 5))] pub f2: u8,
    #[asn(default(integer(0..7), 5))] pub f3: u8,
    #[asn(optional(integer(0..7)))] pub f4: Option<u8>,
}

impl Ts5omddme1 {
    pub const fn f0_min() -> u8 {
        0
    }

    pub const fn f0_max() -> u8 {
        7
    }

    pub const fn f1_min() -> u8 {
        0
    }

    pub const fn f1_max() -> u8 {
        7
    }

    pub const fn f2_min() -> u8 {
        0
    }

    pub const fn f2_max() -> u8 {
        7
    }

    pub const fn f3_min() -> u8 {
        0
    }

    pub const fn f3_max() -> u8 {
        7
    }

    pub const fn f4_min() -> u8 {
        0
    }

    pub const fn f4_max() -> u8 {
        7
    }
}

#[asn(sequence, extensible_after(f1))]

#[derive(Default, Debug, Clone, PartialEq, Hash)]
pub struct Ts5omddme2 {
    #[asn(optional(integer(0..7)))] pub f0: Option<u8>,
    #[asn(integer(0..7))] pub f1: u8,
    #[asn(default(integer(0..7), 5))] pub f2: u8,
    #[asn(default(integer(0..7), 5))] pub f3: u8,
    #[asn(optional(integer(0..7)))] pub f4: Option<u8>,
}

impl Ts5omddme2 {
    pub const fn f0_min() -> u8 {
        0
    }

    pub const fn f0_max() -> u8 {
        7
    }

    pub const fn f1_min() -> u8 {
        0
    }

    pub const fn f1_max() -> u8 {
        7
    }

    pub const fn f2_min() -> u8 {
        0
    }

    pub const fn f2_max() -> u8 {
        7
    }

    pub const fn f3_min() -> u8 {
        0
    }

    pub const fn f3_max() -> u8 {
        7
    }

    pub const fn f4_min() -> u8 {
        0
    }

    pub const fn f4_max() -> u8 {
        7
    }
}

#[asn(sequence, extensible_after(f2))]

#[derive(Default, Debug, Clone, PartialEq, Hash)]
pub struct Ts5omddme3 {
    #[asn(optional(integer(0..7)))] pub f0: Option<u8>,
    #[asn(integer(0..7))] pub f1: u8,
    #[asn(default(integer(0..7), 5))] pub f2: u8,
    #[asn(default(integer(0..7), 5))] pub f3: u8,
    #[asn(optional(integer(0..7)))] pub f4: Option<u8>,
}

impl Ts5omddme3 {
    pub const fn f0_min() -> u8 {
        0
    }

    pub const fn f0_max() -> u8 {
        7
    }

    pub const fn f1_min() -> u8 {
        0
    }

    pub const fn f1_max() -> u8 {
        7
    }

    pub const fn f2_min() -> u8 {
        0
    }

    pub const fn f2_max() -> u8 {
        7
    }

    pub const fn f3_min() -> u8 {
        0
    }

    pub const fn f3_max() -> u8 {
        7
    }

    pub const fn f4_min() -> u8 {
        0
    }

    pub const fn f4_max() -> u8 {
        7
    }
}

#[asn(sequence, extensible_after(f3))]

#[derive(Default, Debug, Clone, PartialEq, Hash)]
pub struct Ts5omddme4 {
    #[asn(optional(integer(0..7)))] pub f0: Option<u8>,
    #[asn(integer(0..7))] pub f1: u8,
    #[asn(default(integer(0..7), 5))] pub f2: u8,
    #[asn(default(integer(0..7), 5))] pub f3: u8,
    #[asn(optional(integer(0..7)))] pub f4: Option<u8>,
}

impl Ts5omddme4 {
    pub const fn f0_min() -> u8 {
        0
    }

    pub const fn f0_max() -> u8 {
        7
    }

    pub const fn f1_min() -> u8 {
        0
    }

    pub const fn f1_max() -> u8 {
        7
    }

    pub const fn f2_min() -> u8 {
        0
    }

    pub const fn f2_max() -> u8 {
        7
    }

    pub const fn f3_min() -> u8 {
        0
    }

    pub const fn f3_max() -> u8 {
        7
    }

    pub const fn f4_min() -> u8 {
        0
    }

    pub const fn f4_max() -> u8 {
        7
    }
}

#[asn(sequence, extensible_after(f4))]

#[derive(Default, Debug, Clone, PartialEq, Hash)]
pub struct Ts5omddme5 {
    #[asn(optional(integer(0..7)))] pub f0: Option<u8>,
    #[asn(integer(0..7))] pub f1: u8,
    #[asn(default(integer(0..7), 5))] pub f2: u8,
    #[asn(default(integer(0..7), 5))] pub f3: u8,
    #[asn(integer(0..7))] pub f4: u8,
}

impl Ts5omddme5 {
    pub const fn f0_min() -> u8 {
        0
    }

    pub const fn f0_max() -> u8 {
        7
    }

    pub const fn f1_min() -> u8 {
        0
    }

    pub const fn f1_max() -> u8 {
        7
    }

    pub const fn f2_min() -> u8 {
        0
    }

    pub const fn f2_max() -> u8 {
        7
    }

    pub const fn f3_min() -> u8 {
        0
    }

    pub const fn f3_max() -> u8 {
        7
    }

    pub const fn f4_min() -> u8 {
        0
    }

    pub const fn f4_max() -> u8 {
        7
    }
}

#[asn(sequence)]

#[derive(Default, Debug, Clone, PartialEq, Hash)]
pub struct Ts5dmddmn {
    #[asn(default(integer(0..7), 5))] pub f0: u8,
    #[asn(integer(0..7))] pub f1: u8,
    #[asn(default(integer(0..7), 5))] pub f2: u8,
    #[asn(default(integer(0..7), 5))] pub f3: u8,
    #[asn(integer(0..7))] pub f4: u8,
}

impl Ts5dmddmn {
    pub const fn f0_min() -> u8 {
        0
    }

    pub const fn f0_max() -> u8 {
        7
    }

    pub const fn f1_min() -> u8 {
        0
    }

    pub const fn f1_max() -> u8 {
        7
    }

    pub const fn f2_min() -> u8 {
        0
    }

    pub const fn f2_max() -> u8 {
        7
    }

    pub const fn f3_min() -> u8 {
        0
    }

    pub const fn f3_max() -> u8 {
        7
    }

    pub const fn f4_min() -> u8 {
        0
    }

    pub const fn f4_max() -> u8 {
        7
    }
}

#[asn(sequence, extensible_after(f0))]

#[derive(Default, Debug, Clone, PartialEq, Hash)]
pub struct Ts5dmddme0 {
    #[asn(default(integer(0..7), 5))] pub f0: u8,
    #[asn(optional(integer(0..7)))] pub f1: Option<u8>,
    #[asn(default(integer(0..7), 5))] pub f2: u8,
    #[asn(default(integer(0..7), 5))] pub f3: u8,
    #[asn(optional(integer(0..7)))] pub f4: Option<u8>,
}

impl Ts5dmddme0 {
    pub const fn f0_min() -> u8 {
        0
    }

    pub const fn f0_max() -> u8 {
        7
    }

    pub const fn f1_min() -> u8 {
        0
    }

    pub const fn f1_max() -> u8 {
        7
    }

    pub const fn f2_min() -> u8 {
        0
    }

    pub const fn f2_max() -> u8 {
        7
    }

    pub const fn f3_min() -> u8 {
        0
    }

    pub const fn f3_max() -> u8 {
        7
    }

    pub const fn f4_min() -> u8 {
        0
    }

    pub const fn f4_max() -> u8 {
        7
    }
}

#[asn(sequence, extensible_after(f0))]

#[derive(Default, Debug, Clone, PartialEq, Hash)]
pub struct Ts5dmddme1 {
    #[asn(default(integer(0..7), 5))] pub f0: u8,
    #[asn(optional(integer(0..7)))] pub f1: Option<u8>,
    #[asn(default(integer(0..7), 5))] pub f2: u8,
    #[asn(default(integer(0..7), 5))] pub f3: u8,
    #[asn(optional(integer(0..7)))] pub f4: Option<u8>,
}

impl Ts5dmddme1 {
    pub const fn f0_min() -> u8 {
        0
    }

    pub const fn f0_max() -> u8 {
        7
    }

    pub const fn f1_min() -> u8 {
        0
    }

    pub const fn f1_max() -> u8 {
        7
    }

    pub const fn f2_min() -> u8 {
        0
    }

    pub const fn f2_max() -> u8 {
        7
    }

    pub const fn f3_min() -> u8 {
        0
    }

    pub const fn f3_max() -> u8 {
        7
    }

    pub const fn f4_min() -> u8 {
        0
    }

    pub const fn f4_max() -> u8 {
        7
    }
}

#[asn(sequence, extensible_after(f1))]

#[derive(Default, Debug, Clone, PartialEq, Hash)]
pub struct Ts5dmddme2 {
    #[asn(default(integer(0..7), 5))] pub f0: u8,
    #[asn(integer(0..7))] pub f1: u8,
    #[asn(default(integer(0..7), 5))] pub f2: u8,
    #[asn(default(integer(0..7), 5))] pub f3: u8,
    #[asn(optional(integer(0..7)))] pub f4: Option<u8>,
}

impl Ts5dmddme2 {
    pub const fn f0_min() -> u8 {
        0
    }

    pub const fn f0_max() -> u8 {
        7
    }

    pub const fn f1_min() -> u8 {
        0
    }

    pub const fn f1_max() -> u8 {
        7
    }

    pub const fn f2_min() -> u8 {
        0
    }

    pub const fn f2_max() -> u8 {
        7
    }

    pub const fn f3_min() -> u8 {
        0
    }

    pub const fn f3_max() -> u8 {
        7
    }

    pub const fn f4_min() -> u8 {
        0
    }

    pub const fn f4_max() -> u8 {
        7
    }
}

#[asn(sequence, extensible_after(f2))]

#[derive(Default, Debug, Clone, PartialEq, Hash)]
pub struct Ts5dmddme3 {
    #[asn(default(integer(0..7), 5))] pub f0: u8,
    #[asn(integer(0..7))] pub f1: u8,
    #[asn(default(integer(0..7), 5))] pub f2: u8,
    #[asn(default(integer(0..7), 5))] pub f3: u8,
    #[asn(optional(integer(0..7)))] pub f4: Option<u8>,
}

impl Ts5dmddme3 {
    pub const fn f0_min() -> u8 {
        0
    }

    pub const fn f0_max() -> u8 {
        7
    }

    pub const fn f1_min() -> u8 {
        0
    }

    pub const fn f1_max() -> u8 {
        7
    }

    pub const fn f2_min() -> u8 {
        0
    }

    pub const fn f2_max() -> u8 {
        7
    }

    pub const fn f3_min() -> u8 {
        0
    }

    pub const fn f3_max() -> u8 {
        7
    }

    pub const fn f4_min() -> u8 {
        0
    }

    pub const fn f4_max() -> u8 {
        7
    }
}

#[asn(sequence, extensible_after(f3))]

#[derive(Default, Debug, Clone, PartialEq, Hash)]
pub struct Ts5dmddme4 {
    #[asn(default(integer(0..7), 5))] pub f0: u8,
    #[asn(integer(0..7))] pub f1: u8,
    #[asn(default(integer(0..7), 5))] pub f2: u8,
    #[asn(default(integer(0..7), 5))] pub f3: u8,
    #[asn(optional(integer(0..7)))] pub f4: Option<u8>,
}

impl Ts5dmddme4 {
    pub const fn f0_min() -> u8 {
        0
    }

    pub const fn f0_max() -> u8 {
        7
    }

    pub const fn f1_min() -> u8 {
        0
    }

    pub const fn f1_max() -> u8 {
        7
    }

    pub const fn f2_min() -> u8 {
        0
    }

    pub const fn f2_max() -> u8 {
        7
    }

    pub const fn f3_min() -> u8 {
        0
    }

    pub const fn f3_max() -> u8 {
        7
    }

    pub const fn f4_min() -> u8 {
        0
    }

    pub const fn f4_max() -> u8 {
        7
    }
}

#[asn(sequence, extensible_after(f4))]

#[derive(Default, Debug, Clone, PartialEq, Hash)]
pub struct Ts5dmddme5 {
    #[asn(default(integer(0..7), 5))] pub f0: u8,
    #[asn(integer(0..7))] pub f1: u8,
    #[asn(default(integer(0..7), 5))] pub f2: u8,
    #[asn(default(integer(0..7), 5))] pub f3: u8,
    #[asn(integer(0..7))] pub f4: u8,
}

impl Ts5dmddme5 {
    pub const fn f0_min() -> u8 {
        0
    }

    pub const fn f0_max() -> u8 {
        7
    }

    pub const fn f1_min() -> u8 {
        0
    }

    pub const fn f1_max() -> u8 {
        7
    }

    pub const fn f2_min() -> u8 {
        0
    }

    pub const fn f2_max() -> u8 {
        7
    }

    pub const fn f3_min() -> u8 {
        0
    }

    pub const fn f3_max() -> u8 {
        7
    }

    pub const fn f4_min() -> u8 {
        0
    }

    pub const fn f4_max() -> u8 {
        7
    }
}

#[asn(sequence)]

#[derive(Default, Debug, Clone, PartialEq, Hash)]
pub struct Ts5moddmn {
    #[asn(integer(0..7))] pub f0: u8,
    #[asn(optional(integer(0..7)))] pub f1: Option<u8>,
    #[asn(default(integer(0..7), 5))] pub f2: u8,
    #[asn(default(integer(0..7), 5))] pub f3: u8,
    #[asn(integer(0..7))] pub f4: u8,
}

impl Ts5moddmn {
    pub const fn f0_min() -> u8 {
        0
    }

    pub const fn f0_max() -> u8 {
        7
    }

    pub const fn f1_min() -> u8 {
        0
    }

    pub const fn f1_max() -> u8 {
        7
    }

    pub const fn f2_min() -> u8 {
        0
    }

    pub const fn f2_max() -> u8 {
        7
    }

    pub const fn f3_min() -> u8 {
        0
    }

    pub const fn f3_max() -> u8 {
        7
    }

    pub const fn f4_min() -> u8 {
        0
    }

    pub const fn f4_max() -> u8 {
        7
    }
}

#[asn(sequence, extensible_after(f0))]

#[derive(Default, Debug, Clone, PartialEq, Hash)]
pub struct Ts5moddme0 {
    #[asn(integer(0..7))] pub f0: u8,
    #[asn(optional(integer(0..7)))] pub f1: Option<u8>,
    #[asn(default(integer(0..7), 5))] pub f2: u8,
    #[asn(default(integer(0..7), 5))] pub f3: u8,
    #[asn(optional(integer(0..7)))] pub f4: Option<u8>,
}

impl Ts5moddme0 {
    pub const fn f0_min() -> u8 {
        0
    }

    pub const fn f0_max() -> u8 {
        7
    }

    pub const fn f1_min() -> u8 {
        0
    }

    pub const fn f1_max() -> u8 {
        7
    }

    pub const fn f2_min() -> u8 {
        0
    }

    pub const fn f2_max() -> u8 {
        7
    }

    pub const fn f3_min() -> u8 {
        0
    }

    pub const fn f3_max() -> u8 {
        7
    }

    pub const fn f4_min() -> u8 {
        0
    }

    pub const fn f4_max() -> u8 {
        7
    }
}

#[asn(sequence, extensible_after(f0))]

#[derive(Default, Debug, Clone, PartialEq, Hash)]
pub struct Ts5moddme1 {
    #[asn(integer(0..7))] pub f0: u8,
    #[asn(optional(integer(0..7)))] pub f1: Option<u8>,
    #[asn(default(integer(0..7), 5))] pub f2: u8,
    #[asn(default(integer(0..7), 5))] pub f3: u8,
    #[asn(optional(integer(0..7)))] pub f4: Option<u8>,
}

impl Ts5moddme1 {
    pub const fn f0_min() -> u8 {
        0
    }

    pub const fn f0_max() -> u8 {
        7
    }

    pub const fn f1_min() -> u8 {
        0
    }

    pub const fn f1_max() -> u8 {
        7
    }

    pub const fn f2_min() -> u8 {
        0
    }

    pub const fn f2_max() -> u8 {
        7
    }

    pub const fn f3_min() -> u8 {
        0
    }

    pub const fn f3_max() -> u8 {
        7
    }

    pub const fn f4_min() -> u8 {
        0
    }

    pub const fn f4_max() -> u8 {
        7
    }
}

#[asn(sequence, extensible_after(f1))]

#[derive(Default, Debug, Clone, PartialEq, Hash)]
pub struct Ts5moddme2 {
    #[asn(integer(0..7))] pub f0: u8,
    #[asn(optional(integer(0..7)))] pub f1: Option<u8>,
    #[asn(default(integer(0..7), 5))] pub f2: u8,
    #[asn(default(integer(0..7), 5))] pub f3: u8,
    #[asn(optional(integer(0..7)))] pub f4: Option<u8>,
}

impl Ts5moddme2 {
    pub const fn f0_min() -> u8 {
        0
    }

    pub const fn f0_max() -> u8 {
        7
    }

    pub const fn f1_min() -> u8 {
        0
    }

    pub const fn f1_max() -> u8 {
        7
    }

    pub const fn f2_min() -> u8 {
        0
    }

    pub const fn f2_max() -> u8 {
        7
    }

    pub const fn f3_min() -> u8 {
        0
    }

    pub const fn f3_max() -> u8 {
        7
    }

    pub const fn f4_min() -> u8 {
        0
    }

    pub const fn f4_max() -> u8 {
        7
    }
}

#[asn(sequence, extensible_after(f2))]

#[derive(Default, Debug, Clone, PartialEq, Hash)]
pub struct Ts5moddme3 {
    #[asn(integer(0..7))] pub f0: u8,
    #[asn(optional(integer(0..7)))] pub f1: Option<u8>,
    #[asn(default(integer(0..7), 5))] pub f2: u8,
    #[asn(default(integer(0..7), 5))] pub f3: u8,
    #[asn(optional(integer(0..7)))] pub f4: Option<u8>,
}

impl Ts5moddme3 {
    pub const fn f0_min() -> u8 {
        0
    }

    pub const fn f0_max() -> u8 {
        7
    }

    pub const fn f1_min() -> u8 {
        0
    }

    pub const fn f1_max() -> u8 {
        7
    }

    pub const fn f2_min() -> u8 {
        0
    }

    pub const fn f2_max() -> u8 {
        7
    }

    pub const fn f3_min() -> u8 {
        0
    }

    pub const fn f3_max() -> u8 {
        7
    }

    pub const fn f4_min() -> u8 {
        0
    }

    pub const fn f4_max() -> u8 {
        7
    }
}

#[asn(sequence, extensible_after(f3))]

#[derive(Default, Debug, Clone, PartialEq, Hash)]
pub struct Ts5moddme4 {
    #[asn(integer(0..7))] pub f0: u8,
    #[asn(optional(integer(0..7)))] pub f1: Option<u8>,
    #[asn(default(integer(0..7), 5))] pub f2: u8,
    #[asn(default(integer(0..7), 5))] pub f3: u8,
    #[asn(optional(integer(0..7)))] pub f4: Option<u8>,
}

impl Ts5moddme4 {
    pub const fn f0_min() -> u8 {
        0
    }

    pub const fn f0_max() -> u8 {
        7
    }

    pub const fn f1_min() -> u8 {
        0
    }

    pub const fn f1_max() -> u8 {
        7
    }

    pub const fn f2_min() -> u8 {
        0
    }

    pub const fn f2_max() -> u8 {
        7
    }

    pub const fn f3_min() -> u8 {
        0
    }

    pub const fn f3_max() -> u8 {
        7
    }

    pub const fn f4_min() -> u8 {
        0
    }

    pub const fn f4_max() -> u8 {
        7
    }
}

#[asn(sequence, extensible_after(f4))]

#[derive(Default, Debug, Clone, PartialEq, Hash)]
pub struct Ts5moddme5 {
    #[asn(integer(0..7))] pub f0: u8,
    #[asn(optional(integer(0..7)))] pub f1: Option<u8>,
    #[asn(default(integer(0..7), 5))] pub f2: u8,
    #[asn(default(integer(0..7), 5))] pub f3: u8,
    #[asn(integer(0..7))] pub f4: u8,
}

impl Ts5moddme5 {
    pub const fn f0_min() -> u8 {
        0
    }

    pub const fn f0_max() -> u8 {
        7
    }

    pub const fn f1_min() -> u8 {
        0
    }

    pub const fn f1_max() -> u8 {
        7
    }

    pub const fn f2_min() -> u8 {
        0
    }

    pub const fn f2_max() -> u8 {
        7
    }

    pub const fn f3_min() -> u8 {
        0
    }

    pub const fn f3_max() -> u8 {
        7
    }

    pub const fn f4_min() -> u8 {
        0
    }

    pub const fn f4_max() -> u8 {
        7
    }
}

#[asn(sequence)]

#[derive(Default, Debug, Clone, PartialEq, Hash)]
pub struct Ts5ooddmn {
    #[asn(optional(integer(0..7)))] pub f0: Option<u8>,
    #[asn(optional(integer(0..7)))] pub f1: Option<u8>,
    #[asn(default(integer(0..7), 5))] pub f2: u8,
    #[asn(default(integer(0..7), 5))] pub f3: u8,
    #[asn(integer(0..7))] pub f4: u8,
}

impl Ts5ooddmn {
    pub const fn f0_min() -> u8 {
        0
    }

    pub const fn f0_max() -> u8 {
        7
    }

    pub const fn f1_min() -> u8 {
        0
    }

    pub const fn f1_max() -> u8 {
        7
    }

    pub const fn f2_min() -> u8 {
        0
    }

    pub const fn f2_max() -> u8 {
        7
    }

    pub const fn f3_min() -> u8 {
        0
    }

    pub const fn f3_max() -> u8 {
        7
    }

    pub const fn f4_min() -> u8 {
        0
    }

    pub const fn f4_max() -> u8 {
        7
    }
}

#[asn(sequence, extensible_after(f0))]

#[derive(Default, Debug, Clone, PartialEq, Hash)]
pub struct Ts5ooddme0 {
    #[asn(optional(integer(0..7)))] pub f0: Option<u8>,
    #[asn(optional(integer(0..7)))] pub f1: Option<u8>,
    #[asn(default(integer(0..7), 5))] pub f2: u8,
    #[asn(default(integer(0..7), 5))] pub f3: u8,
    #[asn(optional(integer(0..7)))] pub f4: Option<u8>,
}

impl Ts5ooddme0 {
    pub const fn f0_min() -> u8 {
        0
    }

    pub const fn f0_max() -> u8 {
        7
    }

    pub const fn f1_min() -> u8 {
        0
    }

    pub const fn f1_max() -> u8 {
        7
    }

    pub const fn f2_min() -> u8 {
        0
    }

    pub const fn f2_max() -> u8 {
        7
    }

    pub const fn f3_min() -> u8 {
        0
    }

    pub const fn f3_max() -> u8 {
        7
    }

    pub const fn f4_min() -> u8 {
        0
    }

    pub const fn f4_max() -> u8 {
        7
    }
}

#[asn(sequence, extensible_after(f0))]

#[derive(Default, Debug, Clone, PartialEq, Hash)]
pub struct Ts5ooddme1 {
    #[asn(optional(integer(0..7)))] pub f0: Option<u8>,
    #[asn(optional(integer(0..7)))] pub f1: Option<u8>,
    #[asn(default(integer(0..7), 5))] pub f2: u8,
    #[asn(default(integer(0..7), 5))] pub f3: u8,
    #[asn(optional(integer(0..7)))] pub f4: Option<u8>,
}

impl Ts5ooddme1 {
    pub const fn f0_min() -> u8 {
        0
    }

    pub const fn f0_max() -> u8 {
        7
    }

    pub const fn f1_min() -> u8 {
        0
    }

    pub const fn f1_max() -> u8 {
        7
    }

    pub const fn f2_min() -> u8 {
        0
    }

    pub const fn f2_max() -> u8 {
        7
    }

    pub const fn f3_min() -> u8 {
        0
    }

    pub const fn f3_max() -> u8 {
        7
    }

    pub const fn f4_min() -> u8 {
        0
    }

    pub const fn f4_max() -> u8 {
        7
    }
}

#[asn(sequence, extensible_after(f1))]

#[derive(Default, Debug, Clone, PartialEq, Hash)]
pub struct Ts5ooddme2 {
    #[asn(optional(integer(0..7)))] pub f0: Option<u8>,
    #[asn(optional(integer(0..7)))] pub f1: Option<u8>,
    #[asn(default(integer(0..7), 5))] pub f2: u8,
    #[asn(default(integer(0..7), 5))] pub f3: u8,
    #[asn(optional(integer(0..7)))] pub f4: Option<u8>,
}

impl Ts5ooddme2 {
    pub const fn f0_min() -> u8 {
        0
    }

    pub const fn f0_max() -> u8 {
        7
    }

    pub const fn f1_min() -> u8 {
        0
    }

    pub const fn f1_max() -> u8 {
        7
    }

    pub const fn f2_min() -> u8 {
        0
    }

    pub const fn f2_max() -> u8 {
        7
    }

    pub const fn f3_min() -> u8 {
        0
    }

    pub const fn f3_max() -> u8 {
        7
    }

    pub const fn f4_min() -> u8 {
        0
    }

    pub const fn f4_max() -> u8 {
        7
    }
}

#[asn(sequence, extensible_after(f2))]

#[derive(Default, Debug, Clone, PartialEq, Hash)]
pub struct Ts5ooddme3 {
    #[asn(optional(integer(0..7)))] pub f0: Option<u8>,
    #[asn(optional(integer(0..7)))] pub f1: Option<u8>,
    #[asn(default(integer(0..7), 5))] pub f2: u8,
    #[asn(default(integer(0..7), 5))] pub f3: u8,
    #[asn(optional(integer(0..7)))] pub f4: Option<u8>,
}

impl Ts5ooddme3 {
    pub const fn f0_min() -> u8 {
        0
    }

    pub const fn f0_max() -> u8 {
        7
    }

    pub const fn f1_min() -> u8 {
        0
    }

    pub const fn f1_max() -> u8 {
        7
    }

    pub const fn f2_min() -> u8 {
        0
    }

    pub const fn f2_max() -> u8 {
        7
    }

    pub const fn f3_min() -> u8 {
        0
    }

    pub const fn f3_max() -> u8 {
        7
    }

    pub const fn f4_min() -> u8 {
        0
    }

    pub const fn f4_max() -> u8 {
        7
    }
}

#[asn(sequence, extensible_after(f3))]

#[derive(Default, Debug, Clone, PartialEq, Hash)]
pub struct Ts5ooddme4 {
    #[asn(optional(integer(0..7)))] pub f0: Option<u8>,
    #[asn(optional(integer(0..7)))] pub f1: Option<u8>,
    #[asn(default(integer(0..7), 5))] pub f2: u8,
    #[asn(default(integer(0..7), 5))] pub f3: u8,
    #[asn(optional(integer(0..7)))] pub f4: Option<u8>,
}

impl Ts5ooddme4 {
    pub const fn f0_min() -> u8 {
        0
    }

    pub const fn f0_max() -> u8 {
        7
    }

    pub const fn f1_min() -> u8 {
        0
    }

    pub const fn f1_max() -> u8 {
        7
    }

    pub const fn f2_min() -> u8 {
        0
    }

    pub const fn f2_max() -> u8 {
        7
    }

    pub const fn f3_min() -> u8 {
        0
    }

    pub const fn f3_max() -> u8 {
        7
    }

    pub const fn f4_min() -> u8 {
        0
    }

    pub const fn f4_max() -> u8 {
        7
    }
}

#[asn(sequence, extensible_after(f4))]

#[derive(Default, Debug, Clone, PartialEq, Hash)]
pub struct Ts5ooddme5 {
    #[asn(optional(integer(0..7)))] pub f0: Option<u8>,
    #[asn(optional(integer(0..7)))] pub f1: Option<u8>,
    #[asn(default(integer(0..7), 5))] pub f2: u8,
    #[asn(default(integer(0..7), 5))] pub f3: u8,
    #[asn(integer(0..7))] pub f4: u8,
}

impl Ts5ooddme5 {
    pub const fn f0_min() -> u8 {
        0
    }

    pub const fn f0_max() -> u8 {
        7
    }

    pub const fn f1_min() -> u8 {
        0
    }

    pub const fn f1_max() -> u8 {
        7
    }

    pub const fn f2_min() -> u8 {
        0
    }

    pub const fn f2_max() -> u8 {
        7
    }

    pub const fn f3_min() -> u8 {
        0
    }

    pub const fn f3_max() -> u8 {
        7
    }

    pub const fn f4_min() -> u8 {
        0
    }

    pub const fn f4_max() -> u8 {
        7
    }
}

#[asn(sequence)]

#[derive(Default, Debug, Clone, PartialEq, Hash)]
pub struct Ts5doddmn {
    #[asn(default(integer(0..7), 5))] pub f0: u8,
    #[asn(optional(integer(0..7)))] pub f1: Option<u8>,
    #[asn(default(integer(0..7), 5))] pub f2: u8,
    #[asn(default(integer(0..7), 5))] pub f3: u8,
    #[asn(integer(0..7))] pub f4: u8,
}

impl Ts5doddmn {
    pub const fn f0_min() -> u8 {
        0
    }

    pub const fn f0_max() -> u8 {
        7
    }

    pub const fn f1_min() -> u8 {
        0
    }

    pub const fn f1_max() -> u8 {
        7
    }

    pub const fn f2_min() -> u8 {
        0
    }

    pub const fn f2_max() -> u8 {
        7
    }

    pub const fn f3_min() -> u8 {
        0
    }

    pub const fn f3_max() -> u8 {
        7
    }

    pub const fn f4_min() -> u8 {
        0
    }

    pub const fn f4_max() -> u8 {
        7
    }
}

#[asn(sequence, extensible_after(f0))]

#[derive(Default, Debug, Clone, PartialEq, Hash)]
pub struct Ts5doddme0 {
    #[asn(default(integer(0..7), 5))] pub f0: u8,
    #[asn(optional(integer(0..7)))] pub f1: Option<u8>,
    #[asn(default(integer(0..7), 5))] pub f2: u8,
    #[asn(default(integer(0..7), 5))] pub f3: u8,
    #[asn(optional(integer(0..7)))] pub f4: Option<u8>,
}

impl Ts5doddme0 {
    pub const fn f0_min() -> u8 {
        0
    }

    pub const fn f0_max() -> u8 {
        7
    }

    pub const fn f1_min() -> u8 {
        0
    }

    pub const fn f1_max() -> u8 {
        7
    }

    pub const fn f2_min() -> u8 {
        0
    }

    pub const fn f2_max() -> u8 {
        7
    }

    pub const fn f3_min() -> u8 {
        0
    }

    pub const fn f3_max() -> u8 {
        7
    }

    pub const fn f4_min() -> u8 {
        0
    }

    pub const fn f4_max() -> u8 {
        7
    }
}

#[asn(sequence, extensible_after(f0))]

#[derive(Default, Debug, Clone, PartialEq, Hash)]
pub struct Ts5doddme1 {
    #[asn(default(integer(0..7), 5))] pub f0: u8,
    #[asn(optional(integer(0..7)))] pub f1: Option<u8>,
    #[asn(default(integer(0..7), 5))] pub f2: u8,
    #[asn(default(integer(0..7), 5))] pub f3: u8,
    #[asn(optional(integer(0..7)))] pub f4: Option<u8>,
}

impl Ts5doddme1 {
    pub const fn f0_min() -> u8 {
        0
    }

    pub const fn f0_max() -> u8 {
        7
    }

    pub const fn f1_min() -> u8 {
        0
    }

    pub const fn f1_max() -> u8 {
        7
    }

    pub const fn f2_min() -> u8 {
        0
    }

    pub const fn f2_max() -> u8 {
        7
    }

    pub const fn f3_min() -> u8 {
        0
    }

    pub const fn f3_max() -> u8 {
        7
    }

    pub const fn f4_min() -> u8 {
        0
    }

    pub const fn f4_max() -> u8 {
        7
    }
}

#[asn(sequence, extensible_after(f1))]

#[derive(Default, Debug, Clone, PartialEq, Hash)]
pub struct Ts5doddme2 {
    #[asn(default(integer(0..7), 5))] pub f0: u8,
    #[asn(optional(integer(0..7)))] pub f1: Option<u8>,
    #[asn(default(integer(0..7), 5))] pub f2: u8,
    #[asn(default(integer(0..7), 5))] pub f3: u8,
    #[asn(optional(integer(0..7)))] pub f4: Option<u8>,
}

impl Ts5doddme2 {
    pub const fn f0_min() -> u8 {
        0
    }

    pub const fn f0_max() -> u8 {
        7
    }

    pub const fn f1_min() -> u8 {
        0
    }

    pub const fn f1_max() -> u8 {
        7
    }

    pub const fn f2_min() -> u8 {
        0
    }

    pub const fn f2_max() -> u8 {
        7
    }

    pub const fn f3_min() -> u8 {
        0
    }

    pub const fn f3_max() -> u8 {
        7
    }

    pub const fn f4_min() -> u8 {
        0
    }

    pub const fn f4_max() -> u8 {
        7
    }
}

#[asn(sequence, extensible_after(f2))]

#[derive(Default, Debug, Clone, PartialEq, Hash)]
pub struct Ts5doddme3 {
    #[asn(default(integer(0..7), 5))] pub f0: u8,
    #[asn(optional(integer(0..7)))] pub f1: Option<u8>,
    #[asn(default(integer(0..7), 5))] pub f2: u8,
    #[asn(default(integer(0..7), 5))] pub f3: u8,
    #[asn(optional(integer(0..7)))] pub f4: Option<u8>,
}

impl Ts5doddme3 {
    pub const fn f0_min() -> u8 {
        0
    }

    pub const fn f0_max() -> u8 {
        7
    }

    pub const fn f1_min() -> u8 {
        0
    }

    pub const fn f1_max() -> u8 {
        7
    }

    pub const fn f2_min() -> u8 {
        0
    }

    pub const fn f2_max() -> u8 {
        7
    }

    pub const fn f3_min() -> u8 {
        0
    }

    pub const fn f3_max() -> u8 {
        7
    }

    pub const fn f4_min() -> u8 {
        0
    }

    pub const fn f4_max() -> u8 {
        7
    }
}

#[asn(sequence, extensible_after(f3))]

#[derive(Default, Debug, Clone, PartialEq, Hash)]
pub struct Ts5doddme4 {
    #[asn(default(integer(0..7), 5))] pub f0: u8,
    #[asn(optional(integer(0..7)))] pub f1: Option<u8>,
    #[asn(default(integer(0..7), 5))] pub f2: u8,
    #[asn(default(integer(0..7), 5))] pub f3: u8,
    #[asn(optional(integer(0..7)))] pub f4: Option<u8>,
}

impl Ts5doddme4 {
    pub const fn f0_min() -> u8 {
        0
    }

    pub const fn f0_max() -> u8 {
        7
    }

    pub const fn f1_min() -> u8 {
        0
    }

    pub const fn f1_max() -> u8 {
        7
    }

    pub const fn f2_min() -> u8 {
        0
    }

    pub const fn f2_max() -> u8 {
        7
    }

    pub const fn f3_min() -> u8 {
        0
    }

    pub const fn f3_max() -> u8 {
        7
    }

    pub const fn f4_min() -> u8 {
        0
    }

    pub const fn f4_max() -> u8 {
        7
    }
}

#[asn(sequence, extensible_after(f4))]

#[derive(Default, Debug, Clone, PartialEq, Hash)]
pub struct Ts5doddme5 {
    #[asn(default(integer(0..7), 5))] pub f0: u8,
    #[asn(optional(integer(0..7)))] pub f1: Option<u8>,
    #[asn(default(integer(0..7), 5))] pub f2: u8,
    #[asn(default(integer(0..7), 5))] pub f3: u8,
    #[asn(integer(0..7))] pub f4: u8,
}

impl Ts5doddme5 {
    pub const fn f0_min() -> u8 {
        0
    }

    pub const fn f0_max() -> u8 {
        7
    }

    pub const fn f1_min() -> u8 {
        0
    }

    pub const fn f1_max() -> u8 {
        7
    }

    pub const fn f2_min() -> u8 {
        0
    }

    pub const fn f2_max() -> u8 {
        7
    }

    pub const fn f3_min() -> u8 {
        0
    }

    pub const fn f3_max() -> u8 {
        7
    }

    pub const fn f4_min() -> u8 {
        0
    }

    pub const fn f4_max() -> u8 {
        7
    }
}

#[asn(sequence)]

#[derive(Default, Debug, Clone, PartialEq, Hash)]
pub struct Ts5mdddmn {
    #[asn(integer(0..7))] pub f0: u8,
    #[asn(default(integer(0..7), 5))] pub f1: u8,
    #[asn(default(integer(0..7), 5))] pub f2: u8,
    #[asn(default(integer(0..7), 5))] pub f3: u8,
    #[asn(integer(0..7))] pub f4: u8,
}

impl Ts5mdddmn {
    pub const fn f0_min() -> u8 {
        0
    }

    pub const fn f0_max() -> u8 {
        7
    }

    pub const fn f1_min() -> u8 {
        0
    }

    pub const fn f1_max() -> u8 {
        7
    }

    pub const fn f2_min() -> u8 {
        0
    }

    pub const fn f2_max() -> u8 {
        7
    }

    pub const fn f3_min() -> u8 {
        0
    }

    pub const fn f3_max() -> u8 {
        7
    }

    pub const fn f4_min() -> u8 {
        0
    }

    pub const fn f4_max() -> u8 {
        7
    }
}

#[asn(sequence, extensible_after(f0))]

#[derive(Default, Debug, Clone, PartialEq, Hash)]
pub struct Ts5mdddme0 {
    #[asn(integer(0..7))] pub f0: u8,
    #[asn(default(integer(0..7), 5))] pub f1: u8,
    #[asn(default(integer(0..7), 5))] pub f2: u8,
    #[asn(default(integer(0..7), 5))] pub f3: u8,
    #[asn(optional(integer(0..7)))] pub f4: Option<u8>,
}

impl Ts5mdddme0 {
    pub const fn f0_min() -> u8 {
        0
    }

    pub const fn f0_max() -> u8 {
        7
    }

    pub const fn f1_min() -> u8 {
        0
    }

    pub const fn f1_max() -> u8 {
        7
    }

    pub const fn f2_min() -> u8 {
        0
    }

    pub const fn f2_max() -> u8 {
        7
    }

    pub const fn f3_min() -> u8 {
        0
    }

    pub const fn f3_max() -> u8 {
        7
    }

    pub const fn f4_min() -> u8 {
        0
    }

    pub const fn f4_max() -> u8 {
        7
    }
}

#[asn(sequence, extensible_after(f0))]

#[derive(Default, Debug, Clone, PartialEq, Hash)]
pub struct Ts5mdddme1 {
    #[asn(integer(0..7))] pub f0: u8,
    #[asn(default(integer(0..7), 5))] pub f1: u8,
    #[asn(default(integer(0..7), 5))] pub f2: u8,
    #[asn(default(integer(0..7), 5))] pub f3: u8,
    #[asn(optional(integer(0..7)))] pub f4: Option<u8>,
}

impl Ts5mdddme1 {
    pub const fn f0_min() -> u8 {
        0
    }

    pub const fn f0_max() -> u8 {
        7
    }

    pub const fn f1_min() -> u8 {
        0
    }

    pub const fn f1_max() -> u8 {
        7
    }

    pub const fn f2_min() -> u8 {
        0
    }

    pub const fn f2_max() -> u8 {
        7
    }

    pub const fn f3_min() -> u8 {
        0
    }

    pub const fn f3_max() -> u8 {
        7
    }

    pub const fn f4_min() -> u8 {
        0
    }

    pub const fn f4_max() -> u8 {
        7
    }
}

#[asn(sequence, extensible_after(f1))]

#[derive(Default, Debug, Clone, PartialEq, Hash)]
pub struct Ts5mdddme2 {
    #[asn(integer(0..7))] pub f0: u8,
    #[asn(default(integer(0..7), 5))] pub f1: u8,
    #[asn(default(integer(0..7), 5))] pub f2: u8,
    #[asn(default(integer(0..7), 5))] pub f3: u8,
    #[asn(optional(integer(0..7)))] pub f4: Option<u8>,
}

impl Ts5mdddme2 {
    pub const fn f0_min() -> u8 {
        0
    }

    pub const fn f0_max() -> u8 {
        7
    }

    pub const fn f1_min() -> u8 {
        0
    }

    pub const fn f1_max() -> u8 {
        7
    }

    pub const fn f2_min() -> u8 {
        0
    }

    pub const fn f2_max() -> u8 {
        7
    }

    pub const fn f3_min() -> u8 {
        0
    }

    pub const fn f3_max() -> u8 {
        7
    }

    pub const fn f4_min() -> u8 {
        0
    }

    pub const fn f4_max() -> u8 {
        7
    }
}

#[asn(sequence, extensible_after(f2))]

#[derive(Default, Debug, Clone, PartialEq, Hash)]
pub struct Ts5mdddme3 {
    #[asn(integer(0..7))] pub f0: u8,
    #[asn(default(integer(0..7), 5))] pub f1: u8,
    #[asn(default(integer(0..7), 5))] pub f2: u8,
    #[asn(default(integer(0..7), 5))] pub f3: u8,
    #[asn(optional(integer(0..7)))] pub f4: Option<u8>,
}

impl Ts5mdddme3 {
    pub const fn f0_min() -> u8 {
        0
    }

    pub const fn f0_max() -> u8 {
        7
    }

    pub const fn f1_min() -> u8 {
        0
    }

    pub const fn f1_max() -> u8 {
        7
    }

    pub const fn f2_min() -> u8 {
        0
    }

    pub const fn f2_max() -> u8 {
        7
    }

    pub const fn f3_min() -> u8 {
        0
    }

    pub const fn f3_max() -> u8 {
        7
    }

    pub const fn f4_min() -> u8 {
        0
    }

    pub const fn f4_max() -> u8 {
        7
    }
}

#[asn(sequence, extensible_after(f3))]

#[derive(Default, Debug, Clone, PartialEq, Hash)]
pub struct Ts5mdddme4 {
    #[asn(integer(0..7))] pub f0: u8,
    #[asn(default(integer(0..7), 5))] pub f1: u8,
    #[asn(default(integer(0..7), 5))] pub f2: u8,
    #[asn(default(integer(0..7), 5))] pub f3: u8,
    #[asn(optional(integer(0..7)))] pub f4: Option<u8>,
}

impl Ts5mdddme4 {
    pub const fn f0_min() -> u8 {
        0
    }

    pub const fn f0_max() -> u8 {
        7
    }

    pub const fn f1_min() -> u8 {
        0
    }

    pub const fn f1_max() -> u8 {
        7
    }

    pub const fn f2_min() -> u8 {
        0
    }

    pub const fn f2_max() -> u8 {
        7
    }

    pub const fn f3_min() -> u8 {
        0
    }

    pub const fn f3_max() -> u8 {
        7
    }

    pub const fn f4_min() -> u8 {
        0
    }

    pub const fn f4_max() -> u8 {
        7
    }
}

#[asn(sequence, extensible_after(f4))]

#[derive(Default, Debug, Clone, PartialEq, Hash)]
pub struct Ts5mdddme5 {
    #[asn(integer(0..7))] pub f0: u8,
    #[asn(default(integer(0..7), 5))] pub f1: u8,
    #[asn(default(integer(0..7), 5))] pub f2: u8,
    #[asn(default(integer(0..7), 5))] pub f3: u8,
    #[asn(integer(0..7))] pub f4: u8,
}

impl Ts5mdddme5 {
    pub const fn f0_min() -> u8 {
        0
    }

    pub const fn f0_max() -> u8 {
        7
    }

    pub const fn f1_min() -> u8 {
        0
    }

    pub const fn f1_max() -> u8 {
        7
    }

    pub const fn f2_min() -> u8 {
        0
    }

    pub const fn f2_max() -> u8 {
        7
    }

    pub const fn f3_min() -> u8 {
        0
    }

    pub const fn f3_max() -> u8 {
        7
    }

    pub const fn f4_min() -> u8 {
        0
    }

    pub const fn f4_max() -> u8 {
        7
    }
}

#[asn(sequence)]

#[derive(Default, Debug, Clone, PartialEq, Hash)]
pub struct Ts5odddmn {
    #[asn(optional(integer(0..7)))] pub f0: Option<u8>,
    #[asn(default(integer(0..7), 5))] pub f1: u8,
    #[asn(default(integer(0..7), 5))] pub f2: u8,
    #[asn(default(integer(0..7), 5))] pub f3: u8,
    #[asn(integer(0..7))] pub f4: u8,
}

impl Ts5odddmn {
    pub const fn f0_min() -> u8 {
        0
    }

    pub const fn f0_max() -> u8 {
        7
    }

    pub const fn f1_min() -> u8 {
        0
    }

    pub const fn f1_max() -> u8 {
        7
    }

    pub const fn f2_min() -> u8 {
        0
    }

    pub const fn f2_max() -> u8 {
        7
    }

    pub const fn f3_min() -> u8 {
        0
    }

    pub const fn f3_max() -> u8 {
        7
    }

    pub const fn f4_min() -> u8 {
        0
    }

    pub const fn f4_max() -> u8 {
        7
    }
}

#[asn(sequence, extensible_after(f0))]

#[derive(Default, Debug, Clone, PartialEq, Hash)]
pub struct Ts5odddme0 {
    #[asn(optional(integer(0..7)))] pub f0: Option<u8>,
    #[asn(default(integer(0..7), 5))] pub f1: u8,
    #[asn(default(integer(0..7), 5))] pub f2: u8,
    #[asn(default(integer(0..7), 5))] pub f3: u8,
    #[asn(optional(integer(0..7)))] pub f4: Option<u8>,
}

impl Ts5odddme0 {
    pub const fn f0_min() -> u8 {
        0
    }

    pub const fn f0_max() -> u8 {
        7
    }

    pub const fn f1_min() -> u8 {
        0
    }

    pub const fn f1_max() -> u8 {
        7
    }

    pub const fn f2_min() -> u8 {
        0
    }

    pub const fn f2_max() -> u8 {
        7
    }

    pub const fn f3_min() -> u8 {
        0
    }

    pub const fn f3_max() -> u8 {
        7
    }

    pub const fn f4_min() -> u8 {
        0
    }

    pub const fn f4_max() -> u8 {
        7
    }
}

#[asn(sequence, extensible_after(f0))]

#[derive(Default, Debug, Clone, PartialEq, Hash)]
pub struct Ts5odddme1 {
    #[asn(optional(integer(0..7)))] pub f0: Option<u8>,
    #[asn(default(integer(0..7), 5))] pub f1: u8,
    #[asn(default(integer(0..7), 5))] pub f2: u8,
    #[asn(default(integer(0..7), 5))] pub f3: u8,
    #[asn(optional(integer(0..7)))] pub f4: Option<u8>,
}

impl Ts5odddme1 {
    pub const fn f0_min() -> u8 {
        0
    }

    pub const fn f0_max() -> u8 {
        7
    }

    pub const fn f1_min() -> u8 {
        0
    }

    pub const fn f1_max() -> u8 {
        7
    }

    pub const fn f2_min() -> u8 {
        0
    }

    pub const fn f2_max() -> u8 {
        7
    }

    pub const fn f3_min() -> u8 {
        0
    }

    pub const fn f3_max() -> u8 {
        7
    }

    pub const fn f4_min() -> u8 {
        0
    }

    pub const fn f4_max() -> u8 {
        7
    }
}

#[asn(sequence, extensible_after(f1))]

#[derive(Default, Debug, Clone, PartialEq, Hash)]
pub struct Ts5odddme2 {
    #[asn(optional(integer(0..7)))] pub f0: Option<u8>,
    #[asn(default(integer(0..7), 5))] pub f1: u8,
    #[asn(default(integer(0..7), 5))] pub f2: u8,
    #[asn(default(integer(0..7), 5))] pub f3: u8,
    #[asn(optional(integer(0..7)))] pub f4: Option<u8>,
}

impl Ts5odddme2 {
    pub const fn f0_min() -> u8 {
        0
    }

    pub const fn f0_max() -> u8 {
        7
    }

    pub const fn f1_min() -> u8 {
        0
    }

    pub const fn f1_max() -> u8 {
        7
    }

    pub const fn f2_min() -> u8 {
        0
    }

    pub const fn f2_max() -> u8 {
        7
    }

    pub const fn f3_min() -> u8 {
        0
    }

    pub const fn f3_max() -> u8 {
        7
    }

    pub const fn f4_min() -> u8 {
        0
    }

    pub const fn f4_max() -> u8 {
        7
    }
}

#[asn(sequence, extensible_after(f2))]

#[derive(Default, Debug, Clone, PartialEq, Hash)]
pub struct Ts5odddme3 {
    #[asn(optional(integer(0..7)))] pub f0: Option<u8>,
    #[asn(default(integer(0..7), 5))] pub f1: u8,
    #[asn(default(integer(0..7), 5))] pub f2: u8,
    #[asn(default(integer(0..7), 5))] pub f3: u8,
    #[asn(optional(integer(0..7)))] pub f4: Option<u8>,
}

impl Ts5odddme3 {
    pub const fn f0_min() -> u8 {
        0
    }

    pub const fn f0_max() -> u8 {
        7
    }

    pub const fn f1_min() -> u8 {
        0
    }

    pub const fn f1_max() -> u8 {
        7
    }

    pub const fn f2_min() -> u8 {
        0
    }

    pub const fn f2_max() -> u8 {
        7
    }

    pub const fn f3_min() -> u8 {
        0
    }

    pub const fn f3_max() -> u8 {
        7
    }

    pub const fn f4_min() -> u8 {
        0
    }

    pub const fn f4_max() -> u8 {
        7
    }
}

#[asn(sequence, extensible_after(f3))]

#[derive(Default, Debug, Clone, PartialEq, Hash)]
pub struct Ts5odddme4 {
    #[asn(optional(integer(0..7)))] pub f0: Option<u8>,
    #[asn(default(integer(0..7), 5))] pub f1: u8,
    #[asn(default(integer(0..7), 5))] pub f2: u8,
    #[asn(default(integer(0..7), 5))] pub f3: u8,
    #[asn(optional(integer(0..7)))] pub f4: Option<u8>,
}

impl Ts5odddme4 {
    pub const fn f0_min() -> u8 {
        0
    }

    pub const fn f0_max() -> u8 {
        7
    }

    pub const fn f1_min() -> u8 {
        0
    }

    pub const fn f1_max() -> u8 {
        7
    }

    pub const fn f2_min() -> u8 {
        0
    }

    pub const fn f2_max() -> u8 {
        7
    }

    pub const fn f3_min() -> u8 {
        0
    }

    pub const fn f3_max() -> u8 {
        7
    }

    pub const fn f4_min() -> u8 {
        0
    }

    pub const fn f4_max() -> u8 {
        7
    }
}

#[asn(sequence, extensible_after(f4))]

#[derive(Default, Debug, Clone, PartialEq, Hash)]
pub struct Ts5odddme5 {
    #[asn(optional(integer(0..7)))] pub f0: Option<u8>,
    #[asn(default(integer(0..7), 5))] pub f1: u8,
    #[asn(default(integer(0..7), 5))] pub f2: u8,
    #[asn(default(integer(0..7), 5))] pub f3: u8,
    #[asn(integer(0..7))] pub f4: u8,
}

impl Ts5odddme5 {
    pub const fn f0_min() -> u8 {
        0
    }

    pub const fn f0_max() -> u8 {
        7
    }

    pub const fn f1_min() -> u8 {
        0
    }

    pub const fn f1_max() -> u8 {
        7
    }

    pub const fn f2_min() -> u8 {
        0
    }

    pub const fn f2_max() -> u8 {
        7
    }

    pub const fn f3_min() -> u8 {
        0
    }

    pub const fn f3_max() -> u8 {
        7
    }

    pub const fn f4_min() -> u8 {
        0
    }

    pub const fn f4_max() -> u8 {
        7
    }
}

#[asn(sequence)]

#[derive(Default, Debug, Clone, PartialEq, Hash)]
pub struct Ts5ddddmn {
    #[asn(default(integer(0..7), 5))] pub f0: u8,
    #[asn(default(integer(0..7), 5))] pub f1: u8,
    #[asn(default(integer(0..7), 5))] pub f2: u8,
    #[asn(default(integer(0..7), 5))] pub f3: u8,
    #[asn(integer(0..7))] pub f4: u8,
}

impl Ts5ddddmn {
    pub const fn f0_min() -> u8 {
        0
    }

    pub const fn f0_max() -> u8 {
        7
    }

    pub const fn f1_min() -> u8 {
        0
    }

    pub const fn f1_max() -> u8 {
        7
    }

    pub const fn f2_min() -> u8 {
        0
    }

    pub const fn f2_max() -> u8 {
        7
    }

    pub const fn f3_min() -> u8 {
        0
    }

    pub const fn f3_max() -> u8 {
        7
    }

    pub const fn f4_min() -> u8 {
        0
    }

    pub const fn f4_max() -> u8 {
        7
    }
}

#[asn(sequence, extensible_after(f0))]

#[derive(Default, Debug, Clone, PartialEq, Hash)]
pub struct Ts5ddddme0 {
    #[asn(default(integer(0..7), 5))] pub f0: u8,
    #[asn(default(integer(0..7), 5))] pub f1: u8,
    #[asn(default(integer(0..7), 5))] pub f2: u8,
    #[asn(default(integer(0..7), 5))] pub f3: u8,
    #[asn(optional(integer(0..7)))] pub f4: Option<u8>,
}

impl Ts5ddddme0 {
    pub const fn f0_min() -> u8 {
        0
    }

    pub const fn f0_max() -> u8 {
        7
    }

    pub const fn f1_min() -> u8 {
        0
    }

    pub const fn f1_max() -> u8 {
        7
    }

    pub const fn f2_min() -> u8 {
        0
    }

    pub const fn f2_max() -> u8 {
        7
    }

    pub const fn f3_min() -> u8 {
        0
    }

    pub const fn f3_max() -> u8 {
        7
    }

    pub const fn f4_min() -> u8 {
        0
    }

    pub const fn f4_max() -> u8 {
        7
    }
}

#[asn(sequence, extensible_after(f0))]

#[derive(Default, Debug, Clone, PartialEq, Hash)]
pub struct Ts5ddddme1 {
    #[asn(default(integer(0..7), 5))] pub f0: u8,
    #[asn(default(integer(0..7), 5))] pub f1: u8,
    #[asn(default(integer(0..7), 5))] pub f2: u8,
    #[asn(default(integer(0..7), 5))] pub f3: u8,
    #[asn(optional(integer(0..7)))] pub f4: Option<u8>,
}

impl Ts5ddddme1 {
    pub const fn f0_min() -> u8 {
        0
    }

    pub const fn f0_max() -> u8 {
        7
    }

    pub const fn f1_min() -> u8 {
        0
    }

    pub const fn f1_max() -> u8 {
        7
    }

    pub const fn f2_min() -> u8 {
        0
    }

    pub const fn f2_max() -> u8 {
        7
    }

    pub const fn f3_min() -> u8 {
        0
    }

    pub const fn f3_max() -> u8 {
        7
    }

    pub const fn f4_min() -> u8 {
        0
    }

    pub const fn f4_max() -> u8 {
        7
    }
}

#[asn(sequence, extensible_after(f1))]

#[derive(Default, Debug, Clone, PartialEq, Hash)]
pub struct Ts5ddddme2 {
    #[asn(default(integer(0..7), 5))] pub f0: u8,
    #[asn(default(integer(0..7), 5))] pub f1: u8,
    #[asn(default(integer(0..7), 5))] pub f2: u8,
    #[asn(default(integer(0..7), 5))] pub f3: u8,
    #[asn(optional(integer(0..7)))] pub f4: Option<u8>,
}

impl Ts5ddddme2 {
    pub const fn f0_min() -> u8 {
        0
    }

    pub const fn f0_max() -> u8 {
        7
    }

    pub const fn f1_min() -> u8 {
        0
    }

    pub const fn f1_max() -> u8 {
        7
    }

    pub const fn f2_min() -> u8 {
        0
    }

    pub const fn f2_max() -> u8 {
        7
    }

    pub const fn f3_min() -> u8 {
        0
    }

    pub const fn f3_max() -> u8 {
        7
    }

    pub const fn f4_min() -> u8 {
        0
    }

    pub const fn f4_max() -> u8 {
        7
    }
}

#[asn(sequence, extensible_after(f2))]

#[derive(Default, Debug, Clone, PartialEq, Hash)]
pub struct Ts5ddddme3 {
    #[asn(default(integer(0..7), 5))] pub f0: u8,
    #[asn(default(integer(0..7), 5))] pub f1: u8,
    #[asn(default(integer(0..7), 5))] pub f2: u8,
    #[asn(default(integer(0..7), 5))] pub f3: u8,
    #[asn(optional(integer(0..7)))] pub f4: Option<u8>,
}

impl Ts5ddddme3 {
    pub const fn f0_min() -> u8 {
        0
    }

    pub const fn f0_max() -> u8 {
        7
    }

    pub const fn f1_min() -> u8 {
        0
    }

    pub const fn f1_max() -> u8 {
        7
    }

    pub const fn f2_min() -> u8 {
        0
    }

    pub const fn f2_max() -> u8 {
        7
    }

    pub const fn f3_min() -> u8 {
        0
    }

    pub const fn f3_max() -> u8 {
        7
    }

    pub const fn f4_min() -> u8 {
        0
    }

    pub const fn f4_max() -> u8 {
        7
    }
}

#[asn(sequence, extensible_after(f3))]

#[derive(Default, Debug, Clone, PartialEq, Hash)]
pub struct Ts5ddddme4 {
    #[asn(default(integer(0..7), 5))] pub f0: u8,
    #[asn(default(integer(0..7), 5))] pub f1: u8,
    #[asn(default(integer(0..7), 5))] pub f2: u8,
    #[asn(default(integer(0..7), 5))] pub f3: u8,
    #[asn(optional(integer(0..7)))] pub f4: Option<u8>,
}

impl Ts5ddddme4 {
    pub const fn f0_min() -> u8 {
        0
    }

    pub const fn f0_max() -> u8 {
        7
    }

    pub const fn f1_min() -> u8 {
        0
    }

    pub const fn f1_max() -> u8 {
        7
    }

    pub const fn f2_min() -> u8 {
        0
    }

    pub const fn f2_max() -> u8 {
        7
    }

    pub const fn f3_min() -> u8 {
        0
    }

    pub const fn f3_max() -> u8 {
        7
    }

    pub const fn f4_min() -> u8 {
        0
    }

    pub const fn f4_max() -> u8 {
        7
    }
}

#[asn(sequence, extensible_after(f4))]

#[derive(Default, Debug, Clone, PartialEq, Hash)]
pub struct Ts5ddddme5 {
    #[asn(default(integer(0..7), 5))] pub f0: u8,
    #[asn(default(integer(0..7), 5))] pub f1: u8,
    #[asn(default(integer(0..7), 5))] pub f2: u8,
    #[asn(default(integer(0..7), 5))] pub f3: u8,
    #[asn(integer(0..7))] pub f4: u8,
}

impl Ts5ddddme5 {
    pub const fn f0_min() -> u8 {
        0
    }

    pub const fn f0_max() -> u8 {
        7
    }

    pub const fn f1_min() -> u8 {
        0
    }

    pub const fn f1_max() -> u8 {
        7
    }

    pub const fn f2_min() -> u8 {
        0
    }

    pub const fn f2_max() -> u8 {
        7
    }

    pub const fn f3_min() -> u8 {
        0
    }

    pub const fn f3_max() -> u8 {
        7
    }

    pub const fn f4_min() -> u8 {
        0
    }

    pub const fn f4_max() -> u8 {
        7
    }
}

#[asn(sequence)]

#[derive(Default, Debug, Clone, PartialEq, Hash)]
pub struct Ts5mmmmon {
    #[asn(integer(0..7))] pub f0: u8,
    #[asn(integer(0..7))] pub f1: u8,
    #[asn(integer(0..7))] pub f2: u8,
    #[asn(integer(0..7))] pub f3: u8,
    #[asn(optional(integer(0..7)))] pub f4: Option<u8>,
}

impl Ts5mmmmon {
    pub const fn f0_min() -> u8 {
        0
    }

    pub const fn f0_max() -> u8 {
        7
    }

    pub const fn f1_min() -> u8 {
        0
    }

    pub const fn f1_max() -> u8 {
        7
    }

    pub const fn f2_min() -> u8 {
        0
    }

    pub const fn f2_max() -> u8 {
        7
    }

    pub const fn f3_min() -> u8 {
        0
    }

    pub const fn f3_max() -> u8 {
        7
    }

    pub const fn f4_min() -> u8 {
        0
    }

    pub const fn f4_max() -> u8 {
        7
    }
}

#[asn(sequence, extensible_after(f0))]

#[derive(Default, Debug, Clone, PartialEq, Hash)]
pub struct Ts5mmmmoe0 {
    #[asn(integer(0..7))] pub f0: u8,
    #[asn(optional(integer(0..7)))] pub f1: Option<u8>,
    #[asn(optional(integer(0..7)))] pub f2: Option<u8>,
    #[asn(optional(integer(0..7)))] pub f3: Option<u8>,
    #[asn(optional(integer(0..7)))] pub f4: Option<u8>,
}

impl Ts5mmmmoe0 {
    pub const fn f0_min() -> u8 {
        0
    }

    pub const fn f0_max() -> u8 {
        7
    }

    pub const fn f1_min() -> u8 {
        0
    }

    pub const fn f1_max() -> u8 {
        7
    }

    pub const fn f2_min() -> u8 {
        0
    }

    pub const fn f2_max() -> u8 {
        7
    }

    pub const fn f3_min() -> u8 {
        0
    }

    pub const fn f3_max() -> u8 {
        7
    }

    pub const fn f4_min() -> u8 {
        0
    }

    pub const fn f4_max() -> u8 {
        7
    }
}

#[asn(sequence, extensible_after(f0))]

#[derive(Default, Debug, Clone, PartialEq, Hash)]
pub struct Ts5mmmmoe1 {
    #[asn(integer(0..7))] pub f0: u8,
    #[asn(optional(integer(0..7)))] pub f1: Option<u8>,
    #[asn(optional(integer(0..7)))] pub f2: Option<u8>,
    #[asn(optional(integer(0..7)))] pub f3: Option<u8>,
    #[asn(optional(integer(0..7)))] pub f4: Option<u8>,
}

impl Ts5mmmmoe1 {
    pub const fn f0_min() -> u8 {
        0
    }

    pub const fn f0_max() -> u8 {
        7
    }

    pub const fn f1_min() -> u8 {
        0
    }

    pub const fn f1_max() -> u8 {
        7
    }

    pub const fn f2_min() -> u8 {
        0
    }

    pub const fn f2_max() -> u8 {
        7
    }

    pub const fn f3_min() -> u8 {
        0
    }

    pub const fn f3_max() -> u8 {
        7
    }

    pub const fn f4_min() -> u8 {
        0
    }

    pub const fn f4_max() -> u8 {
        7
    }
}

#[asn(sequence, extensible_after(f1))]

#[derive(Default, Debug, Clone, PartialEq, Hash)]
pub struct Ts5mmmmoe2 {
    #[asn(integer(0..7))] pub f0: u8,
    #[asn(integer(0..7))] pub f1: u8,
    #[asn(optional(integer(0..7)))] pub f2: Option<u8>,
    #[asn(optional(integer(0..7)))] pub f3: Option<u8>,
    #[asn(optional(integer(0..7)))] pub f4: Option<u8>,
}

impl Ts5mmmmoe2 {
    pub const fn f0_min() -> u8 {
        0
    }

    pub const fn f0_max() -> u8 {
        7
    }

    pub const fn f1_min() -> u8 {
        0
    }

    pub const fn f1_max() -> u8 {
        7
    }

    pub const fn f2_min() -> u8 {
        0
    }

    pub const fn f2_max() -> u8 {
        7
    }

    pub const fn f3_min() -> u8 {
        0
    }

    pub const fn f3_max() -> u8 {
        7
    }

    pub const fn f4_min() -> u8 {
        0
    }

    pub const fn f4_max() -> u8 {
        7
    }
}

#[asn(sequence, extensible_after(f2))]

#[derive(Default, Debug, Clone, PartialEq, Hash)]
pub struct Ts5mmmmoe3 {
    #[asn(integer(0..7))] pub f0: u8,
    #[asn(integer(0..7))] pub f1: u8,
    #[asn(integer(0..7))] pub f2: u8,
    #[asn(optional(integer(0..7)))] pub f3: Option<u8>,
    #[asn(optional(integer(0..7)))] pub f4: Option<u8>,
}

impl Ts5mmmmoe3 {
    pub const fn f0_min() -> u8 {
        0
    }

    pub const fn f0_max() -> u8 {
        7
    }

    pub const fn f1_min() -> u8 {
        0
    }

    pub const fn f1_max() -> u8 {
        7
    }

    pub const fn f2_min() -> u8 {
        0
    }

    pub const fn f2_max() -> u8 {
        7
    }

    pub const fn f3_min() -> u8 {
        0
    }

    pub const fn f3_max() -> u8 {
        7
    }

    pub const fn f4_min() -> u8 {
        0
    }

    pub const fn f4_max() -> u8 {
        7
    }
}

#[asn(sequence, extensible_after(f3))]

#[derive(Default, Debug, Clone, PartialEq, Hash)]
pub struct Ts5mmmmoe4 {
    #[asn(integer(0..7))] pub f0: u8,
    #[asn(integer(0..7))] pub f1: u8,
    #[asn(integer(0..7))] pub f2: u8,
    #[asn(integer(0..7))] pub f3: u8,
    #[asn(optional(integer(0..7)))] pub f4: Option<u8>,
}

impl Ts5mmmmoe4 {
    pub const fn f0_min() -> u8 {
        0
    }

    pub const fn f0_max() -> u8 {
        7
    }

    pub const fn f1_min() -> u8 {
        0
    }

    pub const fn f1_max() -> u8 {
        7
    }

    pub const fn f2_min() -> u8 {
        0
    }

    pub const fn f2_max() -> u8 {
        7
    }

    pub const fn f3_min() -> u8 {
        0
    }

    pub const fn f3_max() -> u8 {
        7
    }

    pub const fn f4_min() -> u8 {
        0
    }

    pub const fn f4_max() -> u8 {
        7
    }
}

#[asn(sequence, extensible_after(f4))]

#[derive(Default, Debug, Clone, PartialEq, Hash)]
pub struct Ts5mmmmoe5 {
    #[asn(integer(0..7))] pub f0: u8,
    #[asn(integer(0..7))] pub f1: u8,
    #[asn(integer(0..7))] pub f2: u8,
    #[asn(integer(0..7))] pub f3: u8,
    #[asn(optional(integer(0..7)))] pub f4: Option<u8>,
}

impl Ts5mmmmoe5 {
    pub const fn f0_min() -> u8 {
        0
    }

    pub const fn f0_max() -> u8 {
        7
    }

    pub const fn f1_min() -> u8 {
        0
    }

    pub const fn f1_max() -> u8 {
        7
    }

    pub const fn f2_min() -> u8 {
        0
    }

    pub const fn f2_max() -> u8 {
        7
    }

    pub const fn f3_min() -> u8 {
        0
    }

    pub const fn f3_max() -> u8 {
        7
    }

    pub const fn f4_min() -> u8 {
        0
    }

    pub const fn f4_max() -> u8 {
        7
    }
}

#[asn(sequence)]

#[derive(Default, Debug, Clone, PartialEq, Hash)]
pub struct Ts5ommmon {
    #[asn(optional(integer(0..7)))] pub f0: Option<u8>,
    #[asn(integer(0..7))] pub f1: u8,
    #[asn(integer(0..7))] pub f2: u8,
    #[asn(integer(0..7))] pub f3: u8,
    #[asn(optional(integer(0..7)))] pub f4: Option<u8>,
}

impl Ts5ommmon {
    pub const fn f0_min() -> u8 {
        0
    }

    pub const fn f0_max() -> u8 {
        7
    }

    pub const fn f1_min() -> u8 {
        0
    }

    pub const fn f1_max() -> u8 {
        7
    }

    pub const fn f2_min() -> u8 {
        0
    }

    pub const fn f2_max() -> u8 {
        7
    }

    pub const fn f3_min() -> u8 {
        0
    }

    pub const fn f3_max() -> u8 {
        7
    }

    pub const fn f4_min() -> u8 {
        0
    }

    pub const fn f4_max() -> u8 {
        7
    }
}

#[asn(sequence, extensible_after(f0))]

#[derive(Default, Debug, Clone, PartialEq, Hash)]
pub struct Ts5ommmoe0 {
    #[asn(optional(integer(0..7)))] pub f0: Option<u8>,
    #[asn(optional(integer(0..7)))] pub f1: Option<u8>,
    #[asn(optional(integer(0..7)))] pub f2: Option<u8>,
    #[asn(optional(integer(0..7)))] pub f3: Option<u8>,
    #[asn(optional(integer(0..7)))] pub f4: Option<u8>,
}

impl Ts5ommmoe0 {
    pub const fn f0_min() -> u8 {
        0
    }

    pub const fn f0_max() -> u8 {
        7
    }

    pub const fn f1_min() -> u8 {
        0
    }

    pub const fn f1_max() -> u8 {
        7
    }

    pub const fn f2_min() -> u8 {
        0
    }

    pub const fn f2_max() -> u8 {
        7
    }

    pub const fn f3_min() -> u8 {
        0
    }

    pub const fn f3_max() -> u8 {
        7
    }

    pub const fn f4_min() -> u8 {
        0
    }

    pub const fn f4_max() -> u8 {
        7
    }
}

#[asn(sequence, extensible_after(f0))]

#[derive(Default, Debug, Clone, PartialEq, Hash)]
pub struct Ts5ommmoe1 {
    #[asn(optional(integer(0..7)))] pub f0: Option<u8>,
    #[asn(optional(integer(0..7)))] pub f1: Option<u8>,
    #[asn(optional(integer(0..7)))] pub f2: Option<u8>,
    #[asn(optional(integer(0..7)))] pub f3: Option<u8>,
    #[asn(optional(integer(0..7)))] pub f4: Option<u8>,
}

impl Ts5ommmoe1 {
    pub const fn f0_min() -> u8 {
        0
    }

    pub const fn f0_max() -> u8 {
        7
    }

    pub const fn f1_min() -> u8 {
        0
    }

    pub const fn f1_max() -> u8 {
        7
    }

    pub const fn f2_min() -> u8 {
        0
    }

    pub const fn f2_max() -> u8 {
        7
    }

    pub const fn f3_min() -> u8 {
        0
    }

    pub const fn f3_max() -> u8 {
        7
    }

    pub const fn f4_min() -> u8 {
        0
    }

    pub const fn f4_max() -> u8 {
        7
    }
}

#[asn(sequence, extensible_after(f1))]

#[derive(Default, Debug, Clone, PartialEq, Hash)]
pub struct Ts5ommmoe2 {
    #[asn(optional(integer(0..7)))] pub f0: Option<u8>,
    #[asn(integer(0..7))] pub f1: u8,
    #[asn(optional(integer(0..7)))] pub f2: Option<u8>,
    #[asn(optional(integer(0..7)))] pub f3: Option<u8>,
    #[asn(optional(integer(0..7)))] pub f4: Option<u8>,
}

impl Ts5ommmoe2 {
    pub const fn f0_min() -> u8 {
        0
    }

    pub const fn f0_max() -> u8 {
        7
    }

    pub const fn f1_min() -> u8 {
        0
    }

    pub const fn f1_max() -> u8 {
        7
    }

    pub const fn f2_min() -> u8 {
        0
    }

    pub const fn f2_max() -> u8 {
        7
    }

    pub const fn f3_min() -> u8 {
        0
    }

    pub const fn f3_max() -> u8 {
        7
    }

    pub const fn f4_min() -> u8 {
        0
    }

    pub const fn f4_max() -> u8 {
        7
    }
}

#[asn(sequence, extensible_after(f2))]

#[derive(Default, Debug, Clone, PartialEq, Hash)]
pub struct Ts5ommmoe3 {
    #[asn(optional(integer(0..7)))] pub f0: Option<u8>,
    #[asn(integer(0..7))] pub f1: u8,
    #[asn(integer(0..7))] pub f2: u8,
    #[asn(optional(integer(0..7)))] pub f3: Option<u8>,
    #[asn(optional(integer(0..7)))] pub f4: Option<u8>,
}

impl Ts5ommmoe3 {
    pub const fn f0_min() -> u8 {
        0
    }

    pub const fn f0_max() -> u8 {
        7
    }

    pub const fn f1_min() -> u8 {
        0
    }

    pub const fn f1_max() -> u8 {
        7
    }

    pub const fn f2_min() -> u8 {
        0
    }

    pub const fn f2_max() -> u8 {
        7
    }

    pub const fn f3_min() -> u8 {
        0
    }

    pub const fn f3_max() -> u8 {
        7
    }

    pub const fn f4_min() -> u8 {
        0
    }

    pub const fn f4_max() -> u8 {
        7
    }
}

#[asn(sequence, extensible_after(f3))]

#[derive(Default, Debug, Clone, PartialEq, Hash)]
pub struct Ts5ommmoe4 {
    #[asn(optional(integer(0..7)))] pub f0: Option<u8>,
    #[asn(integer(0..7))] pub f1: u8,
    #[asn(integer(0..7))] pub f2: u8,
    #[asn(integer(0..7))] pub f3: u8,
    #[asn(optional(integer(0..7)))] pub f4: Option<u8>,
}

impl Ts5ommmoe4 {
    pub const fn f0_min() -> u8 {
        0
    }

    pub const fn f0_max() -> u8 {
        7
    }

    pub const fn f1_min() -> u8 {
        0
    }

    pub const fn f1_max() -> u8 {
        7
    }

    pub const fn f2_min() -> u8 {
        0
    }

    pub const fn f2_max() -> u8 {
        7
    }

    pub const fn f3_min() -> u8 {
        0
    }

    pub const fn f3_max() -> u8 {
        7
    }

    pub const fn f4_min() -> u8 {
        0
    }

    pub const fn f4_max() -> u8 {
        7
    }
}

#[asn(sequence, extensible_after(f4))]

#[derive(Default, Debug, Clone, PartialEq, Hash)]
pub struct Ts5ommmoe5 {
    #[asn(optional(integer(0..7)))] pub f0: Option<u8>,
    #[asn(integer(0..7))] pub f1: u8,
    #[asn(integer(0..7))] pub f2: u8,
    #[asn(integer(0..7))] pub f3: u8,
    #[asn(optional(integer(0..7)))] pub f4: Option<u8>,
}

impl Ts5ommmoe5 {
    pub const fn f0_min() -> u8 {
        0
    }

    pub const fn f0_max() -> u8 {
        7
    }

    pub const fn f1_min() -> u8 {
        0
    }

    pub const fn f1_max() -> u8 {
        7
    }

    pub const fn f2_min() -> u8 {
        0
    }

    pub const fn f2_max() -> u8 {
        7
    }

    pub const fn f3_min() -> u8 {
        0
    }

    pub const fn f3_max() -> u8 {
        7
    }

    pub const fn f4_min() -> u8 {
        0
    }

    pub const fn f4_max() -> u8 {
        7
    }
}

#[asn(sequence)]

#[derive(Default, Debug, Clone, PartialEq, Hash)]
pub struct Ts5dmmmon {
    #[asn(default(integer(0..7), 5))] pub f0: u8,
    #[asn(integer(0..7))] pub f1: u8,
    #[asn(integer(0..7))] pub f2: u8,
    #[asn(integer(0..7))] pub f3: u8,
    #[asn(optional(integer(0..7)))] pub f4: Option<u8>,
}

impl Ts5dmmmon {
    pub const fn f0_min() -> u8 {
        0
    }

    pub const fn f0_max() -> u8 {
        7
    }

    pub const fn f1_min() -> u8 {
        0
    }

    pub const fn f1_max() -> u8 {
        7
    }

    pub const fn f2_min() -> u8 {
        0
    }

    pub const fn f2_max() -> u8 {
        7
    }

    pub const fn f3_min() -> u8 {
        0
    }

    pub const fn f3_max() -> u8 {
        7
    }

    pub const fn f4_min() -> u8 {
        0
    }

    pub const fn f4_max() -> u8 {
        7
    }
}

#[asn(sequence, extensible_after(f0))]

#[derive(Default, Debug, Clone, PartialEq, Hash)]
pub struct Ts5dmmmoe0 {
    #[asn(default(integer(0..7), 5))] pub f0: u8,
    #[asn(optional(integer(0..7)))] pub f1: Option<u8>,
    #[asn(optional(integer(0..7)))] pub f2: Option<u8>,
    #[asn(optional(integer(0..7)))] pub f3: Option<u8>,
    #[asn(optional(integer(0..7)))] pub f4: Option<u8>,
}

impl Ts5dmmmoe0 {
    pub const fn f0_min() -> u8 {
        0
    }

    pub const fn f0_max() -> u8 {
        7
    }

    pub const fn f1_min() -> u8 {
        0
    }

    pub const fn f1_max() -> u8 {
        7
    }

    pub const fn f2_min() -> u8 {
        0
    }

    pub const fn f2_max() -> u8 {
        7
    }

    pub const fn f3_min() -> u8 {
        0
    }

    pub const fn f3_max() -> u8 {
        7
    }

    pub const fn f4_min() -> u8 {
        0
    }

    pub const fn f4_max() -> u8 {
        7
    }
}

#[asn(sequence, extensible_after(f0))]

#[derive(Default, Debug, Clone, PartialEq, Hash)]
pub struct Ts5dmmmoe1 {
    #[asn(default(integer(0..7), 5))] pub f0: u8,
    #[asn(optional(integer(0..7)))] pub f1: Option<u8>,
    #[asn(optional(integer(0..7)))] pub f2: Option<u8>,
    #[asn(optional(integer(0..7)))] pub f3: Option<u8>,
    #[asn(optional(integer(0..7)))] pub f4: Option<u8>,
}

impl Ts5dmmmoe1 {
    pub const fn f0_min() -> u8 {
        0
    }

    pub const fn f0_max() -> u8 {
        7
    }

    pub const fn f1_min() -> u8 {
        0
    }

    pub const fn f1_max() -> u8 {
        7
    }

    pub const fn f2_min() -> u8 {
        0
    }

    pub const fn f2_max() -> u8 {
        7
    }

    pub const fn f3_min() -> u8 {
        0
    }

    pub const fn f3_max() -> u8 {
        7
    }

    pub const fn f4_min() -> u8 {
        0
    }

    pub const fn f4_max() -> u8 {
        7
    }
}

#[asn(sequence, extensible_after(f1))]

#[derive(Default, Debug, Clone, PartialEq, Hash)]
pub struct Ts5dmmmoe2 {
    #[asn(default(integer(0..7), 5))] pub f0: u8,
    #[asn(integer(0..7))] pub f1: u8,
    #[asn(optional(integer(0..7)))] pub f2: Option<u8>,
    #[asn(optional(integer(0..7)))] pub f3: Option<u8>,
    #[asn(optional(integer(0..7)))] pub f4: Option<u8>,
}

impl Ts5dmmmoe2 {
    pub const fn f0_min() -> u8 {
        0
    }

    pub const fn f0_max() -> u8 {
        7
    }

    pub const fn f1_min() -> u8 {
        0
    }

    pub const fn f1_max() -> u8 {
        7
    }

    pub const fn f2_min() -> u8 {
        0
    }

    pub const fn f2_max() -> u8 {
        7
    }

    pub const fn f3_min() -> u8 {
        0
    }

    pub const fn f3_max() -> u8 {
        7
    }

    pub const fn f4_min() -> u8 {
        0
    }

    pub const fn f4_max() -> u8 {
        7
    }
}

#[asn(sequence, extensible_after(f2))]

#[derive(Default, Debug, Clone, PartialEq, Hash)]
pub struct Ts5dmmmoe3 {
    #[asn(default(integer(0..7), 5))] pub f0: u8,
    #[asn(integer(0..7))] pub f1: u8,
    #[asn(integer(0..7))] pub f2: u8,
    #[asn(optional(integer(0..7)))] pub f3: Option<u8>,
    #[asn(optional(integer(0..7)))] pub f4: Option<u8>,
}

impl Ts5dmmmoe3 {
    pub const fn f0_min() -> u8 {
        0
    }

    pub const fn f0_max() -> u8 {
        7
    }

    pub const fn f1_min() -> u8 {
        0
    }

    pub const fn f1_max() -> u8 {
        7
    }

    pub const fn f2_min() -> u8 {
        0
    }

    pub const fn f2_max() -> u8 {
        7
    }

    pub const fn f3_min() -> u8 {
        0
    }

    pub const fn f3_max() -> u8 {
        7
    }

    pub const fn f4_min() -> u8 {
        0
    }

    pub const fn f4_max() -> u8 {
        7
    }
}

#[asn(sequence, extensible_after(f3))]

#[derive(Default, Debug, Clone, PartialEq, Hash)]
pub struct Ts5dmmmoe4 {
    #[asn(default(integer(0..7), 5))] pub f0: u8,
    #[asn(integer(0..7))] pub f1: u8,
    #[asn(integer(0..7))] pub f2: u8,
    #[asn(integer(0..7))] pub f3: u8,
    #[asn(optional(integer(0..7)))] pub f4: Option<u8>,
}

impl Ts5dmmmoe4 {
    pub const fn f0_min() -> u8 {
        0
    }

    pub const fn f0_max() -> u8 {
        7
    }

    pub const fn f1_min() -> u8 {
        0
    }

    pub const fn f1_max() -> u8 {
        7
    }

    pub const fn f2_min() -> u8 {
        0
    }

    pub const fn f2_max() -> u8 {
        7
    }

    pub const fn f3_min() -> u8 {
        0
    }

    pub const fn f3_max() -> u8 {
        7
    }

    pub const fn f4_min() -> u8 {
        0
    }

    pub const fn f4_max() -> u8 {
        7
    }
}

#[asn(sequence, extensible_after(f4))]

#[derive(Default, Debug, Clone, PartialEq, Hash)]
pub struct Ts5dmmmoe5 {
    #[asn(default(integer(0..7), 5))] pub f0: u8,
    #[asn(integer(0..7))] pub f1: u8,
    #[asn(integer(0..7))] pub f2: u8,
    #[asn(integer(0..7))] pub f3: u8,
    #[asn(optional(integer(0..7)))] pub f4: Option<u8>,
}

impl Ts5dmmmoe5 {
    pub const fn f0_min() -> u8 {
        0
    }

    pub const fn f0_max() -> u8 {
        7
    }

    pub const fn f1_min() -> u8 {
        0
    }

    pub const fn f1_max() -> u8 {
        7
    }

    pub const fn f2_min() -> u8 {
        0
    }

    pub const fn f2_max() -> u8 {
        7
    }

    pub const fn f3_min() -> u8 {
        0
    }

    pub const fn f3_max() -> u8 {
        7
    }

    pub const fn f4_min() -> u8 {
        0
    }

    pub const fn f4_max() -> u8 {
        7
    }
}

#[asn(sequence)]

#[derive(Default, Debug, Clone, PartialEq, Hash)]
pub struct Ts5mommon {
    #[asn(integer(0..7))] pub f0: u8,
    #[asn(optional(integer(0..7)))] pub f1: Option<u8>,
    #[asn(integer(0..7))] pub f2: u8,
    #[asn(integer(0..7))] pub f3: u8,
    #[asn(optional(integer(0..7)))] pub f4: Option<u8>,
}

impl Ts5mommon {
    pub const fn f0_min() -> u8 {
        0
    }

    pub const fn f0_max() -> u8 {
        7
    }

    pub const fn f1_min() -> u8 {
        0
    }

    pub const fn f1_max() -> u8 {
        7
    }

    pub const fn f2_min() -> u8 {
        0
    }

    pub const fn f2_max() -> u8 {
        7
    }

    pub const fn f3_min() -> u8 {
        0
    }

    pub const fn f3_max() -> u8 {
        7
    }

    pub const fn f4_min() -> u8 {
        0
    }

    pub const fn f4_max() -> u8 {
        7
    }
}

#[asn(sequence, extensible_after(f0))]

#[derive(Default, Debug, Clone, PartialEq, Hash)]
pub struct Ts5mommoe0 {
    #[asn(integer(0..7))] pub f0: u8,
    #[asn(optional(integer(0..7)))] pub f1: Option<u8>,
    #[asn(optional(integer(0..7)))] pub f2: Option<u8>,
    #[asn(optional(integer(0..7)))] pub f3: Option<u8>,
    #[asn(optional(integer(0..7)))] pub f4: Option<u8>,
}

impl Ts5mommoe0 {
    pub const fn f0_min() -> u8 {
        0
    }

    pub const fn f0_max() -> u8 {
        7
    }

    pub const fn f1_min() -> u8 {
        0
    }

    pub const fn f1_max() -> u8 {
        7
    }

    pub const fn f2_min() -> u8 {
        0
    }

    pub const fn f2_max() -> u8 {
        7
    }

    pub const fn f3_min() -> u8 {
        0
    }

    pub const fn f3_max() -> u8 {
        7
    }

    pub const fn f4_min() -> u8 {
        0
    }

    pub const fn f4_max() -> u8 {
        7
    }
}

#[asn(sequence, extensible_after(f0))]

#[derive(Default, Debug, Clone, PartialEq, Hash)]
pub struct Ts5mommoe1 {
    #[asn(integer(0..7))] pub f0: u8,
    #[asn(optional(integer(0..7)))] pub f1: Option<u8>,
    #[asn(optional(integer(0..7)))] pub f2: Option<u8>,
    #[asn(optional(integer(0..7)))] pub f3: Option<u8>,
    #[asn(optional(integer(0..7)))] pub f4: Option<u8>,
}

impl Ts5mommoe1 {
    pub const fn f0_min() -> u8 {
        0
    }

    pub const fn f0_max() -> u8 {
        7
    }

    pub const fn f1_min() -> u8 {
        0
    }

    pub const fn f1_max() -> u8 {
        7
    }

    pub const fn f2_min() -> u8 {
        0
    }

    pub const fn f2_max() -> u8 {
        7
    }

    pub const fn f3_min() -> u8 {
        0
    }

    pub const fn f3_max() -> u8 {
        7
    }

    pub const fn f4_min() -> u8 {
        0
    }

    pub const fn f4_max() -> u8 {
        7
    }
}

#[asn(sequence, extensible_after(f1))]

#[derive(Default, Debug, Clone, PartialEq, Hash)]
pub struct Ts5mommoe2 {
    #[asn(integer(0..7))] pub f0: u8,
    #[asn(optional(integer(0..7)))] pub f1: Option<u8>,
    #[asn(optional(integer(0..7)))] pub f2: Option<u8>,
    #[asn(optional(integer(0..7)))] pub f3: Option<u8>,
    #[asn(optional(integer(0..7)))] pub f4: Option<u8>,
}

impl Ts5mommoe2 {
    pub const fn f0_min() -> u8 {
        0
    }

    pub const fn f0_max() -> u8 {
        7
    }

    pub const fn f1_min() -> u8 {
        0
    }

    pub const fn f1_max() -> u8 {
        7
    }

    pub const fn f2_min() -> u8 {
        0
    }

    pub const fn f2_max() -> u8 {
        7
    }

    pub const fn f3_min() -> u8 {
        0
    }

    pub const fn f3_max() -> u8 {
        7
    }

    pub const fn f4_min() -> u8 {
        0
    }

    pub const fn f4_max() -> u8 {
        7
    }
}

#[asn(sequence, extensible_after(f2))]

#[derive(Default, Debug, Clone, PartialEq, Hash)]
pub struct Ts5mommoe3 {
    #[asn(integer(0..7))] pub f0: u8,
    #[asn(optional(integer(0..7)))] pub f1: Option<u8>,
    #[asn(integer(0..7))] pub f2: u8,
    #[asn(optional(integer(0..7)))] pub f3: Option<u8>,
    #[asn(optional(integer(0..7)))] pub f4: Option<u8>,
}

impl Ts5mommoe3 {
    pub const fn f0_min() -> u8 {
        0
    }

    pub const fn f0_max() -> u8 {
        7
    }

    pub const fn f1_min() -> u8 {
        0
    }

    pub const fn f1_max() -> u8 {
        7
    }

    pub const fn f2_min() -> u8 {
        0
    }

    pub const fn f2_max() -> u8 {
        7
    }

    pub const fn f3_min() -> u8 {
        0
    }

    pub const fn f3_max() -> u8 {
        7
    }

    pub const fn f4_min() -> u8 {
        0
    }

    pub const fn f4_max() -> u8 {
        7
    }
}

#[asn(sequence, extensible_after(f3))]

#[derive(Default, Debug, Clone, PartialEq, Hash)]
pub struct Ts5mommoe4 {
    #[asn(integer(0..7))] pub f0: u8,
    #[asn(optional(integer(0..7)))] pub f1: Option<u8>,
    #[asn(integer(0..7))] pub f2: u8,
    #[asn(integer(0..7))] pub f3: u8,
    #[asn(optional(integer(0..7)))] pub f4: Option<u8>,
}

impl Ts5mommoe4 {
    pub const fn f0_min() -> u8 {
        0
    }

    pub const fn f0_max() -> u8 {
        7
    }

    pub const fn f1_min() -> u8 {
        0
    }

    pub const fn f1_max() -> u8 {
        7
    }

    pub const fn f2_min() -> u8 {
        0
    }

    pub const fn f2_max() -> u8 {
        7
    }

    pub const fn f3_min() -> u8 {
        0
    }

    pub const fn f3_max() -> u8 {
        7
    }

    pub const fn f4_min() -> u8 {
        0
    }

    pub const fn f4_max() -> u8 {
        7
    }
}

#[asn(sequence, extensible_after(f4))]

#[derive(Default, Debug, Clone, PartialEq, Hash)]
pub struct Ts5mommoe5 {
    #[asn(integer(0..7))] pub f0: u8,
    #[asn(optional(integer(0..7)))] pub f1: Option<u8>,
    #[asn(integer(0..7))] pub f2: u8,
    #[asn(integer(0..7))] pub f3: u8,
    #[asn(optional(integer(0..7)))] pub f4: Option<u8>,
}

impl Ts5mommoe5 {
    pub const fn f0_min() -> u8 {
        0
    }

    pub const fn f0_max() -> u8 {
        7
    }

    pub const fn f1_min() -> u8 {
        0
    }

    pub const fn f1_max() -> u8 {
        7
    }

    pub const fn f2_min() -> u8 {
        0
    }

    pub const fn f2_max() -> u8 {
        7
    }

    pub const fn f3_min() -> u8 {
        0
    }

    pub const fn f3_max() -> u8 {
        7
    }

    pub const fn f4_min() -> u8 {
        0
    }

    pub const fn f4_max() -> u8 {
        7
    }
}

#[asn(sequence)]

#[derive(Default, Debug, Clone, PartialEq, Hash)]
pub struct Ts5oommon {
    #[asn(optional(integer(0..7)))] pub f0: Option<u8>,
    #[asn(optional(integer(0..7)))] pub f1: Option<u8>,
    #[asn(integer(0..7))] pub f2: u8,
    #[asn(integer(0..7))] pub f3: u8,
    #[asn(optional(integer(0..7)))] pub f4: Option<u8>,
}

impl Ts5oommon {
    pub const fn f0_min() -> u8 {
        0
    }

    pub const fn f0_max() -> u8 {
        7
    }

    pub const fn f1_min() -> u8 {
        0
    }

    pub const fn f1_max() -> u8 {
        7
    }

    pub const fn f2_min() -> u8 {
        0
    }

    pub const fn f2_max() -> u8 {
        7
    }

    pub const fn f3_min() -> u8 {
        0
    }

    pub const fn f3_max() -> u8 {
        7
    }

    pub const fn f4_min() -> u8 {
        0
    }

    pub const fn f4_max() -> u8 {
        7
    }
}

#[asn(sequence, extensible_after(f0))]

#[derive(Default, Debug, Clone, PartialEq, Hash)]
pub struct Ts5oommoe0 {
    #[asn(optional(integer(0..7)))] pub f0: Option<u8>,
    #[asn(optional(integer(0..7)))] pub f1: Option<u8>,
    #[asn(optional(integer(0..7)))] pub f2: Option<u8>,
    #[asn(optional(integer(0..7)))] pub f3: Option<u8>,
    #[asn(optional(integer(0..7)))] pub f4: Option<u8>,
}

impl Ts5oommoe0 {
    pub const fn f0_min() -> u8 {
        0
    }

    pub const fn f0_max() -> u8 {
        7
    }

    pub const fn f1_min() -> u8 {
        0
    }

    pub const fn f1_max() -> u8 {
        7
    }

    pub const fn f2_min() -> u8 {
        0
    }

    pub const fn f2_max() -> u8 {
        7
    }

    pub const fn f3_min() -> u8 {
        0
    }

    pub const fn f3_max() -> u8 {
        7
    }

    pub const fn f4_min() -> u8 {
        0
    }

    pub const fn f4_max() -> u8 {
        7
    }
}

#[asn(sequence, extensible_after(f0))]

#[derive(Default, Debug, Clone, PartialEq, Hash)]
pub struct Ts5oommoe1 {
    #[asn(optional(integer(0..7)))] pub f0: Option<u8>,
    #[asn(optional(integer(0..7)))] pub f1: Option<u8>,
    #[asn(optional(integer(0..7)))] pub f2: Option<u8>,
    #[asn(optional(integer(0..7)))] pub f3: Option<u8>,
    #[asn(optional(integer(0..7)))] pub f4: Option<u8>,
}

impl Ts5oommoe1 {
    pub const fn f0_min() -> u8 {
        0
    }

    pub const fn f0_max() -> u8 {
        7
    }

    pub const fn f1_min() -> u8 {
        0
    }

    pub const fn f1_max() -> u8 {
        7
    }

    pub const fn f2_min() -> u8 {
        0
    }

    pub const fn f2_max() -> u8 {
        7
    }

    pub const fn f3_min() -> u8 {
        0
    }

    pub const fn f3_max() -> u8 {
        7
    }

    pub const fn f4_min() -> u8 {
        0
    }

    pub const fn f4_max() -> u8 {
        7
    }
}

#[asn(sequence, extensible_after(f1))]

#[derive(Default, Debug, Clone, PartialEq, Hash)]
pub struct Ts5oommoe2 {
    #[asn(optional(integer(0..7)))] pub f0: Option<u8>,
    #[asn(optional(integer(0..7)))] pub f1: Option<u8>,
    #[asn(optional(integer(0..7)))] pub f2: Option<u8>,
    #[asn(optional(integer(0..7)))] pub f3: Option<u8>,
    #[asn(optional(integer(0..7)))] pub f4: Option<u8>,
}

impl Ts5oommoe2 {
    pub const fn f0_min() -> u8 {
        0
    }

    pub const fn f0_max() -> u8 {
        7
    }

    pub const fn f1_min() -> u8 {
        0
    }

    pub const fn f1_max() -> u8 {
        7
    }

    pub const fn f2_min() -> u8 {
        0
    }

    pub const fn f2_max() -> u8 {
        7
    }

    pub const fn f3_min() -> u8 {
        0
    }

    pub const fn f3_max() -> u8 {
        7
    }

    pub const fn f4_min() -> u8 {
        0
    }

    pub const fn f4_max() -> u8 {
        7
    }
}

#[asn(sequence, extensible_after(f2))]

#[derive(Default, Debug, Clone, PartialEq, Hash)]
pub struct Ts5oommoe3 {
    #[asn(optional(integer(0..7)))] pub f0: Option<u8>,
    #[asn(optional(integer(0..7)))] pub f1: Option<u8>,
    #[asn(integer(0..7))] pub f2: u8,
    #[asn(optional(integer(0..7)))] pub f3: Option<u8>,
    #[asn(optional(integer(0..7)))] pub f4: Option<u8>,
}

impl Ts5oommoe3 {
    pub const fn f0_min() -> u8 {
        0
    }

    pub const fn f0_max() -> u8 {
        7
    }

    pub const fn f1_min() -> u8 {
        0
    }

    pub const fn f1_max() -> u8 {
        7
    }

    pub const fn f2_min() -> u8 {
        0
    }

    pub const fn f2_max() -> u8 {
        7
    }

    pub const fn f3_min() -> u8 {
        0
    }

    pub const fn f3_max() -> u8 {
        7
    }

    pub const fn f4_min() -> u8 {
        0
    }

    pub const fn f4_max() -> u8 {
        7
    }
}
// ---- harness conversions (generated by the zoo build script from the items above) ----
impl FromValue for Ts5doodme3 {
    fn from_value(v: &Value) -> Self {
        let s = match v { Value::Seq(s) => s, other => panic!("Ts5doodme3: expected Seq, got {other:?}") };
        assert_eq!(s.len(), 5, "Ts5doodme3: component count");
        let _ = s;
        Ts5doodme3 {
            f0: FromValue::from_value(s[0].as_ref().expect("component f0 of Ts5doodme3 must be present")),
            f1: s[1].as_ref().map(FromValue::from_value),
            f2: s[2].as_ref().map(FromValue::from_value),
            f3: FromValue::from_value(s[3].as_ref().expect("component f3 of Ts5doodme3 must be present")),
            f4: s[4].as_ref().map(FromValue::from_value),
        }
    }
}
impl ToValue for Ts5doodme3 {
    fn to_value(&self) -> Value {
        Value::Seq(vec![
            Some(self.f0.to_value()),
            self.f1.as_ref().map(|x| x.to_value()),
            self.f2.as_ref().map(|x| x.to_value()),
            Some(self.f3.to_value()),
            self.f4.as_ref().map(|x| x.to_value()),
        ])
    }
}
impl FromValue for Ts5doodme4 {
    fn from_value(v: &Value) -> Self {
        let s = match v { Value::Seq(s) => s, other => panic!("Ts5doodme4: expected Seq, got {other:?}") };
        assert_eq!(s.len(), 5, "Ts5doodme4: component count");
        let _ = s;
        Ts5doodme4 {
            f0: FromValue::from_value(s[0].as_ref().expect("component f0 of Ts5doodme4 must be present")),
            f1: s[1].as_ref().map(FromValue::from_value),
            f2: s[2].as_ref().map(FromValue::from_value),
            f3: FromValue::from_value(s[3].as_ref().expect("component f3 of Ts5doodme4 must be present")),
            f4: s[4].as_ref().map(FromValue::from_value),
        }
    }
}
impl ToValue for Ts5doodme4 {
    fn to_value(&self) -> Value {
        Value::Seq(vec![
            Some(self.f0.to_value()),
            self.f1.as_ref().map(|x| x.to_value()),
            self.f2.as_ref().map(|x| x.to_value()),
            Some(self.f3.to_value()),
            self.f4.as_ref().map(|x| x.to_value()),
        ])
    }
}
impl FromValue for Ts5doodme5 {
    fn from_value(v: &Value) -> Self {
        let s = match v { Value::Seq(s) => s, other => panic!("Ts5doodme5: expected Seq, got {other:?}") };
        assert_eq!(s.len(), 5, "Ts5doodme5: component count");
        let _ = s;
        Ts5doodme5 {
            f0: FromValue::from_value(s[0].as_ref().expect("component f0 of Ts5doodme5 must be present")),
            f1: s[1].as_ref().map(FromValue::from_value),
            f2: s[2].as_ref().map(FromValue::from_value),
            f3: FromValue::from_value(s[3].as_ref().expect("component f3 of Ts5doodme5 must be present")),
            f4: FromValue::from_value(s[4].as_ref().expect("component f4 of Ts5doodme5 must be present")),
        }
    }
}
impl ToValue for Ts5doodme5 {
    fn to_value(&self) -> Value {
        Value::Seq(vec![
            Some(self.f0.to_value()),
            self.f1.as_ref().map(|x| x.to_value()),
            self.f2.as_ref().map(|x| x.to_value()),
            Some(self.f3.to_value()),
            Some(self.f4.to_value()),
        ])
    }
}
impl FromValue for Ts5mdodmn {
    fn from_value(v: &Value) -> Self {
        let s = match v { Value::Seq(s) => s, other => panic!("Ts5mdodmn: expected Seq, got {other:?}") };
        assert_eq!(s.len(), 5, "Ts5mdodmn: component count");
        let _ = s;
        Ts5mdodmn {
            f0: FromValue::from_value(s[0].as_ref().expect("component f0 of Ts5mdodmn must be present")),
            f1: FromValue::from_value(s[1].as_ref().expect("component f1 of Ts5mdodmn must be present")),
            f2: s[2].as_ref().map(FromValue::from_value),
            f3: FromValue::from_value(s[3].as_ref().expect("component f3 of Ts5mdodmn must be present")),
            f4: FromValue::from_value(s[4].as_ref().expect("component f4 of Ts5mdodmn must be present")),
        }
    }
}
impl ToValue for Ts5mdodmn {
    fn to_value(&self) -> Value {
        Value::Seq(vec![
            Some(self.f0.to_value()),
            Some(self.f1.to_value()),
            self.f2.as_ref().map(|x| x.to_value()),
            Some(self.f3.to_value()),
            Some(self.f4.to_value()),
        ])
    }
}
impl FromValue for Ts5mdodme0 {
    fn from_value(v: &Value) -> Self {
        let s = match v { Value::Seq(s) => s, other => panic!("Ts5mdodme0: expected Seq, got {other:?}") };
        assert_eq!(s.len(), 5, "Ts5mdodme0: component count");
        let _ = s;
        Ts5mdodme0 {
            f0: FromValue::from_value(s[0].as_ref().expect("component f0 of Ts5mdodme0 must be present")),
            f1: FromValue::from_value(s[1].as_ref().expect("component f1 of Ts5mdodme0 must be present")),
            f2: s[2].as_ref().map(FromValue::from_value),
            f3: FromValue::from_value(s[3].as_ref().expect("component f3 of Ts5mdodme0 must be present")),
            f4: s[4].as_ref().map(FromValue::from_value),
        }
    }
}
impl ToValue for Ts5mdodme0 {
    fn to_value(&self) -> Value {
        Value::Seq(vec![
            Some(self.f0.to_value()),
            Some(self.f1.to_value()),
            self.f2.as_ref().map(|x| x.to_value()),
            Some(self.f3.to_value()),
            self.f4.as_ref().map(|x| x.to_value()),
        ])
    }
}
impl FromValue for Ts5mdodme1 {
    fn from_value(v: &Value) -> Self {
        let s = match v { Value::Seq(s) => s, other => panic!("Ts5mdodme1: expected Seq, got {other:?}") };
        assert_eq!(s.len(), 5, "Ts5mdodme1: component count");
        let _ = s;
        Ts5mdodme1 {
            f0: FromValue::from_value(s[0].as_ref().expect("component f0 of Ts5mdodme1 must be present")),
            f1: FromValue::from_value(s[1].as_ref().expect("component f1 of Ts5mdodme1 must be present")),
            f2: s[2].as_ref().map(FromValue::from_value),
            f3: FromValue::from_value(s[3].as_ref().expect("component f3 of Ts5mdodme1 must be present")),
            f4: s[4].as_ref().map(FromValue::from_value),
        }
    }
}
impl ToValue for Ts5mdodme1 {
    fn to_value(&self) -> Value {
        Value::Seq(vec![
            Some(self.f0.to_value()),
            Some(self.f1.to_value()),
            self.f2.as_ref().map(|x| x.to_value()),
            Some(self.f3.to_value()),
            self.f4.as_ref().map(|x| x.to_value()),
        ])
    }
}
impl FromValue for Ts5mdodme2 {
    fn from_value(v: &Value) -> Self {
        let s = match v { Value::Seq(s) => s, other => panic!("Ts5mdodme2: expected Seq, got {other:?}") };
        assert_eq!(s.len(), 5, "Ts5mdodme2: component count");
        let _ = s;
        Ts5mdodme2 {
            f0: FromValue::from_value(s[0].as_ref().expect("component f0 of Ts5mdodme2 must be present")),
            f1: FromValue::from_value(s[1].as_ref().expect("component f1 of Ts5mdodme2 must be present")),
            f2: s[2].as_ref().map(FromValue::from_value),
            f3: FromValue::from_value(s[3].as_ref().expect("component f3 of Ts5mdodme2 must be present")),
            f4: s[4].as_ref().map(FromValue::from_value),
        }
    }
}
impl ToValue for Ts5mdodme2 {
    fn to_value(&self) -> Value {
        Value::Seq(vec![
            Some(self.f0.to_value()),
            Some(self.f1.to_value()),
            self.f2.as_ref().map(|x| x.to_value()),
            Some(self.f3.to_value()),
            self.f4.as_ref().map(|x| x.to_value()),
        ])
    }
}
impl FromValue for Ts5mdodme3 {
    fn from_value(v: &Value) -> Self {
        let s = match v { Value::Seq(s) => s, other => panic!("Ts5mdodme3: expected Seq, got {other:?}") };
        assert_eq!(s.len(), 5, "Ts5mdodme3: component count");
        let _ = s;
        Ts5mdodme3 {
            f0: FromValue::from_value(s[0].as_ref().expect("component f0 of Ts5mdodme3 must be present")),
            f1: FromValue::from_value(s[1].as_ref().expect("component f1 of Ts5mdodme3 must be present")),
            f2: s[2].as_ref().map(FromValue::from_value),
            f3: FromValue::from_value(s[3].as_ref().expect("component f3 of Ts5mdodme3 must be present")),
            f4: s[4].as_ref().map(FromValue::from_value),
        }
    }
}
impl ToValue for Ts5mdodme3 {
    fn to_value(&self) -> Value {
        Value::Seq(vec![
            Some(self.f0.to_value()),
            Some(self.f1.to_value()),
            self.f2.as_ref().map(|x| x.to_value()),
            Some(self.f3.to_value()),
            self.f4.as_ref().map(|x| x.to_value()),
        ])
    }
}
impl FromValue for Ts5mdodme4 {
    fn from_value(v: &Value) -> Self {
        let s = match v { Value::Seq(s) => s, other => panic!("Ts5mdodme4: expected Seq, got {other:?}") };
        assert_eq!(s.len(), 5, "Ts5mdodme4: component count");
        let _ = s;
        Ts5mdodme4 {
            f0: FromValue::from_value(s[0].as_ref().expect("component f0 of Ts5mdodme4 must be present")),
            f1: FromValue::from_value(s[1].as_ref().expect("component f1 of Ts5mdodme4 must be present")),
            f2: s[2].as_ref().map(FromValue::from_value),
            f3: FromValue::from_value(s[3].as_ref().expect("component f3 of Ts5mdodme4 must be present")),
            f4: s[4].as_ref().map(FromValue::from_value),
        }
    }
}
impl ToValue for Ts5mdodme4 {
    fn to_value(&self) -> Value {
        Value::Seq(vec![
            Some(self.f0.to_value()),
            Some(self.f1.to_value()),
            self.f2.as_ref().map(|x| x.to_value()),
            Some(self.f3.to_value()),
            self.f4.as_ref().map(|x| x.to_value()),
        ])
    }
}
impl FromValue for Ts5mdodme5 {
    fn from_value(v: &Value) -> Self {
        let s = match v { Value::Seq(s) => s, other => panic!("Ts5mdodme5: expected Seq, got {other:?}") };
        assert_eq!(s.len(), 5, "Ts5mdodme5: component count");
        let _ = s;
        Ts5mdodme5 {
            f0: FromValue::from_value(s[0].as_ref().expect("component f0 of Ts5mdodme5 must be present")),
            f1: FromValue::from_value(s[1].as_ref().expect("component f1 of Ts5mdodme5 must be present")),
            f2: s[2].as_ref().map(FromValue::from_value),
            f3: FromValue::from_value(s[3].as_ref().expect("component f3 of Ts5mdodme5 must be present")),
            f4: FromValue::from_value(s[4].as_ref().expect("component f4 of Ts5mdodme5 must be present")),
        }
    }
}
impl ToValue for Ts5mdodme5 {
    fn to_value(&self) -> Value {
        Value::Seq(vec![
            Some(self.f0.to_value()),
            Some(self.f1.to_value()),
            self.f2.as_ref().map(|x| x.to_value()),
            Some(self.f3.to_value()),
            Some(self.f4.to_value()),
        ])
    }
}
impl FromValue for Ts5ododmn {
    fn from_value(v: &Value) -> Self {
        let s = match v { Value::Seq(s) => s, other => panic!("Ts5ododmn: expected Seq, got {other:?}") };
        assert_eq!(s.len(), 5, "Ts5ododmn: component count");
        let _ = s;
        Ts5ododmn {
            f0: s[0].as_ref().map(FromValue::from_value),
            f1: FromValue::from_value(s[1].as_ref().expect("component f1 of Ts5ododmn must be present")),
            f2: s[2].as_ref().map(FromValue::from_value),
            f3: FromValue::from_value(s[3].as_ref().expect("component f3 of Ts5ododmn must be present")),
            f4: FromValue::from_value(s[4].as_ref().expect("component f4 of Ts5ododmn must be present")),
        }
    }
}
impl ToValue for Ts5ododmn {
    fn to_value(&self) -> Value {
        Value::Seq(vec![
            self.f0.as_ref().map(|x| x.to_value()),
            Some(self.f1.to_value()),
            self.f2.as_ref().map(|x| x.to_value()),
            Some(self.f3.to_value()),
            Some(self.f4.to_value()),
        ])
    }
}
impl FromValue for Ts5ododme0 {
    fn from_value(v: &Value) -> Self {
        let s = match v { Value::Seq(s) => s, other => panic!("Ts5ododme0: expected Seq, got {other:?}") };
        assert_eq!(s.len(), 5, "Ts5ododme0: component count");
        let _ = s;
        Ts5ododme0 {
            f0: s[0].as_ref().map(FromValue::from_value),
            f1: FromValue::from_value(s[1].as_ref().expect("component f1 of Ts5ododme0 must be present")),
            f2: s[2].as_ref().map(FromValue::from_value),
            f3: FromValue::from_value(s[3].as_ref().expect("component f3 of Ts5ododme0 must be present")),
            f4: s[4].as_ref().map(FromValue::from_value),
        }
    }
}
impl ToValue for Ts5ododme0 {
    fn to_value(&self) -> Value {
        Value::Seq(vec![
            self.f0.as_ref().map(|x| x.to_value()),
            Some(self.f1.to_value()),
            self.f2.as_ref().map(|x| x.to_value()),
            Some(self.f3.to_value()),
            self.f4.as_ref().map(|x| x.to_value()),
        ])
    }
}
impl FromValue for Ts5ododme1 {
    fn from_value(v: &Value) -> Self {
        let s = match v { Value::Seq(s) => s, other => panic!("Ts5ododme1: expected Seq, got {other:?}") };
        assert_eq!(s.len(), 5, "Ts5ododme1: component count");
        let _ = s;
        Ts5ododme1 {
            f0: s[0].as_ref().map(FromValue::from_value),
            f1: FromValue::from_value(s[1].as_ref().expect("component f1 of Ts5ododme1 must be present")),
            f2: s[2].as_ref().map(FromValue::from_value),
            f3: FromValue::from_value(s[3].as_ref().expect("component f3 of Ts5ododme1 must be present")),
            f4: s[4].as_ref().map(FromValue::from_value),
        }
    }
}
impl ToValue for Ts5ododme1 {
    fn to_value(&self) -> Value {
        Value::Seq(vec![
            self.f0.as_ref().map(|x| x.to_value()),
            Some(self.f1.to_value()),
            self.f2.as_ref().map(|x| x.to_value()),
            Some(self.f3.to_value()),
            self.f4.as_ref().map(|x| x.to_value()),
        ])
    }
}
impl FromValue for Ts5ododme2 {
    fn from_value(v: &Value) -> Self {
        let s = match v { Value::Seq(s) => s, other => panic!("Ts5ododme2: expected Seq, got {other:?}") };
        assert_eq!(s.len(), 5, "Ts5ododme2: component count");
        let _ = s;
        Ts5ododme2 {
            f0: s[0].as_ref().map(FromValue::from_value),
            f1: FromValue::from_value(s[1].as_ref().expect("component f1 of Ts5ododme2 must be present")),
            f2: s[2].as_ref().map(FromValue::from_value),
            f3: FromValue::from_value(s[3].as_ref().expect("component f3 of Ts5ododme2 must be present")),
            f4: s[4].as_ref().map(FromValue::from_value),
        }
    }
}
impl ToValue for Ts5ododme2 {
    fn to_value(&self) -> Value {
        Value::Seq(vec![
            self.f0.as_ref().map(|x| x.to_value()),
            Some(self.f1.to_value()),
            self.f2.as_ref().map(|x| x.to_value()),
            Some(self.f3.to_value()),
            self.f4.as_ref().map(|x| x.to_value()),
        ])
    }
}
impl FromValue for Ts5ododme3 {
    fn from_value(v: &Value) -> Self {
        let s = match v { Value::Seq(s) => s, other => panic!("Ts5ododme3: expected Seq, got {other:?}") };
        assert_eq!(s.len(), 5, "Ts5ododme3: component count");
        let _ = s;
        Ts5ododme3 {
            f0: s[0].as_ref().map(FromValue::from_value),
            f1: FromValue::from_value(s[1].as_ref().expect("component f1 of Ts5ododme3 must be present")),
            f2: s[2].as_ref().map(FromValue::from_value),
            f3: FromValue::from_value(s[3].as_ref().expect("component f3 of Ts5ododme3 must be present")),
            f4: s[4].as_ref().map(FromValue::from_value),
        }
    }
}
impl ToValue for Ts5ododme3 {
    fn to_value(&self) -> Value {
        Value::Seq(vec![
            self.f0.as_ref().map(|x| x.to_value()),
            Some(self.f1.to_value()),
            self.f2.as_ref().map(|x| x.to_value()),
            Some(self.f3.to_value()),
            self.f4.as_ref().map(|x| x.to_value()),
        ])
    }
}
impl FromValue for Ts5ododme4 {
    fn from_value(v: &Value) -> Self {
        let s = match v { Value::Seq(s) => s, other => panic!("Ts5ododme4: expected Seq, got {other:?}") };
        assert_eq!(s.len(), 5, "Ts5ododme4: component count");
        let _ = s;
        Ts5ododme4 {
            f0: s[0].as_ref().map(FromValue::from_value),
            f1: FromValue::from_value(s[1].as_ref().expect("component f1 of Ts5ododme4 must be present")),
            f2: s[2].as_ref().map(FromValue::from_value),
            f3: FromValue::from_value(s[3].as_ref().expect("component f3 of Ts5ododme4 must be present")),
            f4: s[4].as_ref().map(FromValue::from_value),
        }
    }
}
impl ToValue for Ts5ododme4 {
    fn to_value(&self) -> Value {
        Value::Seq(vec![
            self.f0.as_ref().map(|x| x.to_value()),
            Some(self.f1.to_value()),
            self.f2.as_ref().map(|x| x.to_value()),
            Some(self.f3.to_value()),
            self.f4.as_ref().map(|x| x.to_value()),
        ])
    }
}
impl FromValue for Ts5ododme5 {
    fn from_value(v: &Value) -> Self {
        let s = match v { Value::Seq(s) => s, other => panic!("Ts5ododme5: expected Seq, got {other:?}") };
        assert_eq!(s.len(), 5, "Ts5ododme5: component count");
        let _ = s;
        Ts5ododme5 {
            f0: s[0].as_ref().map(FromValue::from_value),
            f1: FromValue::from_value(s[1].as_ref().expect("component f1 of Ts5ododme5 must be present")),
            f2: s[2].as_ref().map(FromValue::from_value),
            f3: FromValue::from_value(s[3].as_ref().expect("component f3 of Ts5ododme5 must be present")),
            f4: FromValue::from_value(s[4].as_ref().expect("component f4 of Ts5ododme5 must be present")),
        }
    }
}
impl ToValue for Ts5ododme5 {
    fn to_value(&self) -> Value {
        Value::Seq(vec![
            self.f0.as_ref().map(|x| x.to_value()),
            Some(self.f1.to_value()),
            self.f2.as_ref().map(|x| x.to_value()),
            Some(self.f3.to_value()),
            Some(self.f4.to_value()),
        ])
    }
}
impl FromValue for Ts5ddodmn {
    fn from_value(v: &Value) -> Self {
        let s = match v { Value::Seq(s) => s, other => panic!("Ts5ddodmn: expected Seq, got {other:?}") };
        assert_eq!(s.len(), 5, "Ts5ddodmn: component count");
        let _ = s;
        Ts5ddodmn {
            f0: FromValue::from_value(s[0].as_ref().expect("component f0 of Ts5ddodmn must be present")),
            f1: FromValue::from_value(s[1].as_ref().expect("component f1 of Ts5ddodmn must be present")),
            f2: s[2].as_ref().map(FromValue::from_value),
            f3: FromValue::from_value(s[3].as_ref().expect("component f3 of Ts5ddodmn must be present")),
            f4: FromValue::from_value(s[4].as_ref().expect("component f4 of Ts5ddodmn must be present")),
        }
    }
}
impl ToValue for Ts5ddodmn {
    fn to_value(&self) -> Value {
        Value::Seq(vec![
            Some(self.f0.to_value()),
            Some(self.f1.to_value()),
            self.f2.as_ref().map(|x| x.to_value()),
            Some(self.f3.to_value()),
            Some(self.f4.to_value()),
        ])
    }
}
impl FromValue for Ts5ddodme0 {
    fn from_value(v: &Value) -> Self {
        let s = match v { Value::Seq(s) => s, other => panic!("Ts5ddodme0: expected Seq, got {other:?}") };
        assert_eq!(s.len(), 5, "Ts5ddodme0: component count");
        let _ = s;
        Ts5ddodme0 {
            f0: FromValue::from_value(s[0].as_ref().expect("component f0 of Ts5ddodme0 must be present")),
            f1: FromValue::from_value(s[1].as_ref().expect("component f1 of Ts5ddodme0 must be present")),
            f2: s[2].as_ref().map(FromValue::from_value),
            f3: FromValue::from_value(s[3].as_ref().expect("component f3 of Ts5ddodme0 must be present")),
            f4: s[4].as_ref().map(FromValue::from_value),
        }
    }
}
impl ToValue for Ts5ddodme0 {
    fn to_value(&self) -> Value {
        Value::Seq(vec![
            Some(self.f0.to_value()),
            Some(self.f1.to_value()),
            self.f2.as_ref().map(|x| x.to_value()),
            Some(self.f3.to_value()),
            self.f4.as_ref().map(|x| x.to_value()),
        ])
    }
}
impl FromValue for Ts5ddodme1 {
    fn from_value(v: &Value) -> Self {
        let s = match v { Value::Seq(s) => s, other => panic!("Ts5ddodme1: expected Seq, got {other:?}") };
        assert_eq!(s.len(), 5, "Ts5ddodme1: component count");
        let _ = s;
        Ts5ddodme1 {
            f0: FromValue::from_value(s[0].as_ref().expect("component f0 of Ts5ddodme1 must be present")),
            f1: FromValue::from_value(s[1].as_ref().expect("component f1 of Ts5ddodme1 must be present")),
            f2: s[2].as_ref().map(FromValue::from_value),
            f3: FromValue::from_value(s[3].as_ref().expect("component f3 of Ts5ddodme1 must be present")),
            f4: s[4].as_ref().map(FromValue::from_value),
        }
    }
}
impl ToValue for Ts5ddodme1 {
    fn to_value(&self) -> Value {
        Value::Seq(vec![
            Some(self.f0.to_value()),
            Some(self.f1.to_value()),
            self.f2.as_ref().map(|x| x.to_value()),
            Some(self.f3.to_value()),
            self.f4.as_ref().map(|x| x.to_value()),
        ])
    }
}
impl FromValue for Ts5ddodme2 {
    fn from_value(v: &Value) -> Self {
        let s = match v { Value::Seq(s) => s, other => panic!("Ts5ddodme2: expected Seq, got {other:?}") };
        assert_eq!(s.len(), 5, "Ts5ddodme2: component count");
        let _ = s;
        Ts5ddodme2 {
            f0: FromValue::from_value(s[0].as_ref().expect("component f0 of Ts5ddodme2 must be present")),
            f1: FromValue::from_value(s[1].as_ref().expect("component f1 of Ts5ddodme2 must be present")),
            f2: s[2].as_ref().map(FromValue::from_value),
            f3: FromValue::from_value(s[3].as_ref().expect("component f3 of Ts5ddodme2 must be present")),
            f4: s[4].as_ref().map(FromValue::from_value),
        }
    }
}
impl ToValue for Ts5ddodme2 {
    fn to_value(&self) -> Value {
        Value::Seq(vec![
            Some(self.f0.to_value()),
            Some(self.f1.to_value()),
            self.f2.as_ref().map(|x| x.to_value()),
            Some(self.f3.to_value()),
            self.f4.as_ref().map(|x| x.to_value()),
        ])
    }
}
impl FromValue for Ts5ddodme3 {
    fn from_value(v: &Value) -> Self {
        let s = match v { Value::Seq(s) => s, other => panic!("Ts5ddodme3: expected Seq, got {other:?}") };
        assert_eq!(s.len(), 5, "Ts5ddodme3: component count");
        let _ = s;
        Ts5ddodme3 {
            f0: FromValue::from_value(s[0].as_ref().expect("component f0 of Ts5ddodme3 must be present")),
            f1: FromValue::from_value(s[1].as_ref().expect("component f1 of Ts5ddodme3 must be present")),
            f2: s[2].as_ref().map(FromValue::from_value),
            f3: FromValue::from_value(s[3].as_ref().expect("component f3 of Ts5ddodme3 must be present")),
            f4: s[4].as_ref().map(FromValue::from_value),
        }
    }
}
impl ToValue for Ts5ddodme3 {
    fn to_value(&self) -> Value {
        Value::Seq(vec![
            Some(self.f0.to_value()),
            Some(self.f1.to_value()),
            self.f2.as_ref().map(|x| x.to_value()),
            Some(self.f3.to_value()),
            self.f4.as_ref().map(|x| x.to_value()),
        ])
    }
}
impl FromValue for Ts5ddodme4 {
    fn from_value(v: &Value) -> Self {
        let s = match v { Value::Seq(s) => s, other => panic!("Ts5ddodme4: expected Seq, got {other:?}") };
        assert_eq!(s.len(), 5, "Ts5ddodme4: component count");
        let _ = s;
        Ts5ddodme4 {
            f0: FromValue::from_value(s[0].as_ref().expect("component f0 of Ts5ddodme4 must be present")),
            f1: FromValue::from_value(s[1].as_ref().expect("component f1 of Ts5ddodme4 must be present")),
            f2: s[2].as_ref().map(FromValue::from_value),
            f3: FromValue::from_value(s[3].as_ref().expect("component f3 of Ts5ddodme4 must be present")),
            f4: s[4].as_ref().map(FromValue::from_value),
        }
    }
}
impl ToValue for Ts5ddodme4 {
    fn to_value(&self) -> Value {
        Value::Seq(vec![
            Some(self.f0.to_value()),
            Some(self.f1.to_value()),
            self.f2.as_ref().map(|x| x.to_value()),
            Some(self.f3.to_value()),
            self.f4.as_ref().map(|x| x.to_value()),
        ])
    }
}
impl FromValue for Ts5ddodme5 {
    fn from_value(v: &Value) -> Self {
        let s = match v { Value::Seq(s) => s, other => panic!("Ts5ddodme5: expected Seq, got {other:?}") };
        assert_eq!(s.len(), 5, "Ts5ddodme5: component count");
        let _ = s;
        Ts5ddodme5 {
            f0: FromValue::from_value(s[0].as_ref().expect("component f0 of Ts5ddodme5 must be present")),
            f1: FromValue::from_value(s[1].as_ref().expect("component f1 of Ts5ddodme5 must be present")),
            f2: s[2].as_ref().map(FromValue::from_value),
            f3: FromValue::from_value(s[3].as_ref().expect("component f3 of Ts5ddodme5 must be present")),
            f4: FromValue::from_value(s[4].as_ref().expect("component f4 of Ts5ddodme5 must be present")),
        }
    }
}
impl ToValue for Ts5ddodme5 {
    fn to_value(&self) -> Value {
        Value::Seq(vec![
            Some(self.f0.to_value()),
            Some(self.f1.to_value()),
            self.f2.as_ref().map(|x| x.to_value()),
            Some(self.f3.to_value()),
            Some(self.f4.to_value()),
        ])
    }
}
impl FromValue for Ts5mmddmn {
    fn from_value(v: &Value) -> Self {
        let s = match v { Value::Seq(s) => s, other => panic!("Ts5mmddmn: expected Seq, got {other:?}") };
        assert_eq!(s.len(), 5, "Ts5mmddmn: component count");
        let _ = s;
        Ts5mmddmn {
            f0: FromValue::from_value(s[0].as_ref().expect("component f0 of Ts5mmddmn must be present")),
            f1: FromValue::from_value(s[1].as_ref().expect("component f1 of Ts5mmddmn must be present")),
            f2: FromValue::from_value(s[2].as_ref().expect("component f2 of Ts5mmddmn must be present")),
            f3: FromValue::from_value(s[3].as_ref().expect("component f3 of Ts5mmddmn must be present")),
            f4: FromValue::from_value(s[4].as_ref().expect("component f4 of Ts5mmddmn must be present")),
        }
    }
}
impl ToValue for Ts5mmddmn {
    fn to_value(&self) -> Value {
        Value::Seq(vec![
            Some(self.f0.to_value()),
            Some(self.f1.to_value()),
            Some(self.f2.to_value()),
            Some(self.f3.to_value()),
            Some(self.f4.to_value()),
        ])
    }
}
impl FromValue for Ts5mmddme0 {
    fn from_value(v: &Value) -> Self {
        let s = match v { Value::Seq(s) => s, other => panic!("Ts5mmddme0: expected Seq, got {other:?}") };
        assert_eq!(s.len(), 5, "Ts5mmddme0: component count");
        let _ = s;
        Ts5mmddme0 {
            f0: FromValue::from_value(s[0].as_ref().expect("component f0 of Ts5mmddme0 must be present")),
            f1: s[1].as_ref().map(FromValue::from_value),
            f2: FromValue::from_value(s[2].as_ref().expect("component f2 of Ts5mmddme0 must be present")),
            f3: FromValue::from_value(s[3].as_ref().expect("component f3 of Ts5mmddme0 must be present")),
            f4: s[4].as_ref().map(FromValue::from_value),
        }
    }
}
impl ToValue for Ts5mmddme0 {
    fn to_value(&self) -> Value {
        Value::Seq(vec![
            Some(self.f0.to_value()),
            self.f1.as_ref().map(|x| x.to_value()),
            Some(self.f2.to_value()),
            Some(self.f3.to_value()),
            self.f4.as_ref().map(|x| x.to_value()),
        ])
    }
}
impl FromValue for Ts5mmddme1 {
    fn from_value(v: &Value) -> Self {
        let s = match v { Value::Seq(s) => s, other => panic!("Ts5mmddme1: expected Seq, got {other:?}") };
        assert_eq!(s.len(), 5, "Ts5mmddme1: component count");
        let _ = s;
        Ts5mmddme1 {
            f0: FromValue::from_value(s[0].as_ref().expect("component f0 of Ts5mmddme1 must be present")),
            f1: s[1].as_ref().map(FromValue::from_value),
            f2: FromValue::from_value(s[2].as_ref().expect("component f2 of Ts5mmddme1 must be present")),
            f3: FromValue::from_value(s[3].as_ref().expect("component f3 of Ts5mmddme1 must be present")),
            f4: s[4].as_ref().map(FromValue::from_value),
        }
    }
}
impl ToValue for Ts5mmddme1 {
    fn to_value(&self) -> Value {
        Value::Seq(vec![
            Some(self.f0.to_value()),
            self.f1.as_ref().map(|x| x.to_value()),
            Some(self.f2.to_value()),
            Some(self.f3.to_value()),
            self.f4.as_ref().map(|x| x.to_value()),
        ])
    }
}
impl FromValue for Ts5mmddme2 {
    fn from_value(v: &Value) -> Self {
        let s = match v { Value::Seq(s) => s, other => panic!("Ts5mmddme2: expected Seq, got {other:?}") };
        assert_eq!(s.len(), 5, "Ts5mmddme2: component count");
        let _ = s;
        Ts5mmddme2 {
            f0: FromValue::from_value(s[0].as_ref().expect("component f0 of Ts5mmddme2 must be present")),
            f1: FromValue::from_value(s[1].as_ref().expect("component f1 of Ts5mmddme2 must be present")),
            f2: FromValue::from_value(s[2].as_ref().expect("component f2 of Ts5mmddme2 must be present")),
            f3: FromValue::from_value(s[3].as_ref().expect("component f3 of Ts5mmddme2 must be present")),
            f4: s[4].as_ref().map(FromValue::from_value),
        }
    }
}
impl ToValue for Ts5mmddme2 {
    fn to_value(&self) -> Value {
        Value::Seq(vec![
            Some(self.f0.to_value()),
            Some(self.f1.to_value()),
            Some(self.f2.to_value()),
            Some(self.f3.to_value()),
            self.f4.as_ref().map(|x| x.to_value()),
        ])
    }
}
impl FromValue for Ts5mmddme3 {
    fn from_value(v: &Value) -> Self {
        let s = match v { Value::Seq(s) => s, other => panic!("Ts5mmddme3: expected Seq, got {other:?}") };
        assert_eq!(s.len(), 5, "Ts5mmddme3: component count");
        let _ = s;
        Ts5mmddme3 {
            f0: FromValue::from_value(s[0].as_ref().expect("component f0 of Ts5mmddme3 must be present")),
            f1: FromValue::from_value(s[1].as_ref().expect("component f1 of Ts5mmddme3 must be present")),
            f2: FromValue::from_value(s[2].as_ref().expect("component f2 of Ts5mmddme3 must be present")),
            f3: FromValue::from_value(s[3].as_ref().expect("component f3 of Ts5mmddme3 must be present")),
            f4: s[4].as_ref().map(FromValue::from_value),
        }
    }
}
impl ToValue for Ts5mmddme3 {
    fn to_value(&self) -> Value {
        Value::Seq(vec![
            Some(self.f0.to_value()),
            Some(self.f1.to_value()),
            Some(self.f2.to_value()),
            Some(self.f3.to_value()),
            self.f4.as_ref().map(|x| x.to_value()),
        ])
    }
}
impl FromValue for Ts5mmddme4 {
    fn from_value(v: &Value) -> Self {
        let s = match v { Value::Seq(s) => s, other => panic!("Ts5mmddme4: expected Seq, got {other:?}") };
        assert_eq!(s.len(), 5, "Ts5mmddme4: component count");
        let _ = s;
        Ts5mmddme4 {
            f0: FromValue::from_value(s[0].as_ref().expect("component f0 of Ts5mmddme4 must be present")),
            f1: FromValue::from_value(s[1].as_ref().expect("component f1 of Ts5mmddme4 must be present")),
            f2: FromValue::from_value(s[2].as_ref().expect("component f2 of Ts5mmddme4 must be present")),
            f3: FromValue::from_value(s[3].as_ref().expect("component f3 of Ts5mmddme4 must be present")),
            f4: s[4].as_ref().map(FromValue::from_value),
        }
    }
}
impl ToValue for Ts5mmddme4 {
    fn to_value(&self) -> Value {
        Value::Seq(vec![
            Some(self.f0.to_value()),
            Some(self.f1.to_value()),
            Some(self.f2.to_value()),
            Some(self.f3.to_value()),
            self.f4.as_ref().map(|x| x.to_value()),
        ])
    }
}
impl FromValue for Ts5mmddme5 {
    fn from_value(v: &Value) -> Self {
        let s = match v { Value::Seq(s) => s, other => panic!("Ts5mmddme5: expected Seq, got {other:?}") };
        assert_eq!(s.len(), 5, "Ts5mmddme5: component count");
        let _ = s;
        Ts5mmddme5 {
            f0: FromValue::from_value(s[0].as_ref().expect("component f0 of Ts5mmddme5 must be present")),
            f1: FromValue::from_value(s[1].as_ref().expect("component f1 of Ts5mmddme5 must be present")),
            f2: FromValue::from_value(s[2].as_ref().expect("component f2 of Ts5mmddme5 must be present")),
            f3: FromValue::from_value(s[3].as_ref().expect("component f3 of Ts5mmddme5 must be present")),
            f4: FromValue::from_value(s[4].as_ref().expect("component f4 of Ts5mmddme5 must be present")),
        }
    }
}
impl ToValue for Ts5mmddme5 {
    fn to_value(&self) -> Value {
        Value::Seq(vec![
            Some(self.f0.to_value()),
            Some(self.f1.to_value()),
            Some(self.f2.to_value()),
            Some(self.f3.to_value()),
            Some(self.f4.to_value()),
        ])
    }
}
impl FromValue for Ts5omddmn {
    fn from_value(v: &Value) -> Self {
        let s = match v { Value::Seq(s) => s, other => panic!("Ts5omddmn: expected Seq, got {other:?}") };
        assert_eq!(s.len(), 5, "Ts5omddmn: component count");
        let _ = s;
        Ts5omddmn {
            f0: s[0].as_ref().map(FromValue::from_value),
            f1: FromValue::from_value(s[1].as_ref().expect("component f1 of Ts5omddmn must be present")),
            f2: FromValue::from_value(s[2].as_ref().expect("component f2 of Ts5omddmn must be present")),
            f3: FromValue::from_value(s[3].as_ref().expect("component f3 of Ts5omddmn must be present")),
            f4: FromValue::from_value(s[4].as_ref().expect("component f4 of Ts5omddmn must be present")),
        }
    }
}
impl ToValue for Ts5omddmn {
    fn to_value(&self) -> Value {
        Value::Seq(vec![
            self.f0.as_ref().map(|x| x.to_value()),
            Some(self.f1.to_value()),
            Some(self.f2.to_value()),
            Some(self.f3.to_value()),
            Some(self.f4.to_value()),
        ])
    }
}
impl FromValue for Ts5omddme0 {
    fn from_value(v: &Value) -> Self {
        let s = match v { Value::Seq(s) => s, other => panic!("Ts5omddme0: expected Seq, got {other:?}") };
        assert_eq!(s.len(), 5, "Ts5omddme0: component count");
        let _ = s;
        Ts5omddme0 {
            f0: s[0].as_ref().map(FromValue::from_value),
            f1: s[1].as_ref().map(FromValue::from_value),
            f2: FromValue::from_value(s[2].as_ref().expect("component f2 of Ts5omddme0 must be present")),
            f3: FromValue::from_value(s[3].as_ref().expect("component f3 of Ts5omddme0 must be present")),
            f4: s[4].as_ref().map(FromValue::from_value),
        }
    }
}
impl ToValue for Ts5omddme0 {
    fn to_value(&self) -> Value {
        Value::Seq(vec![
            self.f0.as_ref().map(|x| x.to_value()),
            self.f1.as_ref().map(|x| x.to_value()),
            Some(self.f2.to_value()),
            Some(self.f3.to_value()),
            self.f4.as_ref().map(|x| x.to_value()),
        ])
    }
}
impl FromValue for Ts5omddme1 {
    fn from_value(v: &Value) -> Self {
        let s = match v { Value::Seq(s) => s, other => panic!("Ts5omddme1: expected Seq, got {other:?}") };
        assert_eq!(s.len(), 5, "Ts5omddme1: component count");
        let _ = s;
        Ts5omddme1 {
            f0: s[0].as_ref().map(FromValue::from_value),
            f1: s[1].as_ref().map(FromValue::from_value),
            f2: FromValue::from_value(s[2].as_ref().expect("component f2 of Ts5omddme1 must be present")),
            f3: FromValue::from_value(s[3].as_ref().expect("component f3 of Ts5omddme1 must be present")),
            f4: s[4].as_ref().map(FromValue::from_value),
        }
    }
}
impl ToValue for Ts5omddme1 {
    fn to_value(&self) -> Value {
        Value::Seq(vec![
            self.f0.as_ref().map(|x| x.to_value()),
            self.f1.as_ref().map(|x| x.to_value()),
            Some(self.f2.to_value()),
            Some(self.f3.to_value()),
            self.f4.as_ref().map(|x| x.to_value()),
        ])
    }
}
impl FromValue for Ts5omddme2 {
    fn from_value(v: &Value) -> Self {
        let s = match v { Value::Seq(s) => s, other => panic!("Ts5omddme2: expected Seq, got {other:?}") };
        assert_eq!(s.len(), 5, "Ts5omddme2: component count");
        let _ = s;
        Ts5omddme2 {
            f0: s[0].as_ref().map(FromValue::from_value),
            f1: FromValue::from_value(s[1].as_ref().expect("component f1 of Ts5omddme2 must be present")),
            f2: FromValue::from_value(s[2].as_ref().expect("component f2 of Ts5omddme2 must be present")),
            f3: FromValue::from_value(s[3].as_ref().expect("component f3 of Ts5omddme2 must be present")),
            f4: s[4].as_ref().map(FromValue::from_value),
        }
    }
}
impl ToValue for Ts5omddme2 {
    fn to_value(&self) -> Value {
        Value::Seq(vec![
            self.f0.as_ref().map(|x| x.to_value()),
            Some(self.f1.to_value()),
            Some(self.f2.to_value()),
            Some(self.f3.to_value()),
            self.f4.as_ref().map(|x| x.to_value()),
        ])
    }
}
impl FromValue for Ts5omddme3 {
    fn from_value(v: &Value) -> Self {
        let s = match v { Value::Seq(s) => s, other => panic!("Ts5omddme3: expected Seq, got {other:?}") };
        assert_eq!(s.len(), 5, "Ts5omddme3: component count");
        let _ = s;
        Ts5omddme3 {
            f0: s[0].as_ref().map(FromValue::from_value),
            f1: FromValue::from_value(s[1].as_ref().expect("component f1 of Ts5omddme3 must be present")),
            f2: FromValue::from_value(s[2].as_ref().expect("component f2 of Ts5omddme3 must be present")),
            f3: FromValue::from_value(s[3].as_ref().expect("component f3 of Ts5omddme3 must be present")),
            f4: s[4].as_ref().map(FromValue::from_value),
        }
    }
}
impl ToValue for Ts5omddme3 {
    fn to_value(&self) -> Value {
        Value::Seq(vec![
            self.f0.as_ref().map(|x| x.to_value()),
            Some(self.f1.to_value()),
            Some(self.f2.to_value()),
            Some(self.f3.to_value()),
            self.f4.as_ref().map(|x| x.to_value()),
        ])
    }
}
impl FromValue for Ts5omddme4 {
    fn from_value(v: &Value) -> Self {
        let s = match v { Value::Seq(s) => s, other => panic!("Ts5omddme4: expected Seq, got {other:?}") };
        assert_eq!(s.len(), 5, "Ts5omddme4: component count");
        let _ = s;
        Ts5omddme4 {
            f0: s[0].as_ref().map(FromValue::from_value),
            f1: FromValue::from_value(s[1].as_ref().expect("component f1 of Ts5omddme4 must be present")),
            f2: FromValue::from_value(s[2].as_ref().expect("component f2 of Ts5omddme4 must be present")),
            f3: FromValue::from_value(s[3].as_ref().expect("component f3 of Ts5omddme4 must be present")),
            f4: s[4].as_ref().map(FromValue::from_value),
        }
    }
}
impl ToValue for Ts5omddme4 {
    fn to_value(&self) -> Value {
        Value::Seq(vec![
            self.f0.as_ref().map(|x| x.to_value()),
            Some(self.f1.to_value()),
            Some(self.f2.to_value()),
            Some(self.f3.to_value()),
            self.f4.as_ref().map(|x| x.to_value()),
        ])
    }
}
impl FromValue for Ts5omddme5 {
    fn from_value(v: &Value) -> Self {
        let s = match v { Value::Seq(s) => s, other => panic!("Ts5omddme5: expected Seq, got {other:?}") };
        assert_eq!(s.len(), 5, "Ts5omddme5: component count");
        let _ = s;
        Ts5omddme5 {
            f0: s[0].as_ref().map(FromValue::from_value),
            f1: FromValue::from_value(s[1].as_ref().expect("component f1 of Ts5omddme5 must be present")),
            f2: FromValue::from_value(s[2].as_ref().expect("component f2 of Ts5omddme5 must be present")),
            f3: FromValue::from_value(s[3].as_ref().expect("component f3 of Ts5omddme5 must be present")),
            f4: FromValue::from_value(s[4].as_ref().expect("component f4 of Ts5omddme5 must be present")),
        }
    }
}
impl ToValue for Ts5omddme5 {
    fn to_value(&self) -> Value {
        Value::Seq(vec![
            self.f0.as_ref().map(|x| x.to_value()),
            Some(self.f1.to_value()),
            Some(self.f2.to_value()),
            Some(self.f3.to_value()),
            Some(self.f4.to_value()),
        ])
    }
}
impl FromValue for Ts5dmddmn {
    fn from_value(v: &Value) -> Self {
        let s = match v { Value::Seq(s) => s, other => panic!("Ts5dmddmn: expected Seq, got {other:?}") };
        assert_eq!(s.len(), 5, "Ts5dmddmn: component count");
        let _ = s;
        Ts5dmddmn {
            f0: FromValue::from_value(s[0].as_ref().expect("component f0 of Ts5dmddmn must be present")),
            f1: FromValue::from_value(s[1].as_ref().expect("component f1 of Ts5dmddmn must be present")),
            f2: FromValue::from_value(s[2].as_ref().expect("component f2 of Ts5dmddmn must be present")),
            f3: FromValue::from_value(s[3].as_ref().expect("component f3 of Ts5dmddmn must be present")),
            f4: FromValue::from_value(s[4].as_ref().expect("component f4 of Ts5dmddmn must be present")),
        }
    }
}
impl ToValue for Ts5dmddmn {
    fn to_value(&self) -> Value {
        Value::Seq(vec![
            Some(self.f0.to_value()),
            Some(self.f1.to_value()),
            Some(self.f2.to_value()),
            Some(self.f3.to_value()),
            Some(self.f4.to_value()),
        ])
    }
}
impl FromValue for Ts5dmddme0 {
    fn from_value(v: &Value) -> Self {
        let s = match v { Value::Seq(s) => s, other => panic!("Ts5dmddme0: expected Seq, got {other:?}") };
        assert_eq!(s.len(), 5, "Ts5dmddme0: component count");
        let _ = s;
        Ts5dmddme0 {
            f0: FromValue::from_value(s[0].as_ref().expect("component f0 of Ts5dmddme0 must be present")),
            f1: s[1].as_ref().map(FromValue::from_value),
            f2: FromValue::from_value(s[2].as_ref().expect("component f2 of Ts5dmddme0 must be present")),
            f3: FromValue::from_value(s[3].as_ref().expect("component f3 of Ts5dmddme0 must be present")),
            f4: s[4].as_ref().map(FromValue::from_value),
        }
    }
}
impl ToValue for Ts5dmddme0 {
    fn to_value(&self) -> Value {
        Value::Seq(vec![
            Some(self.f0.to_value()),
            self.f1.as_ref().map(|x| x.to_value()),
            Some(self.f2.to_value()),
            Some(self.f3.to_value()),
            self.f4.as_ref().map(|x| x.to_value()),
        ])
    }
}
impl FromValue for Ts5dmddme1 {
    fn from_value(v: &Value) -> Self {
        let s = match v { Value::Seq(s) => s, other => panic!("Ts5dmddme1: expected Seq, got {other:?}") };
        assert_eq!(s.len(), 5, "Ts5dmddme1: component count");
        let _ = s;
        Ts5dmddme1 {
            f0: FromValue::from_value(s[0].as_ref().expect("component f0 of Ts5dmddme1 must be present")),
            f1: s[1].as_ref().map(FromValue::from_value),
            f2: FromValue::from_value(s[2].as_ref().expect("component f2 of Ts5dmddme1 must be present")),
            f3: FromValue::from_value(s[3].as_ref().expect("component f3 of Ts5dmddme1 must be present")),
            f4: s[4].as_ref().map(FromValue::from_value),
        }
    }
}
impl ToValue for Ts5dmddme1 {
    fn to_value(&self) -> Value {
        Value::Seq(vec![
            Some(self.f0.to_value()),
            self.f1.as_ref().map(|x| x.to_value()),
            Some(self.f2.to_value()),
            Some(self.f3.to_value()),
            self.f4.as_ref().map(|x| x.to_value()),
        ])
    }
}
impl FromValue for Ts5dmddme2 {
    fn from_value(v: &Value) -> Self {
        let s = match v { Value::Seq(s) => s, other => panic!("Ts5dmddme2: expected Seq, got {other:?}") };
        assert_eq!(s.len(), 5, "Ts5dmddme2: component count");
        let _ = s;
        Ts5dmddme2 {
            f0: FromValue::from_value(s[0].as_ref().expect("component f0 of Ts5dmddme2 must be present")),
            f1: FromValue::from_value(s[1].as_ref().expect("component f1 of Ts5dmddme2 must be present")),
            f2: FromValue::from_value(s[2].as_ref().expect("component f2 of Ts5dmddme2 must be present")),
            f3: FromValue::from_value(s[3].as_ref().expect("component f3 of Ts5dmddme2 must be present")),
            f4: s[4].as_ref().map(FromValue::from_value),
        }
    }
}
impl ToValue for Ts5dmddme2 {
    fn to_value(&self) -> Value {
        Value::Seq(vec![
            Some(self.f0.to_value()),
            Some(self.f1.to_value()),
            Some(self.f2.to_value()),
            Some(self.f3.to_value()),
            self.f4.as_ref().map(|x| x.to_value()),
        ])
    }
}
impl FromValue for Ts5dmddme3 {
    fn from_value(v: &Value) -> Self {
        let s = match v { Value::Seq(s) => s, other => panic!("Ts5dmddme3: expected Seq, got {other:?}") };
        assert_eq!(s.len(), 5, "Ts5dmddme3: component count");
        let _ = s;
        Ts5dmddme3 {
            f0: FromValue::from_value(s[0].as_ref().expect("component f0 of Ts5dmddme3 must be present")),
            f1: FromValue::from_value(s[1].as_ref().expect("component f1 of Ts5dmddme3 must be present")),
            f2: FromValue::from_value(s[2].as_ref().expect("component f2 of Ts5dmddme3 must be present")),
            f3: FromValue::from_value(s[3].as_ref().expect("component f3 of Ts5dmddme3 must be present")),
            f4: s[4].as_ref().map(FromValue::from_value),
        }
    }
}
impl ToValue for Ts5dmddme3 {
    fn to_value(&self) -> Value {
        Value::Seq(vec![
            Some(self.f0.to_value()),
            Some(self.f1.to_value()),
            Some(self.f2.to_value()),
            Some(self.f3.to_value()),
            self.f4.as_ref().map(|x| x.to_value()),
        ])
    }
}
impl FromValue for Ts5dmddme4 {
    fn from_value(v: &Value) -> Self {
        let s = match v { Value::Seq(s) => s, other => panic!("Ts5dmddme4: expected Seq, got {other:?}") };
        assert_eq!(s.len(), 5, "Ts5dmddme4: component count");
        let _ = s;
        Ts5dmddme4 {
            f0: FromValue::from_value(s[0].as_ref().expect("component f0 of Ts5dmddme4 must be present")),
            f1: FromValue::from_value(s[1].as_ref().expect("component f1 of Ts5dmddme4 must be present")),
            f2: FromValue::from_value(s[2].as_ref().expect("component f2 of Ts5dmddme4 must be present")),
            f3: FromValue::from_value(s[3].as_ref().expect("component f3 of Ts5dmddme4 must be present")),
            f4: s[4].as_ref().map(FromValue::from_value),
        }
    }
}
impl ToValue for Ts5dmddme4 {
    fn to_value(&self) -> Value {
        Value::Seq(vec![
            Some(self.f0.to_value()),
            Some(self.f1.to_value()),
            Some(self.f2.to_value()),
            Some(self.f3.to_value()),
            self.f4.as_ref().map(|x| x.to_value()),
        ])
    }
}
impl FromValue for Ts5dmddme5 {
    fn from_value(v: &Value) -> Self {
        let s = match v { Value::Seq(s) => s, other => panic!("Ts5dmddme5: expected Seq, got {other:?}") };
        assert_eq!(s.len(), 5, "Ts5dmddme5: component count");
        let _ = s;
        Ts5dmddme5 {
            f0: FromValue::from_value(s[0].as_ref().expect("component f0 of Ts5dmddme5 must be present")),
            f1: FromValue::from_value(s[1].as_ref().expect("component f1 of Ts5dmddme5 must be present")),
            f2: FromValue::from_value(s[2].as_ref().expect("component f2 of Ts5dmddme5 must be present")),
            f3: FromValue::from_value(s[3].as_ref().expect("component f3 of Ts5dmddme5 must be present")),
            f4: FromValue::from_value(s[4].as_ref().expect("component f4 of Ts5dmddme5 must be present")),
        }
    }
}
impl ToValue for Ts5dmddme5 {
    fn to_value(&self) -> Value {
        Value::Seq(vec![
            Some(self.f0.to_value()),
            Some(self.f1.to_value()),
            Some(self.f2.to_value()),
            Some(self.f3.to_value()),
            Some(self.f4.to_value()),
        ])
    }
}
impl FromValue for Ts5moddmn {
    fn from_value(v: &Value) -> Self {
        let s = match v { Value::Seq(s) => s, other => panic!("Ts5moddmn: expected Seq, got {other:?}") };
        assert_eq!(s.len(), 5, "Ts5moddmn: component count");
        let _ = s;
        Ts5moddmn {
            f0: FromValue::from_value(s[0].as_ref().expect("component f0 of Ts5moddmn must be present")),
            f1: s[1].as_ref().map(FromValue::from_value),
            f2: FromValue::from_value(s[2].as_ref().expect("component f2 of Ts5moddmn must be present")),
            f3: FromValue::from_value(s[3].as_ref().expect("component f3 of Ts5moddmn must be present")),
            f4: FromValue::from_value(s[4].as_ref().expect("component f4 of Ts5moddmn must be present")),
        }
    }
}
impl ToValue for Ts5moddmn {
    fn to_value(&self) -> Value {
        Value::Seq(vec![
            Some(self.f0.to_value()),
            self.f1.as_ref().map(|x| x.to_value()),
            Some(self.f2.to_value()),
            Some(self.f3.to_value()),
            Some(self.f4.to_value()),
        ])
    }
}
impl FromValue for Ts5moddme0 {
    fn from_value(v: &Value) -> Self {
        let s = match v { Value::Seq(s) => s, other => panic!("Ts5moddme0: expected Seq, got {other:?}") };
        assert_eq!(s.len(), 5, "Ts5moddme0: component count");
        let _ = s;
        Ts5moddme0 {
            f0: FromValue::from_value(s[0].as_ref().expect("component f0 of Ts5moddme0 must be present")),
            f1: s[1].as_ref().map(FromValue::from_value),
            f2: FromValue::from_value(s[2].as_ref().expect("component f2 of Ts5moddme0 must be present")),
            f3: FromValue::from_value(s[3].as_ref().expect("component f3 of Ts5moddme0 must be present")),
            f4: s[4].as_ref().map(FromValue::from_value),
        }
    }
}
impl ToValue for Ts5moddme0 {
    fn to_value(&self) -> Value {
        Value::Seq(vec![
            Some(self.f0.to_value()),
            self.f1.as_ref().map(|x| x.to_value()),
            Some(self.f2.to_value()),
            Some(self.f3.to_value()),
            self.f4.as_ref().map(|x| x.to_value()),
        ])
    }
}
impl FromValue for Ts5moddme1 {
    fn from_value(v: &Value) -> Self {
        let s = match v { Value::Seq(s) => s, other => panic!("Ts5moddme1: expected Seq, got {other:?}") };
        assert_eq!(s.len(), 5, "Ts5moddme1: component count");
        let _ = s;
        Ts5moddme1 {
            f0: FromValue::from_value(s[0].as_ref().expect("component f0 of Ts5moddme1 must be present")),
            f1: s[1].as_ref().map(FromValue::from_value),
            f2: FromValue::from_value(s[2].as_ref().expect("component f2 of Ts5moddme1 must be present")),
            f3: FromValue::from_value(s[3].as_ref().expect("component f3 of Ts5moddme1 must be present")),
            f4: s[4].as_ref().map(FromValue::from_value),
        }
    }
}
impl ToValue for Ts5moddme1 {
    fn to_value(&self) -> Value {
        Value::Seq(vec![
            Some(self.f0.to_value()),
            self.f1.as_ref().map(|x| x.to_value()),
            Some(self.f2.to_value()),
            Some(self.f3.to_value()),
            self.f4.as_ref().map(|x| x.to_value()),
        ])
    }
}
impl FromValue for Ts5moddme2 {
    fn from_value(v: &Value) -> Self {
        let s = match v { Value::Seq(s) => s, other => panic!("Ts5moddme2: expected Seq, got {other:?}") };
        assert_eq!(s.len(), 5, "Ts5moddme2: component count");
        let _ = s;
        Ts5moddme2 {
            f0: FromValue::from_value(s[0].as_ref().expect("component f0 of Ts5moddme2 must be present")),
            f1: s[1].as_ref().map(FromValue::from_value),
            f2: FromValue::from_value(s[2].as_ref().expect("component f2 of Ts5moddme2 must be present")),
            f3: FromValue::from_value(s[3].as_ref().expect("component f3 of Ts5moddme2 must be present")),
            f4: s[4].as_ref().map(FromValue::from_value),
        }
    }
}
impl ToValue for Ts5moddme2 {
    fn to_value(&self) -> Value {
        Value::Seq(vec![
            Some(self.f0.to_value()),
            self.f1.as_ref().map(|x| x.to_value()),
            Some(self.f2.to_value()),
            Some(self.f3.to_value()),
            self.f4.as_ref().map(|x| x.to_value()),
        ])
    }
}
impl FromValue for Ts5moddme3 {
    fn from_value(v: &Value) -> Self {
        let s = match v { Value::Seq(s) => s, other => panic!("Ts5moddme3: expected Seq, got {other:?}") };
        assert_eq!(s.len(), 5, "Ts5moddme3: component count");
        let _ = s;
        Ts5moddme3 {
            f0: FromValue::from_value(s[0].as_ref().expect("component f0 of Ts5moddme3 must be present")),
            f1: s[1].as_ref().map(FromValue::from_value),
            f2: FromValue::from_value(s[2].as_ref().expect("component f2 of Ts5moddme3 must be present")),
            f3: FromValue::from_value(s[3].as_ref().expect("component f3 of Ts5moddme3 must be present")),
            f4: s[4].as_ref().map(FromValue::from_value),
        }
    }
}
impl ToValue for Ts5moddme3 {
    fn to_value(&self) -> Value {
        Value::Seq(vec![
            Some(self.f0.to_value()),
            self.f1.as_ref().map(|x| x.to_value()),
            Some(self.f2.to_value()),
            Some(self.f3.to_value()),
            self.f4.as_ref().map(|x| x.to_value()),
        ])
    }
}
impl FromValue for Ts5moddme4 {
    fn from_value(v: &Value) -> Self {
        let s = match v { Value::Seq(s) => s, other => panic!("Ts5moddme4: expected Seq, got {other:?}") };
        assert_eq!(s.len(), 5, "Ts5moddme4: component count");
        let _ = s;
        Ts5moddme4 {
            f0: FromValue::from_value(s[0].as_ref().expect("component f0 of Ts5moddme4 must be present")),
            f1: s[1].as_ref().map(FromValue::from_value),
            f2: FromValue::from_value(s[2].as_ref().expect("component f2 of Ts5moddme4 must be present")),
            f3: FromValue::from_value(s[3].as_ref().expect("component f3 of Ts5moddme4 must be present")),
            f4: s[4].as_ref().map(FromValue::from_value),
        }
    }
}
impl ToValue for Ts5moddme4 {
    fn to_value(&self) -> Value {
        Value::Seq(vec![
            Some(self.f0.to_value()),
            self.f1.as_ref().map(|x| x.to_value()),
            Some(self.f2.to_value()),
            Some(self.f3.to_value()),
            self.f4.as_ref().map(|x| x.to_value()),
        ])
    }
}
impl FromValue for Ts5moddme5 {
    fn from_value(v: &Value) -> Self {
        let s = match v { Value::Seq(s) => s, other => panic!("Ts5moddme5: expected Seq, got {other:?}") };
        assert_eq!(s.len(), 5, "Ts5moddme5: component count");
        let _ = s;
        Ts5moddme5 {
            f0: FromValue::from_value(s[0].as_ref().expect("component f0 of Ts5moddme5 must be present")),
            f1: s[1].as_ref().map(FromValue::from_value),
            f2: FromValue::from_value(s[2].as_ref().expect("component f2 of Ts5moddme5 must be present")),
            f3: FromValue::from_value(s[3].as_ref().expect("component f3 of Ts5moddme5 must be present")),
            f4: FromValue::from_value(s[4].as_ref().expect("component f4 of Ts5moddme5 must be present")),
        }
    }
}
impl ToValue for Ts5moddme5 {
    fn to_value(&self) -> Value {
        Value::Seq(vec![
            Some(self.f0.to_value()),
            self.f1.as_ref().map(|x| x.to_value()),
            Some(self.f2.to_value()),
            Some(self.f3.to_value()),
            Some(self.f4.to_value()),
        ])
    }
}
impl FromValue for Ts5ooddmn {
    fn from_value(v: &Value) -> Self {
        let s = match v { Value::Seq(s) => s, other => panic!("Ts5ooddmn: expected Seq, got {other:?}") };
        assert_eq!(s.len(), 5, "Ts5ooddmn: component count");
        let _ = s;
        Ts5ooddmn {
            f0: s[0].as_ref().map(FromValue::from_value),
            f1: s[1].as_ref().map(FromValue::from_value),
            f2: FromValue::from_value(s[2].as_ref().expect("component f2 of Ts5ooddmn must be present")),
            f3: FromValue::from_value(s[3].as_ref().expect("component f3 of Ts5ooddmn must be present")),
            f4: FromValue::from_value(s[4].as_ref().expect("component f4 of Ts5ooddmn must be present")),
        }
    }
}
impl ToValue for Ts5ooddmn {
    fn to_value(&self) -> Value {
        Value::Seq(vec![
            self.f0.as_ref().map(|x| x.to_value()),
            self.f1.as_ref().map(|x| x.to_value()),
            Some(self.f2.to_value()),
            Some(self.f3.to_value()),
            Some(self.f4.to_value()),
        ])
    }
}
impl FromValue for Ts5ooddme0 {
    fn from_value(v: &Value) -> Self {
        let s = match v { Value::Seq(s) => s, other => panic!("Ts5ooddme0: expected Seq, got {other:?}") };
        assert_eq!(s.len(), 5, "Ts5ooddme0: component count");
        let _ = s;
        Ts5ooddme0 {
            f0: s[0].as_ref().map(FromValue::from_value),
            f1: s[1].as_ref().map(FromValue::from_value),
            f2: FromValue::from_value(s[2].as_ref().expect("component f2 of Ts5ooddme0 must be present")),
            f3: FromValue::from_value(s[3].as_ref().expect("component f3 of Ts5ooddme0 must be present")),
            f4: s[4].as_ref().map(FromValue::from_value),
        }
    }
}
impl ToValue for Ts5ooddme0 {
    fn to_value(&self) -> Value {
        Value::Seq(vec![
            self.f0.as_ref().map(|x| x.to_value()),
            self.f1.as_ref().map(|x| x.to_value()),
            Some(self.f2.to_value()),
            Some(self.f3.to_value()),
            self.f4.as_ref().map(|x| x.to_value()),
        ])
    }
}
impl FromValue for Ts5ooddme1 {
    fn from_value(v: &Value) -> Self {
        let s = match v { Value::Seq(s) => s, other => panic!("Ts5ooddme1: expected Seq, got {other:?}") };
        assert_eq!(s.len(), 5, "Ts5ooddme1: component count");
        let _ = s;
        Ts5ooddme1 {
            f0: s[0].as_ref().map(FromValue::from_value),
            f1: s[1].as_ref().map(FromValue::from_value),
            f2: FromValue::from_value(s[2].as_ref().expect("component f2 of Ts5ooddme1 must be present")),
            f3: FromValue::from_value(s[3].as_ref().expect("component f3 of Ts5ooddme1 must be present")),
            f4: s[4].as_ref().map(FromValue::from_value),
        }
    }
}
impl ToValue for Ts5ooddme1 {
    fn to_value(&self) -> Value {
        Value::Seq(vec![
            self.f0.as_ref().map(|x| x.to_value()),
            self.f1.as_ref().map(|x| x.to_value()),
            Some(self.f2.to_value()),
            Some(self.f3.to_value()),
            self.f4.as_ref().map(|x| x.to_value()),
        ])
    }
}
impl FromValue for Ts5ooddme2 {
    fn from_value(v: &Value) -> Self {
        let s = match v { Value::Seq(s) => s, other => panic!("Ts5ooddme2: expected Seq, got {other:?}") };
        assert_eq!(s.len(), 5, "Ts5ooddme2: component count");
        let _ = s;
        Ts5ooddme2 {
            f0: s[0].as_ref().map(FromValue::from_value),
            f1: s[1].as_ref().map(FromValue::from_value),
            f2: FromValue::from_value(s[2].as_ref().expect("component f2 of Ts5ooddme2 must be present")),
            f3: FromValue::from_value(s[3].as_ref().expect("component f3 of Ts5ooddme2 must be present")),
            f4: s[4].as_ref().map(FromValue::from_value),
        }
    }
}
impl ToValue for Ts5ooddme2 {
    fn to_value(&self) -> Value {
        Value::Seq(vec![
            self.f0.as_ref().map(|x| x.to_value()),
            self.f1.as_ref().map(|x| x.to_value()),
            Some(self.f2.to_value()),
            Some(self.f3.to_value()),
            self.f4.as_ref().map(|x| x.to_value()),
        ])
    }
}
impl FromValue for Ts5ooddme3 {
    fn from_value(v: &Value) -> Self {
        let s = match v { Value::Seq(s) => s, other => panic!("Ts5ooddme3: expected Seq, got {other:?}") };
        assert_eq!(s.len(), 5, "Ts5ooddme3: component count");
        let _ = s;
        Ts5ooddme3 {
            f0: s[0].as_ref().map(FromValue::from_value),
            f1: s[1].as_ref().map(FromValue::from_value),
            f2: FromValue::from_value(s[2].as_ref().expect("component f2 of Ts5ooddme3 must be present")),
            f3: FromValue::from_value(s[3].as_ref().expect("component f3 of Ts5ooddme3 must be present")),
            f4: s[4].as_ref().map(FromValue::from_value),
        }
    }
}
impl ToValue for Ts5ooddme3 {
    fn to_value(&self) -> Value {
        Value::Seq(vec![
            self.f0.as_ref().map(|x| x.to_value()),
            self.f1.as_ref().map(|x| x.to_value()),
            Some(self.f2.to_value()),
            Some(self.f3.to_value()),
            self.f4.as_ref().map(|x| x.to_value()),
        ])
    }
}
impl FromValue for Ts5ooddme4 {
    fn from_value(v: &Value) -> Self {
        let s = match v { Value::Seq(s) => s, other => panic!("Ts5ooddme4: expected Seq, got {other:?}") };
        assert_eq!(s.len(), 5, "Ts5ooddme4: component count");
        let _ = s;
        Ts5ooddme4 {
            f0: s[0].as_ref().map(FromValue::from_value),
            f1: s[1].as_ref().map(FromValue::from_value),
            f2: FromValue::from_value(s[2].as_ref().expect("component f2 of Ts5ooddme4 must be present")),
            f3: FromValue::from_value(s[3].as_ref().expect("component f3 of Ts5ooddme4 must be present")),
            f4: s[4].as_ref().map(FromValue::from_value),
        }
    }
}
impl ToValue for Ts5ooddme4 {
    fn to_value(&self) -> Value {
        Value::Seq(vec![
            self.f0.as_ref().map(|x| x.to_value()),
            self.f1.as_ref().map(|x| x.to_value()),
            Some(self.f2.to_value()),
            Some(self.f3.to_value()),
            self.f4.as_ref().map(|x| x.to_value()),
        ])
    }
}
impl FromValue for Ts5ooddme5 {
    fn from_value(v: &Value) -> Self {
        let s = match v { Value::Seq(s) => s, other => panic!("Ts5ooddme5: expected Seq, got {other:?}") };
        assert_eq!(s.len(), 5, "Ts5ooddme5: component count");
        let _ = s;
        Ts5ooddme5 {
            f0: s[0].as_ref().map(FromValue::from_value),
            f1: s[1].as_ref().map(FromValue::from_value),
            f2: FromValue::from_value(s[2].as_ref().expect("component f2 of Ts5ooddme5 must be present")),
            f3: FromValue::from_value(s[3].as_ref().expect("component f3 of Ts5ooddme5 must be present")),
            f4: FromValue::from_value(s[4].as_ref().expect("component f4 of Ts5ooddme5 must be present")),
        }
    }
}
impl ToValue for Ts5ooddme5 {
    fn to_value(&self) -> Value {
        Value::Seq(vec![
            self.f0.as_ref().map(|x| x.to_value()),
            self.f1.as_ref().map(|x| x.to_value()),
            Some(self.f2.to_value()),
            Some(self.f3.to_value()),
            Some(self.f4.to_value()),
        ])
    }
}
impl FromValue for Ts5doddmn {
    fn from_value(v: &Value) -> Self {
        let s = match v { Value::Seq(s) => s, other => panic!("Ts5doddmn: expected Seq, got {other:?}") };
        assert_eq!(s.len(), 5, "Ts5doddmn: component count");
        let _ = s;
        Ts5doddmn {
            f0: FromValue::from_value(s[0].as_ref().expect("component f0 of Ts5doddmn must be present")),
            f1: s[1].as_ref().map(FromValue::from_value),
            f2: FromValue::from_value(s[2].as_ref().expect("component f2 of Ts5doddmn must be present")),
            f3: FromValue::from_value(s[3].as_ref().expect("component f3 of Ts5doddmn must be present")),
            f4: FromValue::from_value(s[4].as_ref().expect("component f4 of Ts5doddmn must be present")),
        }
    }
}
impl ToValue for Ts5doddmn {
    fn to_value(&self) -> Value {
        Value::Seq(vec![
            Some(self.f0.to_value()),
            self.f1.as_ref().map(|x| x.to_value()),
            Some(self.f2.to_value()),
            Some(self.f3.to_value()),
            Some(self.f4.to_value()),
        ])
    }
}
impl FromValue for Ts5doddme0 {
    fn from_value(v: &Value) -> Self {
        let s = match v { Value::Seq(s) => s, other => panic!("Ts5doddme0: expected Seq, got {other:?}") };
        assert_eq!(s.len(), 5, "Ts5doddme0: component count");
        let _ = s;
        Ts5doddme0 {
            f0: FromValue::from_value(s[0].as_ref().expect("component f0 of Ts5doddme0 must be present")),
            f1: s[1].as_ref().map(FromValue::from_value),
            f2: FromValue::from_value(s[2].as_ref().expect("component f2 of Ts5doddme0 must be present")),
            f3: FromValue::from_value(s[3].as_ref().expect("component f3 of Ts5doddme0 must be present")),
            f4: s[4].as_ref().map(FromValue::from_value),
        }
    }
}
impl ToValue for Ts5doddme0 {
    fn to_value(&self) -> Value {
        Value::Seq(vec![
            Some(self.f0.to_value()),
            self.f1.as_ref().map(|x| x.to_value()),
            Some(self.f2.to_value()),
            Some(self.f3.to_value()),
            self.f4.as_ref().map(|x| x.to_value()),
        ])
    }
}
impl FromValue for Ts5doddme1 {
    fn from_value(v: &Value) -> Self {
        let s = match v { Value::Seq(s) => s, other => panic!("Ts5doddme1: expected Seq, got {other:?}") };
        assert_eq!(s.len(), 5, "Ts5doddme1: component count");
        let _ = s;
        Ts5doddme1 {
            f0: FromValue::from_value(s[0].as_ref().expect("component f0 of Ts5doddme1 must be present")),
            f1: s[1].as_ref().map(FromValue::from_value),
            f2: FromValue::from_value(s[2].as_ref().expect("component f2 of Ts5doddme1 must be present")),
            f3: FromValue::from_value(s[3].as_ref().expect("component f3 of Ts5doddme1 must be present")),
            f4: s[4].as_ref().map(FromValue::from_value),
        }
    }
}
impl ToValue for Ts5doddme1 {
    fn to_value(&self) -> Value {
        Value::Seq(vec![
            Some(self.f0.to_value()),
            self.f1.as_ref().map(|x| x.to_value()),
            Some(self.f2.to_value()),
            Some(self.f3.to_value()),
            self.f4.as_ref().map(|x| x.to_value()),
        ])
    }
}
impl FromValue for Ts5doddme2 {
    fn from_value(v: &Value) -> Self {
        let s = match v { Value::Seq(s) => s, other => panic!("Ts5doddme2: expected Seq, got {other:?}") };
        assert_eq!(s.len(), 5, "Ts5doddme2: component count");
        let _ = s;
        Ts5doddme2 {
            f0: FromValue::from_value(s[0].as_ref().expect("component f0 of Ts5doddme2 must be present")),
            f1: s[1].as_ref().map(FromValue::from_value),
            f2: FromValue::from_value(s[2].as_ref().expect("component f2 of Ts5doddme2 must be present")),
            f3: FromValue::from_value(s[3].as_ref().expect("component f3 of Ts5doddme2 must be present")),
            f4: s[4].as_ref().map(FromValue::from_value),
        }
    }
}
impl ToValue for Ts5doddme2 {
    fn to_value(&self) -> Value {
        Value::Seq(vec![
            Some(self.f0.to_value()),
            self.f1.as_ref().map(|x| x.to_value()),
            Some(self.f2.to_value()),
            Some(self.f3.to_value()),
            self.f4.as_ref().map(|x| x.to_value()),
        ])
    }
}
impl FromValue for Ts5doddme3 {
    fn from_value(v: &Value) -> Self {
        let s = match v { Value::Seq(s) => s, other => panic!("Ts5doddme3: expected Seq, got {other:?}") };
        assert_eq!(s.len(), 5, "Ts5doddme3: component count");
        let _ = s;
        Ts5doddme3 {
            f0: FromValue::from_value(s[0].as_ref().expect("component f0 of Ts5doddme3 must be present")),
            f1: s[1].as_ref().map(FromValue::from_value),
            f2: FromValue::from_value(s[2].as_ref().expect("component f2 of Ts5doddme3 must be present")),
            f3: FromValue::from_value(s[3].as_ref().expect("component f3 of Ts5doddme3 must be present")),
            f4: s[4].as_ref().map(FromValue::from_value),
        }
    }
}
impl ToValue for Ts5doddme3 {
    fn to_value(&self) -> Value {
        Value::Seq(vec![
            Some(self.f0.to_value()),
            self.f1.as_ref().map(|x| x.to_value()),
            Some(self.f2.to_value()),
            Some(self.f3.to_value()),
            self.f4.as_ref().map(|x| x.to_value()),
        ])
    }
}
impl FromValue for Ts5doddme4 {
    fn from_value(v: &Value) -> Self {
        let s = match v { Value::Seq(s) => s, other => panic!("Ts5doddme4: expected Seq, got {other:?}") };
        assert_eq!(s.len(), 5, "Ts5doddme4: component count");
        let _ = s;
        Ts5doddme4 {
            f0: FromValue::from_value(s[0].as_ref().expect("component f0 of Ts5doddme4 must be present")),
            f1: s[1].as_ref().map(FromValue::from_value),
            f2: FromValue::from_value(s[2].as_ref().expect("component f2 of Ts5doddme4 must be present")),
            f3: FromValue::from_value(s[3].as_ref().expect("component f3 of Ts5doddme4 must be present")),
            f4: s[4].as_ref().map(FromValue::from_value),
        }
    }
}
impl ToValue for Ts5doddme4 {
    fn to_value(&self) -> Value {
        Value::Seq(vec![
            Some(self.f0.to_value()),
            self.f1.as_ref().map(|x| x.to_value()),
            Some(self.f2.to_value()),
            Some(self.f3.to_value()),
            self.f4.as_ref().map(|x| x.to_value()),
        ])
    }
}
impl FromValue for Ts5doddme5 {
    fn from_value(v: &Value) -> Self {
        let s = match v { Value::Seq(s) => s, other => panic!("Ts5doddme5: expected Seq, got {other:?}") };
        assert_eq!(s.len(), 5, "Ts5doddme5: component count");
        let _ = s;
        Ts5doddme5 {
            f0: FromValue::from_value(s[0].as_ref().expect("component f0 of Ts5doddme5 must be present")),
            f1: s[1].as_ref().map(FromValue::from_value),
            f2: FromValue::from_value(s[2].as_ref().expect("component f2 of Ts5doddme5 must be present")),
            f3: FromValue::from_value(s[3].as_ref().expect("component f3 of Ts5doddme5 must be present")),
            f4: FromValue::from_value(s[4].as_ref().expect("component f4 of Ts5doddme5 must be present")),
        }
    }
}
impl ToValue for Ts5doddme5 {
    fn to_value(&self) -> Value {
        Value::Seq(vec![
            Some(self.f0.to_value()),
            self.f1.as_ref().map(|x| x.to_value()),
            Some(self.f2.to_value()),
            Some(self.f3.to_value()),
            Some(self.f4.to_value()),
        ])
    }
}
impl FromValue for Ts5mdddmn {
    fn from_value(v: &Value) -> Self {
        let s = match v { Value::Seq(s) => s, other => panic!("Ts5mdddmn: expected Seq, got {other:?}") };
        assert_eq!(s.len(), 5, "Ts5mdddmn: component count");
        let _ = s;
        Ts5mdddmn {
            f0: FromValue::from_value(s[0].as_ref().expect("component f0 of Ts5mdddmn must be present")),
            f1: FromValue::from_value(s[1].as_ref().expect("component f1 of Ts5mdddmn must be present")),
            f2: FromValue::from_value(s[2].as_ref().expect("component f2 of Ts5mdddmn must be present")),
            f3: FromValue::from_value(s[3].as_ref().expect("component f3 of Ts5mdddmn must be present")),
            f4: FromValue::from_value(s[4].as_ref().expect("component f4 of Ts5mdddmn must be present")),
        }
    }
}
impl ToValue for Ts5mdddmn {
    fn to_value(&self) -> Value {
        Value::Seq(vec![
            Some(self.f0.to_value()),
            Some(self.f1.to_value()),
            Some(self.f2.to_value()),
            Some(self.f3.to_value()),
            Some(self.f4.to_value()),
        ])
    }
}
impl FromValue for Ts5mdddme0 {
    fn from_value(v: &Value) -> Self {
        let s = match v { Value::Seq(s) => s, other => panic!("Ts5mdddme0: expected Seq, got {other:?}") };
        assert_eq!(s.len(), 5, "Ts5mdddme0: component count");
        let _ = s;
        Ts5mdddme0 {
            f0: FromValue::from_value(s[0].as_ref().expect("component f0 of Ts5mdddme0 must be present")),
            f1: FromValue::from_value(s[1].as_ref().expect("component f1 of Ts5mdddme0 must be present")),
            f2: FromValue::from_value(s[2].as_ref().expect("component f2 of Ts5mdddme0 must be present")),
            f3: FromValue::from_value(s[3].as_ref().expect("component f3 of Ts5mdddme0 must be present")),
            f4: s[4].as_ref().map(FromValue::from_value),
        }
    }
}
impl ToValue for Ts5mdddme0 {
    fn to_value(&self) -> Value {
        Value::Seq(vec![
            Some(self.f0.to_value()),
            Some(self.f1.to_value()),
            Some(self.f2.to_value()),
            Some(self.f3.to_value()),
            self.f4.as_ref().map(|x| x.to_value()),
        ])
    }
}
impl FromValue for Ts5mdddme1 {
    fn from_value(v: &Value) -> Self {
        let s = match v { Value::Seq(s) => s, other => panic!("Ts5mdddme1: expected Seq, got {other:?}") };
        assert_eq!(s.len(), 5, "Ts5mdddme1: component count");
        let _ = s;
        Ts5mdddme1 {
            f0: FromValue::from_value(s[0].as_ref().expect("component f0 of Ts5mdddme1 must be present")),
            f1: FromValue::from_value(s[1].as_ref().expect("component f1 of Ts5mdddme1 must be present")),
            f2: FromValue::from_value(s[2].as_ref().expect("component f2 of Ts5mdddme1 must be present")),
            f3: FromValue::from_value(s[3].as_ref().expect("component f3 of Ts5mdddme1 must be present")),
            f4: s[4].as_ref().map(FromValue::from_value),
        }
    }
}
impl ToValue for Ts5mdddme1 {
    fn to_value(&self) -> Value {
        Value::Seq(vec![
            Some(self.f0.to_value()),
            Some(self.f1.to_value()),
            Some(self.f2.to_value()),
            Some(self.f3.to_value()),
            self.f4.as_ref().map(|x| x.to_value()),
        ])
    }
}
impl FromValue for Ts5mdddme2 {
    fn from_value(v: &Value) -> Self {
        let s = match v { Value::Seq(s) => s, other => panic!("Ts5mdddme2: expected Seq, got {other:?}") };
        assert_eq!(s.len(), 5, "Ts5mdddme2: component count");
        let _ = s;
        Ts5mdddme2 {
            f0: FromValue::from_value(s[0].as_ref().expect("component f0 of Ts5mdddme2 must be present")),
            f1: FromValue::from_value(s[1].as_ref().expect("component f1 of Ts5mdddme2 must be present")),
            f2: FromValue::from_value(s[2].as_ref().expect("component f2 of Ts5mdddme2 must be present")),
            f3: FromValue::from_value(s[3].as_ref().expect("component f3 of Ts5mdddme2 must be present")),
            f4: s[4].as_ref().map(FromValue::from_value),
        }
    }
}
impl ToValue for Ts5mdddme2 {
    fn to_value(&self) -> Value {
        Value::Seq(vec![
            Some(self.f0.to_value()),
            Some(self.f1.to_value()),
            Some(self.f2.to_value()),
            Some(self.f3.to_value()),
            self.f4.as_ref().map(|x| x.to_value()),
        ])
    }
}
impl FromValue for Ts5mdddme3 {
    fn from_value(v: &Value) -> Self {
        let s = match v { Value::Seq(s) => s, other => panic!("Ts5mdddme3: expected Seq, got {other:?}") };
        assert_eq!(s.len(), 5, "Ts5mdddme3: component count");
        let _ = s;
        Ts5mdddme3 {
            f0: FromValue::from_value(s[0].as_ref().expect("component f0 of Ts5mdddme3 must be present")),
            f1: FromValue::from_value(s[1].as_ref().expect("component f1 of Ts5mdddme3 must be present")),
            f2: FromValue::from_value(s[2].as_ref().expect("component f2 of Ts5mdddme3 must be present")),
            f3: FromValue::from_value(s[3].as_ref().expect("component f3 of Ts5mdddme3 must be present")),
            f4: s[4].as_ref().map(FromValue::from_value),
        }
    }
}
impl ToValue for Ts5mdddme3 {
    fn to_value(&self) -> Value {
        Value::Seq(vec![
            Some(self.f0.to_value()),
            Some(self.f1.to_value()),
            Some(self.f2.to_value()),
            Some(self.f3.to_value()),
            self.f4.as_ref().map(|x| x.to_value()),
        ])
    }
}
impl FromValue for Ts5mdddme4 {
    fn from_value(v: &Value) -> Self {
        let s = match v { Value::Seq(s) => s, other => panic!("Ts5mdddme4: expected Seq, got {other:?}") };
        assert_eq!(s.len(), 5, "Ts5mdddme4: component count");
        let _ = s;
        Ts5mdddme4 {
            f0: FromValue::from_value(s[0].as_ref().expect("component f0 of Ts5mdddme4 must be present")),
            f1: FromValue::from_value(s[1].as_ref().expect("component f1 of Ts5mdddme4 must be present")),
            f2: FromValue::from_value(s[2].as_ref().expect("component f2 of Ts5mdddme4 must be present")),
            f3: FromValue::from_value(s[3].as_ref().expect("component f3 of Ts5mdddme4 must be present")),
            f4: s[4].as_ref().map(FromValue::from_value),
        }
    }
}
impl ToValue for Ts5mdddme4 {
    fn to_value(&self) -> Value {
        Value::Seq(vec![
            Some(self.f0.to_value()),
            Some(self.f1.to_value()),
            Some(self.f2.to_value()),
            Some(self.f3.to_value()),
            self.f4.as_ref().map(|x| x.to_value()),
        ])
    }
}
impl FromValue for Ts5mdddme5 {
    fn from_value(v: &Value) -> Self {
        let s = match v { Value::Seq(s) => s, other => panic!("Ts5mdddme5: expected Seq, got {other:?}") };
        assert_eq!(s.len(), 5, "Ts5mdddme5: component count");
        let _ = s;
        Ts5mdddme5 {
            f0: FromValue::from_value(s[0].as_ref().expect("component f0 of Ts5mdddme5 must be present")),
            f1: FromValue::from_value(s[1].as_ref().expect("component f1 of Ts5mdddme5 must be present")),
            f2: FromValue::from_value(s[2].as_ref().expect("component f2 of Ts5mdddme5 must be present")),
            f3: FromValue::from_value(s[3].as_ref().expect("component f3 of Ts5mdddme5 must be present")),
            f4: FromValue::from_value(s[4].as_ref().expect("component f4 of Ts5mdddme5 must be present")),
        }
    }
}
impl ToValue for Ts5mdddme5 {
    fn to_value(&self) -> Value {
        Value::Seq(vec![
            Some(self.f0.to_value()),
            Some(self.f1.to_value()),
            Some(self.f2.to_value()),
            Some(self.f3.to_value()),
            Some(self.f4.to_value()),
        ])
    }
}
impl FromValue for Ts5odddmn {
    fn from_value(v: &Value) -> Self {
        let s = match v { Value::Seq(s) => s, other => panic!("Ts5odddmn: expected Seq, got {other:?}") };
        assert_eq!(s.len(), 5, "Ts5odddmn: component count");
        let _ = s;
        Ts5odddmn {
            f0: s[0].as_ref().map(FromValue::from_value),
            f1: FromValue::from_value(s[1].as_ref().expect("component f1 of Ts5odddmn must be present")),
            f2: FromValue::from_value(s[2].as_ref().expect("component f2 of Ts5odddmn must be present")),
            f3: FromValue::from_value(s[3].as_ref().expect("component f3 of Ts5odddmn must be present")),
            f4: FromValue::from_value(s[4].as_ref().expect("component f4 of Ts5odddmn must be present")),
        }
    }
}
impl ToValue for Ts5odddmn {
    fn to_value(&self) -> Value {
        Value::Seq(vec![
            self.f0.as_ref().map(|x| x.to_value()),
            Some(self.f1.to_value()),
            Some(self.f2.to_value()),
            Some(self.f3.to_value()),
            Some(self.f4.to_value()),
        ])
    }
}
impl FromValue for Ts5odddme0 {
    fn from_value(v: &Value) -> Self {
        let s = match v { Value::Seq(s) => s, other => panic!("Ts5odddme0: expected Seq, got {other:?}") };
        assert_eq!(s.len(), 5, "Ts5odddme0: component count");
        let _ = s;
        Ts5odddme0 {
            f0: s[0].as_ref().map(FromValue::from_value),
            f1: FromValue::from_value(s[1].as_ref().expect("component f1 of Ts5odddme0 must be present")),
            f2: FromValue::from_value(s[2].as_ref().expect("component f2 of Ts5odddme0 must be present")),
            f3: FromValue::from_value(s[3].as_ref().expect("component f3 of Ts5odddme0 must be present")),
            f4: s[4].as_ref().map(FromValue::from_value),
        }
    }
}
impl ToValue for Ts5odddme0 {
    fn to_value(&self) -> Value {
        Value::Seq(vec![
            self.f0.as_ref().map(|x| x.to_value()),
            Some(self.f1.to_value()),
            Some(self.f2.to_value()),
            Some(self.f3.to_value()),
            self.f4.as_ref().map(|x| x.to_value()),
        ])
    }
}
impl FromValue for Ts5odddme1 {
    fn from_value(v: &Value) -> Self {
        let s = match v { Value::Seq(s) => s, other => panic!("Ts5odddme1: expected Seq, got {other:?}") };
        assert_eq!(s.len(), 5, "Ts5odddme1: component count");
        let _ = s;
        Ts5odddme1 {
            f0: s[0].as_ref().map(FromValue::from_value),
            f1: FromValue::from_value(s[1].as_ref().expect("component f1 of Ts5odddme1 must be present")),
            f2: FromValue::from_value(s[2].as_ref().expect("component f2 of Ts5odddme1 must be present")),
            f3: FromValue::from_value(s[3].as_ref().expect("component f3 of Ts5odddme1 must be present")),
            f4: s[4].as_ref().map(FromValue::from_value),
        }
    }
}
impl ToValue for Ts5odddme1 {
    fn to_value(&self) -> Value {
        Value::Seq(vec![
            self.f0.as_ref().map(|x| x.to_value()),
            Some(self.f1.to_value()),
            Some(self.f2.to_value()),
            Some(self.f3.to_value()),
            self.f4.as_ref().map(|x| x.to_value()),
        ])
    }
}
impl FromValue for Ts5odddme2 {
    fn from_value(v: &Value) -> Self {
        let s = match v { Value::Seq(s) => s, other => panic!("Ts5odddme2: expected Seq, got {other:?}") };
        assert_eq!(s.len(), 5, "Ts5odddme2: component count");
        let _ = s;
        Ts5odddme2 {
            f0: s[0].as_ref().map(FromValue::from_value),
            f1: FromValue::from_value(s[1].as_ref().expect("component f1 of Ts5odddme2 must be present")),
            f2: FromValue::from_value(s[2].as_ref().expect("component f2 of Ts5odddme2 must be present")),
            f3: FromValue::from_value(s[3].as_ref().expect("component f3 of Ts5odddme2 must be present")),
            f4: s[4].as_ref().map(FromValue::from_value),
        }
    }
}
impl ToValue for Ts5odddme2 {
    fn to_value(&self) -> Value {
        Value::Seq(vec![
            self.f0.as_ref().map(|x| x.to_value()),
            Some(self.f1.to_value()),
            Some(self.f2.to_value()),
            Some(self.f3.to_value()),
            self.f4.as_ref().map(|x| x.to_value()),
        ])
    }
}
impl FromValue for Ts5odddme3 {
    fn from_value(v: &Value) -> Self {
        let s = match v { Value::Seq(s) => s, other => panic!("Ts5odddme3: expected Seq, got {other:?}") };
        assert_eq!(s.len(), 5, "Ts5odddme3: component count");
        let _ = s;
        Ts5odddme3 {
            f0: s[0].as_ref().map(FromValue::from_value),
            f1: FromValue::from_value(s[1].as_ref().expect("component f1 of Ts5odddme3 must be present")),
            f2: FromValue::from_value(s[2].as_ref().expect("component f2 of Ts5odddme3 must be present")),
            f3: FromValue::from_value(s[3].as_ref().expect("component f3 of Ts5odddme3 must be present")),
            f4: s[4].as_ref().map(FromValue::from_value),
        }
    }
}
impl ToValue for Ts5odddme3 {
    fn to_value(&self) -> Value {
        Value::Seq(vec![
            self.f0.as_ref().map(|x| x.to_value()),
            Some(self.f1.to_value()),
            Some(self.f2.to_value()),
            Some(self.f3.to_value()),
            self.f4.as_ref().map(|x| x.to_value()),
        ])
    }
}
impl FromValue for Ts5odddme4 {
    fn from_value(v: &Value) -> Self {
        let s = match v { Value::Seq(s) => s, other => panic!("Ts5odddme4: expected Seq, got {other:?}") };
        assert_eq!(s.len(), 5, "Ts5odddme4: component count");
        let _ = s;
        Ts5odddme4 {
            f0: s[0].as_ref().map(FromValue::from_value),
            f1: FromValue::from_value(s[1].as_ref().expect("component f1 of Ts5odddme4 must be present")),
            f2: FromValue::from_value(s[2].as_ref().expect("component f2 of Ts5odddme4 must be present")),
            f3: FromValue::from_value(s[3].as_ref().expect("component f3 of Ts5odddme4 must be present")),
            f4: s[4].as_ref().map(FromValue::from_value),
        }
    }
}
impl ToValue for Ts5odddme4 {
    fn to_value(&self) -> Value {
        Value::Seq(vec![
            self.f0.as_ref().map(|x| x.to_value()),
            Some(self.f1.to_value()),
            Some(self.f2.to_value()),
            Some(self.f3.to_value()),
            self.f4.as_ref().map(|x| x.to_value()),
        ])
    }
}
impl FromValue for Ts5odddme5 {
    fn from_value(v: &Value) -> Self {
        let s = match v { Value::Seq(s) => s, other => panic!("Ts5odddme5: expected Seq, got {other:?}") };
        assert_eq!(s.len(), 5, "Ts5odddme5: component count");
        let _ = s;
        Ts5odddme5 {
            f0: s[0].as_ref().map(FromValue::from_value),
            f1: FromValue::from_value(s[1].as_ref().expect("component f1 of Ts5odddme5 must be present")),
            f2: FromValue::from_value(s[2].as_ref().expect("component f2 of Ts5odddme5 must be present")),
            f3: FromValue::from_value(s[3].as_ref().expect("component f3 of Ts5odddme5 must be present")),
            f4: FromValue::from_value(s[4].as_ref().expect("component f4 of Ts5odddme5 must be present")),
        }
    }
}
impl ToValue for Ts5odddme5 {
    fn to_value(&self) -> Value {
        Value::Seq(vec![
            self.f0.as_ref().map(|x| x.to_value()),
            Some(self.f1.to_value()),
            Some(self.f2.to_value()),
            Some(self.f3.to_value()),
            Some(self.f4.to_value()),
        ])
    }
}
impl FromValue for Ts5ddddmn {
    fn from_value(v: &Value) -> Self {
        let s = match v { Value::Seq(s) => s, other => panic!("Ts5ddddmn: expected Seq, got {other:?}") };
        assert_eq!(s.len(), 5, "Ts5ddddmn: component count");
        let _ = s;
        Ts5ddddmn {
            f0: FromValue::from_value(s[0].as_ref().expect("component f0 of Ts5ddddmn must be present")),
            f1: FromValue::from_value(s[1].as_ref().expect("component f1 of Ts5ddddmn must be present")),
            f2: FromValue::from_value(s[2].as_ref().expect("component f2 of Ts5ddddmn must be present")),
            f3: FromValue::from_value(s[3].as_ref().expect("component f3 of Ts5ddddmn must be present")),
            f4: FromValue::from_value(s[4].as_ref().expect("component f4 of Ts5ddddmn must be present")),
        }
    }
}
impl ToValue for Ts5ddddmn {
    fn to_value(&self) -> Value {
        Value::Seq(vec![
            Some(self.f0.to_value()),
            Some(self.f1.to_value()),
            Some(self.f2.to_value()),
            Some(self.f3.to_value()),
            Some(self.f4.to_value()),
        ])
    }
}
impl FromValue for Ts5ddddme0 {
    fn from_value(v: &Value) -> Self {
        let s = match v { Value::Seq(s) => s, other => panic!("Ts5ddddme0: expected Seq, got {other:?}") };
        assert_eq!(s.len(), 5, "Ts5ddddme0: component count");
        let _ = s;
        Ts5ddddme0 {
            f0: FromValue::from_value(s[0].as_ref().expect("component f0 of Ts5ddddme0 must be present")),
            f1: FromValue::from_value(s[1].as_ref().expect("component f1 of Ts5ddddme0 must be present")),
            f2: FromValue::from_value(s[2].as_ref().expect("component f2 of Ts5ddddme0 must be present")),
            f3: FromValue::from_value(s[3].as_ref().expect("component f3 of Ts5ddddme0 must be present")),
            f4: s[4].as_ref().map(FromValue::from_value),
        }
    }
}
impl ToValue for Ts5ddddme0 {
    fn to_value(&self) -> Value {
        Value::Seq(vec![
            Some(self.f0.to_value()),
            Some(self.f1.to_value()),
            Some(self.f2.to_value()),
            Some(self.f3.to_value()),
            self.f4.as_ref().map(|x| x.to_value()),
        ])
    }
}
impl FromValue for Ts5ddddme1 {
    fn from_value(v: &Value) -> Self {
        let s = match v { Value::Seq(s) => s, other => panic!("Ts5ddddme1: expected Seq, got {other:?}") };
        assert_eq!(s.len(), 5, "Ts5ddddme1: component count");
        let _ = s;
        Ts5ddddme1 {
            f0: FromValue::from_value(s[0].as_ref().expect("component f0 of Ts5ddddme1 must be present")),
            f1: FromValue::from_value(s[1].as_ref().expect("component f1 of Ts5ddddme1 must be present")),
            f2: FromValue::from_value(s[2].as_ref().expect("component f2 of Ts5ddddme1 must be present")),
            f3: FromValue::from_value(s[3].as_ref().expect("component f3 of Ts5ddddme1 must be present")),
            f4: s[4].as_ref().map(FromValue::from_value),
        }
    }
}
impl ToValue for Ts5ddddme1 {
    fn to_value(&self) -> Value {
        Value::Seq(vec![
            Some(self.f0.to_value()),
            Some(self.f1.to_value()),
            Some(self.f2.to_value()),
            Some(self.f3.to_value()),
            self.f4.as_ref().map(|x| x.to_value()),
        ])
    }
}
impl FromValue for Ts5ddddme2 {
    fn from_value(v: &Value) -> Self {
        let s = match v { Value::Seq(s) => s, other => panic!("Ts5ddddme2: expected Seq, got {other:?}") };
        assert_eq!(s.len(), 5, "Ts5ddddme2: component count");
        let _ = s;
        Ts5ddddme2 {
            f0: FromValue::from_value(s[0].as_ref().expect("component f0 of Ts5ddddme2 must be present")),
            f1: FromValue::from_value(s[1].as_ref().expect("component f1 of Ts5ddddme2 must be present")),
            f2: FromValue::from_value(s[2].as_ref().expect("component f2 of Ts5ddddme2 must be present")),
            f3: FromValue::from_value(s[3].as_ref().expect("component f3 of Ts5ddddme2 must be present")),
            f4: s[4].as_ref().map(FromValue::from_value),
        }
    }
}
impl ToValue for Ts5ddddme2 {
    fn to_value(&self) -> Value {
        Value::Seq(vec![
            Some(self.f0.to_value()),
            Some(self.f1.to_value()),
            Some(self.f2.to_value()),
            Some(self.f3.to_value()),
            self.f4.as_ref().map(|x| x.to_value()),
        ])
    }
}
impl FromValue for Ts5ddddme3 {
    fn from_value(v: &Value) -> Self {
        let s = match v { Value::Seq(s) => s, other => panic!("Ts5ddddme3: expected Seq, got {other:?}") };
        assert_eq!(s.len(), 5, "Ts5ddddme3: component count");
        let _ = s;
        Ts5ddddme3 {
            f0: FromValue::from_value(s[0].as_ref().expect("component f0 of Ts5ddddme3 must be present")),
            f1: FromValue::from_value(s[1].as_ref().expect("component f1 of Ts5ddddme3 must be present")),
            f2: FromValue::from_value(s[2].as_ref().expect("component f2 of Ts5ddddme3 must be present")),
            f3: FromValue::from_value(s[3].as_ref().expect("component f3 of Ts5ddddme3 must be present")),
            f4: s[4].as_ref().map(FromValue::from_value),
        }
    }
}
impl ToValue for Ts5ddddme3 {
    fn to_value(&self) -> Value {
        Value::Seq(vec![
            Some(self.f0.to_value()),
            Some(self.f1.to_value()),
            Some(self.f2.to_value()),
            Some(self.f3.to_value()),
            self.f4.as_ref().map(|x| x.to_value()),
        ])
    }
}
impl FromValue for Ts5ddddme4 {
    fn from_value(v: &Value) -> Self {
        let s = match v { Value::Seq(s) => s, other => panic!("Ts5ddddme4: expected Seq, got {other:?}") };
        assert_eq!(s.len(), 5, "Ts5ddddme4: component count");
        let _ = s;
        Ts5ddddme4 {
            f0: FromValue::from_value(s[0].as_ref().expect("component f0 of Ts5ddddme4 must be present")),
            f1: FromValue::from_value(s[1].as_ref().expect("component f1 of Ts5ddddme4 must be present")),
            f2: FromValue::from_value(s[2].as_ref().expect("component f2 of Ts5ddddme4 must be present")),
            f3: FromValue::from_value(s[3].as_ref().expect("component f3 of Ts5ddddme4 must be present")),
            f4: s[4].as_ref().map(FromValue::from_value),
        }
    }
}
impl ToValue for Ts5ddddme4 {
    fn to_value(&self) -> Value {
        Value::Seq(vec![
            Some(self.f0.to_value()),
            Some(self.f1.to_value()),
            Some(self.f2.to_value()),
            Some(self.f3.to_value()),
            self.f4.as_ref().map(|x| x.to_value()),
        ])
    }
}
impl FromValue for Ts5ddddme5 {
    fn from_value(v: &Value) -> Self {
        let s = match v { Value::Seq(s) => s, other => panic!("Ts5ddddme5: expected Seq, got {other:?}") };
        assert_eq!(s.len(), 5, "Ts5ddddme5: component count");
        let _ = s;
        Ts5ddddme5 {
            f0: FromValue::from_value(s[0].as_ref().expect("component f0 of Ts5ddddme5 must be present")),
            f1: FromValue::from_value(s[1].as_ref().expect("component f1 of Ts5ddddme5 must be present")),
            f2: FromValue::from_value(s[2].as_ref().expect("component f2 of Ts5ddddme5 must be present")),
            f3: FromValue::from_value(s[3].as_ref().expect("component f3 of Ts5ddddme5 must be present")),
            f4: FromValue::from_value(s[4].as_ref().expect("component f4 of Ts5ddddme5 must be present")),
        }
    }
}
impl ToValue for Ts5ddddme5 {
    fn to_value(&self) -> Value {
        Value::Seq(vec![
            Some(self.f0.to_value()),
            Some(self.f1.to_value()),
            Some(self.f2.to_value()),
            Some(self.f3.to_value()),
            Some(self.f4.to_value()),
        ])
    }
}
impl FromValue for Ts5mmmmon {
    fn from_value(v: &Value) -> Self {
        let s = match v { Value::Seq(s) => s, other => panic!("Ts5mmmmon: expected Seq, got {other:?}") };
        assert_eq!(s.len(), 5, "Ts5mmmmon: component count");
        let _ = s;
        Ts5mmmmon {
            f0: FromValue::from_value(s[0].as_ref().expect("component f0 of Ts5mmmmon must be present")),
            f1: FromValue::from_value(s[1].as_ref().expect("component f1 of Ts5mmmmon must be present")),
            f2: FromValue::from_value(s[2].as_ref().expect("component f2 of Ts5mmmmon must be present")),
            f3: FromValue::from_value(s[3].as_ref().expect("component f3 of Ts5mmmmon must be present")),
            f4: s[4].as_ref().map(FromValue::from_value),
        }
    }
}
impl ToValue for Ts5mmmmon {
    fn to_value(&self) -> Value {
        Value::Seq(vec![
            Some(self.f0.to_value()),
            Some(self.f1.to_value()),
            Some(self.f2.to_value()),
            Some(self.f3.to_value()),
            self.f4.as_ref().map(|x| x.to_value()),
        ])
    }
}
impl FromValue for Ts5mmmmoe0 {
    fn from_value(v: &Value) -> Self {
        let s = match v { Value::Seq(s) => s, other => panic!("Ts5mmmmoe0: expected Seq, got {other:?}") };
        assert_eq!(s.len(), 5, "Ts5mmmmoe0: component count");
        let _ = s;
        Ts5mmmmoe0 {
            f0: FromValue::from_value(s[0].as_ref().expect("component f0 of Ts5mmmmoe0 must be present")),
            f1: s[1].as_ref().map(FromValue::from_value),
            f2: s[2].as_ref().map(FromValue::from_value),
            f3: s[3].as_ref().map(FromValue::from_value),
            f4: s[4].as_ref().map(FromValue::from_value),
        }
    }
}
impl ToValue for Ts5mmmmoe0 {
    fn to_value(&self) -> Value {
        Value::Seq(vec![
            Some(self.f0.to_value()),
            self.f1.as_ref().map(|x| x.to_value()),
            self.f2.as_ref().map(|x| x.to_value()),
            self.f3.as_ref().map(|x| x.to_value()),
            self.f4.as_ref().map(|x| x.to_value()),
        ])
    }
}
impl FromValue for Ts5mmmmoe1 {
    fn from_value(v: &Value) -> Self {
        let s = match v { Value::Seq(s) => s, other => panic!("Ts5mmmmoe1: expected Seq, got {other:?}") };
        assert_eq!(s.len(), 5, "Ts5mmmmoe1: component count");
        let _ = s;
        Ts5mmmmoe1 {
            f0: FromValue::from_value(s[0].as_ref().expect("component f0 of Ts5mmmmoe1 must be present")),
            f1: s[1].as_ref().map(FromValue::from_value),
            f2: s[2].as_ref().map(FromValue::from_value),
            f3: s[3].as_ref().map(FromValue::from_value),
            f4: s[4].as_ref().map(FromValue::from_value),
        }
    }
}
impl ToValue for Ts5mmmmoe1 {
    fn to_value(&self) -> Value {
        Value::Seq(vec![
            Some(self.f0.to_value()),
            self.f1.as_ref().map(|x| x.to_value()),
            self.f2.as_ref().map(|x| x.to_value()),
            self.f3.as_ref().map(|x| x.to_value()),
            self.f4.as_ref().map(|x| x.to_value()),
        ])
    }
}
impl FromValue for Ts5mmmmoe2 {
    fn from_value(v: &Value) -> Self {
        let s = match v { Value::Seq(s) => s, other => panic!("Ts5mmmmoe2: expected Seq, got {other:?}") };
        assert_eq!(s.len(), 5, "Ts5mmmmoe2: component count");
        let _ = s;
        Ts5mmmmoe2 {
            f0: FromValue::from_value(s[0].as_ref().expect("component f0 of Ts5mmmmoe2 must be present")),
            f1: FromValue::from_value(s[1].as_ref().expect("component f1 of Ts5mmmmoe2 must be present")),
            f2: s[2].as_ref().map(FromValue::from_value),
            f3: s[3].as_ref().map(FromValue::from_value),
            f4: s[4].as_ref().map(FromValue::from_value),
        }
    }
}
impl ToValue for Ts5mmmmoe2 {
    fn to_value(&self) -> Value {
        Value::Seq(vec![
            Some(self.f0.to_value()),
            Some(self.f1.to_value()),
            self.f2.as_ref().map(|x| x.to_value()),
            self.f3.as_ref().map(|x| x.to_value()),
            self.f4.as_ref().map(|x| x.to_value()),
        ])
    }
}
impl FromValue for Ts5mmmmoe3 {
    fn from_value(v: &Value) -> Self {
        let s = match v { Value::Seq(s) => s, other => panic!("Ts5mmmmoe3: expected Seq, got {other:?}") };
        assert_eq!(s.len(), 5, "Ts5mmmmoe3: component count");
        let _ = s;
        Ts5mmmmoe3 {
            f0: FromValue::from_value(s[0].as_ref().expect("component f0 of Ts5mmmmoe3 must be present")),
            f1: FromValue::from_value(s[1].as_ref().expect("component f1 of Ts5mmmmoe3 must be present")),
            f2: FromValue::from_value(s[2].as_ref().expect("component f2 of Ts5mmmmoe3 must be present")),
            f3: s[3].as_ref().map(FromValue::from_value),
            f4: s[4].as_ref().map(FromValue::from_value),
        }
    }
}
impl ToValue for Ts5mmmmoe3 {
    fn to_value(&self) -> Value {
        Value::Seq(vec![
            Some(self.f0.to_value()),
            Some(self.f1.to_value()),
            Some(self.f2.to_value()),
            self.f3.as_ref().map(|x| x.to_value()),
            self.f4.as_ref().map(|x| x.to_value()),
        ])
    }
}
impl FromValue for Ts5mmmmoe4 {
    fn from_value(v: &Value) -> Self {
        let s = match v { Value::Seq(s) => s, other => panic!("Ts5mmmmoe4: expected Seq, got {other:?}") };
        assert_eq!(s.len(), 5, "Ts5mmmmoe4: component count");
        let _ = s;
        Ts5mmmmoe4 {
            f0: FromValue::from_value(s[0].as_ref().expect("component f0 of Ts5mmmmoe4 must be present")),
            f1: FromValue::from_value(s[1].as_ref().expect("component f1 of Ts5mmmmoe4 must be present")),
            f2: FromValue::from_value(s[2].as_ref().expect("component f2 of Ts5mmmmoe4 must be present")),
            f3: FromValue::from_value(s[3].as_ref().expect("component f3 of Ts5mmmmoe4 must be present")),
            f4: s[4].as_ref().map(FromValue::from_value),
        }
    }
}
impl ToValue for Ts5mmmmoe4 {
    fn to_value(&self) -> Value {
        Value::Seq(vec![
            Some(self.f0.to_value()),
            Some(self.f1.to_value()),
            Some(self.f2.to_value()),
            Some(self.f3.to_value()),
            self.f4.as_ref().map(|x| x.to_value()),
        ])
    }
}
impl FromValue for Ts5mmmmoe5 {
    fn from_value(v: &Value) -> Self {
        let s = match v { Value::Seq(s) => s, other => panic!("Ts5mmmmoe5: expected Seq, got {other:?}") };
        assert_eq!(s.len(), 5, "Ts5mmmmoe5: component count");
        let _ = s;
        Ts5mmmmoe5 {
            f0: FromValue::from_value(s[0].as_ref().expect("component f0 of Ts5mmmmoe5 must be present")),
            f1: FromValue::from_value(s[1].as_ref().expect("component f1 of Ts5mmmmoe5 must be present")),
            f2: FromValue::from_value(s[2].as_ref().expect("component f2 of Ts5mmmmoe5 must be present")),
            f3: FromValue::from_value(s[3].as_ref().expect("component f3 of Ts5mmmmoe5 must be present")),
            f4: s[4].as_ref().map(FromValue::from_value),
        }
    }
}
impl ToValue for Ts5mmmmoe5 {
    fn to_value(&self) -> Value {
        Value::Seq(vec![
            Some(self.f0.to_value()),
            Some(self.f1.to_value()),
            Some(self.f2.to_value()),
            Some(self.f3.to_value()),
            self.f4.as_ref().map(|x| x.to_value()),
        ])
    }
}
impl FromValue for Ts5ommmon {
    fn from_value(v: &Value) -> Self {
        let s = match v { Value::Seq(s) => s, other => panic!("Ts5ommmon: expected Seq, got {other:?}") };
        assert_eq!(s.len(), 5, "Ts5ommmon: component count");
        let _ = s;
        Ts5ommmon {
            f0: s[0].as_ref().map(FromValue::from_value),
            f1: FromValue::from_value(s[1].as_ref().expect("component f1 of Ts5ommmon must be present")),
            f2: FromValue::from_value(s[2].as_ref().expect("component f2 of Ts5ommmon must be present")),
            f3: FromValue::from_value(s[3].as_ref().expect("component f3 of Ts5ommmon must be present")),
            f4: s[4].as_ref().map(FromValue::from_value),
        }
    }
}
impl ToValue for Ts5ommmon {
    fn to_value(&self) -> Value {
        Value::Seq(vec![
            self.f0.as_ref().map(|x| x.to_value()),
            Some(self.f1.to_value()),
            Some(self.f2.to_value()),
            Some(self.f3.to_value()),
            self.f4.as_ref().map(|x| x.to_value()),
        ])
    }
}
impl FromValue for Ts5ommmoe0 {
    fn from_value(v: &Value) -> Self {
        let s = match v { Value::Seq(s) => s, other => panic!("Ts5ommmoe0: expected Seq, got {other:?}") };
        assert_eq!(s.len(), 5, "Ts5ommmoe0: component count");
        let _ = s;
        Ts5ommmoe0 {
            f0: s[0].as_ref().map(FromValue::from_value),
            f1: s[1].as_ref().map(FromValue::from_value),
            f2: s[2].as_ref().map(FromValue::from_value),
            f3: s[3].as_ref().map(FromValue::from_value),
            f4: s[4].as_ref().map(FromValue::from_value),
        }
    }
}
impl ToValue for Ts5ommmoe0 {
    fn to_value(&self) -> Value {
        Value::Seq(vec![
            self.f0.as_ref().map(|x| x.to_value()),
            self.f1.as_ref().map(|x| x.to_value()),
            self.f2.as_ref().map(|x| x.to_value()),
            self.f3.as_ref().map(|x| x.to_value()),
            self.f4.as_ref().map(|x| x.to_value()),
        ])
    }
}
impl FromValue for Ts5ommmoe1 {
    fn from_value(v: &Value) -> Self {
        let s = match v { Value::Seq(s) => s, other => panic!("Ts5ommmoe1: expected Seq, got {other:?}") };
        assert_eq!(s.len(), 5, "Ts5ommmoe1: component count");
        let _ = s;
        Ts5ommmoe1 {
            f0: s[0].as_ref().map(FromValue::from_value),
            f1: s[1].as_ref().map(FromValue::from_value),
            f2: s[2].as_ref().map(FromValue::from_value),
            f3: s[3].as_ref().map(FromValue::from_value),
            f4: s[4].as_ref().map(FromValue::from_value),
        }
    }
}
impl ToValue for Ts5ommmoe1 {
    fn to_value(&self) -> Value {
        Value::Seq(vec![
            self.f0.as_ref().map(|x| x.to_value()),
            self.f1.as_ref().map(|x| x.to_value()),
            self.f2.as_ref().map(|x| x.to_value()),
            self.f3.as_ref().map(|x| x.to_value()),
            self.f4.as_ref().map(|x| x.to_value()),
        ])
    }
}
impl FromValue for Ts5ommmoe2 {
    fn from_value(v: &Value) -> Self {
        let s = match v { Value::Seq(s) => s, other => panic!("Ts5ommmoe2: expected Seq, got {other:?}") };
        assert_eq!(s.len(), 5, "Ts5ommmoe2: component count");
        let _ = s;
        Ts5ommmoe2 {
            f0: s[0].as_ref().map(FromValue::from_value),
            f1: FromValue::from_value(s[1].as_ref().expect("component f1 of Ts5ommmoe2 must be present")),
            f2: s[2].as_ref().map(FromValue::from_value),
            f3: s[3].as_ref().map(FromValue::from_value),
            f4: s[4].as_ref().map(FromValue::from_value),
        }
    }
}
impl ToValue for Ts5ommmoe2 {
    fn to_value(&self) -> Value {
        Value::Seq(vec![
            self.f0.as_ref().map(|x| x.to_value()),
            Some(self.f1.to_value()),
            self.f2.as_ref().map(|x| x.to_value()),
            self.f3.as_ref().map(|x| x.to_value()),
            self.f4.as_ref().map(|x| x.to_value()),
        ])
    }
}
impl FromValue for Ts5ommmoe3 {
    fn from_value(v: &Value) -> Self {
        let s = match v { Value::Seq(s) => s, other => panic!("Ts5ommmoe3: expected Seq, got {other:?}") };
        assert_eq!(s.len(), 5, "Ts5ommmoe3: component count");
        let _ = s;
        Ts5ommmoe3 {
            f0: s[0].as_ref().map(FromValue::from_value),
            f1: FromValue::from_value(s[1].as_ref().expect("component f1 of Ts5ommmoe3 must be present")),
            f2: FromValue::from_value(s[2].as_ref().expect("component f2 of Ts5ommmoe3 must be present")),
            f3: s[3].as_ref().map(FromValue::from_value),
            f4: s[4].as_ref().map(FromValue::from_value),
        }
    }
}
impl ToValue for Ts5ommmoe3 {
    fn to_value(&self) -> Value {
        Value::Seq(vec![
            self.f0.as_ref().map(|x| x.to_value()),
            Some(self.f1.to_value()),
            Some(self.f2.to_value()),
            self.f3.as_ref().map(|x| x.to_value()),
            self.f4.as_ref().map(|x| x.to_value()),
        ])
    }
}
impl FromValue for Ts5ommmoe4 {
    fn from_value(v: &Value) -> Self {
        let s = match v { Value::Seq(s) => s, other => panic!("Ts5ommmoe4: expected Seq, got {other:?}") };
        assert_eq!(s.len(), 5, "Ts5ommmoe4: component count");
        let _ = s;
        Ts5ommmoe4 {
            f0: s[0].as_ref().map(FromValue::from_value),
            f1: FromValue::from_value(s[1].as_ref().expect("component f1 of Ts5ommmoe4 must be present")),
            f2: FromValue::from_value(s[2].as_ref().expect("component f2 of Ts5ommmoe4 must be present")),
            f3: FromValue::from_value(s[3].as_ref().expect("component f3 of Ts5ommmoe4 must be present")),
            f4: s[4].as_ref().map(FromValue::from_value),
        }
    }
}
impl ToValue for Ts5ommmoe4 {
    fn to_value(&self) -> Value {
        Value::Seq(vec![
            self.f0.as_ref().map(|x| x.to_value()),
            Some(self.f1.to_value()),
            Some(self.f2.to_value()),
            Some(self.f3.to_value()),
            self.f4.as_ref().map(|x| x.to_value()),
        ])
    }
}
impl FromValue for Ts5ommmoe5 {
    fn from_value(v: &Value) -> Self {
        let s = match v { Value::Seq(s) => s, other => panic!("Ts5ommmoe5: expected Seq, got {other:?}") };
        assert_eq!(s.len(), 5, "Ts5ommmoe5: component count");
        let _ = s;
        Ts5ommmoe5 {
            f0: s[0].as_ref().map(FromValue::from_value),
            f1: FromValue::from_value(s[1].as_ref().expect("component f1 of Ts5ommmoe5 must be present")),
            f2: FromValue::from_value(s[2].as_ref().expect("component f2 of Ts5ommmoe5 must be present")),
            f3: FromValue::from_value(s[3].as_ref().expect("component f3 of Ts5ommmoe5 must be present")),
            f4: s[4].as_ref().map(FromValue::from_value),
        }
    }
}
impl ToValue for Ts5ommmoe5 {
    fn to_value(&self) -> Value {
        Value::Seq(vec![
            self.f0.as_ref().map(|x| x.to_value()),
            Some(self.f1.to_value()),
            Some(self.f2.to_value()),
            Some(self.f3.to_value()),
            self.f4.as_ref().map(|x| x.to_value()),
        ])
    }
}
impl FromValue for Ts5dmmmon {
    fn from_value(v: &Value) -> Self {
        let s = match v { Value::Seq(s) => s, other => panic!("Ts5dmmmon: expected Seq, got {other:?}") };
        assert_eq!(s.len(), 5, "Ts5dmmmon: component count");
        let _ = s;
        Ts5dmmmon {
            f0: FromValue::from_value(s[0].as_ref().expect("component f0 of Ts5dmmmon must be present")),
            f1: FromValue::from_value(s[1].as_ref().expect("component f1 of Ts5dmmmon must be present")),
            f2: FromValue::from_value(s[2].as_ref().expect("component f2 of Ts5dmmmon must be present")),
            f3: FromValue::from_value(s[3].as_ref().expect("component f3 of Ts5dmmmon must be present")),
            f4: s[4].as_ref().map(FromValue::from_value),
        }
    }
}
impl ToValue for Ts5dmmmon {
    fn to_value(&self) -> Value {
        Value::Seq(vec![
            Some(self.f0.to_value()),
            Some(self.f1.to_value()),
            Some(self.f2.to_value()),
            Some(self.f3.to_value()),
            self.f4.as_ref().map(|x| x.to_value()),
        ])
    }
}
impl FromValue for Ts5dmmmoe0 {
    fn from_value(v: &Value) -> Self {
        let s = match v { Value::Seq(s) => s, other => panic!("Ts5dmmmoe0: expected Seq, got {other:?}") };
        assert_eq!(s.len(), 5, "Ts5dmmmoe0: component count");
        let _ = s;
        Ts5dmmmoe0 {
            f0: FromValue::from_value(s[0].as_ref().expect("component f0 of Ts5dmmmoe0 must be present")),
            f1: s[1].as_ref().map(FromValue::from_value),
            f2: s[2].as_ref().map(FromValue::from_value),
            f3: s[3].as_ref().map(FromValue::from_value),
            f4: s[4].as_ref().map(FromValue::from_value),
        }
    }
}
impl ToValue for Ts5dmmmoe0 {
    fn to_value(&self) -> Value {
        Value::Seq(vec![
            Some(self.f0.to_value()),
            self.f1.as_ref().map(|x| x.to_value()),
            self.f2.as_ref().map(|x| x.to_value()),
            self.f3.as_ref().map(|x| x.to_value()),
            self.f4.as_ref().map(|x| x.to_value()),
        ])
    }
}
impl FromValue for Ts5dmmmoe1 {
    fn from_value(v: &Value) -> Self {
        let s = match v { Value::Seq(s) => s, other => panic!("Ts5dmmmoe1: expected Seq, got {other:?}") };
        assert_eq!(s.len(), 5, "Ts5dmmmoe1: component count");
        let _ = s;
        Ts5dmmmoe1 {
            f0: FromValue::from_value(s[0].as_ref().expect("component f0 of Ts5dmmmoe1 must be present")),
            f1: s[1].as_ref().map(FromValue::from_value),
            f2: s[2].as_ref().map(FromValue::from_value),
            f3: s[3].as_ref().map(FromValue::from_value),
            f4: s[4].as_ref().map(FromValue::from_value),
        }
    }
}
impl ToValue for Ts5dmmmoe1 {
    fn to_value(&self) -> Value {
        Value::Seq(vec![
            Some(self.f0.to_value()),
            self.f1.as_ref().map(|x| x.to_value()),
            self.f2.as_ref().map(|x| x.to_value()),
            self.f3.as_ref().map(|x| x.to_value()),
            self.f4.as_ref().map(|x| x.to_value()),
        ])
    }
}
impl FromValue for Ts5dmmmoe2 {
    fn from_value(v: &Value) -> Self {
        let s = match v { Value::Seq(s) => s, other => panic!("Ts5dmmmoe2: expected Seq, got {other:?}") };
        assert_eq!(s.len(), 5, "Ts5dmmmoe2: component count");
        let _ = s;
        Ts5dmmmoe2 {
            f0: FromValue::from_value(s[0].as_ref().expect("component f0 of Ts5dmmmoe2 must be present")),
            f1: FromValue::from_value(s[1].as_ref().expect("component f1 of Ts5dmmmoe2 must be present")),
            f2: s[2].as_ref().map(FromValue::from_value),
            f3: s[3].as_ref().map(FromValue::from_value),
            f4: s[4].as_ref().map(FromValue::from_value),
        }
    }
}
impl ToValue for Ts5dmmmoe2 {
    fn to_value(&self) -> Value {
        Value::Seq(vec![
            Some(self.f0.to_value()),
            Some(self.f1.to_value()),
            self.f2.as_ref().map(|x| x.to_value()),
            self.f3.as_ref().map(|x| x.to_value()),
            self.f4.as_ref().map(|x| x.to_value()),
        ])
    }
}
impl FromValue for Ts5dmmmoe3 {
    fn from_value(v: &Value) -> Self {
        let s = match v { Value::Seq(s) => s, other => panic!("Ts5dmmmoe3: expected Seq, got {other:?}") };
        assert_eq!(s.len(), 5, "Ts5dmmmoe3: component count");
        let _ = s;
        Ts5dmmmoe3 {
            f0: FromValue::from_value(s[0].as_ref().expect("component f0 of Ts5dmmmoe3 must be present")),
            f1: FromValue::from_value(s[1].as_ref().expect("component f1 of Ts5dmmmoe3 must be present")),
            f2: FromValue::from_value(s[2].as_ref().expect("component f2 of Ts5dmmmoe3 must be present")),
            f3: s[3].as_ref().map(FromValue::from_value),
            f4: s[4].as_ref().map(FromValue::from_value),
        }
    }
}
impl ToValue for Ts5dmmmoe3 {
    fn to_value(&self) -> Value {
        Value::Seq(vec![
            Some(self.f0.to_value()),
            Some(self.f1.to_value()),
            Some(self.f2.to_value()),
            self.f3.as_ref().map(|x| x.to_value()),
            self.f4.as_ref().map(|x| x.to_value()),
        ])
    }
}
impl FromValue for Ts5dmmmoe4 {
    fn from_value(v: &Value) -> Self {
        let s = match v { Value::Seq(s) => s, other => panic!("Ts5dmmmoe4: expected Seq, got {other:?}") };
        assert_eq!(s.len(), 5, "Ts5dmmmoe4: component count");
        let _ = s;
        Ts5dmmmoe4 {
            f0: FromValue::from_value(s[0].as_ref().expect("component f0 of Ts5dmmmoe4 must be present")),
            f1: FromValue::from_value(s[1].as_ref().expect("component f1 of Ts5dmmmoe4 must be present")),
            f2: FromValue::from_value(s[2].as_ref().expect("component f2 of Ts5dmmmoe4 must be present")),
            f3: FromValue::from_value(s[3].as_ref().expect("component f3 of Ts5dmmmoe4 must be present")),
            f4: s[4].as_ref().map(FromValue::from_value),
        }
    }
}
impl ToValue for Ts5dmmmoe4 {
    fn to_value(&self) -> Value {
        Value::Seq(vec![
            Some(self.f0.to_value()),
            Some(self.f1.to_value()),
            Some(self.f2.to_value()),
            Some(self.f3.to_value()),
            self.f4.as_ref().map(|x| x.to_value()),
        ])
    }
}
impl FromValue for Ts5dmmmoe5 {
    fn from_value(v: &Value) -> Self {
        let s = match v { Value::Seq(s) => s, other => panic!("Ts5dmmmoe5: expected Seq, got {other:?}") };
        assert_eq!(s.len(), 5, "Ts5dmmmoe5: component count");
        let _ = s;
        Ts5dmmmoe5 {
            f0: FromValue::from_value(s[0].as_ref().expect("component f0 of Ts5dmmmoe5 must be present")),
            f1: FromValue::from_value(s[1].as_ref().expect("component f1 of Ts5dmmmoe5 must be present")),
            f2: FromValue::from_value(s[2].as_ref().expect("component f2 of Ts5dmmmoe5 must be present")),
            f3: FromValue::from_value(s[3].as_ref().expect("component f3 of Ts5dmmmoe5 must be present")),
            f4: s[4].as_ref().map(FromValue::from_value),
        }
    }
}
impl ToValue for Ts5dmmmoe5 {
    fn to_value(&self) -> Value {
        Value::Seq(vec![
            Some(self.f0.to_value()),
            Some(self.f1.to_value()),
            Some(self.f2.to_value()),
            Some(self.f3.to_value()),
            self.f4.as_ref().map(|x| x.to_value()),
        ])
    }
}
impl FromValue for Ts5mommon {
    fn from_value(v: &Value) -> Self {
        let s = match v { Value::Seq(s) => s, other => panic!("Ts5mommon: expected Seq, got {other:?}") };
        assert_eq!(s.len(), 5, "Ts5mommon: component count");
        let _ = s;
        Ts5mommon {
            f0: FromValue::from_value(s[0].as_ref().expect("component f0 of Ts5mommon must be present")),
            f1: s[1].as_ref().map(FromValue::from_value),
            f2: FromValue::from_value(s[2].as_ref().expect("component f2 of Ts5mommon must be present")),
            f3: FromValue::from_value(s[3].as_ref().expect("component f3 of Ts5mommon must be present")),
            f4: s[4].as_ref().map(FromValue::from_value),
        }
    }
}
impl ToValue for Ts5mommon {
    fn to_value(&self) -> Value {
        Value::Seq(vec![
            Some(self.f0.to_value()),
            self.f1.as_ref().map(|x| x.to_value()),
            Some(self.f2.to_value()),
            Some(self.f3.to_value()),
            self.f4.as_ref().map(|x| x.to_value()),
        ])
    }
}
impl FromValue for Ts5mommoe0 {
    fn from_value(v: &Value) -> Self {
        let s = match v { Value::Seq(s) => s, other => panic!("Ts5mommoe0: expected Seq, got {other:?}") };
        assert_eq!(s.len(), 5, "Ts5mommoe0: component count");
        let _ = s;
        Ts5mommoe0 {
            f0: FromValue::from_value(s[0].as_ref().expect("component f0 of Ts5mommoe0 must be present")),
            f1: s[1].as_ref().map(FromValue::from_value),
            f2: s[2].as_ref().map(FromValue::from_value),
            f3: s[3].as_ref().map(FromValue::from_value),
            f4: s[4].as_ref().map(FromValue::from_value),
        }
    }
}
impl ToValue for Ts5mommoe0 {
    fn to_value(&self) -> Value {
        Value::Seq(vec![
            Some(self.f0.to_value()),
            self.f1.as_ref().map(|x| x.to_value()),
            self.f2.as_ref().map(|x| x.to_value()),
            self.f3.as_ref().map(|x| x.to_value()),
            self.f4.as_ref().map(|x| x.to_value()),
        ])
    }
}
impl FromValue for Ts5mommoe1 {
    fn from_value(v: &Value) -> Self {
        let s = match v { Value::Seq(s) => s, other => panic!("Ts5mommoe1: expected Seq, got {other:?}") };
        assert_eq!(s.len(), 5, "Ts5mommoe1: component count");
        let _ = s;
        Ts5mommoe1 {
            f0: FromValue::from_value(s[0].as_ref().expect("component f0 of Ts5mommoe1 must be present")),
            f1: s[1].as_ref().map(FromValue::from_value),
            f2: s[2].as_ref().map(FromValue::from_value),
            f3: s[3].as_ref().map(FromValue::from_value),
            f4: s[4].as_ref().map(FromValue::from_value),
        }
    }
}
impl ToValue for Ts5mommoe1 {
    fn to_value(&self) -> Value {
        Value::Seq(vec![
            Some(self.f0.to_value()),
            self.f1.as_ref().map(|x| x.to_value()),
            self.f2.as_ref().map(|x| x.to_value()),
            self.f3.as_ref().map(|x| x.to_value()),
            self.f4.as_ref().map(|x| x.to_value()),
        ])
    }
}
impl FromValue for Ts5mommoe2 {
    fn from_value(v: &Value) -> Self {
        let s = match v { Value::Seq(s) => s, other => panic!("Ts5mommoe2: expected Seq, got {other:?}") };
        assert_eq!(s.len(), 5, "Ts5mommoe2: component count");
        let _ = s;
        Ts5mommoe2 {
            f0: FromValue::from_value(s[0].as_ref().expect("component f0 of Ts5mommoe2 must be present")),
            f1: s[1].as_ref().map(FromValue::from_value),
            f2: s[2].as_ref().map(FromValue::from_value),
            f3: s[3].as_ref().map(FromValue::from_value),
            f4: s[4].as_ref().map(FromValue::from_value),
        }
    }
}
impl ToValue for Ts5mommoe2 {
    fn to_value(&self) -> Value {
        Value::Seq(vec![
            Some(self.f0.to_value()),
            self.f1.as_ref().map(|x| x.to_value()),
            self.f2.as_ref().map(|x| x.to_value()),
            self.f3.as_ref().map(|x| x.to_value()),
            self.f4.as_ref().map(|x| x.to_value()),
        ])
    }
}
impl FromValue for Ts5mommoe3 {
    fn from_value(v: &Value) -> Self {
        let s = match v { Value::Seq(s) => s, other => panic!("Ts5mommoe3: expected Seq, got {other:?}") };
        assert_eq!(s.len(), 5, "Ts5mommoe3: component count");
        let _ = s;
        Ts5mommoe3 {
            f0: FromValue::from_value(s[0].as_ref().expect("component f0 of Ts5mommoe3 must be present")),
            f1: s[1].as_ref().map(FromValue::from_value),
            f2: FromValue::from_value(s[2].as_ref().expect("component f2 of Ts5mommoe3 must be present")),
            f3: s[3].as_ref().map(FromValue::from_value),
            f4: s[4].as_ref().map(FromValue::from_value),
        }
    }
}
impl ToValue for Ts5mommoe3 {
    fn to_value(&self) -> Value {
        Value::Seq(vec![
            Some(self.f0.to_value()),
            self.f1.as_ref().map(|x| x.to_value()),
            Some(self.f2.to_value()),
            self.f3.as_ref().map(|x| x.to_value()),
            self.f4.as_ref().map(|x| x.to_value()),
        ])
    }
}
impl FromValue for Ts5mommoe4 {
    fn from_value(v: &Value) -> Self {
        let s = match v { Value::Seq(s) => s, other => panic!("Ts5mommoe4: expected Seq, got {other:?}") };
        assert_eq!(s.len(), 5, "Ts5mommoe4: component count");
        let _ = s;
        Ts5mommoe4 {
            f0: FromValue::from_value(s[0].as_ref().expect("component f0 of Ts5mommoe4 must be present")),
            f1: s[1].as_ref().map(FromValue::from_value),
            f2: FromValue::from_value(s[2].as_ref().expect("component f2 of Ts5mommoe4 must be present")),
            f3: FromValue::from_value(s[3].as_ref().expect("component f3 of Ts5mommoe4 must be present")),
            f4: s[4].as_ref().map(FromValue::from_value),
        }
    }
}
impl ToValue for Ts5mommoe4 {
    fn to_value(&self) -> Value {
        Value::Seq(vec![
            Some(self.f0.to_value()),
            self.f1.as_ref().map(|x| x.to_value()),
            Some(self.f2.to_value()),
            Some(self.f3.to_value()),
            self.f4.as_ref().map(|x| x.to_value()),
        ])
    }
}
impl FromValue for Ts5mommoe5 {
    fn from_value(v: &Value) -> Self {
        let s = match v { Value::Seq(s) => s, other => panic!("Ts5mommoe5: expected Seq, got {other:?}") };
        assert_eq!(s.len(), 5, "Ts5mommoe5: component count");
        let _ = s;
        Ts5mommoe5 {
            f0: FromValue::from_value(s[0].as_ref().expect("component f0 of Ts5mommoe5 must be present")),
            f1: s[1].as_ref().map(FromValue::from_value),
            f2: FromValue::from_value(s[2].as_ref().expect("component f2 of Ts5mommoe5 must be present")),
            f3: FromValue::from_value(s[3].as_ref().expect("component f3 of Ts5mommoe5 must be present")),
            f4: s[4].as_ref().map(FromValue::from_value),
        }
    }
}
impl ToValue for Ts5mommoe5 {
    fn to_value(&self) -> Value {
        Value::Seq(vec![
            Some(self.f0.to_value()),
            self.f1.as_ref().map(|x| x.to_value()),
            Some(self.f2.to_value()),
            Some(self.f3.to_value()),
            self.f4.as_ref().map(|x| x.to_value()),
        ])
    }
}
impl FromValue for Ts5oommon {
    fn from_value(v: &Value) -> Self {
        let s = match v { Value::Seq(s) => s, other => panic!("Ts5oommon: expected Seq, got {other:?}") };
        assert_eq!(s.len(), 5, "Ts5oommon: component count");
        let _ = s;
        Ts5oommon {
            f0: s[0].as_ref().map(FromValue::from_value),
            f1: s[1].as_ref().map(FromValue::from_value),
            f2: FromValue::from_value(s[2].as_ref().expect("component f2 of Ts5oommon must be present")),
            f3: FromValue::from_value(s[3].as_ref().expect("component f3 of Ts5oommon must be present")),
            f4: s[4].as_ref().map(FromValue::from_value),
        }
    }
}
impl ToValue for Ts5oommon {
    fn to_value(&self) -> Value {
        Value::Seq(vec![
            self.f0.as_ref().map(|x| x.to_value()),
            self.f1.as_ref().map(|x| x.to_value()),
            Some(self.f2.to_value()),
            Some(self.f3.to_value()),
            self.f4.as_ref().map(|x| x.to_value()),
        ])
    }
}
impl FromValue for Ts5oommoe0 {
    fn from_value(v: &Value) -> Self {
        let s = match v { Value::Seq(s) => s, other => panic!("Ts5oommoe0: expected Seq, got {other:?}") };
        assert_eq!(s.len(), 5, "Ts5oommoe0: component count");
        let _ = s;
        Ts5oommoe0 {
            f0: s[0].as_ref().map(FromValue::from_value),
            f1: s[1].as_ref().map(FromValue::from_value),
            f2: s[2].as_ref().map(FromValue::from_value),
            f3: s[3].as_ref().map(FromValue::from_value),
            f4: s[4].as_ref().map(FromValue::from_value),
        }
    }
}
impl ToValue for Ts5oommoe0 {
    fn to_value(&self) -> Value {
        Value::Seq(vec![
            self.f0.as_ref().map(|x| x.to_value()),
            self.f1.as_ref().map(|x| x.to_value()),
            self.f2.as_ref().map(|x| x.to_value()),
            self.f3.as_ref().map(|x| x.to_value()),
            self.f4.as_ref().map(|x| x.to_value()),
        ])
    }
}
impl FromValue for Ts5oommoe1 {
    fn from_value(v: &Value) -> Self {
        let s = match v { Value::Seq(s) => s, other => panic!("Ts5oommoe1: expected Seq, got {other:?}") };
        assert_eq!(s.len(), 5, "Ts5oommoe1: component count");
        let _ = s;
        Ts5oommoe1 {
            f0: s[0].as_ref().map(FromValue::from_value),
            f1: s[1].as_ref().map(FromValue::from_value),
            f2: s[2].as_ref().map(FromValue::from_value),
            f3: s[3].as_ref().map(FromValue::from_value),
            f4: s[4].as_ref().map(FromValue::from_value),
        }
    }
}
impl ToValue for Ts5oommoe1 {
    fn to_value(&self) -> Value {
        Value::Seq(vec![
            self.f0.as_ref().map(|x| x.to_value()),
            self.f1.as_ref().map(|x| x.to_value()),
            self.f2.as_ref().map(|x| x.to_value()),
            self.f3.as_ref().map(|x| x.to_value()),
            self.f4.as_ref().map(|x| x.to_value()),
        ])
    }
}
impl FromValue for Ts5oommoe2 {
    fn from_value(v: &Value) -> Self {
        let s = match v { Value::Seq(s) => s, other => panic!("Ts5oommoe2: expected Seq, got {other:?}") };
        assert_eq!(s.len(), 5, "Ts5oommoe2: component count");
        let _ = s;
        Ts5oommoe2 {
            f0: s[0].as_ref().map(FromValue::from_value),
            f1: s[1].as_ref().map(FromValue::from_value),
            f2: s[2].as_ref().map(FromValue::from_value),
            f3: s[3].as_ref().map(FromValue::from_value),
            f4: s[4].as_ref().map(FromValue::from_value),
        }
    }
}
impl ToValue for Ts5oommoe2 {
    fn to_value(&self) -> Value {
        Value::Seq(vec![
            self.f0.as_ref().map(|x| x.to_value()),
            self.f1.as_ref().map(|x| x.to_value()),
            self.f2.as_ref().map(|x| x.to_value()),
            self.f3.as_ref().map(|x| x.to_value()),
            self.f4.as_ref().map(|x| x.to_value()),
        ])
    }
}
impl FromValue for Ts5oommoe3 {
    fn from_value(v: &Value) -> Self {
        let s = match v { Value::Seq(s) => s, other => panic!("Ts5oommoe3: expected Seq, got {other:?}") };
        assert_eq!(s.len(), 5, "Ts5oommoe3: component count");
        let _ = s;
        Ts5oommoe3 {
            f0: s[0].as_ref().map(FromValue::from_value),
            f1: s[1].as_ref().map(FromValue::from_value),
            f2: FromValue::from_value(s[2].as_ref().expect("component f2 of Ts5oommoe3 must be present")),
            f3: s[3].as_ref().map(FromValue::from_value),
            f4: s[4].as_ref().map(FromValue::from_value),
        }
    }
}
impl ToValue for Ts5oommoe3 {
    fn to_value(&self) -> Value {
        Value::Seq(vec![
            self.f0.as_ref().map(|x| x.to_value()),
            self.f1.as_ref().map(|x| x.to_value()),
            Some(self.f2.to_value()),
            self.f3.as_ref().map(|x| x.to_value()),
            self.f4.as_ref().map(|x| x.to_value()),
        ])
    }
}

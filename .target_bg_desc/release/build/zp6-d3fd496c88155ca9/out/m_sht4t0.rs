use asn1rs::prelude::*;

#[asn(set)]

#[derive(Default, Debug, Clone, PartialEq, Hash)]
pub struct Tt4mmmmn {
    #[asn(integer(0..7))] pub f0: u8,
    #[asn(integer(0..7))] pub f1: u8,
    #[asn(integer(0..7))] pub f2: u8,
    #[asn(integer(0..7))] pub f3: u8,
}

impl Tt4mmmmn {
    pub const fn f0_min() -> u8 {
        0
    }

    pub const fn f0_max() -> u8 {
        7
    }

    pub const fn f1_min() -> u8 {
        0
    }

    pub const fn f1_max() -> u8 {
        7
    }

    pub const fn f2_min() -> u8 {
        0
    }

    pub const fn f2_max() -> u8 {
        7
    }

    pub const fn f3_min() -> u8 {
        0
    }

    pub const fn f3_max() -> u8 {
        7
    }
}

#[asn(set, extensible_after(f0))]

#[derive(Default, Debug, Clone, PartialEq, Hash)]
pub struct Tt4mmmme0 {
    #[asn(integer(0..7))] pub f0: u8,
    #[asn(optional(integer(0..7)))] pub f1: Option<u8>,
    #[asn(optional(integer(0..7)))] pub f2: Option<u8>,
    #[asn(optional(integer(0..7)))] pub f3: Option<u8>,
}

impl Tt4mmmme0 {
    pub const fn f0_min() -> u8 {
        0
    }

    pub const fn f0_max() -> u8 {
        7
    }

    pub const fn f1_min() -> u8 {
        0
    }

    pub const fn f1_max() -> u8 {
        7
    }

    pub const fn f2_min() -> u8 {
        0
    }

    pub const fn f2_max() -> u8 {
        7
    }

    pub const fn f3_min() -> u8 {
        0
    }

    pub const fn f3_max() -> u8 {
        7
    }
}

#[asn(set, extensible_after(f0))]

#[derive(Default, Debug, Clone, PartialEq, Hash)]
pub struct Tt4mmmme1 {
    #[asn(integer(0..7))] pub f0: u8,
    #[asn(optional(integer(0..7)))] pub f1: Option<u8>,
    #[asn(optional(integer(0..7)))] pub f2: Option<u8>,
    #[asn(optional(integer(0..7)))] pub f3: Option<u8>,
}

impl Tt4mmmme1 {
    pub const fn f0_min() -> u8 {
        0
    }

    pub const fn f0_max() -> u8 {
        7
    }

    pub const fn f1_min() -> u8 {
        0
    }

    pub const fn f1_max() -> u8 {
        7
    }

    pub const fn f2_min() -> u8 {
        0
    }

    pub const fn f2_max() -> u8 {
        7
    }

    pub const fn f3_min() -> u8 {
        0
    }

    pub const fn f3_max() -> u8 {
        7
    }
}

#[asn(set, extensible_after(f1))]

#[derive(Default, Debug, Clone, PartialEq, Hash)]
pub struct Tt4mmmme2 {
    #[asn(integer(0..7))] pub f0: u8,
    #[asn(integer(0..7))] pub f1: u8,
    #[asn(optional(integer(0..7)))] pub f2: Option<u8>,
    #[asn(optional(integer(0..7)))] pub f3: Option<u8>,
}

impl Tt4mmmme2 {
    pub const fn f0_min() -> u8 {
        0
    }

    pub const fn f0_max() -> u8 {
        7
    }

    pub const fn f1_min() -> u8 {
        0
    }

    pub const fn f1_max() -> u8 {
        7
    }

    pub const fn f2_min() -> u8 {
        0
    }

    pub const fn f2_max() -> u8 {
        7
    }

    pub const fn f3_min() -> u8 {
        0
    }

    pub const fn f3_max() -> u8 {
        7
    }
}

#[asn(set, extensible_after(f2))]

#[derive(Default, Debug, Clone, PartialEq, Hash)]
pub struct Tt4mmmme3 {
    #[asn(integer(0..7))] pub f0: u8,
    #[asn(integer(0..7))] pub f1: u8,
    #[asn(integer(0..7))] pub f2: u8,
    #[asn(optional(integer(0..7)))] pub f3: Option<u8>,
}

impl Tt4mmmme3 {
    pub const fn f0_min() -> u8 {
        0
    }

    pub const fn f0_max() -> u8 {
        7
    }

    pub const fn f1_min() -> u8 {
        0
    }

    pub const fn f1_max() -> u8 {
        7
    }

    pub const fn f2_min() -> u8 {
        0
    }

    pub const fn f2_max() -> u8 {
        7
    }

    pub const fn f3_min() -> u8 {
        0
    }

    pub const fn f3_max() -> u8 {
        7
    }
}

#[asn(set, extensible_after(f3))]

#[derive(Default, Debug, Clone, PartialEq, Hash)]
pub struct Tt4mmmme4 {
    #[asn(integer(0..7))] pub f0: u8,
    #[asn(integer(0..7))] pub f1: u8,
    #[asn(integer(0..7))] pub f2: u8,
    #[asn(integer(0..7))] pub f3: u8,
}

impl Tt4mmmme4 {
    pub const fn f0_min() -> u8 {
        0
    }

    pub const fn f0_max() -> u8 {
        7
    }

    pub const fn f1_min() -> u8 {
        0
    }

    pub const fn f1_max() -> u8 {
        7
    }

    pub const fn f2_min() -> u8 {
        0
    }

    pub const fn f2_max() -> u8 {
        7
    }

    pub const fn f3_min() -> u8 {
        0
    }

    pub const fn f3_max() -> u8 {
        7
    }
}

#[asn(set)]

#[derive(Default, Debug, Clone, PartialEq, Hash)]
pub struct Tt4ommmn {
    #[asn(optional(integer(0..7)))] pub f0: Option<u8>,
    #[asn(integer(0..7))] pub f1: u8,
    #[asn(integer(0..7))] pub f2: u8,
    #[asn(integer(0..7))] pub f3: u8,
}

impl Tt4ommmn {
    pub const fn f0_min() -> u8 {
        0
    }

    pub const fn f0_max() -> u8 {
        7
    }

    pub const fn f1_min() -> u8 {
        0
    }

    pub const fn f1_max() -> u8 {
        7
    }

    pub const fn f2_min() -> u8 {
        0
    }

    pub const fn f2_max() -> u8 {
        7
    }

    pub const fn f3_min() -> u8 {
        0
    }

    pub const fn f3_max() -> u8 {
        7
    }
}

#[asn(set, extensible_after(f0))]

#[derive(Default, Debug, Clone, PartialEq, Hash)]
pub struct Tt4ommme0 {
    #[asn(optional(integer(0..7)))] pub f0: Option<u8>,
    #[asn(optional(integer(0..7)))] pub f1: Option<u8>,
    #[asn(optional(integer(0..7)))] pub f2: Option<u8>,
    #[asn(optional(integer(0..7)))] pub f3: Option<u8>,
}

impl Tt4ommme0 {
    pub const fn f0_min() -> u8 {
        0
    }

    pub const fn f0_max() -> u8 {
        7
    }

    pub const fn f1_min() -> u8 {
        0
    }

    pub const fn f1_max() -> u8 {
        7
    }

    pub const fn f2_min() -> u8 {
        0
    }

    pub const fn f2_max() -> u8 {
        7
    }

    pub const fn f3_min() -> u8 {
        0
    }

    pub const fn f3_max() -> u8 {
        7
    }
}

#[asn(set, extensible_after(f0))]

#[derive(Default, Debug, Clone, PartialEq, Hash)]
pub struct Tt4ommme1 {
    #[asn(optional(integer(0..7)))] pub f0: Option<u8>,
    #[asn(optional(integer(0..7)))] pub f1: Option<u8>,
    #[asn(optional(integer(0..7)))] pub f2: Option<u8>,
    #[asn(optional(integer(0..7)))] pub f3: Option<u8>,
}

impl Tt4ommme1 {
    pub const fn f0_min() -> u8 {
        0
    }

    pub const fn f0_max() -> u8 {
        7
    }

    pub const fn f1_min() -> u8 {
        0
    }

    pub const fn f1_max() -> u8 {
        7
    }

    pub const fn f2_min() -> u8 {
        0
    }

    pub const fn f2_max() -> u8 {
        7
    }

    pub const fn f3_min() -> u8 {
        0
    }

    pub const fn f3_max() -> u8 {
        7
    }
}

#[asn(set, extensible_after(f1))]

#[derive(Default, Debug, Clone, PartialEq, Hash)]
pub struct Tt4ommme2 {
    #[asn(optional(integer(0..7)))] pub f0: Option<u8>,
    #[asn(integer(0..7))] pub f1: u8,
    #[asn(optional(integer(0..7)))] pub f2: Option<u8>,
    #[asn(optional(integer(0..7)))] pub f3: Option<u8>,
}

impl Tt4ommme2 {
    pub const fn f0_min() -> u8 {
        0
    }

    pub const fn f0_max() -> u8 {
        7
    }

    pub const fn f1_min() -> u8 {
        0
    }

    pub const fn f1_max() -> u8 {
        7
    }

    pub const fn f2_min() -> u8 {
        0
    }

    pub const fn f2_max() -> u8 {
        7
    }

    pub const fn f3_min() -> u8 {
        0
    }

    pub const fn f3_max() -> u8 {
        7
    }
}

#[asn(set, extensible_after(f2))]

#[derive(Default, Debug, Clone, PartialEq, Hash)]
pub struct Tt4ommme3 {
    #[asn(optional(integer(0..7)))] pub f0: Option<u8>,
    #[asn(integer(0..7))] pub f1: u8,
    #[asn(integer(0..7))] pub f2: u8,
    #[asn(optional(integer(0..7)))] pub f3: Option<u8>,
}

impl Tt4ommme3 {
    pub const fn f0_min() -> u8 {
        0
    }

    pub const fn f0_max() -> u8 {
        7
    }

    pub const fn f1_min() -> u8 {
        0
    }

    pub const fn f1_max() -> u8 {
        7
    }

    pub const fn f2_min() -> u8 {
        0
    }

    pub const fn f2_max() -> u8 {
        7
    }

    pub const fn f3_min() -> u8 {
        0
    }

    pub const fn f3_max() -> u8 {
        7
    }
}

#[asn(set, extensible_after(f3))]

#[derive(Default, Debug, Clone, PartialEq, Hash)]
pub struct Tt4ommme4 {
    #[asn(optional(integer(0..7)))] pub f0: Option<u8>,
    #[asn(integer(0..7))] pub f1: u8,
    #[asn(integer(0..7))] pub f2: u8,
    #[asn(integer(0..7))] pub f3: u8,
}

impl Tt4ommme4 {
    pub const fn f0_min() -> u8 {
        0
    }

    pub const fn f0_max() -> u8 {
        7
    }

    pub const fn f1_min() -> u8 {
        0
    }

    pub const fn f1_max() -> u8 {
        7
    }

    pub const fn f2_min() -> u8 {
        0
    }

    pub const fn f2_max() -> u8 {
        7
    }

    pub const fn f3_min() -> u8 {
        0
    }

    pub const fn f3_max() -> u8 {
        7
    }
}

#[asn(set)]

#[derive(Default, Debug, Clone, PartialEq, Hash)]
pub struct Tt4dmmmn {
    #[asn(default(integer(0..7), 5))] pub f0: u8,
    #[asn(integer(0..7))] pub f1: u8,
    #[asn(integer(0..7))] pub f2: u8,
    #[asn(integer(0..7))] pub f3: u8,
}

impl Tt4dmmmn {
    pub const fn f0_min() -> u8 {
        0
    }

    pub const fn f0_max() -> u8 {
        7
    }

    pub const fn f1_min() -> u8 {
        0
    }

    pub const fn f1_max() -> u8 {
        7
    }

    pub const fn f2_min() -> u8 {
        0
    }

    pub const fn f2_max() -> u8 {
        7
    }

    pub const fn f3_min() -> u8 {
        0
    }

    pub const fn f3_max() -> u8 {
        7
    }
}

#[asn(set, extensible_after(f0))]

#[derive(Default, Debug, Clone, PartialEq, Hash)]
pub struct Tt4dmmme0 {
    #[asn(default(integer(0..7), 5))] pub f0: u8,
    #[asn(optional(integer(0..7)))] pub f1: Option<u8>,
    #[asn(optional(integer(0..7)))] pub f2: Option<u8>,
    #[asn(optional(integer(0..7)))] pub f3: Option<u8>,
}

impl Tt4dmmme0 {
    pub const fn f0_min() -> u8 {
        0
    }

    pub const fn f0_max() -> u8 {
        7
    }

    pub const fn f1_min() -> u8 {
        0
    }

    pub const fn f1_max() -> u8 {
        7
    }

    pub const fn f2_min() -> u8 {
        0
    }

    pub const fn f2_max() -> u8 {
        7
    }

    pub const fn f3_min() -> u8 {
        0
    }

    pub const fn f3_max() -> u8 {
        7
    }
}

#[asn(set, extensible_after(f0))]

#[derive(Default, Debug, Clone, PartialEq, Hash)]
pub struct Tt4dmmme1 {
    #[asn(default(integer(0..7), 5))] pub f0: u8,
    #[asn(optional(integer(0..7)))] pub f1: Option<u8>,
    #[asn(optional(integer(0..7)))] pub f2: Option<u8>,
    #[asn(optional(integer(0..7)))] pub f3: Option<u8>,
}

impl Tt4dmmme1 {
    pub const fn f0_min() -> u8 {
        0
    }

    pub const fn f0_max() -> u8 {
        7
    }

    pub const fn f1_min() -> u8 {
        0
    }

    pub const fn f1_max() -> u8 {
        7
    }

    pub const fn f2_min() -> u8 {
        0
    }

    pub const fn f2_max() -> u8 {
        7
    }

    pub const fn f3_min() -> u8 {
        0
    }

    pub const fn f3_max() -> u8 {
        7
    }
}

#[asn(set, extensible_after(f1))]

#[derive(Default, Debug, Clone, PartialEq, Hash)]
pub struct Tt4dmmme2 {
    #[asn(default(integer(0..7), 5))] pub f0: u8,
    #[asn(integer(0..7))] pub f1: u8,
    #[asn(optional(integer(0..7)))] pub f2: Option<u8>,
    #[asn(optional(integer(0..7)))] pub f3: Option<u8>,
}

impl Tt4dmmme2 {
    pub const fn f0_min() -> u8 {
        0
    }

    pub const fn f0_max() -> u8 {
        7
    }

    pub const fn f1_min() -> u8 {
        0
    }

    pub const fn f1_max() -> u8 {
        7
    }

    pub const fn f2_min() -> u8 {
        0
    }

    pub const fn f2_max() -> u8 {
        7
    }

    pub const fn f3_min() -> u8 {
        0
    }

    pub const fn f3_max() -> u8 {
        7
    }
}

#[asn(set, extensible_after(f2))]

#[derive(Default, Debug, Clone, PartialEq, Hash)]
pub struct Tt4dmmme3 {
    #[asn(default(integer(0..7), 5))] pub f0: u8,
    #[asn(integer(0..7))] pub f1: u8,
    #[asn(integer(0..7))] pub f2: u8,
    #[asn(optional(integer(0..7)))] pub f3: Option<u8>,
}

impl Tt4dmmme3 {
    pub const fn f0_min() -> u8 {
        0
    }

    pub const fn f0_max() -> u8 {
        7
    }

    pub const fn f1_min() -> u8 {
        0
    }

    pub const fn f1_max() -> u8 {
        7
    }

    pub const fn f2_min() -> u8 {
        0
    }

    pub const fn f2_max() -> u8 {
        7
    }

    pub const fn f3_min() -> u8 {
        0
    }

    pub const fn f3_max() -> u8 {
        7
    }
}

#[asn(set, extensible_after(f3))]

#[derive(Default, Debug, Clone, PartialEq, Hash)]
pub struct Tt4dmmme4 {
    #[asn(default(integer(0..7), 5))] pub f0: u8,
    #[asn(integer(0..7))] pub f1: u8,
    #[asn(integer(0..7))] pub f2: u8,
    #[asn(integer(0..7))] pub f3: u8,
}

impl Tt4dmmme4 {
    pub const fn f0_min() -> u8 {
        0
    }

    pub const fn f0_max() -> u8 {
        7
    }

    pub const fn f1_min() -> u8 {
        0
    }

    pub const fn f1_max() -> u8 {
        7
    }

    pub const fn f2_min() -> u8 {
        0
    }

    pub const fn f2_max() -> u8 {
        7
    }

    pub const fn f3_min() -> u8 {
        0
    }

    pub const fn f3_max() -> u8 {
        7
    }
}

#[asn(set)]

#[derive(Default, Debug, Clone, PartialEq, Hash)]
pub struct Tt4mommn {
    #[asn(integer(0..7))] pub f0: u8,
    #[asn(optional(integer(0..7)))] pub f1: Option<u8>,
    #[asn(integer(0..7))] pub f2: u8,
    #[asn(integer(0..7))] pub f3: u8,
}

impl Tt4mommn {
    pub const fn f0_min() -> u8 {
        0
    }

    pub const fn f0_max() -> u8 {
        7
    }

    pub const fn f1_min() -> u8 {
        0
    }

    pub const fn f1_max() -> u8 {
        7
    }

    pub const fn f2_min() -> u8 {
        0
    }

    pub const fn f2_max() -> u8 {
        7
    }

    pub const fn f3_min() -> u8 {
        0
    }

    pub const fn f3_max() -> u8 {
        7
    }
}

#[asn(set, extensible_after(f0))]

#[derive(Default, Debug, Clone, PartialEq, Hash)]
pub struct Tt4momme0 {
    #[asn(integer(0..7))] pub f0: u8,
    #[asn(optional(integer(0..7)))] pub f1: Option<u8>,
    #[asn(optional(integer(0..7)))] pub f2: Option<u8>,
    #[asn(optional(integer(0..7)))] pub f3: Option<u8>,
}

impl Tt4momme0 {
    pub const fn f0_min() -> u8 {
        0
    }

    pub const fn f0_max() -> u8 {
        7
    }

    pub const fn f1_min() -> u8 {
        0
    }

    pub const fn f1_max() -> u8 {
        7
    }

    pub const fn f2_min() -> u8 {
        0
    }

    pub const fn f2_max() -> u8 {
        7
    }

    pub const fn f3_min() -> u8 {
        0
    }

    pub const fn f3_max() -> u8 {
        7
    }
}

#[asn(set, extensible_after(f0))]

#[derive(Default, Debug, Clone, PartialEq, Hash)]
pub struct Tt4momme1 {
    #[asn(integer(0..7))] pub f0: u8,
    #[asn(optional(integer(0..7)))] pub f1: Option<u8>,
    #[asn(optional(integer(0..7)))] pub f2: Option<u8>,
    #[asn(optional(integer(0..7)))] pub f3: Option<u8>,
}

impl Tt4momme1 {
    pub const fn f0_min() -> u8 {
        0
    }

    pub const fn f0_max() -> u8 {
        7
    }

    pub const fn f1_min() -> u8 {
        0
    }

    pub const fn f1_max() -> u8 {
        7
    }

    pub const fn f2_min() -> u8 {
        0
    }

    pub const fn f2_max() -> u8 {
        7
    }

    pub const fn f3_min() -> u8 {
        0
    }

    pub const fn f3_max() -> u8 {
        7
    }
}

#[asn(set, extensible_after(f1))]

#[derive(Default, Debug, Clone, PartialEq, Hash)]
pub struct Tt4momme2 {
    #[asn(integer(0..7))] pub f0: u8,
    #[asn(optional(integer(0..7)))] pub f1: Option<u8>,
    #[asn(optional(integer(0..7)))] pub f2: Option<u8>,
    #[asn(optional(integer(0..7)))] pub f3: Option<u8>,
}

impl Tt4momme2 {
    pub const fn f0_min() -> u8 {
        0
    }

    pub const fn f0_max() -> u8 {
        7
    }

    pub const fn f1_min() -> u8 {
        0
    }

    pub const fn f1_max() -> u8 {
        7
    }

    pub const fn f2_min() -> u8 {
        0
    }

    pub const fn f2_max() -> u8 {
        7
    }

    pub const fn f3_min() -> u8 {
        0
    }

    pub const fn f3_max() -> u8 {
        7
    }
}

#[asn(set, extensible_after(f2))]

#[derive(Default, Debug, Clone, PartialEq, Hash)]
pub struct Tt4momme3 {
    #[asn(integer(0..7))] pub f0: u8,
    #[asn(optional(integer(0..7)))] pub f1: Option<u8>,
    #[asn(integer(0..7))] pub f2: u8,
    #[asn(optional(integer(0..7)))] pub f3: Option<u8>,
}

impl Tt4momme3 {
    pub const fn f0_min() -> u8 {
        0
    }

    pub const fn f0_max() -> u8 {
        7
    }

    pub const fn f1_min() -> u8 {
        0
    }

    pub const fn f1_max() -> u8 {
        7
    }

    pub const fn f2_min() -> u8 {
        0
    }

    pub const fn f2_max() -> u8 {
        7
    }

    pub const fn f3_min() -> u8 {
        0
    }

    pub const fn f3_max() -> u8 {
        7
    }
}

#[asn(set, extensible_after(f3))]

#[derive(Default, Debug, Clone, PartialEq, Hash)]
pub struct Tt4momme4 {
    #[asn(integer(0..7))] pub f0: u8,
    #[asn(optional(integer(0..7)))] pub f1: Option<u8>,
    #[asn(integer(0..7))] pub f2: u8,
    #[asn(integer(0..7))] pub f3: u8,
}

impl Tt4momme4 {
    pub const fn f0_min() -> u8 {
        0
    }

    pub const fn f0_max() -> u8 {
        7
    }

    pub const fn f1_min() -> u8 {
        0
    }

    pub const fn f1_max() -> u8 {
        7
    }

    pub const fn f2_min() -> u8 {
        0
    }

    pub const fn f2_max() -> u8 {
        7
    }

    pub const fn f3_min() -> u8 {
        0
    }

    pub const fn f3_max() -> u8 {
        7
    }
}

#[asn(set)]

#[derive(Default, Debug, Clone, PartialEq, Hash)]
pub struct Tt4oommn {
    #[asn(optional(integer(0..7)))] pub f0: Option<u8>,
    #[asn(optional(integer(0..7)))] pub f1: Option<u8>,
    #[asn(integer(0..7))] pub f2: u8,
    #[asn(integer(0..7))] pub f3: u8,
}

impl Tt4oommn {
    pub const fn f0_min() -> u8 {
        0
    }

    pub const fn f0_max() -> u8 {
        7
    }

    pub const fn f1_min() -> u8 {
        0
    }

    pub const fn f1_max() -> u8 {
        7
    }

    pub const fn f2_min() -> u8 {
        0
    }

    pub const fn f2_max() -> u8 {
        7
    }

    pub const fn f3_min() -> u8 {
        0
    }

    pub const fn f3_max() -> u8 {
        7
    }
}

#[asn(set, extensible_after(f0))]

#[derive(Default, Debug, Clone, PartialEq, Hash)]
pub struct Tt4oomme0 {
    #[asn(optional(integer(0..7)))] pub f0: Option<u8>,
    #[asn(optional(integer(0..7)))] pub f1: Option<u8>,
    #[asn(optional(integer(0..7)))] pub f2: Option<u8>,
    #[asn(optional(integer(0..7)))] pub f3: Option<u8>,
}

impl Tt4oomme0 {
    pub const fn f0_min() -> u8 {
        0
    }

    pub const fn f0_max() -> u8 {
        7
    }

    pub const fn f1_min() -> u8 {
        0
    }

    pub const fn f1_max() -> u8 {
        7
    }

    pub const fn f2_min() -> u8 {
        0
    }

    pub const fn f2_max() -> u8 {
        7
    }

    pub const fn f3_min() -> u8 {
        0
    }

    pub const fn f3_max() -> u8 {
        7
    }
}

#[asn(set, extensible_after(f0))]

#[derive(Default, Debug, Clone, PartialEq, Hash)]
pub struct Tt4oomme1 {
    #[asn(optional(integer(0..7)))] pub f0: Option<u8>,
    #[asn(optional(integer(0..7)))] pub f1: Option<u8>,
    #[asn(optional(integer(0..7)))] pub f2: Option<u8>,
    #[asn(optional(integer(0..7)))] pub f3: Option<u8>,
}

impl Tt4oomme1 {
    pub const fn f0_min() -> u8 {
        0
    }

    pub const fn f0_max() -> u8 {
        7
    }

    pub const fn f1_min() -> u8 {
        0
    }

    pub const fn f1_max() -> u8 {
        7
    }

    pub const fn f2_min() -> u8 {
        0
    }

    pub const fn f2_max() -> u8 {
        7
    }

    pub const fn f3_min() -> u8 {
        0
    }

    pub const fn f3_max() -> u8 {
        7
    }
}

#[asn(set, extensible_after(f1))]

#[derive(Default, Debug, Clone, PartialEq, Hash)]
pub struct Tt4oomme2 {
    #[asn(optional(integer(0..7)))] pub f0: Option<u8>,
    #[asn(optional(integer(0..7)))] pub f1: Option<u8>,
    #[asn(optional(integer(0..7)))] pub f2: Option<u8>,
    #[asn(optional(integer(0..7)))] pub f3: Option<u8>,
}

impl Tt4oomme2 {
    pub const fn f0_min() -> u8 {
        0
    }

    pub const fn f0_max() -> u8 {
        7
    }

    pub const fn f1_min() -> u8 {
        0
    }

    pub const fn f1_max() -> u8 {
        7
    }

    pub const fn f2_min() -> u8 {
        0
    }

    pub const fn f2_max() -> u8 {
        7
    }

    pub const fn f3_min() -> u8 {
        0
    }

    pub const fn f3_max() -> u8 {
        7
    }
}

#[asn(set, extensible_after(f2))]

#[derive(Default, Debug, Clone, PartialEq, Hash)]
pub struct Tt4oomme3 {
    #[asn(optional(integer(0..7)))] pub f0: Option<u8>,
    #[asn(optional(integer(0..7)))] pub f1: Option<u8>,
    #[asn(integer(0..7))] pub f2: u8,
    #[asn(optional(integer(0..7)))] pub f3: Option<u8>,
}

impl Tt4oomme3 {
    pub const fn f0_min() -> u8 {
        0
    }

    pub const fn f0_max() -> u8 {
        7
    }

    pub const fn f1_min() -> u8 {
        0
    }

    pub const fn f1_max() -> u8 {
        7
    }

    pub const fn f2_min() -> u8 {
        0
    }

    pub const fn f2_max() -> u8 {
        7
    }

    pub const fn f3_min() -> u8 {
        0
    }

    pub const fn f3_max() -> u8 {
        7
    }
}

#[asn(set, extensible_after(f3))]

#[derive(Default, Debug, Clone, PartialEq, Hash)]
pub struct Tt4oomme4 {
    #[asn(optional(integer(0..7)))] pub f0: Option<u8>,
    #[asn(optional(integer(0..7)))] pub f1: Option<u8>,
    #[asn(integer(0..7))] pub f2: u8,
    #[asn(integer(0..7))] pub f3: u8,
}

impl Tt4oomme4 {
    pub const fn f0_min() -> u8 {
        0
    }

    pub const fn f0_max() -> u8 {
        7
    }

    pub const fn f1_min() -> u8 {
        0
    }

    pub const fn f1_max() -> u8 {
        7
    }

    pub const fn f2_min() -> u8 {
        0
    }

    pub const fn f2_max() -> u8 {
        7
    }

    pub const fn f3_min() -> u8 {
        0
    }

    pub const fn f3_max() -> u8 {
        7
    }
}

#[asn(set)]

#[derive(Default, Debug, Clone, PartialEq, Hash)]
pub struct Tt4dommn {
    #[asn(default(integer(0..7), 5))] pub f0: u8,
    #[asn(optional(integer(0..7)))] pub f1: Option<u8>,
    #[asn(integer(0..7))] pub f2: u8,
    #[asn(integer(0..7))] pub f3: u8,
}

impl Tt4dommn {
    pub const fn f0_min() -> u8 {
        0
    }

    pub const fn f0_max() -> u8 {
        7
    }

    pub const fn f1_min() -> u8 {
        0
    }

    pub const fn f1_max() -> u8 {
        7
    }

    pub const fn f2_min() -> u8 {
        0
    }

    pub const fn f2_max() -> u8 {
        7
    }

    pub const fn f3_min() -> u8 {
        0
    }

    pub const fn f3_max() -> u8 {
        7
    }
}

#[asn(set, extensible_after(f0))]

#[derive(Default, Debug, Clone, PartialEq, Hash)]
pub struct Tt4domme0 {
    #[asn(default(integer(0..7), 5))] pub f0: u8,
    #[asn(optional(integer(0..7)))] pub f1: Option<u8>,
    #[asn(optional(integer(0..7)))] pub f2: Option<u8>,
    #[asn(optional(integer(0..7)))] pub f3: Option<u8>,
}

impl Tt4domme0 {
    pub const fn f0_min() -> u8 {
        0
    }

    pub const fn f0_max() -> u8 {
        7
    }

    pub const fn f1_min() -> u8 {
        0
    }

    pub const fn f1_max() -> u8 {
        7
    }

    pub const fn f2_min() -> u8 {
        0
    }

    pub const fn f2_max() -> u8 {
        7
    }

    pub const fn f3_min() -> u8 {
        0
    }

    pub const fn f3_max() -> u8 {
        7
    }
}

#[asn(set, extensible_after(f0))]

#[derive(Default, Debug, Clone, PartialEq, Hash)]
pub struct Tt4domme1 {
    #[asn(default(integer(0..7), 5))] pub f0: u8,
    #[asn(optional(integer(0..7)))] pub f1: Option<u8>,
    #[asn(optional(integer(0..7)))] pub f2: Option<u8>,
    #[asn(optional(integer(0..7)))] pub f3: Option<u8>,
}

impl Tt4domme1 {
    pub const fn f0_min() -> u8 {
        0
    }

    pub const fn f0_max() -> u8 {
        7
    }

    pub const fn f1_min() -> u8 {
        0
    }

    pub const fn f1_max() -> u8 {
        7
    }

    pub const fn f2_min() -> u8 {
        0
    }

    pub const fn f2_max() -> u8 {
        7
    }

    pub const fn f3_min() -> u8 {
        0
    }

    pub const fn f3_max() -> u8 {
        7
    }
}

#[asn(set, extensible_after(f1))]

#[derive(Default, Debug, Clone, PartialEq, Hash)]
pub struct Tt4domme2 {
    #[asn(default(integer(0..7), 5))] pub f0: u8,
    #[asn(optional(integer(0..7)))] pub f1: Option<u8>,
    #[asn(optional(integer(0..7)))] pub f2: Option<u8>,
    #[asn(optional(integer(0..7)))] pub f3: Option<u8>,
}

impl Tt4domme2 {
    pub const fn f0_min() -> u8 {
        0
    }

    pub const fn f0_max() -> u8 {
        7
    }

    pub const fn f1_min() -> u8 {
        0
    }

    pub const fn f1_max() -> u8 {
        7
    }

    pub const fn f2_min() -> u8 {
        0
    }

    pub const fn f2_max() -> u8 {
        7
    }

    pub const fn f3_min() -> u8 {
        0
    }

    pub const fn f3_max() -> u8 {
        7
    }
}

#[asn(set, extensible_after(f2))]

#[derive(Default, Debug, Clone, PartialEq, Hash)]
pub struct Tt4domme3 {
    #[asn(default(integer(0..7), 5))] pub f0: u8,
    #[asn(optional(integer(0..7)))] pub f1: Option<u8>,
    #[asn(integer(0..7))] pub f2: u8,
    #[asn(optional(integer(0..7)))] pub f3: Option<u8>,
}

impl Tt4domme3 {
    pub const fn f0_min() -> u8 {
        0
    }

    pub const fn f0_max() -> u8 {
        7
    }

    pub const fn f1_min() -> u8 {
        0
    }

    pub const fn f1_max() -> u8 {
        7
    }

    pub const fn f2_min() -> u8 {
        0
    }

    pub const fn f2_max() -> u8 {
        7
    }

    pub const fn f3_min() -> u8 {
        0
    }

    pub const fn f3_max() -> u8 {
        7
    }
}

#[asn(set, extensible_after(f3))]

#[derive(Default, Debug, Clone, PartialEq, Hash)]
pub struct Tt4domme4 {
    #[asn(default(integer(0..7), 5))] pub f0: u8,
    #[asn(optional(integer(0..7)))] pub f1: Option<u8>,
    #[asn(integer(0..7))] pub f2: u8,
    #[asn(integer(0..7))] pub f3: u8,
}

impl Tt4domme4 {
    pub const fn f0_min() -> u8 {
        0
    }

    pub const fn f0_max() -> u8 {
        7
    }

    pub const fn f1_min() -> u8 {
        0
    }

    pub const fn f1_max() -> u8 {
        7
    }

    pub const fn f2_min() -> u8 {
        0
    }

    pub const fn f2_max() -> u8 {
        7
    }

    pub const fn f3_min() -> u8 {
        0
    }

    pub const fn f3_max() -> u8 {
        7
    }
}

#[asn(set)]

#[derive(Default, Debug, Clone, PartialEq, Hash)]
pub struct Tt4mdmmn {
    #[asn(integer(0..7))] pub f0: u8,
    #[asn(default(integer(0..7), 5))] pub f1: u8,
    #[asn(integer(0..7))] pub f2: u8,
    #[asn(integer(0..7))] pub f3: u8,
}

impl Tt4mdmmn {
    pub const fn f0_min() -> u8 {
        0
    }

    pub const fn f0_max() -> u8 {
        7
    }

    pub const fn f1_min() -> u8 {
        0
    }

    pub const fn f1_max() -> u8 {
        7
    }

    pub const fn f2_min() -> u8 {
        0
    }

    pub const fn f2_max() -> u8 {
        7
    }

    pub const fn f3_min() -> u8 {
        0
    }

    pub const fn f3_max() -> u8 {
        7
    }
}

#[asn(set, extensible_after(f0))]

#[derive(Default, Debug, Clone, PartialEq, Hash)]
pub struct Tt4mdmme0 {
    #[asn(integer(0..7))] pub f0: u8,
    #[asn(default(integer(0..7), 5))] pub f1: u8,
    #[asn(optional(integer(0..7)))] pub f2: Option<u8>,
    #[asn(optional(integer(0..7)))] pub f3: Option<u8>,
}

impl Tt4mdmme0 {
    pub const fn f0_min() -> u8 {
        0
    }

    pub const fn f0_max() -> u8 {
        7
    }

    pub const fn f1_min() -> u8 {
        0
    }

    pub const fn f1_max() -> u8 {
        7
    }

    pub const fn f2_min() -> u8 {
        0
    }

    pub const fn f2_max() -> u8 {
        7
    }

    pub const fn f3_min() -> u8 {
        0
    }

    pub const fn f3_max() -> u8 {
        7
    }
}

#[asn(set, extensible_after(f0))]

#[derive(Default, Debug, Clone, PartialEq, Hash)]
pub struct Tt4mdmme1 {
    #[asn(integer(0..7))] pub f0: u8,
    #[asn(default(integer(0..7), 5))] pub f1: u8,
    #[asn(optional(integer(0..7)))] pub f2: Option<u8>,
    #[asn(optional(integer(0..7)))] pub f3: Option<u8>,
}

impl Tt4mdmme1 {
    pub const fn f0_min() -> u8 {
        0
    }

    pub const fn f0_max() -> u8 {
        7
    }

    pub const fn f1_min() -> u8 {
        0
    }

    pub const fn f1_max() -> u8 {
        7
    }

    pub const fn f2_min() -> u8 {
        0
    }

    pub const fn f2_max() -> u8 {
        7
    }

    pub const fn f3_min() -> u8 {
        0
    }

    pub const fn f3_max() -> u8 {
        7
    }
}

#[asn(set, extensible_after(f1))]

#[derive(Default, Debug, Clone, PartialEq, Hash)]
pub struct Tt4mdmme2 {
    #[asn(integer(0..7))] pub f0: u8,
    #[asn(default(integer(0..7), 5))] pub f1: u8,
    #[asn(optional(integer(0..7)))] pub f2: Option<u8>,
    #[asn(optional(integer(0..7)))] pub f3: Option<u8>,
}

impl Tt4mdmme2 {
    pub const fn f0_min() -> u8 {
        0
    }

    pub const fn f0_max() -> u8 {
        7
    }

    pub const fn f1_min() -> u8 {
        0
    }

    pub const fn f1_max() -> u8 {
        7
    }

    pub const fn f2_min() -> u8 {
        0
    }

    pub const fn f2_max() -> u8 {
        7
    }

    pub const fn f3_min() -> u8 {
        0
    }

    pub const fn f3_max() -> u8 {
        7
    }
}

#[asn(set, extensible_after(f2))]

#[derive(Default, Debug, Clone, PartialEq, Hash)]
pub struct Tt4mdmme3 {
    #[asn(integer(0..7))] pub f0: u8,
    #[asn(default(integer(0..7), 5))] pub f1: u8,
    #[asn(integer(0..7))] pub f2: u8,
    #[asn(optional(integer(0..7)))] pub f3: Option<u8>,
}

impl Tt4mdmme3 {
    pub const fn f0_min() -> u8 {
        0
    }

    pub const fn f0_max() -> u8 {
        7
    }

    pub const fn f1_min() -> u8 {
        0
    }

    pub const fn f1_max() -> u8 {
        7
    }

    pub const fn f2_min() -> u8 {
        0
    }

    pub const fn f2_max() -> u8 {
        7
    }

    pub const fn f3_min() -> u8 {
        0
    }

    pub const fn f3_max() -> u8 {
        7
    }
}

#[asn(set, extensible_after(f3))]

#[derive(Default, Debug, Clone, PartialEq, Hash)]
pub struct Tt4mdmme4 {
    #[asn(integer(0..7))] pub f0: u8,
    #[asn(default(integer(0..7), 5))] pub f1: u8,
    #[asn(integer(0..7))] pub f2: u8,
    #[asn(integer(0..7))] pub f3: u8,
}

impl Tt4mdmme4 {
    pub const fn f0_min() -> u8 {
        0
    }

    pub const fn f0_max() -> u8 {
        7
    }

    pub const fn f1_min() -> u8 {
        0
    }

    pub const fn f1_max() -> u8 {
        7
    }

    pub const fn f2_min() -> u8 {
        0
    }

    pub const fn f2_max() -> u8 {
        7
    }

    pub const fn f3_min() -> u8 {
        0
    }

    pub const fn f3_max() -> u8 {
        7
    }
}

#[asn(set)]

#[derive(Default, Debug, Clone, PartialEq, Hash)]
pub struct Tt4odmmn {
    #[asn(optional(integer(0..7)))] pub f0: Option<u8>,
    #[asn(default(integer(0..7), 5))] pub f1: u8,
    #[asn(integer(0..7))] pub f2: u8,
    #[asn(integer(0..7))] pub f3: u8,
}

impl Tt4odmmn {
    pub const fn f0_min() -> u8 {
        0
    }

    pub const fn f0_max() -> u8 {
        7
    }

    pub const fn f1_min() -> u8 {
        0
    }

    pub const fn f1_max() -> u8 {
        7
    }

    pub const fn f2_min() -> u8 {
        0
    }

    pub const fn f2_max() -> u8 {
        7
    }

    pub const fn f3_min() -> u8 {
        0
    }

    pub const fn f3_max() -> u8 {
        7
    }
}

#[asn(set, extensible_after(f0))]

#[derive(Default, Debug, Clone, PartialEq, Hash)]
pub struct Tt4odmme0 {
    #[asn(optional(integer(0..7)))] pub f0: Option<u8>,
    #[asn(default(integer(0..7), 5))] pub f1: u8,
    #[asn(optional(integer(0..7)))] pub f2: Option<u8>,
    #[asn(optional(integer(0..7)))] pub f3: Option<u8>,
}

impl Tt4odmme0 {
    pub const fn f0_min() -> u8 {
        0
    }

    pub const fn f0_max() -> u8 {
        7
    }

    pub const fn f1_min() -> u8 {
        0
    }

    pub const fn f1_max() -> u8 {
        7
    }

    pub const fn f2_min() -> u8 {
        0
    }

    pub const fn f2_max() -> u8 {
        7
    }

    pub const fn f3_min() -> u8 {
        0
    }

    pub const fn f3_max() -> u8 {
        7
    }
}

#[asn(set, extensible_after(f0))]

#[derive(Default, Debug, Clone, PartialEq, Hash)]
pub struct Tt4odmme1 {
    #[asn(optional(integer(0..7)))] pub f0: Option<u8>,
    #[asn(default(integer(0..7), 5))] pub f1: u8,
    #[asn(optional(integer(0..7)))] pub f2: Option<u8>,
    #[asn(optional(integer(0..7)))] pub f3: Option<u8>,
}

impl Tt4odmme1 {
    pub const fn f0_min() -> u8 {
        0
    }

    pub const fn f0_max() -> u8 {
        7
    }

    pub const fn f1_min() -> u8 {
        0
    }

    pub const fn f1_max() -> u8 {
        7
    }

    pub const fn f2_min() -> u8 {
        0
    }

    pub const fn f2_max() -> u8 {
        7
    }

    pub const fn f3_min() -> u8 {
        0
    }

    pub const fn f3_max() -> u8 {
        7
    }
}

#[asn(set, extensible_after(f1))]

#[derive(Default, Debug, Clone, PartialEq, Hash)]
pub struct Tt4odmme2 {
    #[asn(optional(integer(0..7)))] pub f0: Option<u8>,
    #[asn(default(integer(0..7), 5))] pub f1: u8,
    #[asn(optional(integer(0..7)))] pub f2: Option<u8>,
    #[asn(optional(integer(0..7)))] pub f3: Option<u8>,
}

impl Tt4odmme2 {
    pub const fn f0_min() -> u8 {
        0
    }

    pub const fn f0_max() -> u8 {
        7
    }

    pub const fn f1_min() -> u8 {
        0
    }

    pub const fn f1_max() -> u8 {
        7
    }

    pub const fn f2_min() -> u8 {
        0
    }

    pub const fn f2_max() -> u8 {
        7
    }

    pub const fn f3_min() -> u8 {
        0
    }

    pub const fn f3_max() -> u8 {
        7
    }
}

#[asn(set, extensible_after(f2))]

#[derive(Default, Debug, Clone, PartialEq, Hash)]
pub struct Tt4odmme3 {
    #[asn(optional(integer(0..7)))] pub f0: Option<u8>,
    #[asn(default(integer(0..7), 5))] pub f1: u8,
    #[asn(integer(0..7))] pub f2: u8,
    #[asn(optional(integer(0..7)))] pub f3: Option<u8>,
}

impl Tt4odmme3 {
    pub const fn f0_min() -> u8 {
        0
    }

    pub const fn f0_max() -> u8 {
        7
    }

    pub const fn f1_min() -> u8 {
        0
    }

    pub const fn f1_max() -> u8 {
        7
    }

    pub const fn f2_min() -> u8 {
        0
    }

    pub const fn f2_max() -> u8 {
        7
    }

    pub const fn f3_min() -> u8 {
        0
    }

    pub const fn f3_max() -> u8 {
        7
    }
}

#[asn(set, extensible_after(f3))]

#[derive(Default, Debug, Clone, PartialEq, Hash)]
pub struct Tt4odmme4 {
    #[asn(optional(integer(0..7)))] pub f0: Option<u8>,
    #[asn(default(integer(0..7), 5))] pub f1: u8,
    #[asn(integer(0..7))] pub f2: u8,
    #[asn(integer(0..7))] pub f3: u8,
}

impl Tt4odmme4 {
    pub const fn f0_min() -> u8 {
        0
    }

    pub const fn f0_max() -> u8 {
        7
    }

    pub const fn f1_min() -> u8 {
        0
    }

    pub const fn f1_max() -> u8 {
        7
    }

    pub const fn f2_min() -> u8 {
        0
    }

    pub const fn f2_max() -> u8 {
        7
    }

    pub const fn f3_min() -> u8 {
        0
    }

    pub const fn f3_max() -> u8 {
        7
    }
}

#[asn(set)]

#[derive(Default, Debug, Clone, PartialEq, Hash)]
pub struct Tt4ddmmn {
    #[asn(default(integer(0..7), 5))] pub f0: u8,
    #[asn(default(integer(0..7), 5))] pub f1: u8,
    #[asn(integer(0..7))] pub f2: u8,
    #[asn(integer(0..7))] pub f3: u8,
}

impl Tt4ddmmn {
    pub const fn f0_min() -> u8 {
        0
    }

    pub const fn f0_max() -> u8 {
        7
    }

    pub const fn f1_min() -> u8 {
        0
    }

    pub const fn f1_max() -> u8 {
        7
    }

    pub const fn f2_min() -> u8 {
        0
    }

    pub const fn f2_max() -> u8 {
        7
    }

    pub const fn f3_min() -> u8 {
        0
    }

    pub const fn f3_max() -> u8 {
        7
    }
}

#[asn(set, extensible_after(f0))]

#[derive(Default, Debug, Clone, PartialEq, Hash)]
pub struct Tt4ddmme0 {
    #[asn(default(integer(0..7), 5))] pub f0: u8,
    #[asn(default(integer(0..7), 5))] pub f1: u8,
    #[asn(optional(integer(0..7)))] pub f2: Option<u8>,
    #[asn(optional(integer(0..7)))] pub f3: Option<u8>,
}

impl Tt4ddmme0 {
    pub const fn f0_min() -> u8 {
        0
    }

    pub const fn f0_max() -> u8 {
        7
    }

    pub const fn f1_min() -> u8 {
        0
    }

    pub const fn f1_max() -> u8 {
        7
    }

    pub const fn f2_min() -> u8 {
        0
    }

    pub const fn f2_max() -> u8 {
        7
    }

    pub const fn f3_min() -> u8 {
        0
    }

    pub const fn f3_max() -> u8 {
        7
    }
}

#[asn(set, extensible_after(f0))]

#[derive(Default, Debug, Clone, PartialEq, Hash)]
pub struct Tt4ddmme1 {
    #[asn(default(integer(0..7), 5))] pub f0: u8,
    #[asn(default(integer(0..7), 5))] pub f1: u8,
    #[asn(optional(integer(0..7)))] pub f2: Option<u8>,
    #[asn(optional(integer(0..7)))] pub f3: Option<u8>,
}

impl Tt4ddmme1 {
    pub const fn f0_min() -> u8 {
        0
    }

    pub const fn f0_max() -> u8 {
        7
    }

    pub const fn f1_min() -> u8 {
        0
    }

    pub const fn f1_max() -> u8 {
        7
    }

    pub const fn f2_min() -> u8 {
        0
    }

    pub const fn f2_max() -> u8 {
        7
    }

    pub const fn f3_min() -> u8 {
        0
    }

    pub const fn f3_max() -> u8 {
        7
    }
}

#[asn(set, extensible_after(f1))]

#[derive(Default, Debug, Clone, PartialEq, Hash)]
pub struct Tt4ddmme2 {
    #[asn(default(integer(0..7), 5))] pub f0: u8,
    #[asn(default(integer(0..7), 5))] pub f1: u8,
    #[asn(optional(integer(0..7)))] pub f2: Option<u8>,
    #[asn(optional(integer(0..7)))] pub f3: Option<u8>,
}

impl Tt4ddmme2 {
    pub const fn f0_min() -> u8 {
        0
    }

    pub const fn f0_max() -> u8 {
        7
    }

    pub const fn f1_min() -> u8 {
        0
    }

    pub const fn f1_max() -> u8 {
        7
    }

    pub const fn f2_min() -> u8 {
        0
    }

    pub const fn f2_max() -> u8 {
        7
    }

    pub const fn f3_min() -> u8 {
        0
    }

    pub const fn f3_max() -> u8 {
        7
    }
}

#[asn(set, extensible_after(f2))]

#[derive(Default, Debug, Clone, PartialEq, Hash)]
pub struct Tt4ddmme3 {
    #[asn(default(integer(0..7), 5))] pub f0: u8,
    #[asn(default(integer(0..7), 5))] pub f1: u8,
    #[asn(integer(0..7))] pub f2: u8,
    #[asn(optional(integer(0..7)))] pub f3: Option<u8>,
}

impl Tt4ddmme3 {
    pub const fn f0_min() -> u8 {
        0
    }

    pub const fn f0_max() -> u8 {
        7
    }

    pub const fn f1_min() -> u8 {
        0
    }

    pub const fn f1_max() -> u8 {
        7
    }

    pub const fn f2_min() -> u8 {
        0
    }

    pub const fn f2_max() -> u8 {
        7
    }

    pub const fn f3_min() -> u8 {
        0
    }

    pub const fn f3_max() -> u8 {
        7
    }
}

#[asn(set, extensible_after(f3))]

#[derive(Default, Debug, Clone, PartialEq, Hash)]
pub struct Tt4ddmme4 {
    #[asn(default(integer(0..7), 5))] pub f0: u8,
    #[asn(default(integer(0..7), 5))] pub f1: u8,
    #[asn(integer(0..7))] pub f2: u8,
    #[asn(integer(0..7))] pub f3: u8,
}

impl Tt4ddmme4 {
    pub const fn f0_min() -> u8 {
        0
    }

    pub const fn f0_max() -> u8 {
        7
    }

    pub const fn f1_min() -> u8 {
        0
    }

    pub const fn f1_max() -> u8 {
        7
    }

    pub const fn f2_min() -> u8 {
        0
    }

    pub const fn f2_max() -> u8 {
        7
    }

    pub const fn f3_min() -> u8 {
        0
    }

    pub const fn f3_max() -> u8 {
        7
    }
}

#[asn(set)]

#[derive(Default, Debug, Clone, PartialEq, Hash)]
pub struct Tt4mmomn {
    #[asn(integer(0..7))] pub f0: u8,
    #[asn(integer(0..7))] pub f1: u8,
    #[asn(optional(integer(0..7)))] pub f2: Option<u8>,
    #[asn(integer(0..7))] pub f3: u8,
}

impl Tt4mmomn {
    pub const fn f0_min() -> u8 {
        0
    }

    pub const fn f0_max() -> u8 {
        7
    }

    pub const fn f1_min() -> u8 {
        0
    }

    pub const fn f1_max() -> u8 {
        7
    }

    pub const fn f2_min() -> u8 {
        0
    }

    pub const fn f2_max() -> u8 {
        7
    }

    pub const fn f3_min() -> u8 {
        0
    }

    pub const fn f3_max() -> u8 {
        7
    }
}

#[asn(set, extensible_after(f0))]

#[derive(Default, Debug, Clone, PartialEq, Hash)]
pub struct Tt4mmome0 {
    #[asn(integer(0..7))] pub f0: u8,
    #[asn(optional(integer(0..7)))] pub f1: Option<u8>,
    #[asn(optional(integer(0..7)))] pub f2: Option<u8>,
    #[asn(optional(integer(0..7)))] pub f3: Option<u8>,
}

impl Tt4mmome0 {
    pub const fn f0_min() -> u8 {
        0
    }

    pub const fn f0_max() -> u8 {
        7
    }

    pub const fn f1_min() -> u8 {
        0
    }

    pub const fn f1_max() -> u8 {
        7
    }

    pub const fn f2_min() -> u8 {
        0
    }

    pub const fn f2_max() -> u8 {
        7
    }

    pub const fn f3_min() -> u8 {
        0
    }

    pub const fn f3_max() -> u8 {
        7
    }
}

#[asn(set, extensible_after(f0))]

#[derive(Default, Debug, Clone, PartialEq, Hash)]
pub struct Tt4mmome1 {
    #[asn(integer(0..7))] pub f0: u8,
    #[asn(optional(integer(0..7)))] pub f1: Option<u8>,
    #[asn(optional(integer(0..7)))] pub f2: Option<u8>,
    #[asn(optional(integer(0..7)))] pub f3: Option<u8>,
}

impl Tt4mmome1 {
    pub const fn f0_min() -> u8 {
        0
    }

    pub const fn f0_max() -> u8 {
        7
    }

    pub const fn f1_min() -> u8 {
        0
    }

    pub const fn f1_max() -> u8 {
        7
    }

    pub const fn f2_min() -> u8 {
        0
    }

    pub const fn f2_max() -> u8 {
        7
    }

    pub const fn f3_min() -> u8 {
        0
    }

    pub const fn f3_max() -> u8 {
        7
    }
}

#[asn(set, extensible_after(f1))]

#[derive(Default, Debug, Clone, PartialEq, Hash)]
pub struct Tt4mmome2 {
    #[asn(integer(0..7))] pub f0: u8,
    #[asn(integer(0..7))] pub f1: u8,
    #[asn(optional(integer(0..7)))] pub f2: Option<u8>,
    #[asn(optional(integer(0..7)))] pub f3: Option<u8>,
}

impl Tt4mmome2 {
    pub const fn f0_min() -> u8 {
        0
    }

    pub const fn f0_max() -> u8 {
        7
    }

    pub const fn f1_min() -> u8 {
        0
    }

    pub const fn f1_max() -> u8 {
        7
    }

    pub const fn f2_min() -> u8 {
        0
    }

    pub const fn f2_max() -> u8 {
        7
    }

    pub const fn f3_min() -> u8 {
        0
    }

    pub const fn f3_max() -> u8 {
        7
    }
}

#[asn(set, extensible_after(f2))]

#[derive(Default, Debug, Clone, PartialEq, Hash)]
pub struct Tt4mmome3 {
    #[asn(integer(0..7))] pub f0: u8,
    #[asn(integer(0..7))] pub f1: u8,
    #[asn(optional(integer(0..7)))] pub f2: Option<u8>,
    #[asn(optional(integer(0..7)))] pub f3: Option<u8>,
}

impl Tt4mmome3 {
    pub const fn f0_min() -> u8 {
        0
    }

    pub const fn f0_max() -> u8 {
        7
    }

    pub const fn f1_min() -> u8 {
        0
    }

    pub const fn f1_max() -> u8 {
        7
    }

    pub const fn f2_min() -> u8 {
        0
    }

    pub const fn f2_max() -> u8 {
        7
    }

    pub const fn f3_min() -> u8 {
        0
    }

    pub const fn f3_max() -> u8 {
        7
    }
}

#[asn(set, extensible_after(f3))]

#[derive(Default, Debug, Clone, PartialEq, Hash)]
pub struct Tt4mmome4 {
    #[asn(integer(0..7))] pub f0: u8,
    #[asn(integer(0..7))] pub f1: u8,
    #[asn(optional(integer(0..7)))] pub f2: Option<u8>,
    #[asn(integer(0..7))] pub f3: u8,
}

impl Tt4mmome4 {
    pub const fn f0_min() -> u8 {
        0
    }

    pub const fn f0_max() -> u8 {
        7
    }

    pub const fn f1_min() -> u8 {
        0
    }

    pub const fn f1_max() -> u8 {
        7
    }

    pub const fn f2_min() -> u8 {
        0
    }

    pub const fn f2_max() -> u8 {
        7
    }

    pub const fn f3_min() -> u8 {
        0
    }

    pub const fn f3_max() -> u8 {
        7
    }
}

#[asn(set)]

#[derive(Default, Debug, Clone, PartialEq, Hash)]
pub struct Tt4omomn {
    #[asn(optional(integer(0..7)))] pub f0: Option<u8>,
    #[asn(integer(0..7))] pub f1: u8,
    #[asn(optional(integer(0..7)))] pub f2: Option<u8>,
    #[asn(integer(0..7))] pub f3: u8,
}

impl Tt4omomn {
    pub const fn f0_min() -> u8 {
        0
    }

    pub const fn f0_max() -> u8 {
        7
    }

    pub const fn f1_min() -> u8 {
        0
    }

    pub const fn f1_max() -> u8 {
        7
    }

    pub const fn f2_min() -> u8 {
        0
    }

    pub const fn f2_max() -> u8 {
        7
    }

    pub const fn f3_min() -> u8 {
        0
    }

    pub const fn f3_max() -> u8 {
        7
    }
}

#[asn(set, extensible_after(f0))]

#[derive(Default, Debug, Clone, PartialEq, Hash)]
pub struct Tt4omome0 {
    #[asn(optional(integer(0..7)))] pub f0: Option<u8>,
    #[asn(optional(integer(0..7)))] pub f1: Option<u8>,
    #[asn(optional(integer(0..7)))] pub f2: Option<u8>,
    #[asn(optional(integer(0..7)))] pub f3: Option<u8>,
}

impl Tt4omome0 {
    pub const fn f0_min() -> u8 {
        0
    }

    pub const fn f0_max() -> u8 {
        7
    }

    pub const fn f1_min() -> u8 {
        0
    }

    pub const fn f1_max() -> u8 {
        7
    }

    pub const fn f2_min() -> u8 {
        0
    }

    pub const fn f2_max() -> u8 {
        7
    }

    pub const fn f3_min() -> u8 {
        0
    }

    pub const fn f3_max() -> u8 {
        7
    }
}

#[asn(set, extensible_after(f0))]

#[derive(Default, Debug, Clone, PartialEq, Hash)]
pub struct Tt4omome1 {
    #[asn(optional(integer(0..7)))] pub f0: Option<u8>,
    #[asn(optional(integer(0..7)))] pub f1: Option<u8>,
    #[asn(optional(integer(0..7)))] pub f2: Option<u8>,
    #[asn(optional(integer(0..7)))] pub f3: Option<u8>,
}

impl Tt4omome1 {
    pub const fn f0_min() -> u8 {
        0
    }

    pub const fn f0_max() -> u8 {
        7
    }

    pub const fn f1_min() -> u8 {
        0
    }

    pub const fn f1_max() -> u8 {
        7
    }

    pub const fn f2_min() -> u8 {
        0
    }

    pub const fn f2_max() -> u8 {
        7
    }

    pub const fn f3_min() -> u8 {
        0
    }

    pub const fn f3_max() -> u8 {
        7
    }
}

#[asn(set, extensible_after(f1))]

#[derive(Default, Debug, Clone, PartialEq, Hash)]
pub struct Tt4omome2 {
    #[asn(optional(integer(0..7)))] pub f0: Option<u8>,
    #[asn(integer(0..7))] pub f1: u8,
    #[asn(optional(integer(0..7)))] pub f2: Option<u8>,
    #[asn(optional(integer(0..7)))] pub f3: Option<u8>,
}

impl Tt4omome2 {
    pub const fn f0_min() -> u8 {
        0
    }

    pub const fn f0_max() -> u8 {
        7
    }

    pub const fn f1_min() -> u8 {
        0
    }

    pub const fn f1_max() -> u8 {
        7
    }

    pub const fn f2_min() -> u8 {
        0
    }

    pub const fn f2_max() -> u8 {
        7
    }

    pub const fn f3_min() -> u8 {
        0
    }

    pub const fn f3_max() -> u8 {
        7
    }
}

#[asn(set, extensible_after(f2))]

#[derive(Default, Debug, Clone, PartialEq, Hash)]
pub struct Tt4omome3 {
    #[asn(optional(integer(0..7)))] pub f0: Option<u8>,
    #[asn(integer(0..7))] pub f1: u8,
    #[asn(optional(integer(0..7)))] pub f2: Option<u8>,
    #[asn(optional(integer(0..7)))] pub f3: Option<u8>,
}

impl Tt4omome3 {
    pub const fn f0_min() -> u8 {
        0
    }

    pub const fn f0_max() -> u8 {
        7
    }

    pub const fn f1_min() -> u8 {
        0
    }

    pub const fn f1_max() -> u8 {
        7
    }

    pub const fn f2_min() -> u8 {
        0
    }

    pub const fn f2_max() -> u8 {
        7
    }

    pub const fn f3_min() -> u8 {
        0
    }

    pub const fn f3_max() -> u8 {
        7
    }
}

#[asn(set, extensible_after(f3))]

#[derive(Default, Debug, Clone, PartialEq, Hash)]
pub struct Tt4omome4 {
    #[asn(optional(integer(0..7)))] pub f0: Option<u8>,
    #[asn(integer(0..7))] pub f1: u8,
    #[asn(optional(integer(0..7)))] pub f2: Option<u8>,
    #[asn(integer(0..7))] pub f3: u8,
}

impl Tt4omome4 {
    pub const fn f0_min() -> u8 {
        0
    }

    pub const fn f0_max() -> u8 {
        7
    }

    pub const fn f1_min() -> u8 {
        0
    }

    pub const fn f1_max() -> u8 {
        7
    }

    pub const fn f2_min() -> u8 {
        0
    }

    pub const fn f2_max() -> u8 {
        7
    }

    pub const fn f3_min() -> u8 {
        0
    }

    pub const fn f3_max() -> u8 {
        7
    }
}

#[asn(set)]

#[derive(Default, Debug, Clone, PartialEq, Hash)]
pub struct Tt4dmomn {
    #[asn(default(integer(0..7), 5))] pub f0: u8,
    #[asn(integer(0..7))] pub f1: u8,
    #[asn(optional(integer(0..7)))] pub f2: Option<u8>,
    #[asn(integer(0..7))] pub f3: u8,
}

impl Tt4dmomn {
    pub const fn f0_min() -> u8 {
        0
    }

    pub const fn f0_max() -> u8 {
        7
    }

    pub const fn f1_min() -> u8 {
        0
    }

    pub const fn f1_max() -> u8 {
        7
    }

    pub const fn f2_min() -> u8 {
        0
    }

    pub const fn f2_max() -> u8 {
        7
    }

    pub const fn f3_min() -> u8 {
        0
    }

    pub const fn f3_max() -> u8 {
        7
    }
}

#[asn(set, extensible_after(f0))]

#[derive(Default, Debug, Clone, PartialEq, Hash)]
pub struct Tt4dmome0 {
    #[asn(default(integer(0..7), 5))] pub f0: u8,
    #[asn(optional(integer(0..7)))] pub f1: Option<u8>,
    #[asn(optional(integer(0..7)))] pub f2: Option<u8>,
    #[asn(optional(integer(0..7)))] pub f3: Option<u8>,
}

impl Tt4dmome0 {
    pub const fn f0_min() -> u8 {
        0
    }

    pub const fn f0_max() -> u8 {
        7
    }

    pub const fn f1_min() -> u8 {
        0
    }

    pub const fn f1_max() -> u8 {
        7
    }

    pub const fn f2_min() -> u8 {
        0
    }

    pub const fn f2_max() -> u8 {
        7
    }

    pub const fn f3_min() -> u8 {
        0
    }

    pub const fn f3_max() -> u8 {
        7
    }
}

#[asn(set, extensible_after(f0))]

#[derive(Default, Debug, Clone, PartialEq, Hash)]
pub struct Tt4dmome1 {
    #[asn(default(integer(0..7), 5))] pub f0: u8,
    #[asn(optional(integer(0..7)))] pub f1: Option<u8>,
    #[asn(optional(integer(0..7)))] pub f2: Option<u8>,
    #[asn(optional(integer(0..7)))] pub f3: Option<u8>,
}

impl Tt4dmome1 {
    pub const fn f0_min() -> u8 {
        0
    }

    pub const fn f0_max() -> u8 {
        7
    }

    pub const fn f1_min() -> u8 {
        0
    }

    pub const fn f1_max() -> u8 {
        7
    }

    pub const fn f2_min() -> u8 {
        0
    }

    pub const fn f2_max() -> u8 {
        7
    }

    pub const fn f3_min() -> u8 {
        0
    }

    pub const fn f3_max() -> u8 {
        7
    }
}

#[asn(set, extensible_after(f1))]

#[derive(Default, Debug, Clone, PartialEq, Hash)]
pub struct Tt4dmome2 {
    #[asn(default(integer(0..7), 5))] pub f0: u8,
    #[asn(integer(0..7))] pub f1: u8,
    #[asn(optional(integer(0..7)))] pub f2: Option<u8>,
    #[asn(optional(integer(0..7)))] pub f3: Option<u8>,
}

impl Tt4dmome2 {
    pub const fn f0_min() -> u8 {
        0
    }

    pub const fn f0_max() -> u8 {
        7
    }

    pub const fn f1_min() -> u8 {
        0
    }

    pub const fn f1_max() -> u8 {
        7
    }

    pub const fn f2_min() -> u8 {
        0
    }

    pub const fn f2_max() -> u8 {
        7
    }

    pub const fn f3_min() -> u8 {
        0
    }

    pub const fn f3_max() -> u8 {
        7
    }
}

#[asn(set, extensible_after(f2))]

#[derive(Default, Debug, Clone, PartialEq, Hash)]
pub struct Tt4dmome3 {
    #[asn(default(integer(0..7), 5))] pub f0: u8,
    #[asn(integer(0..7))] pub f1: u8,
    #[asn(optional(integer(0..7)))] pub f2: Option<u8>,
    #[asn(optional(integer(0..7)))] pub f3: Option<u8>,
}

impl Tt4dmome3 {
    pub const fn f0_min() -> u8 {
        0
    }

    pub const fn f0_max() -> u8 {
        7
    }

    pub const fn f1_min() -> u8 {
        0
    }

    pub const fn f1_max() -> u8 {
        7
    }

    pub const fn f2_min() -> u8 {
        0
    }

    pub const fn f2_max() -> u8 {
        7
    }

    pub const fn f3_min() -> u8 {
        0
    }

    pub const fn f3_max() -> u8 {
        7
    }
}

#[asn(set, extensible_after(f3))]

#[derive(Default, Debug, Clone, PartialEq, Hash)]
pub struct Tt4dmome4 {
    #[asn(default(integer(0..7), 5))] pub f0: u8,
    #[asn(integer(0..7))] pub f1: u8,
    #[asn(optional(integer(0..7)))] pub f2: Option<u8>,
    #[asn(integer(0..7))] pub f3: u8,
}

impl Tt4dmome4 {
    pub const fn f0_min() -> u8 {
        0
    }

    pub const fn f0_max() -> u8 {
        7
    }

    pub const fn f1_min() -> u8 {
        0
    }

    pub const fn f1_max() -> u8 {
        7
    }

    pub const fn f2_min() -> u8 {
        0
    }

    pub const fn f2_max() -> u8 {
        7
    }

    pub const fn f3_min() -> u8 {
        0
    }

    pub const fn f3_max() -> u8 {
        7
    }
}

#[asn(set)]

#[derive(Default, Debug, Clone, PartialEq, Hash)]
pub struct Tt4moomn {
    #[asn(integer(0..7))] pub f0: u8,
    #[asn(optional(integer(0..7)))] pub f1: Option<u8>,
    #[asn(optional(integer(0..7)))] pub f2: Option<u8>,
    #[asn(integer(0..7))] pub f3: u8,
}

impl Tt4moomn {
    pub const fn f0_min() -> u8 {
        0
    }

    pub const fn f0_max() -> u8 {
        7
    }

    pub const fn f1_min() -> u8 {
        0
    }

    pub const fn f1_max() -> u8 {
        7
    }

    pub const fn f2_min() -> u8 {
        0
    }

    pub const fn f2_max() -> u8 {
        7
    }

    pub const fn f3_min() -> u8 {
        0
    }

    pub const fn f3_max() -> u8 {
        7
    }
}

#[asn(set, extensible_after(f0))]

#[derive(Default, Debug, Clone, PartialEq, Hash)]
pub struct Tt4moome0 {
    #[asn(integer(0..7))] pub f0: u8,
    #[asn(optional(integer(0..7)))] pub f1: Option<u8>,
    #[asn(optional(integer(0..7)))] pub f2: Option<u8>,
    #[asn(optional(integer(0..7)))] pub f3: Option<u8>,
}

impl Tt4moome0 {
    pub const fn f0_min() -> u8 {
        0
    }

    pub const fn f0_max() -> u8 {
        7
    }

    pub const fn f1_min() -> u8 {
        0
    }

    pub const fn f1_max() -> u8 {
        7
    }

    pub const fn f2_min() -> u8 {
        0
    }

    pub const fn f2_max() -> u8 {
        7
    }

    pub const fn f3_min() -> u8 {
        0
    }

    pub const fn f3_max() -> u8 {
        7
    }
}

#[asn(set, extensible_after(f0))]

#[derive(Default, Debug, Clone, PartialEq, Hash)]
pub struct Tt4moome1 {
    #[asn(integer(0..7))] pub f0: u8,
    #[asn(optional(integer(0..7)))] pub f1: Option<u8>,
    #[asn(optional(integer(0..7)))] pub f2: Option<u8>,
    #[asn(optional(integer(0..7)))] pub f3: Option<u8>,
}

impl Tt4moome1 {
    pub const fn f0_min() -> u8 {
        0
    }

    pub const fn f0_max() -> u8 {
        7
    }

    pub const fn f1_min() -> u8 {
        0
    }

    pub const fn f1_max() -> u8 {
        7
    }

    pub const fn f2_min() -> u8 {
        0
    }

    pub const fn f2_max() -> u8 {
        7
    }

    pub const fn f3_min() -> u8 {
        0
    }

    pub const fn f3_max() -> u8 {
        7
    }
}

#[asn(set, extensible_after(f1))]

#[derive(Default, Debug, Clone, PartialEq, Hash)]
pub struct Tt4moome2 {
    #[asn(integer(0..7))] pub f0: u8,
    #[asn(optional(integer(0..7)))] pub f1: Option<u8>,
    #[asn(optional(integer(0..7)))] pub f2: Option<u8>,
    #[asn(optional(integer(0..7)))] pub f3: Option<u8>,
}

impl Tt4moome2 {
    pub const fn f0_min() -> u8 {
        0
    }

    pub const fn f0_max() -> u8 {
        7
    }

    pub const fn f1_min() -> u8 {
        0
    }

    pub const fn f1_max() -> u8 {
        7
    }

    pub const fn f2_min() -> u8 {
        0
    }

    pub const fn f2_max() -> u8 {
        7
    }

    pub const fn f3_min() -> u8 {
        0
    }

    pub const fn f3_max() -> u8 {
        7
    }
}

#[asn(set, extensible_after(f2))]

#[derive(Default, Debug, Clone, PartialEq, Hash)]
pub struct Tt4moome3 {
    #[asn(integer(0..7))] pub f0: u8,
    #[asn(optional(integer(0..7)))] pub f1: Option<u8>,
    #[asn(optional(integer(0..7)))] pub f2: Option<u8>,
    #[asn(optional(integer(0..7)))] pub f3: Option<u8>,
}

impl Tt4moome3 {
    pub const fn f0_min() -> u8 {
        0
    }

    pub const fn f0_max() -> u8 {
        7
    }

    pub const fn f1_min() -> u8 {
        0
    }

    pub const fn f1_max() -> u8 {
        7
    }

    pub const fn f2_min() -> u8 {
        0
    }

    pub const fn f2_max() -> u8 {
        7
    }

    pub const fn f3_min() -> u8 {
        0
    }

    pub const fn f3_max() -> u8 {
        7
    }
}

#[asn(set, extensible_after(f3))]

#[derive(Default, Debug, Clone, PartialEq, Hash)]
pub struct Tt4moome4 {
    #[asn(integer(0..7))] pub f0: u8,
    #[asn(optional(integer(0..7)))] pub f1: Option<u8>,
    #[asn(optional(integer(0..7)))] pub f2: Option<u8>,
    #[asn(integer(0..7))] pub f3: u8,
}

impl Tt4moome4 {
    pub const fn f0_min() -> u8 {
        0
    }

    pub const fn f0_max() -> u8 {
        7
    }

    pub const fn f1_min() -> u8 {
        0
    }

    pub const fn f1_max() -> u8 {
        7
    }

    pub const fn f2_min() -> u8 {
        0
    }

    pub const fn f2_max() -> u8 {
        7
    }

    pub const fn f3_min() -> u8 {
        0
    }

    pub const fn f3_max() -> u8 {
        7
    }
}

#[asn(set)]

#[derive(Default, Debug, Clone, PartialEq, Hash)]
pub struct Tt4ooomn {
    #[asn(optional(integer(0..7)))] pub f0: Option<u8>,
    #[asn(optional(integer(0..7)))] pub f1: Option<u8>,
    #[asn(optional(integer(0..7)))] pub f2: Option<u8>,
    #[asn(integer(0..7))] pub f3: u8,
}

impl Tt4ooomn {
    pub const fn f0_min() -> u8 {
        0
    }

    pub const fn f0_max() -> u8 {
        7
    }

    pub const fn f1_min() -> u8 {
        0
    }

    pub const fn f1_max() -> u8 {
        7
    }

    pub const fn f2_min() -> u8 {
        0
    }

    pub const fn f2_max() -> u8 {
        7
    }

    pub const fn f3_min() -> u8 {
        0
    }

    pub const fn f3_max() -> u8 {
        7
    }
}

#[asn(set, extensible_after(f0))]

#[derive(Default, Debug, Clone, PartialEq, Hash)]
pub struct Tt4ooome0 {
    #[asn(optional(integer(0..7)))] pub f0: Option<u8>,
    #[asn(optional(integer(0..7)))] pub f1: Option<u8>,
    #[asn(optional(integer(0..7)))] pub f2: Option<u8>,
    #[asn(optional(integer(0..7)))] pub f3: Option<u8>,
}

impl Tt4ooome0 {
    pub const fn f0_min() -> u8 {
        0
    }

    pub const fn f0_max() -> u8 {
        7
    }

    pub const fn f1_min() -> u8 {
        0
    }

    pub const fn f1_max() -> u8 {
        7
    }

    pub const fn f2_min() -> u8 {
        0
    }

    pub const fn f2_max() -> u8 {
        7
    }

    pub const fn f3_min() -> u8 {
        0
    }

    pub const fn f3_max() -> u8 {
        7
    }
}

#[asn(set, extensible_after(f0))]

#[derive(Default, Debug, Clone, PartialEq, Hash)]
pub struct Tt4ooome1 {
    #[asn(optional(integer(0..7)))] pub f0: Option<u8>,
    #[asn(optional(integer(0..7)))] pub f1: Option<u8>,
    #[asn(optional(integer(0..7)))] pub f2: Option<u8>,
    #[asn(optional(integer(0..7)))] pub f3: Option<u8>,
}

impl Tt4ooome1 {
    pub const fn f0_min() -> u8 {
        0
    }

    pub const fn f0_max() -> u8 {
        7
    }

    pub const fn f1_min() -> u8 {
        0
    }

    pub const fn f1_max() -> u8 {
        7
    }

    pub const fn f2_min() -> u8 {
        0
    }

    pub const fn f2_max() -> u8 {
        7
    }

    pub const fn f3_min() -> u8 {
        0
    }

    pub const fn f3_max() -> u8 {
        7
    }
}

#[asn(set, extensible_after(f1))]

#[derive(Default, Debug, Clone, PartialEq, Hash)]
pub struct Tt4ooome2 {
    #[asn(optional(integer(0..7)))] pub f0: Option<u8>,
    #[asn(optional(integer(0..7)))] pub f1: Option<u8>,
    #[asn(optional(integer(0..7)))] pub f2: Option<u8>,
    #[asn(optional(integer(0..7)))] pub f3: Option<u8>,
}

impl Tt4ooome2 {
    pub const fn f0_min() -> u8 {
        0
    }

    pub const fn f0_max() -> u8 {
        7
    }

    pub const fn f1_min() -> u8 {
        0
    }

    pub const fn f1_max() -> u8 {
        7
    }

    pub const fn f2_min() -> u8 {
        0
    }

    pub const fn f2_max() -> u8 {
        7
    }

    pub const fn f3_min() -> u8 {
        0
    }

    pub const fn f3_max() -> u8 {
        7
    }
}

#[asn(set, extensible_after(f2))]

#[derive(Default, Debug, Clone, PartialEq, Hash)]
pub struct Tt4ooome3 {
    #[asn(optional(integer(0..7)))] pub f0: Option<u8>,
    #[asn(optional(integer(0..7)))] pub f1: Option<u8>,
    #[asn(optional(integer(0..7)))] pub f2: Option<u8>,
    #[asn(optional(integer(0..7)))] pub f3: Option<u8>,
}

impl Tt4ooome3 {
    pub const fn f0_min() -> u8 {
        0
    }

    pub const fn f0_max() -> u8 {
        7
    }

    pub const fn f1_min() -> u8 {
        0
    }

    pub const fn f1_max() -> u8 {
        7
    }

    pub const fn f2_min() -> u8 {
        0
    }

    pub const fn f2_max() -> u8 {
        7
    }

    pub const fn f3_min() -> u8 {
        0
    }

    pub const fn f3_max() -> u8 {
        7
    }
}

#[asn(set, extensible_after(f3))]

#[derive(Default, Debug, Clone, PartialEq, Hash)]
pub struct Tt4ooome4 {
    #[asn(optional(integer(0..7)))] pub f0: Option<u8>,
    #[asn(optional(integer(0..7)))] pub f1: Option<u8>,
    #[asn(optional(integer(0..7)))] pub f2: Option<u8>,
    #[asn(integer(0..7))] pub f3: u8,
}

impl Tt4ooome4 {
    pub const fn f0_min() -> u8 {
        0
    }

    pub const fn f0_max() -> u8 {
        7
    }

    pub const fn f1_min() -> u8 {
        0
    }

    pub const fn f1_max() -> u8 {
        7
    }

    pub const fn f2_min() -> u8 {
        0
    }

    pub const fn f2_max() -> u8 {
        7
    }

    pub const fn f3_min() -> u8 {
        0
    }

    pub const fn f3_max() -> u8 {
        7
    }
}

#[asn(set)]

#[derive(Default, Debug, Clone, PartialEq, Hash)]
pub struct Tt4doomn {
    #[asn(default(integer(0..7), 5))] pub f0: u8,
    #[asn(optional(integer(0..7)))] pub f1: Option<u8>,
    #[asn(optional(integer(0..7)))] pub f2: Option<u8>,
    #[asn(integer(0..7))] pub f3: u8,
}

impl Tt4doomn {
    pub const fn f0_min() -> u8 {
        0
    }

    pub const fn f0_max() -> u8 {
        7
    }

    pub const fn f1_min() -> u8 {
        0
    }

    pub const fn f1_max() -> u8 {
        7
    }

    pub const fn f2_min() -> u8 {
        0
    }

    pub const fn f2_max() -> u8 {
        7
    }

    pub const fn f3_min() -> u8 {
        0
    }

    pub const fn f3_max() -> u8 {
        7
    }
}

#[asn(set, extensible_after(f0))]

#[derive(Default, Debug, Clone, PartialEq, Hash)]
pub struct Tt4doome0 {
    #[asn(default(integer(0..7), 5))] pub f0: u8,
    #[asn(optional(integer(0..7)))] pub f1: Option<u8>,
    #[asn(optional(integer(0..7)))] pub f2: Option<u8>,
    #[asn(optional(integer(0..7)))] pub f3: Option<u8>,
}

impl Tt4doome0 {
    pub const fn f0_min() -> u8 {
        0
    }

    pub const fn f0_max() -> u8 {
        7
    }

    pub const fn f1_min() -> u8 {
        0
    }

    pub const fn f1_max() -> u8 {
        7
    }

    pub const fn f2_min() -> u8 {
        0
    }

    pub const fn f2_max() -> u8 {
        7
    }

    pub const fn f3_min() -> u8 {
        0
    }

    pub const fn f3_max() -> u8 {
        7
    }
}

#[asn(set, extensible_after(f0))]

#[derive(Default, Debug, Clone, PartialEq, Hash)]
pub struct Tt4doome1 {
    #[asn(default(integer(0..7), 5))] pub f0: u8,
    #[asn(optional(integer(0..7)))] pub f1: Option<u8>,
    #[asn(optional(integer(0..7)))] pub f2: Option<u8>,
    #[asn(optional(integer(0..7)))] pub f3: Option<u8>,
}

impl Tt4doome1 {
    pub const fn f0_min() -> u8 {
        0
    }

    pub const fn f0_max() -> u8 {
        7
    }

    pub const fn f1_min() -> u8 {
        0
    }

    pub const fn f1_max() -> u8 {
        7
    }

    pub const fn f2_min() -> u8 {
        0
    }

    pub const fn f2_max() -> u8 {
        7
    }

    pub const fn f3_min() -> u8 {
        0
    }

    pub const fn f3_max() -> u8 {
        7
    }
}

#[asn(set, extensible_after(f1))]

#[derive(Default, Debug, Clone, PartialEq, Hash)]
pub struct Tt4doome2 {
    #[asn(default(integer(0..7), 5))] pub f0: u8,
    #[asn(optional(integer(0..7)))] pub f1: Option<u8>,
    #[asn(optional(integer(0..7)))] pub f2: Option<u8>,
    #[asn(optional(integer(0..7)))] pub f3: Option<u8>,
}

impl Tt4doome2 {
    pub const fn f0_min() -> u8 {
        0
    }

    pub const fn f0_max() -> u8 {
        7
    }

    pub const fn f1_min() -> u8 {
        0
    }

    pub const fn f1_max() -> u8 {
        7
    }

    pub const fn f2_min() -> u8 {
        0
    }

    pub const fn f2_max() -> u8 {
        7
    }

    pub const fn f3_min() -> u8 {
        0
    }

    pub const fn f3_max() -> u8 {
        7
    }
}

#[asn(set, extensible_after(f2))]

#[derive(Default, Debug, Clone, PartialEq, Hash)]
pub struct Tt4doome3 {
    #[asn(default(integer(0..7), 5))] pub f0: u8,
    #[asn(optional(integer(0..7)))] pub f1: Option<u8>,
    #[asn(optional(integer(0..7)))] pub f2: Option<u8>,
    #[asn(optional(integer(0..7)))] pub f3: Option<u8>,
}

impl Tt4doome3 {
    pub const fn f0_min() -> u8 {
        0
    }

    pub const fn f0_max() -> u8 {
        7
    }

    pub const fn f1_min() -> u8 {
        0
    }

    pub const fn f1_max() -> u8 {
        7
    }

    pub const fn f2_min() -> u8 {
        0
    }

    pub const fn f2_max() -> u8 {
        7
    }

    pub const fn f3_min() -> u8 {
        0
    }

    pub const fn f3_max() -> u8 {
        7
    }
}

#[asn(set, extensible_after(f3))]

#[derive(Default, Debug, Clone, PartialEq, Hash)]
pub struct Tt4doome4 {
    #[asn(default(integer(0..7), 5))] pub f0: u8,
    #[asn(optional(integer(0..7)))] pub f1: Option<u8>,
    #[asn(optional(integer(0..7)))] pub f2: Option<u8>,
    #[asn(integer(0..7))] pub f3: u8,
}

impl Tt4doome4 {
    pub const fn f0_min() -> u8 {
        0
    }

    pub const fn f0_max() -> u8 {
        7
    }

    pub const fn f1_min() -> u8 {
        0
    }

    pub const fn f1_max() -> u8 {
        7
    }

    pub const fn f2_min() -> u8 {
        0
    }

    pub const fn f2_max() -> u8 {
        7
    }

    pub const fn f3_min() -> u8 {
        0
    }

    pub const fn f3_max() -> u8 {
        7
    }
}

#[asn(set)]

#[derive(Default, Debug, Clone, PartialEq, Hash)]
pub struct Tt4mdomn {
    #[asn(integer(0..7))] pub f0: u8,
    #[asn(default(integer(0..7), 5))] pub f1: u8,
    #[asn(optional(integer(0..7)))] pub f2: Option<u8>,
    #[asn(integer(0..7))] pub f3: u8,
}

impl Tt4mdomn {
    pub const fn f0_min() -> u8 {
        0
    }

    pub const fn f0_max() -> u8 {
        7
    }

    pub const fn f1_min() -> u8 {
        0
    }

    pub const fn f1_max() -> u8 {
        7
    }

    pub const fn f2_min() -> u8 {
        0
    }

    pub const fn f2_max() -> u8 {
        7
    }

    pub const fn f3_min() -> u8 {
        0
    }

    pub const fn f3_max() -> u8 {
        7
    }
}

#[asn(set, extensible_after(f0))]

#[derive(Default, Debug, Clone, PartialEq, Hash)]
pub struct Tt4mdome0 {
    #[asn(integer(0..7))] pub f0: u8,
    #[asn(default(integer(0..7), 5))] pub f1: u8,
    #[asn(optional(integer(0..7)))] pub f2: Option<u8>,
    #[asn(optional(integer(0..7)))] pub f3: Option<u8>,
}

impl Tt4mdome0 {
    pub const fn f0_min() -> u8 {
        0
    }

    pub const fn f0_max() -> u8 {
        7
    }

    pub const fn f1_min() -> u8 {
        0
    }

    pub const fn f1_max() -> u8 {
        7
    }

    pub const fn f2_min() -> u8 {
        0
    }

    pub const fn f2_max() -> u8 {
        7
    }

    pub const fn f3_min() -> u8 {
        0
    }

    pub const fn f3_max() -> u8 {
        7
    }
}

#[asn(set, extensible_after(f0))]

#[derive(Default, Debug, Clone, PartialEq, Hash)]
pub struct Tt4mdome1 {
    #[asn(integer(0..7))] pub f0: u8,
    #[asn(default(integer(0..7), 5))] pub f1: u8,
    #[asn(optional(integer(0..7)))] pub f2: Option<u8>,
    #[asn(optional(integer(0..7)))] pub f3: Option<u8>,
}

impl Tt4mdome1 {
    pub const fn f0_min() -> u8 {
        0
    }

    pub const fn f0_max() -> u8 {
        7
    }

    pub const fn f1_min() -> u8 {
        0
    }

    pub const fn f1_max() -> u8 {
        7
    }

    pub const fn f2_min() -> u8 {
        0
    }

    pub const fn f2_max() -> u8 {
        7
    }

    pub const fn f3_min() -> u8 {
        0
    }

    pub const fn f3_max() -> u8 {
        7
    }
}

#[asn(set, extensible_after(f1))]

#[derive(Default, Debug, Clone, PartialEq, Hash)]
pub struct Tt4mdome2 {
    #[asn(integer(0..7))] pub f0: u8,
    #[asn(default(integer(0..7), 5))] pub f1: u8,
    #[asn(optional(integer(0..7)))] pub f2: Option<u8>,
    #[asn(optional(integer(0..7)))] pub f3: Option<u8>,
}

impl Tt4mdome2 {
    pub const fn f0_min() -> u8 {
        0
    }

    pub const fn f0_max() -> u8 {
        7
    }

    pub const fn f1_min() -> u8 {
        0
    }

    pub const fn f1_max() -> u8 {
        7
    }

    pub const fn f2_min() -> u8 {
        0
    }

    pub const fn f2_max() -> u8 {
        7
    }

    pub const fn f3_min() -> u8 {
        0
    }

    pub const fn f3_max() -> u8 {
        7
    }
}

#[asn(set, extensible_after(f2))]

#[derive(Default, Debug, Clone, PartialEq, Hash)]
pub struct Tt4mdome3 {
    #[asn(integer(0..7))] pub f0: u8,
    #[asn(default(integer(0..7), 5))] pub f1: u8,
    #[asn(optional(integer(0..7)))] pub f2: Option<u8>,
    #[asn(optional(integer(0..7)))] pub f3: Option<u8>,
}

impl Tt4mdome3 {
    pub const fn f0_min() -> u8 {
        0
    }

    pub const fn f0_max() -> u8 {
        7
    }

    pub const fn f1_min() -> u8 {
        0
    }

    pub const fn f1_max() -> u8 {
        7
    }

    pub const fn f2_min() -> u8 {
        0
    }

    pub const fn f2_max() -> u8 {
        7
    }

    pub const fn f3_min() -> u8 {
        0
    }

    pub const fn f3_max() -> u8 {
        7
    }
}

#[asn(set, extensible_after(f3))]

#[derive(Default, Debug, Clone, PartialEq, Hash)]
pub struct Tt4mdome4 {
    #[asn(integer(0..7))] pub f0: u8,
    #[asn(default(integer(0..7), 5))] pub f1: u8,
    #[asn(optional(integer(0..7)))] pub f2: Option<u8>,
    #[asn(integer(0..7))] pub f3: u8,
}

impl Tt4mdome4 {
    pub const fn f0_min() -> u8 {
        0
    }

    pub const fn f0_max() -> u8 {
        7
    }

    pub const fn f1_min() -> u8 {
        0
    }

    pub const fn f1_max() -> u8 {
        7
    }

    pub const fn f2_min() -> u8 {
        0
    }

    pub const fn f2_max() -> u8 {
        7
    }

    pub const fn f3_min() -> u8 {
        0
    }

    pub const fn f3_max() -> u8 {
        7
    }
}

#[asn(set)]

#[derive(Default, Debug, Clone, PartialEq, Hash)]
pub struct Tt4odomn {
    #[asn(optional(integer(0..7)))] pub f0: Option<u8>,
    #[asn(default(integer(0..7), 5))] pub f1: u8,
    #[asn(optional(integer(0..7)))] pub f2: Option<u8>,
    #[asn(integer(0..7))] pub f3: u8,
}

impl Tt4odomn {
    pub const fn f0_min() -> u8 {
        0
    }

    pub const fn f0_max() -> u8 {
        7
    }

    pub const fn f1_min() -> u8 {
        0
    }

    pub const fn f1_max() -> u8 {
        7
    }

    pub const fn f2_min() -> u8 {
        0
    }

    pub const fn f2_max() -> u8 {
        7
    }

    pub const fn f3_min() -> u8 {
        0
    }

    pub const fn f3_max() -> u8 {
        7
    }
}

#[asn(set, extensible_after(f0))]

#[derive(Default, Debug, Clone, PartialEq, Hash)]
pub struct Tt4odome0 {
    #[asn(optional(integer(0..7)))] pub f0: Option<u8>,
    #[asn(default(integer(0..7), 5))] pub f1: u8,
    #[asn(optional(integer(0..7)))] pub f2: Option<u8>,
    #[asn(optional(integer(0..7)))] pub f3: Option<u8>,
}

impl Tt4odome0 {
    pub const fn f0_min() -> u8 {
        0
    }

    pub const fn f0_max() -> u8 {
        7
    }

    pub const fn f1_min() -> u8 {
        0
    }

    pub const fn f1_max() -> u8 {
        7
    }

    pub const fn f2_min() -> u8 {
        0
    }

    pub const fn f2_max() -> u8 {
        7
    }

    pub const fn f3_min() -> u8 {
        0
    }

    pub const fn f3_max() -> u8 {
        7
    }
}

#[asn(set, extensible_after(f0))]

#[derive(Default, Debug, Clone, PartialEq, Hash)]
pub struct Tt4odome1 {
    #[asn(optional(integer(0..7)))] pub f0: Option<u8>,
    #[asn(default(integer(0..7), 5))] pub f1: u8,
    #[asn(optional(integer(0..7)))] pub f2: Option<u8>,
    #[asn(optional(integer(0..7)))] pub f3: Option<u8>,
}

impl Tt4odome1 {
    pub const fn f0_min() -> u8 {
        0
    }

    pub const fn f0_max() -> u8 {
        7
    }

    pub const fn f1_min() -> u8 {
        0
    }

    pub const fn f1_max() -> u8 {
        7
    }

    pub const fn f2_min() -> u8 {
        0
    }

    pub const fn f2_max() -> u8 {
        7
    }

    pub const fn f3_min() -> u8 {
        0
    }

    pub const fn f3_max() -> u8 {
        7
    }
}

#[asn(set, extensible_after(f1))]

#[derive(Default, Debug, Clone, PartialEq, Hash)]
pub struct Tt4odome2 {
    #[asn(optional(integer(0..7)))] pub f0: Option<u8>,
    #[asn(default(integer(0..7), 5))] pub f1: u8,
    #[asn(optional(integer(0..7)))] pub f2: Option<u8>,
    #[asn(optional(integer(0..7)))] pub f3: Option<u8>,
}

impl Tt4odome2 {
    pub const fn f0_min() -> u8 {
        0
    }

    pub const fn f0_max() -> u8 {
        7
    }

    pub const fn f1_min() -> u8 {
        0
    }

    pub const fn f1_max() -> u8 {
        7
    }

    pub const fn f2_min() -> u8 {
        0
    }

    pub const fn f2_max() -> u8 {
        7
    }

    pub const fn f3_min() -> u8 {
        0
    }

    pub const fn f3_max() -> u8 {
        7
    }
}

#[asn(set, extensible_after(f2))]

#[derive(Default, Debug, Clone, PartialEq, Hash)]
pub struct Tt4odome3 {
    #[asn(optional(integer(0..7)))] pub f0: Option<u8>,
    #[asn(default(integer(0..7), 5))] pub f1: u8,
    #[asn(optional(integer(0..7)))] pub f2: Option<u8>,
    #[asn(optional(integer(0..7)))] pub f3: Option<u8>,
}

impl Tt4odome3 {
    pub const fn f0_min() -> u8 {
        0
    }

    pub const fn f0_max() -> u8 {
        7
    }

    pub const fn f1_min() -> u8 {
        0
    }

    pub const fn f1_max() -> u8 {
        7
    }

    pub const fn f2_min() -> u8 {
        0
    }

    pub const fn f2_max() -> u8 {
        7
    }

    pub const fn f3_min() -> u8 {
        0
    }

    pub const fn f3_max() -> u8 {
        7
    }
}

#[asn(set, extensible_after(f3))]

#[derive(Default, Debug, Clone, PartialEq, Hash)]
pub struct Tt4odome4 {
    #[asn(optional(integer(0..7)))] pub f0: Option<u8>,
    #[asn(default(integer(0..7), 5))] pub f1: u8,
    #[asn(optional(integer(0..7)))] pub f2: Option<u8>,
    #[asn(integer(0..7))] pub f3: u8,
}

impl Tt4odome4 {
    pub const fn f0_min() -> u8 {
        0
    }

    pub const fn f0_max() -> u8 {
        7
    }

    pub const fn f1_min() -> u8 {
        0
    }

    pub const fn f1_max() -> u8 {
        7
    }

    pub const fn f2_min() -> u8 {
        0
    }

    pub const fn f2_max() -> u8 {
        7
    }

    pub const fn f3_min() -> u8 {
        0
    }

    pub const fn f3_max() -> u8 {
        7
    }
}

#[asn(set)]

#[derive(Default, Debug, Clone, PartialEq, Hash)]
pub struct Tt4ddomn {
    #[asn(default(integer(0..7), 5))] pub f0: u8,
    #[asn(default(integer(0..7), 5))] pub f1: u8,
    #[asn(optional(integer(0..7)))] pub f2: Option<u8>,
    #[asn(integer(0..7))] pub f3: u8,
}

impl Tt4ddomn {
    pub const fn f0_min() -> u8 {
        0
    }

    pub const fn f0_max() -> u8 {
        7
    }

    pub const fn f1_min() -> u8 {
        0
    }

    pub const fn f1_max() -> u8 {
        7
    }

    pub const fn f2_min() -> u8 {
        0
    }

    pub const fn f2_max() -> u8 {
        7
    }

    pub const fn f3_min() -> u8 {
        0
    }

    pub const fn f3_max() -> u8 {
        7
    }
}

#[asn(set, extensible_after(f0))]

#[derive(Default, Debug, Clone, PartialEq, Hash)]
pub struct Tt4ddome0 {
    #[asn(default(integer(0..7), 5))] pub f0: u8,
    #[asn(default(integer(0..7), 5))] pub f1: u8,
    #[asn(optional(integer(0..7)))] pub f2: Option<u8>,
    #[asn(optional(integer(0..7)))] pub f3: Option<u8>,
}

impl Tt4ddome0 {
    pub const fn f0_min() -> u8 {
        0
    }

    pub const fn f0_max() -> u8 {
        7
    }

    pub const fn f1_min() -> u8 {
        0
    }

    pub const fn f1_max() -> u8 {
        7
    }

    pub const fn f2_min() -> u8 {
        0
    }

    pub const fn f2_max() -> u8 {
        7
    }

    pub const fn f3_min() -> u8 {
        0
    }

    pub const fn f3_max() -> u8 {
        7
    }
}

#[asn(set, extensible_after(f0))]

#[derive(Default, Debug, Clone, PartialEq, Hash)]
pub struct Tt4ddome1 {
    #[asn(default(integer(0..7), 5))] pub f0: u8,
    #[asn(default(integer(0..7), 5))] pub f1: u8,
    #[asn(optional(integer(0..7)))] pub f2: Option<u8>,
    #[asn(optional(integer(0..7)))] pub f3: Option<u8>,
}

impl Tt4ddome1 {
    pub const fn f0_min() -> u8 {
        0
    }

    pub const fn f0_max() -> u8 {
        7
    }

    pub const fn f1_min() -> u8 {
        0
    }

    pub const fn f1_max() -> u8 {
        7
    }

    pub const fn f2_min() -> u8 {
        0
    }

    pub const fn f2_max() -> u8 {
        7
    }

    pub const fn f3_min() -> u8 {
        0
    }

    pub const fn f3_max() -> u8 {
        7
    }
}

#[asn(set, extensible_after(f1))]

#[derive(Default, Debug, Clone, PartialEq, Hash)]
pub struct Tt4ddome2 {
    #[asn(default(integer(0..7), 5))] pub f0: u8,
    #[asn(default(integer(0..7), 5))] pub f1: u8,
    #[asn(optional(integer(0..7)))] pub f2: Option<u8>,
    #[asn(optional(integer(0..7)))] pub f3: Option<u8>,
}

impl Tt4ddome2 {
    pub const fn f0_min() -> u8 {
        0
    }

    pub const fn f0_max() -> u8 {
        7
    }

    pub const fn f1_min() -> u8 {
        0
    }

    pub const fn f1_max() -> u8 {
        7
    }

    pub const fn f2_min() -> u8 {
        0
    }

    pub const fn f2_max() -> u8 {
        7
    }

    pub const fn f3_min() -> u8 {
        0
    }

    pub const fn f3_max() -> u8 {
        7
    }
}

#[asn(set, extensible_after(f2))]

#[derive(Default, Debug, Clone, PartialEq, Hash)]
pub struct Tt4ddome3 {
    #[asn(default(integer(0..7), 5))] pub f0: u8,
    #[asn(default(integer(0..7), 5))] pub f1: u8,
    #[asn(optional(integer(0..7)))] pub f2: Option<u8>,
    #[asn(optional(integer(0..7)))] pub f3: Option<u8>,
}

impl Tt4ddome3 {
    pub const fn f0_min() -> u8 {
        0
    }

    pub const fn f0_max() -> u8 {
        7
    }

    pub const fn f1_min() -> u8 {
        0
    }

    pub const fn f1_max() -> u8 {
        7
    }

    pub const fn f2_min() -> u8 {
        0
    }

    pub const fn f2_max() -> u8 {
        7
    }

    pub const fn f3_min() -> u8 {
        0
    }

    pub const fn f3_max() -> u8 {
        7
    }
}

#[asn(set, extensible_after(f3))]

#[derive(Default, Debug, Clone, PartialEq, Hash)]
pub struct Tt4ddome4 {
    #[asn(default(integer(0..7), 5))] pub f0: u8,
    #[asn(default(integer(0..7), 5))] pub f1: u8,
    #[asn(optional(integer(0..7)))] pub f2: Option<u8>,
    #[asn(integer(0..7))] pub f3: u8,
}

impl Tt4ddome4 {
    pub const fn f0_min() -> u8 {
        0
    }

    pub const fn f0_max() -> u8 {
        7
    }

    pub const fn f1_min() -> u8 {
        0
    }

    pub const fn f1_max() -> u8 {
        7
    }

    pub const fn f2_min() -> u8 {
        0
    }

    pub const fn f2_max() -> u8 {
        7
    }

    pub const fn f3_min() -> u8 {
        0
    }

    pub const fn f3_max() -> u8 {
        7
    }
}

#[asn(set)]

#[derive(Default, Debug, Clone, PartialEq, Hash)]
pub struct Tt4mmdmn {
    #[asn(integer(0..7))] pub f0: u8,
    #[asn(integer(0..7))] pub f1: u8,
    #[asn(default(integer(0..7), 5))] pub f2: u8,
    #[asn(integer(0..7))] pub f3: u8,
}

impl Tt4mmdmn {
    pub const fn f0_min() -> u8 {
        0
    }

    pub const fn f0_max() -> u8 {
        7
    }

    pub const fn f1_min() -> u8 {
        0
    }

    pub const fn f1_max() -> u8 {
        7
    }

    pub const fn f2_min() -> u8 {
        0
    }

    pub const fn f2_max() -> u8 {
        7
    }

    pub const fn f3_min() -> u8 {
        0
    }

    pub const fn f3_max() -> u8 {
        7
    }
}

#[asn(set, extensible_after(f0))]

#[derive(Default, Debug, Clone, PartialEq, Hash)]
pub struct Tt4mmdme0 {
    #[asn(integer(0..7))] pub f0: u8,
    #[asn(optional(integer(0..7)))] pub f1: Option<u8>,
    #[asn(default(integer(0..7), 5))] pub f2: u8,
    #[asn(optional(integer(0..7)))] pub f3: Option<u8>,
}

impl Tt4mmdme0 {
    pub const fn f0_min() -> u8 {
        0
    }

    pub const fn f0_max() -> u8 {
        7
    }

    pub const fn f1_min() -> u8 {
        0
    }

    pub const fn f1_max() -> u8 {
        7
    }

    pub const fn f2_min() -> u8 {
        0
    }

    pub const fn f2_max() -> u8 {
        7
    }

    pub const fn f3_min() -> u8 {
        0
    }

    pub const fn f3_max() -> u8 {
        7
    }
}

#[asn(set, extensible_after(f0))]

#[derive(Default, Debug, Clone, PartialEq, Hash)]
pub struct Tt4mmdme1 {
    #[asn(integer(0..7))] pub f0: u8,
    #[asn(optional(integer(0..7)))] pub f1: Option<u8>,
    #[asn(default(integer(0..7), 5))] pub f2: u8,
    #[asn(optional(integer(0..7)))] pub f3: Option<u8>,
}

impl Tt4mmdme1 {
    pub const fn f0_min() -> u8 {
        0
    }

    pub const fn f0_max() -> u8 {
        7
    }

    pub const fn f1_min() -> u8 {
        0
    }

    pub const fn f1_max() -> u8 {
        7
    }

    pub const fn f2_min() -> u8 {
        0
    }

    pub const fn f2_max() -> u8 {
        7
    }

    pub const fn f3_min() -> u8 {
        0
    }

    pub const fn f3_max() -> u8 {
        7
    }
}

#[asn(set, extensible_after(f1))]

#[derive(Default, Debug, Clone, PartialEq, Hash)]
pub struct Tt4mmdme2 {
    #[asn(integer(0..7))] pub f0: u8,
    #[asn(integer(0..7))] pub f1: u8,
    #[asn(default(integer(0..7), 5))] pub f2: u8,
    #[asn(optional(integer(0..7)))] pub f3: Option<u8>,
}

impl Tt4mmdme2 {
    pub const fn f0_min() -> u8 {
        0
    }

    pub const fn f0_max() -> u8 {
        7
    }

    pub const fn f1_min() -> u8 {
        0
    }

    pub const fn f1_max() -> u8 {
        7
    }

    pub const fn f2_min() -> u8 {
        0
    }

    pub const fn f2_max() -> u8 {
        7
    }

    pub const fn f3_min() -> u8 {
        0
    }

    pub const fn f3_max() -> u8 {
        7
    }
}

#[asn(set, extensible_after(f2))]

#[derive(Default, Debug, Clone, PartialEq, Hash)]
pub struct Tt4mmdme3 {
    #[asn(integer(0..7))] pub f0: u8,
    #[asn(integer(0..7))] pub f1: u8,
    #[asn(default(integer(0..7), 5))] pub f2: u8,
    #[asn(optional(integer(0..7)))] pub f3: Option<u8>,
}

impl Tt4mmdme3 {
    pub const fn f0_min() -> u8 {
        0
    }

    pub const fn f0_max() -> u8 {
        7
    }

    pub const fn f1_min() -> u8 {
        0
    }

    pub const fn f1_max() -> u8 {
        7
    }

    pub const fn f2_min() -> u8 {
        0
    }

    pub const fn f2_max() -> u8 {
        7
    }

    pub const fn f3_min() -> u8 {
        0
    }

    pub const fn f3_max() -> u8 {
        7
    }
}

#[asn(set, extensible_after(f3))]

#[derive(Default, Debug, Clone, PartialEq, Hash)]
pub struct Tt4mmdme4 {
    #[asn(integer(0..7))] pub f0: u8,
    #[asn(integer(0..7))] pub f1: u8,
    #[asn(default(integer(0..7), 5))] pub f2: u8,
    #[asn(integer(0..7))] pub f3: u8,
}

impl Tt4mmdme4 {
    pub const fn f0_min() -> u8 {
        0
    }

    pub const fn f0_max() -> u8 {
        7
    }

    pub const fn f1_min() -> u8 {
        0
    }

    pub const fn f1_max() -> u8 {
        7
    }

    pub const fn f2_min() -> u8 {
        0
    }

    pub const fn f2_max() -> u8 {
        7
    }

    pub const fn f3_min() -> u8 {
        0
    }

    pub const fn f3_max() -> u8 {
        7
    }
}

#[asn(set)]

#[derive(Default, Debug, Clone, PartialEq, Hash)]
pub struct Tt4omdmn {
    #[asn(optional(integer(0..7)))] pub f0: Option<u8>,
    #[asn(integer(0..7))] pub f1: u8,
    #[asn(default(integer(0..7), 5))] pub f2: u8,
    #[asn(integer(0..7))] pub f3: u8,
}

impl Tt4omdmn {
    pub const fn f0_min() -> u8 {
        0
    }

    pub const fn f0_max() -> u8 {
        7
    }

    pub const fn f1_min() -> u8 {
        0
    }

    pub const fn f1_max() -> u8 {
        7
    }

    pub const fn f2_min() -> u8 {
        0
    }

    pub const fn f2_max() -> u8 {
        7
    }

    pub const fn f3_min() -> u8 {
        0
    }

    pub const fn f3_max() -> u8 {
        7
    }
}

#[asn(set, extensible_after(f0))]

#[derive(Default, Debug, Clone, PartialEq, Hash)]
pub struct Tt4omdme0 {
    #[asn(optional(integer(0..7)))] pub f0: Option<u8>,
    #[asn(optional(integer(0..7)))] pub f1: Option<u8>,
    #[asn(default(integer(0..7), 5))] pub f2: u8,
    #[asn(optional(integer(0..7)))] pub f3: Option<u8>,
}

impl Tt4omdme0 {
    pub const fn f0_min() -> u8 {
        0
    }

    pub const fn f0_max() -> u8 {
        7
    }

    pub const fn f1_min() -> u8 {
        0
    }

    pub const fn f1_max() -> u8 {
        7
    }

    pub const fn f2_min() -> u8 {
        0
    }

    pub const fn f2_max() -> u8 {
        7
    }

    pub const fn f3_min() -> u8 {
        0
    }

    pub const fn f3_max() -> u8 {
        7
    }
}

#[asn(set, extensible_after(f0))]

#[derive(Default, Debug, Clone, PartialEq, Hash)]
pub struct Tt4omdme1 {
    #[asn(optional(integer(0..7)))] pub f0: Option<u8>,
    #[asn(optional(integer(0..7)))] pub f1: Option<u8>,
    #[asn(default(integer(0..7), 5))] pub f2: u8,
    #[asn(optional(integer(0..7)))] pub f3: Option<u8>,
}

impl Tt4omdme1 {
    pub const fn f0_min() -> u8 {
        0
    }

    pub const fn f0_max() -> u8 {
        7
    }

    pub const fn f1_min() -> u8 {
        0
    }

    pub const fn f1_max() -> u8 {
        7
    }

    pub const fn f2_min() -> u8 {
        0
    }

    pub const fn f2_max() -> u8 {
        7
    }

    pub const fn f3_min() -> u8 {
        0
    }

    pub const fn f3_max() -> u8 {
        7
    }
}

#[asn(set, extensible_after(f1))]

#[derive(Default, Debug, Clone, PartialEq, Hash)]
pub struct Tt4omdme2 {
    #[asn(optional(integer(0..7)))] pub f0: Option<u8>,
    #[asn(integer(0..7))] pub f1: u8,
    #[asn(default(integer(0..7), 5))] pub f2: u8,
    #[asn(optional(integer(0..7)))] pub f3: Option<u8>,
}

impl Tt4omdme2 {
    pub const fn f0_min() -> u8 {
        0
    }

    pub const fn f0_max() -> u8 {
        7
    }

    pub const fn f1_min() -> u8 {
        0
    }

    pub const fn f1_max() -> u8 {
        7
    }

    pub const fn f2_min() -> u8 {
        0
    }

    pub const fn f2_max() -> u8 {
        7
    }

    pub const fn f3_min() -> u8 {
        0
    }

    pub const fn f3_max() -> u8 {
        7
    }
}

#[asn(set, extensible_after(f2))]

#[derive(Default, Debug, Clone, PartialEq, Hash)]
pub struct Tt4omdme3 {
    #[asn(optional(integer(0..7)))] pub f0: Option<u8>,
    #[asn(integer(0..7))] pub f1: u8,
    #[asn(default(integer(0..7), 5))] pub f2: u8,
    #[asn(optional(integer(0..7)))] pub f3: Option<u8>,
}

impl Tt4omdme3 {
    pub const fn f0_min() -> u8 {
        0
    }

    pub const fn f0_max() -> u8 {
        7
    }

    pub const fn f1_min() -> u8 {
        0
    }

    pub const fn f1_max() -> u8 {
        7
    }

    pub const fn f2_min() -> u8 {
        0
    }

    pub const fn f2_max() -> u8 {
        7
    }

    pub const fn f3_min() -> u8 {
        0
    }

    pub const fn f3_max() -> u8 {
        7
    }
}

#[asn(set, extensible_after(f3))]

#[derive(Default, Debug, Clone, PartialEq, Hash)]
pub struct Tt4omdme4 {
    #[asn(optional(integer(0..7)))] pub f0: Option<u8>,
    #[asn(integer(0..7))] pub f1: u8,
    #[asn(default(integer(0..7), 5))] pub f2: u8,
    #[asn(integer(0..7))] pub f3: u8,
}

impl Tt4omdme4 {
    pub const fn f0_min() -> u8 {
        0
    }

    pub const fn f0_max() -> u8 {
        7
    }

    pub const fn f1_min() -> u8 {
        0
    }

    pub const fn f1_max() -> u8 {
        7
    }

    pub const fn f2_min() -> u8 {
        0
    }

    pub const fn f2_max() -> u8 {
        7
    }

    pub const fn f3_min() -> u8 {
        0
    }

    pub const fn f3_max() -> u8 {
        7
    }
}
// ---- harness conversions (generated by the zoo build script from the items above) ----
impl FromValue for Tt4mmmmn {
    fn from_value(v: &Value) -> Self {
        let s = match v { Value::Seq(s) => s, other => panic!("Tt4mmmmn: expected Seq, got {other:?}") };
        assert_eq!(s.len(), 4, "Tt4mmmmn: component count");
        let _ = s;
        Tt4mmmmn {
            f0: FromValue::from_value(s[0].as_ref().expect("component f0 of Tt4mmmmn must be present")),
            f1: FromValue::from_value(s[1].as_ref().expect("component f1 of Tt4mmmmn must be present")),
            f2: FromValue::from_value(s[2].as_ref().expect("component f2 of Tt4mmmmn must be present")),
            f3: FromValue::from_value(s[3].as_ref().expect("component f3 of Tt4mmmmn must be present")),
        }
    }
}
impl ToValue for Tt4mmmmn {
    fn to_value(&self) -> Value {
        Value::Seq(vec![
            Some(self.f0.to_value()),
            Some(self.f1.to_value()),
            Some(self.f2.to_value()),
            Some(self.f3.to_value()),
        ])
    }
}
impl FromValue for Tt4mmmme0 {
    fn from_value(v: &Value) -> Self {
        let s = match v { Value::Seq(s) => s, other => panic!("Tt4mmmme0: expected Seq, got {other:?}") };
        assert_eq!(s.len(), 4, "Tt4mmmme0: component count");
        let _ = s;
        Tt4mmmme0 {
            f0: FromValue::from_value(s[0].as_ref().expect("component f0 of Tt4mmmme0 must be present")),
            f1: s[1].as_ref().map(FromValue::from_value),
            f2: s[2].as_ref().map(FromValue::from_value),
            f3: s[3].as_ref().map(FromValue::from_value),
        }
    }
}
impl ToValue for Tt4mmmme0 {
    fn to_value(&self) -> Value {
        Value::Seq(vec![
            Some(self.f0.to_value()),
            self.f1.as_ref().map(|x| x.to_value()),
            self.f2.as_ref().map(|x| x.to_value()),
            self.f3.as_ref().map(|x| x.to_value()),
        ])
    }
}
impl FromValue for Tt4mmmme1 {
    fn from_value(v: &Value) -> Self {
        let s = match v { Value::Seq(s) => s, other => panic!("Tt4mmmme1: expected Seq, got {other:?}") };
        assert_eq!(s.len(), 4, "Tt4mmmme1: component count");
        let _ = s;
        Tt4mmmme1 {
            f0: FromValue::from_value(s[0].as_ref().expect("component f0 of Tt4mmmme1 must be present")),
            f1: s[1].as_ref().map(FromValue::from_value),
            f2: s[2].as_ref().map(FromValue::from_value),
            f3: s[3].as_ref().map(FromValue::from_value),
        }
    }
}
impl ToValue for Tt4mmmme1 {
    fn to_value(&self) -> Value {
        Value::Seq(vec![
            Some(self.f0.to_value()),
            self.f1.as_ref().map(|x| x.to_value()),
            self.f2.as_ref().map(|x| x.to_value()),
            self.f3.as_ref().map(|x| x.to_value()),
        ])
    }
}
impl FromValue for Tt4mmmme2 {
    fn from_value(v: &Value) -> Self {
        let s = match v { Value::Seq(s) => s, other => panic!("Tt4mmmme2: expected Seq, got {other:?}") };
        assert_eq!(s.len(), 4, "Tt4mmmme2: component count");
        let _ = s;
        Tt4mmmme2 {
            f0: FromValue::from_value(s[0].as_ref().expect("component f0 of Tt4mmmme2 must be present")),
            f1: FromValue::from_value(s[1].as_ref().expect("component f1 of Tt4mmmme2 must be present")),
            f2: s[2].as_ref().map(FromValue::from_value),
            f3: s[3].as_ref().map(FromValue::from_value),
        }
    }
}
impl ToValue for Tt4mmmme2 {
    fn to_value(&self) -> Value {
        Value::Seq(vec![
            Some(self.f0.to_value()),
            Some(self.f1.to_value()),
            self.f2.as_ref().map(|x| x.to_value()),
            self.f3.as_ref().map(|x| x.to_value()),
        ])
    }
}
impl FromValue for Tt4mmmme3 {
    fn from_value(v: &Value) -> Self {
        let s = match v { Value::Seq(s) => s, other => panic!("Tt4mmmme3: expected Seq, got {other:?}") };
        assert_eq!(s.len(), 4, "Tt4mmmme3: component count");
        let _ = s;
        Tt4mmmme3 {
            f0: FromValue::from_value(s[0].as_ref().expect("component f0 of Tt4mmmme3 must be present")),
            f1: FromValue::from_value(s[1].as_ref().expect("component f1 of Tt4mmmme3 must be present")),
            f2: FromValue::from_value(s[2].as_ref().expect("component f2 of Tt4mmmme3 must be present")),
            f3: s[3].as_ref().map(FromValue::from_value),
        }
    }
}
impl ToValue for Tt4mmmme3 {
    fn to_value(&self) -> Value {
        Value::Seq(vec![
            Some(self.f0.to_value()),
            Some(self.f1.to_value()),
            Some(self.f2.to_value()),
            self.f3.as_ref().map(|x| x.to_value()),
        ])
    }
}
impl FromValue for Tt4mmmme4 {
    fn from_value(v: &Value) -> Self {
        let s = match v { Value::Seq(s) => s, other => panic!("Tt4mmmme4: expected Seq, got {other:?}") };
        assert_eq!(s.len(), 4, "Tt4mmmme4: component count");
        let _ = s;
        Tt4mmmme4 {
            f0: FromValue::from_value(s[0].as_ref().expect("component f0 of Tt4mmmme4 must be present")),
            f1: FromValue::from_value(s[1].as_ref().expect("component f1 of Tt4mmmme4 must be present")),
            f2: FromValue::from_value(s[2].as_ref().expect("component f2 of Tt4mmmme4 must be present")),
            f3: FromValue::from_value(s[3].as_ref().expect("component f3 of Tt4mmmme4 must be present")),
        }
    }
}
impl ToValue for Tt4mmmme4 {
    fn to_value(&self) -> Value {
        Value::Seq(vec![
            Some(self.f0.to_value()),
            Some(self.f1.to_value()),
            Some(self.f2.to_value()),
            Some(self.f3.to_value()),
        ])
    }
}
impl FromValue for Tt4ommmn {
    fn from_value(v: &Value) -> Self {
        let s = match v { Value::Seq(s) => s, other => panic!("Tt4ommmn: expected Seq, got {other:?}") };
        assert_eq!(s.len(), 4, "Tt4ommmn: component count");
        let _ = s;
        Tt4ommmn {
            f0: s[0].as_ref().map(FromValue::from_value),
            f1: FromValue::from_value(s[1].as_ref().expect("component f1 of Tt4ommmn must be present")),
            f2: FromValue::from_value(s[2].as_ref().expect("component f2 of Tt4ommmn must be present")),
            f3: FromValue::from_value(s[3].as_ref().expect("component f3 of Tt4ommmn must be present")),
        }
    }
}
impl ToValue for Tt4ommmn {
    fn to_value(&self) -> Value {
        Value::Seq(vec![
            self.f0.as_ref().map(|x| x.to_value()),
            Some(self.f1.to_value()),
            Some(self.f2.to_value()),
            Some(self.f3.to_value()),
        ])
    }
}
impl FromValue for Tt4ommme0 {
    fn from_value(v: &Value) -> Self {
        let s = match v { Value::Seq(s) => s, other => panic!("Tt4ommme0: expected Seq, got {other:?}") };
        assert_eq!(s.len(), 4, "Tt4ommme0: component count");
        let _ = s;
        Tt4ommme0 {
            f0: s[0].as_ref().map(FromValue::from_value),
            f1: s[1].as_ref().map(FromValue::from_value),
            f2: s[2].as_ref().map(FromValue::from_value),
            f3: s[3].as_ref().map(FromValue::from_value),
        }
    }
}
impl ToValue for Tt4ommme0 {
    fn to_value(&self) -> Value {
        Value::Seq(vec![
            self.f0.as_ref().map(|x| x.to_value()),
            self.f1.as_ref().map(|x| x.to_value()),
            self.f2.as_ref().map(|x| x.to_value()),
            self.f3.as_ref().map(|x| x.to_value()),
        ])
    }
}
impl FromValue for Tt4ommme1 {
    fn from_value(v: &Value) -> Self {
        let s = match v { Value::Seq(s) => s, other => panic!("Tt4ommme1: expected Seq, got {other:?}") };
        assert_eq!(s.len(), 4, "Tt4ommme1: component count");
        let _ = s;
        Tt4ommme1 {
            f0: s[0].as_ref().map(FromValue::from_value),
            f1: s[1].as_ref().map(FromValue::from_value),
            f2: s[2].as_ref().map(FromValue::from_value),
            f3: s[3].as_ref().map(FromValue::from_value),
        }
    }
}
impl ToValue for Tt4ommme1 {
    fn to_value(&self) -> Value {
        Value::Seq(vec![
            self.f0.as_ref().map(|x| x.to_value()),
            self.f1.as_ref().map(|x| x.to_value()),
            self.f2.as_ref().map(|x| x.to_value()),
            self.f3.as_ref().map(|x| x.to_value()),
        ])
    }
}
impl FromValue for Tt4ommme2 {
    fn from_value(v: &Value) -> Self {
        let s = match v { Value::Seq(s) => s, other => panic!("Tt4ommme2: expected Seq, got {other:?}") };
        assert_eq!(s.len(), 4, "Tt4ommme2: component count");
        let _ = s;
        Tt4ommme2 {
            f0: s[0].as_ref().map(FromValue::from_value),
            f1: FromValue::from_value(s[1].as_ref().expect("component f1 of Tt4ommme2 must be present")),
            f2: s[2].as_ref().map(FromValue::from_value),
            f3: s[3].as_ref().map(FromValue::from_value),
        }
    }
}
impl ToValue for Tt4ommme2 {
    fn to_value(&self) -> Value {
        Value::Seq(vec![
            self.f0.as_ref().map(|x| x.to_value()),
            Some(self.f1.to_value()),
            self.f2.as_ref().map(|x| x.to_value()),
            self.f3.as_ref().map(|x| x.to_value()),
        ])
    }
}
impl FromValue for Tt4ommme3 {
    fn from_value(v: &Value) -> Self {
        let s = match v { Value::Seq(s) => s, other => panic!("Tt4ommme3: expected Seq, got {other:?}") };
        assert_eq!(s.len(), 4, "Tt4ommme3: component count");
        let _ = s;
        Tt4ommme3 {
            f0: s[0].as_ref().map(FromValue::from_value),
            f1: FromValue::from_value(s[1].as_ref().expect("component f1 of Tt4ommme3 must be present")),
            f2: FromValue::from_value(s[2].as_ref().expect("component f2 of Tt4ommme3 must be present")),
            f3: s[3].as_ref().map(FromValue::from_value),
        }
    }
}
impl ToValue for Tt4ommme3 {
    fn to_value(&self) -> Value {
        Value::Seq(vec![
            self.f0.as_ref().map(|x| x.to_value()),
            Some(self.f1.to_value()),
            Some(self.f2.to_value()),
            self.f3.as_ref().map(|x| x.to_value()),
        ])
    }
}
impl FromValue for Tt4ommme4 {
    fn from_value(v: &Value) -> Self {
        let s = match v { Value::Seq(s) => s, other => panic!("Tt4ommme4: expected Seq, got {other:?}") };
        assert_eq!(s.len(), 4, "Tt4ommme4: component count");
        let _ = s;
        Tt4ommme4 {
            f0: s[0].as_ref().map(FromValue::from_value),
            f1: FromValue::from_value(s[1].as_ref().expect("component f1 of Tt4ommme4 must be present")),
            f2: FromValue::from_value(s[2].as_ref().expect("component f2 of Tt4ommme4 must be present")),
            f3: FromValue::from_value(s[3].as_ref().expect("component f3 of Tt4ommme4 must be present")),
        }
    }
}
impl ToValue for Tt4ommme4 {
    fn to_value(&self) -> Value {
        Value::Seq(vec![
            self.f0.as_ref().map(|x| x.to_value()),
            Some(self.f1.to_value()),
            Some(self.f2.to_value()),
            Some(self.f3.to_value()),
        ])
    }
}
impl FromValue for Tt4dmmmn {
    fn from_value(v: &Value) -> Self {
        let s = match v { Value::Seq(s) => s, other => panic!("Tt4dmmmn: expected Seq, got {other:?}") };
        assert_eq!(s.len(), 4, "Tt4dmmmn: component count");
        let _ = s;
        Tt4dmmmn {
            f0: FromValue::from_value(s[0].as_ref().expect("component f0 of Tt4dmmmn must be present")),
            f1: FromValue::from_value(s[1].as_ref().expect("component f1 of Tt4dmmmn must be present")),
            f2: FromValue::from_value(s[2].as_ref().expect("component f2 of Tt4dmmmn must be present")),
            f3: FromValue::from_value(s[3].as_ref().expect("component f3 of Tt4dmmmn must be present")),
        }
    }
}
impl ToValue for Tt4dmmmn {
    fn to_value(&self) -> Value {
        Value::Seq(vec![
            Some(self.f0.to_value()),
            Some(self.f1.to_value()),
            Some(self.f2.to_value()),
            Some(self.f3.to_value()),
        ])
    }
}
impl FromValue for Tt4dmmme0 {
    fn from_value(v: &Value) -> Self {
        let s = match v { Value::Seq(s) => s, other => panic!("Tt4dmmme0: expected Seq, got {other:?}") };
        assert_eq!(s.len(), 4, "Tt4dmmme0: component count");
        let _ = s;
        Tt4dmmme0 {
            f0: FromValue::from_value(s[0].as_ref().expect("component f0 of Tt4dmmme0 must be present")),
            f1: s[1].as_ref().map(FromValue::from_value),
            f2: s[2].as_ref().map(FromValue::from_value),
            f3: s[3].as_ref().map(FromValue::from_value),
        }
    }
}
impl ToValue for Tt4dmmme0 {
    fn to_value(&self) -> Value {
        Value::Seq(vec![
            Some(self.f0.to_value()),
            self.f1.as_ref().map(|x| x.to_value()),
            self.f2.as_ref().map(|x| x.to_value()),
            self.f3.as_ref().map(|x| x.to_value()),
        ])
    }
}
impl FromValue for Tt4dmmme1 {
    fn from_value(v: &Value) -> Self {
        let s = match v { Value::Seq(s) => s, other => panic!("Tt4dmmme1: expected Seq, got {other:?}") };
        assert_eq!(s.len(), 4, "Tt4dmmme1: component count");
        let _ = s;
        Tt4dmmme1 {
            f0: FromValue::from_value(s[0].as_ref().expect("component f0 of Tt4dmmme1 must be present")),
            f1: s[1].as_ref().map(FromValue::from_value),
            f2: s[2].as_ref().map(FromValue::from_value),
            f3: s[3].as_ref().map(FromValue::from_value),
        }
    }
}
impl ToValue for Tt4dmmme1 {
    fn to_value(&self) -> Value {
        Value::Seq(vec![
            Some(self.f0.to_value()),
            self.f1.as_ref().map(|x| x.to_value()),
            self.f2.as_ref().map(|x| x.to_value()),
            self.f3.as_ref().map(|x| x.to_value()),
        ])
    }
}
impl FromValue for Tt4dmmme2 {
    fn from_value(v: &Value) -> Self {
        let s = match v { Value::Seq(s) => s, other => panic!("Tt4dmmme2: expected Seq, got {other:?}") };
        assert_eq!(s.len(), 4, "Tt4dmmme2: component count");
        let _ = s;
        Tt4dmmme2 {
            f0: FromValue::from_value(s[0].as_ref().expect("component f0 of Tt4dmmme2 must be present")),
            f1: FromValue::from_value(s[1].as_ref().expect("component f1 of Tt4dmmme2 must be present")),
            f2: s[2].as_ref().map(FromValue::from_value),
            f3: s[3].as_ref().map(FromValue::from_value),
        }
    }
}
impl ToValue for Tt4dmmme2 {
    fn to_value(&self) -> Value {
        Value::Seq(vec![
            Some(self.f0.to_value()),
            Some(self.f1.to_value()),
            self.f2.as_ref().map(|x| x.to_value()),
            self.f3.as_ref().map(|x| x.to_value()),
        ])
    }
}
impl FromValue for Tt4dmmme3 {
    fn from_value(v: &Value) -> Self {
        let s = match v { Value::Seq(s) => s, other => panic!("Tt4dmmme3: expected Seq, got {other:?}") };
        assert_eq!(s.len(), 4, "Tt4dmmme3: component count");
        let _ = s;
        Tt4dmmme3 {
            f0: FromValue::from_value(s[0].as_ref().expect("component f0 of Tt4dmmme3 must be present")),
            f1: FromValue::from_value(s[1].as_ref().expect("component f1 of Tt4dmmme3 must be present")),
            f2: FromValue::from_value(s[2].as_ref().expect("component f2 of Tt4dmmme3 must be present")),
            f3: s[3].as_ref().map(FromValue::from_value),
        }
    }
}
impl ToValue for Tt4dmmme3 {
    fn to_value(&self) -> Value {
        Value::Seq(vec![
            Some(self.f0.to_value()),
            Some(self.f1.to_value()),
            Some(self.f2.to_value()),
            self.f3.as_ref().map(|x| x.to_value()),
        ])
    }
}
impl FromValue for Tt4dmmme4 {
    fn from_value(v: &Value) -> Self {
        let s = match v { Value::Seq(s) => s, other => panic!("Tt4dmmme4: expected Seq, got {other:?}") };
        assert_eq!(s.len(), 4, "Tt4dmmme4: component count");
        let _ = s;
        Tt4dmmme4 {
            f0: FromValue::from_value(s[0].as_ref().expect("component f0 of Tt4dmmme4 must be present")),
            f1: FromValue::from_value(s[1].as_ref().expect("component f1 of Tt4dmmme4 must be present")),
            f2: FromValue::from_value(s[2].as_ref().expect("component f2 of Tt4dmmme4 must be present")),
            f3: FromValue::from_value(s[3].as_ref().expect("component f3 of Tt4dmmme4 must be present")),
        }
    }
}
impl ToValue for Tt4dmmme4 {
    fn to_value(&self) -> Value {
        Value::Seq(vec![
            Some(self.f0.to_value()),
            Some(self.f1.to_value()),
            Some(self.f2.to_value()),
            Some(self.f3.to_value()),
        ])
    }
}
impl FromValue for Tt4mommn {
    fn from_value(v: &Value) -> Self {
        let s = match v { Value::Seq(s) => s, other => panic!("Tt4mommn: expected Seq, got {other:?}") };
        assert_eq!(s.len(), 4, "Tt4mommn: component count");
        let _ = s;
        Tt4mommn {
            f0: FromValue::from_value(s[0].as_ref().expect("component f0 of Tt4mommn must be present")),
            f1: s[1].as_ref().map(FromValue::from_value),
            f2: FromValue::from_value(s[2].as_ref().expect("component f2 of Tt4mommn must be present")),
            f3: FromValue::from_value(s[3].as_ref().expect("component f3 of Tt4mommn must be present")),
        }
    }
}
impl ToValue for Tt4mommn {
    fn to_value(&self) -> Value {
        Value::Seq(vec![
            Some(self.f0.to_value()),
            self.f1.as_ref().map(|x| x.to_value()),
            Some(self.f2.to_value()),
            Some(self.f3.to_value()),
        ])
    }
}
impl FromValue for Tt4momme0 {
    fn from_value(v: &Value) -> Self {
        let s = match v { Value::Seq(s) => s, other => panic!("Tt4momme0: expected Seq, got {other:?}") };
        assert_eq!(s.len(), 4, "Tt4momme0: component count");
        let _ = s;
        Tt4momme0 {
            f0: FromValue::from_value(s[0].as_ref().expect("component f0 of Tt4momme0 must be present")),
            f1: s[1].as_ref().map(FromValue::from_value),
            f2: s[2].as_ref().map(FromValue::from_value),
            f3: s[3].as_ref().map(FromValue::from_value),
        }
    }
}
impl ToValue for Tt4momme0 {
    fn to_value(&self) -> Value {
        Value::Seq(vec![
            Some(self.f0.to_value()),
            self.f1.as_ref().map(|x| x.to_value()),
            self.f2.as_ref().map(|x| x.to_value()),
            self.f3.as_ref().map(|x| x.to_value()),
        ])
    }
}
impl FromValue for Tt4momme1 {
    fn from_value(v: &Value) -> Self {
        let s = match v { Value::Seq(s) => s, other => panic!("Tt4momme1: expected Seq, got {other:?}") };
        assert_eq!(s.len(), 4, "Tt4momme1: component count");
        let _ = s;
        Tt4momme1 {
            f0: FromValue::from_value(s[0].as_ref().expect("component f0 of Tt4momme1 must be present")),
            f1: s[1].as_ref().map(FromValue::from_value),
            f2: s[2].as_ref().map(FromValue::from_value),
            f3: s[3].as_ref().map(FromValue::from_value),
        }
    }
}
impl ToValue for Tt4momme1 {
    fn to_value(&self) -> Value {
        Value::Seq(vec![
            Some(self.f0.to_value()),
            self.f1.as_ref().map(|x| x.to_value()),
            self.f2.as_ref().map(|x| x.to_value()),
            self.f3.as_ref().map(|x| x.to_value()),
        ])
    }
}
impl FromValue for Tt4momme2 {
    fn from_value(v: &Value) -> Self {
        let s = match v { Value::Seq(s) => s, other => panic!("Tt4momme2: expected Seq, got {other:?}") };
        assert_eq!(s.len(), 4, "Tt4momme2: component count");
        let _ = s;
        Tt4momme2 {
            f0: FromValue::from_value(s[0].as_ref().expect("component f0 of Tt4momme2 must be present")),
            f1: s[1].as_ref().map(FromValue::from_value),
            f2: s[2].as_ref().map(FromValue::from_value),
            f3: s[3].as_ref().map(FromValue::from_value),
        }
    }
}
impl ToValue for Tt4momme2 {
    fn to_value(&self) -> Value {
        Value::Seq(vec![
            Some(self.f0.to_value()),
            self.f1.as_ref().map(|x| x.to_value()),
            self.f2.as_ref().map(|x| x.to_value()),
            self.f3.as_ref().map(|x| x.to_value()),
        ])
    }
}
impl FromValue for Tt4momme3 {
    fn from_value(v: &Value) -> Self {
        let s = match v { Value::Seq(s) => s, other => panic!("Tt4momme3: expected Seq, got {other:?}") };
        assert_eq!(s.len(), 4, "Tt4momme3: component count");
        let _ = s;
        Tt4momme3 {
            f0: FromValue::from_value(s[0].as_ref().expect("component f0 of Tt4momme3 must be present")),
            f1: s[1].as_ref().map(FromValue::from_value),
            f2: FromValue::from_value(s[2].as_ref().expect("component f2 of Tt4momme3 must be present")),
            f3: s[3].as_ref().map(FromValue::from_value),
        }
    }
}
impl ToValue for Tt4momme3 {
    fn to_value(&self) -> Value {
        Value::Seq(vec![
            Some(self.f0.to_value()),
            self.f1.as_ref().map(|x| x.to_value()),
            Some(self.f2.to_value()),
            self.f3.as_ref().map(|x| x.to_value()),
        ])
    }
}
impl FromValue for Tt4momme4 {
    fn from_value(v: &Value) -> Self {
        let s = match v { Value::Seq(s) => s, other => panic!("Tt4momme4: expected Seq, got {other:?}") };
        assert_eq!(s.len(), 4, "Tt4momme4: component count");
        let _ = s;
        Tt4momme4 {
            f0: FromValue::from_value(s[0].as_ref().expect("component f0 of Tt4momme4 must be present")),
            f1: s[1].as_ref().map(FromValue::from_value),
            f2: FromValue::from_value(s[2].as_ref().expect("component f2 of Tt4momme4 must be present")),
            f3: FromValue::from_value(s[3].as_ref().expect("component f3 of Tt4momme4 must be present")),
        }
    }
}
impl ToValue for Tt4momme4 {
    fn to_value(&self) -> Value {
        Value::Seq(vec![
            Some(self.f0.to_value()),
            self.f1.as_ref().map(|x| x.to_value()),
            Some(self.f2.to_value()),
            Some(self.f3.to_value()),
        ])
    }
}
impl FromValue for Tt4oommn {
    fn from_value(v: &Value) -> Self {
        let s = match v { Value::Seq(s) => s, other => panic!("Tt4oommn: expected Seq, got {other:?}") };
        assert_eq!(s.len(), 4, "Tt4oommn: component count");
        let _ = s;
        Tt4oommn {
            f0: s[0].as_ref().map(FromValue::from_value),
            f1: s[1].as_ref().map(FromValue::from_value),
            f2: FromValue::from_value(s[2].as_ref().expect("component f2 of Tt4oommn must be present")),
            f3: FromValue::from_value(s[3].as_ref().expect("component f3 of Tt4oommn must be present")),
        }
    }
}
impl ToValue for Tt4oommn {
    fn to_value(&self) -> Value {
        Value::Seq(vec![
            self.f0.as_ref().map(|x| x.to_value()),
            self.f1.as_ref().map(|x| x.to_value()),
            Some(self.f2.to_value()),
            Some(self.f3.to_value()),
        ])
    }
}
impl FromValue for Tt4oomme0 {
    fn from_value(v: &Value) -> Self {
        let s = match v { Value::Seq(s) => s, other => panic!("Tt4oomme0: expected Seq, got {other:?}") };
        assert_eq!(s.len(), 4, "Tt4oomme0: component count");
        let _ = s;
        Tt4oomme0 {
            f0: s[0].as_ref().map(FromValue::from_value),
            f1: s[1].as_ref().map(FromValue::from_value),
            f2: s[2].as_ref().map(FromValue::from_value),
            f3: s[3].as_ref().map(FromValue::from_value),
        }
    }
}
impl ToValue for Tt4oomme0 {
    fn to_value(&self) -> Value {
        Value::Seq(vec![
            self.f0.as_ref().map(|x| x.to_value()),
            self.f1.as_ref().map(|x| x.to_value()),
            self.f2.as_ref().map(|x| x.to_value()),
            self.f3.as_ref().map(|x| x.to_value()),
        ])
    }
}
impl FromValue for Tt4oomme1 {
    fn from_value(v: &Value) -> Self {
        let s = match v { Value::Seq(s) => s, other => panic!("Tt4oomme1: expected Seq, got {other:?}") };
        assert_eq!(s.len(), 4, "Tt4oomme1: component count");
        let _ = s;
        Tt4oomme1 {
            f0: s[0].as_ref().map(FromValue::from_value),
            f1: s[1].as_ref().map(FromValue::from_value),
            f2: s[2].as_ref().map(FromValue::from_value),
            f3: s[3].as_ref().map(FromValue::from_value),
        }
    }
}
impl ToValue for Tt4oomme1 {
    fn to_value(&self) -> Value {
        Value::Seq(vec![
            self.f0.as_ref().map(|x| x.to_value()),
            self.f1.as_ref().map(|x| x.to_value()),
            self.f2.as_ref().map(|x| x.to_value()),
            self.f3.as_ref().map(|x| x.to_value()),
        ])
    }
}
impl FromValue for Tt4oomme2 {
    fn from_value(v: &Value) -> Self {
        let s = match v { Value::Seq(s) => s, other => panic!("Tt4oomme2: expected Seq, got {other:?}") };
        assert_eq!(s.len(), 4, "Tt4oomme2: component count");
        let _ = s;
        Tt4oomme2 {
            f0: s[0].as_ref().map(FromValue::from_value),
            f1: s[1].as_ref().map(FromValue::from_value),
            f2: s[2].as_ref().map(FromValue::from_value),
            f3: s[3].as_ref().map(FromValue::from_value),
        }
    }
}
impl ToValue for Tt4oomme2 {
    fn to_value(&self) -> Value {
        Value::Seq(vec![
            self.f0.as_ref().map(|x| x.to_value()),
            self.f1.as_ref().map(|x| x.to_value()),
            self.f2.as_ref().map(|x| x.to_value()),
            self.f3.as_ref().map(|x| x.to_value()),
        ])
    }
}
impl FromValue for Tt4oomme3 {
    fn from_value(v: &Value) -> Self {
        let s = match v { Value::Seq(s) => s, other => panic!("Tt4oomme3: expected Seq, got {other:?}") };
        assert_eq!(s.len(), 4, "Tt4oomme3: component count");
        let _ = s;
        Tt4oomme3 {
            f0: s[0].as_ref().map(FromValue::from_value),
            f1: s[1].as_ref().map(FromValue::from_value),
            f2: FromValue::from_value(s[2].as_ref().expect("component f2 of Tt4oomme3 must be present")),
            f3: s[3].as_ref().map(FromValue::from_value),
        }
    }
}
impl ToValue for Tt4oomme3 {
    fn to_value(&self) -> Value {
        Value::Seq(vec![
            self.f0.as_ref().map(|x| x.to_value()),
            self.f1.as_ref().map(|x| x.to_value()),
            Some(self.f2.to_value()),
            self.f3.as_ref().map(|x| x.to_value()),
        ])
    }
}
impl FromValue for Tt4oomme4 {
    fn from_value(v: &Value) -> Self {
        let s = match v { Value::Seq(s) => s, other => panic!("Tt4oomme4: expected Seq, got {other:?}") };
        assert_eq!(s.len(), 4, "Tt4oomme4: component count");
        let _ = s;
        Tt4oomme4 {
            f0: s[0].as_ref().map(FromValue::from_value),
            f1: s[1].as_ref().map(FromValue::from_value),
            f2: FromValue::from_value(s[2].as_ref().expect("component f2 of Tt4oomme4 must be present")),
            f3: FromValue::from_value(s[3].as_ref().expect("component f3 of Tt4oomme4 must be present")),
        }
    }
}
impl ToValue for Tt4oomme4 {
    fn to_value(&self) -> Value {
        Value::Seq(vec![
            self.f0.as_ref().map(|x| x.to_value()),
            self.f1.as_ref().map(|x| x.to_value()),
            Some(self.f2.to_value()),
            Some(self.f3.to_value()),
        ])
    }
}
impl FromValue for Tt4dommn {
    fn from_value(v: &Value) -> Self {
        let s = match v { Value::Seq(s) => s, other => panic!("Tt4dommn: expected Seq, got {other:?}") };
        assert_eq!(s.len(), 4, "Tt4dommn: component count");
        let _ = s;
        Tt4dommn {
            f0: FromValue::from_value(s[0].as_ref().expect("component f0 of Tt4dommn must be present")),
            f1: s[1].as_ref().map(FromValue::from_value),
            f2: FromValue::from_value(s[2].as_ref().expect("component f2 of Tt4dommn must be present")),
            f3: FromValue::from_value(s[3].as_ref().expect("component f3 of Tt4dommn must be present")),
        }
    }
}
impl ToValue for Tt4dommn {
    fn to_value(&self) -> Value {
        Value::Seq(vec![
            Some(self.f0.to_value()),
            self.f1.as_ref().map(|x| x.to_value()),
            Some(self.f2.to_value()),
            Some(self.f3.to_value()),
        ])
    }
}
impl FromValue for Tt4domme0 {
    fn from_value(v: &Value) -> Self {
        let s = match v { Value::Seq(s) => s, other => panic!("Tt4domme0: expected Seq, got {other:?}") };
        assert_eq!(s.len(), 4, "Tt4domme0: component count");
        let _ = s;
        Tt4domme0 {
            f0: FromValue::from_value(s[0].as_ref().expect("component f0 of Tt4domme0 must be present")),
            f1: s[1].as_ref().map(FromValue::from_value),
            f2: s[2].as_ref().map(FromValue::from_value),
            f3: s[3].as_ref().map(FromValue::from_value),
        }
    }
}
impl ToValue for Tt4domme0 {
    fn to_value(&self) -> Value {
        Value::Seq(vec![
            Some(self.f0.to_value()),
            self.f1.as_ref().map(|x| x.to_value()),
            self.f2.as_ref().map(|x| x.to_value()),
            self.f3.as_ref().map(|x| x.to_value()),
        ])
    }
}
impl FromValue for Tt4domme1 {
    fn from_value(v: &Value) -> Self {
        let s = match v { Value::Seq(s) => s, other => panic!("Tt4domme1: expected Seq, got {other:?}") };
        assert_eq!(s.len(), 4, "Tt4domme1: component count");
        let _ = s;
        Tt4domme1 {
            f0: FromValue::from_value(s[0].as_ref().expect("component f0 of Tt4domme1 must be present")),
            f1: s[1].as_ref().map(FromValue::from_value),
            f2: s[2].as_ref().map(FromValue::from_value),
            f3: s[3].as_ref().map(FromValue::from_value),
        }
    }
}
impl ToValue for Tt4domme1 {
    fn to_value(&self) -> Value {
        Value::Seq(vec![
            Some(self.f0.to_value()),
            self.f1.as_ref().map(|x| x.to_value()),
            self.f2.as_ref().map(|x| x.to_value()),
            self.f3.as_ref().map(|x| x.to_value()),
        ])
    }
}
impl FromValue for Tt4domme2 {
    fn from_value(v: &Value) -> Self {
        let s = match v { Value::Seq(s) => s, other => panic!("Tt4domme2: expected Seq, got {other:?}") };
        assert_eq!(s.len(), 4, "Tt4domme2: component count");
        let _ = s;
        Tt4domme2 {
            f0: FromValue::from_value(s[0].as_ref().expect("component f0 of Tt4domme2 must be present")),
            f1: s[1].as_ref().map(FromValue::from_value),
            f2: s[2].as_ref().map(FromValue::from_value),
            f3: s[3].as_ref().map(FromValue::from_value),
        }
    }
}
impl ToValue for Tt4domme2 {
    fn to_value(&self) -> Value {
        Value::Seq(vec![
            Some(self.f0.to_value()),
            self.f1.as_ref().map(|x| x.to_value()),
            self.f2.as_ref().map(|x| x.to_value()),
            self.f3.as_ref().map(|x| x.to_value()),
        ])
    }
}
impl FromValue for Tt4domme3 {
    fn from_value(v: &Value) -> Self {
        let s = match v { Value::Seq(s) => s, other => panic!("Tt4domme3: expected Seq, got {other:?}") };
        assert_eq!(s.len(), 4, "Tt4domme3: component count");
        let _ = s;
        Tt4domme3 {
            f0: FromValue::from_value(s[0].as_ref().expect("component f0 of Tt4domme3 must be present")),
            f1: s[1].as_ref().map(FromValue::from_value),
            f2: FromValue::from_value(s[2].as_ref().expect("component f2 of Tt4domme3 must be present")),
            f3: s[3].as_ref().map(FromValue::from_value),
        }
    }
}
impl ToValue for Tt4domme3 {
    fn to_value(&self) -> Value {
        Value::Seq(vec![
            Some(self.f0.to_value()),
            self.f1.as_ref().map(|x| x.to_value()),
            Some(self.f2.to_value()),
            self.f3.as_ref().map(|x| x.to_value()),
        ])
    }
}
impl FromValue for Tt4domme4 {
    fn from_value(v: &Value) -> Self {
        let s = match v { Value::Seq(s) => s, other => panic!("Tt4domme4: expected Seq, got {other:?}") };
        assert_eq!(s.len(), 4, "Tt4domme4: component count");
        let _ = s;
        Tt4domme4 {
            f0: FromValue::from_value(s[0].as_ref().expect("component f0 of Tt4domme4 must be present")),
            f1: s[1].as_ref().map(FromValue::from_value),
            f2: FromValue::from_value(s[2].as_ref().expect("component f2 of Tt4domme4 must be present")),
            f3: FromValue::from_value(s[3].as_ref().expect("component f3 of Tt4domme4 must be present")),
        }
    }
}
impl ToValue for Tt4domme4 {
    fn to_value(&self) -> Value {
        Value::Seq(vec![
            Some(self.f0.to_value()),
            self.f1.as_ref().map(|x| x.to_value()),
            Some(self.f2.to_value()),
            Some(self.f3.to_value()),
        ])
    }
}
impl FromValue for Tt4mdmmn {
    fn from_value(v: &Value) -> Self {
        let s = match v { Value::Seq(s) => s, other => panic!("Tt4mdmmn: expected Seq, got {other:?}") };
        assert_eq!(s.len(), 4, "Tt4mdmmn: component count");
        let _ = s;
        Tt4mdmmn {
            f0: FromValue::from_value(s[0].as_ref().expect("component f0 of Tt4mdmmn must be present")),
            f1: FromValue::from_value(s[1].as_ref().expect("component f1 of Tt4mdmmn must be present")),
            f2: FromValue::from_value(s[2].as_ref().expect("component f2 of Tt4mdmmn must be present")),
            f3: FromValue::from_value(s[3].as_ref().expect("component f3 of Tt4mdmmn must be present")),
        }
    }
}
impl ToValue for Tt4mdmmn {
    fn to_value(&self) -> Value {
        Value::Seq(vec![
            Some(self.f0.to_value()),
            Some(self.f1.to_value()),
            Some(self.f2.to_value()),
            Some(self.f3.to_value()),
        ])
    }
}
impl FromValue for Tt4mdmme0 {
    fn from_value(v: &Value) -> Self {
        let s = match v { Value::Seq(s) => s, other => panic!("Tt4mdmme0: expected Seq, got {other:?}") };
        assert_eq!(s.len(), 4, "Tt4mdmme0: component count");
        let _ = s;
        Tt4mdmme0 {
            f0: FromValue::from_value(s[0].as_ref().expect("component f0 of Tt4mdmme0 must be present")),
            f1: FromValue::from_value(s[1].as_ref().expect("component f1 of Tt4mdmme0 must be present")),
            f2: s[2].as_ref().map(FromValue::from_value),
            f3: s[3].as_ref().map(FromValue::from_value),
        }
    }
}
impl ToValue for Tt4mdmme0 {
    fn to_value(&self) -> Value {
        Value::Seq(vec![
            Some(self.f0.to_value()),
            Some(self.f1.to_value()),
            self.f2.as_ref().map(|x| x.to_value()),
            self.f3.as_ref().map(|x| x.to_value()),
        ])
    }
}
impl FromValue for Tt4mdmme1 {
    fn from_value(v: &Value) -> Self {
        let s = match v { Value::Seq(s) => s, other => panic!("Tt4mdmme1: expected Seq, got {other:?}") };
        assert_eq!(s.len(), 4, "Tt4mdmme1: component count");
        let _ = s;
        Tt4mdmme1 {
            f0: FromValue::from_value(s[0].as_ref().expect("component f0 of Tt4mdmme1 must be present")),
            f1: FromValue::from_value(s[1].as_ref().expect("component f1 of Tt4mdmme1 must be present")),
            f2: s[2].as_ref().map(FromValue::from_value),
            f3: s[3].as_ref().map(FromValue::from_value),
        }
    }
}
impl ToValue for Tt4mdmme1 {
    fn to_value(&self) -> Value {
        Value::Seq(vec![
            Some(self.f0.to_value()),
            Some(self.f1.to_value()),
            self.f2.as_ref().map(|x| x.to_value()),
            self.f3.as_ref().map(|x| x.to_value()),
        ])
    }
}
impl FromValue for Tt4mdmme2 {
    fn from_value(v: &Value) -> Self {
        let s = match v { Value::Seq(s) => s, other => panic!("Tt4mdmme2: expected Seq, got {other:?}") };
        assert_eq!(s.len(), 4, "Tt4mdmme2: component count");
        let _ = s;
        Tt4mdmme2 {
            f0: FromValue::from_value(s[0].as_ref().expect("component f0 of Tt4mdmme2 must be present")),
            f1: FromValue::from_value(s[1].as_ref().expect("component f1 of Tt4mdmme2 must be present")),
            f2: s[2].as_ref().map(FromValue::from_value),
            f3: s[3].as_ref().map(FromValue::from_value),
        }
    }
}
impl ToValue for Tt4mdmme2 {
    fn to_value(&self) -> Value {
        Value::Seq(vec![
            Some(self.f0.to_value()),
            Some(self.f1.to_value()),
            self.f2.as_ref().map(|x| x.to_value()),
            self.f3.as_ref().map(|x| x.to_value()),
        ])
    }
}
impl FromValue for Tt4mdmme3 {
    fn from_value(v: &Value) -> Self {
        let s = match v { Value::Seq(s) => s, other => panic!("Tt4mdmme3: expected Seq, got {other:?}") };
        assert_eq!(s.len(), 4, "Tt4mdmme3: component count");
        let _ = s;
        Tt4mdmme3 {
            f0: FromValue::from_value(s[0].as_ref().expect("component f0 of Tt4mdmme3 must be present")),
            f1: FromValue::from_value(s[1].as_ref().expect("component f1 of Tt4mdmme3 must be present")),
            f2: FromValue::from_value(s[2].as_ref().expect("component f2 of Tt4mdmme3 must be present")),
            f3: s[3].as_ref().map(FromValue::from_value),
        }
    }
}
impl ToValue for Tt4mdmme3 {
    fn to_value(&self) -> Value {
        Value::Seq(vec![
            Some(self.f0.to_value()),
            Some(self.f1.to_value()),
            Some(self.f2.to_value()),
            self.f3.as_ref().map(|x| x.to_value()),
        ])
    }
}
impl FromValue for Tt4mdmme4 {
    fn from_value(v: &Value) -> Self {
        let s = match v { Value::Seq(s) => s, other => panic!("Tt4mdmme4: expected Seq, got {other:?}") };
        assert_eq!(s.len(), 4, "Tt4mdmme4: component count");
        let _ = s;
        Tt4mdmme4 {
            f0: FromValue::from_value(s[0].as_ref().expect("component f0 of Tt4mdmme4 must be present")),
            f1: FromValue::from_value(s[1].as_ref().expect("component f1 of Tt4mdmme4 must be present")),
            f2: FromValue::from_value(s[2].as_ref().expect("component f2 of Tt4mdmme4 must be present")),
            f3: FromValue::from_value(s[3].as_ref().expect("component f3 of Tt4mdmme4 must be present")),
        }
    }
}
impl ToValue for Tt4mdmme4 {
    fn to_value(&self) -> Value {
        Value::Seq(vec![
            Some(self.f0.to_value()),
            Some(self.f1.to_value()),
            Some(self.f2.to_value()),
            Some(self.f3.to_value()),
        ])
    }
}
impl FromValue for Tt4odmmn {
    fn from_value(v: &Value) -> Self {
        let s = match v { Value::Seq(s) => s, other => panic!("Tt4odmmn: expected Seq, got {other:?}") };
        assert_eq!(s.len(), 4, "Tt4odmmn: component count");
        let _ = s;
        Tt4odmmn {
            f0: s[0].as_ref().map(FromValue::from_value),
            f1: FromValue::from_value(s[1].as_ref().expect("component f1 of Tt4odmmn must be present")),
            f2: FromValue::from_value(s[2].as_ref().expect("component f2 of Tt4odmmn must be present")),
            f3: FromValue::from_value(s[3].as_ref().expect("component f3 of Tt4odmmn must be present")),
        }
    }
}
impl ToValue for Tt4odmmn {
    fn to_value(&self) -> Value {
        Value::Seq(vec![
            self.f0.as_ref().map(|x| x.to_value()),
            Some(self.f1.to_value()),
            Some(self.f2.to_value()),
            Some(self.f3.to_value()),
        ])
    }
}
impl FromValue for Tt4odmme0 {
    fn from_value(v: &Value) -> Self {
        let s = match v { Value::Seq(s) => s, other => panic!("Tt4odmme0: expected Seq, got {other:?}") };
        assert_eq!(s.len(), 4, "Tt4odmme0: component count");
        let _ = s;
        Tt4odmme0 {
            f0: s[0].as_ref().map(FromValue::from_value),
            f1: FromValue::from_value(s[1].as_ref().expect("component f1 of Tt4odmme0 must be present")),
            f2: s[2].as_ref().map(FromValue::from_value),
            f3: s[3].as_ref().map(FromValue::from_value),
        }
    }
}
impl ToValue for Tt4odmme0 {
    fn to_value(&self) -> Value {
        Value::Seq(vec![
            self.f0.as_ref().map(|x| x.to_value()),
            Some(self.f1.to_value()),
            self.f2.as_ref().map(|x| x.to_value()),
            self.f3.as_ref().map(|x| x.to_value()),
        ])
    }
}
impl FromValue for Tt4odmme1 {
    fn from_value(v: &Value) -> Self {
        let s = match v { Value::Seq(s) => s, other => panic!("Tt4odmme1: expected Seq, got {other:?}") };
        assert_eq!(s.len(), 4, "Tt4odmme1: component count");
        let _ = s;
        Tt4odmme1 {
            f0: s[0].as_ref().map(FromValue::from_value),
            f1: FromValue::from_value(s[1].as_ref().expect("component f1 of Tt4odmme1 must be present")),
            f2: s[2].as_ref().map(FromValue::from_value),
            f3: s[3].as_ref().map(FromValue::from_value),
        }
    }
}
impl ToValue for Tt4odmme1 {
    fn to_value(&self) -> Value {
        Value::Seq(vec![
            self.f0.as_ref().map(|x| x.to_value()),
            Some(self.f1.to_value()),
            self.f2.as_ref().map(|x| x.to_value()),
            self.f3.as_ref().map(|x| x.to_value()),
        ])
    }
}
impl FromValue for Tt4odmme2 {
    fn from_value(v: &Value) -> Self {
        let s = match v { Value::Seq(s) => s, other => panic!("Tt4odmme2: expected Seq, got {other:?}") };
        assert_eq!(s.len(), 4, "Tt4odmme2: component count");
        let _ = s;
        Tt4odmme2 {
            f0: s[0].as_ref().map(FromValue::from_value),
            f1: FromValue::from_value(s[1].as_ref().expect("component f1 of Tt4odmme2 must be present")),
            f2: s[2].as_ref().map(FromValue::from_value),
            f3: s[3].as_ref().map(FromValue::from_value),
        }
    }
}
impl ToValue for Tt4odmme2 {
    fn to_value(&self) -> Value {
        Value::Seq(vec![
            self.f0.as_ref().map(|x| x.to_value()),
            Some(self.f1.to_value()),
            self.f2.as_ref().map(|x| x.to_value()),
            self.f3.as_ref().map(|x| x.to_value()),
        ])
    }
}
impl FromValue for Tt4odmme3 {
    fn from_value(v: &Value) -> Self {
        let s = match v { Value::Seq(s) => s, other => panic!("Tt4odmme3: expected Seq, got {other:?}") };
        assert_eq!(s.len(), 4, "Tt4odmme3: component count");
        let _ = s;
        Tt4odmme3 {
            f0: s[0].as_ref().map(FromValue::from_value),
            f1: FromValue::from_value(s[1].as_ref().expect("component f1 of Tt4odmme3 must be present")),
            f2: FromValue::from_value(s[2].as_ref().expect("component f2 of Tt4odmme3 must be present")),
            f3: s[3].as_ref().map(FromValue::from_value),
        }
    }
}
impl ToValue for Tt4odmme3 {
    fn to_value(&self) -> Value {
        Value::Seq(vec![
            self.f0.as_ref().map(|x| x.to_value()),
            Some(self.f1.to_value()),
            Some(self.f2.to_value()),
            self.f3.as_ref().map(|x| x.to_value()),
        ])
    }
}
impl FromValue for Tt4odmme4 {
    fn from_value(v: &Value) -> Self {
        let s = match v { Value::Seq(s) => s, other => panic!("Tt4odmme4: expected Seq, got {other:?}") };
        assert_eq!(s.len(), 4, "Tt4odmme4: component count");
        let _ = s;
        Tt4odmme4 {
            f0: s[0].as_ref().map(FromValue::from_value),
            f1: FromValue::from_value(s[1].as_ref().expect("component f1 of Tt4odmme4 must be present")),
            f2: FromValue::from_value(s[2].as_ref().expect("component f2 of Tt4odmme4 must be present")),
            f3: FromValue::from_value(s[3].as_ref().expect("component f3 of Tt4odmme4 must be present")),
        }
    }
}
impl ToValue for Tt4odmme4 {
    fn to_value(&self) -> Value {
        Value::Seq(vec![
            self.f0.as_ref().map(|x| x.to_value()),
            Some(self.f1.to_value()),
            Some(self.f2.to_value()),
            Some(self.f3.to_value()),
        ])
    }
}
impl FromValue for Tt4ddmmn {
    fn from_value(v: &Value) -> Self {
        let s = match v { Value::Seq(s) => s, other => panic!("Tt4ddmmn: expected Seq, got {other:?}") };
        assert_eq!(s.len(), 4, "Tt4ddmmn: component count");
        let _ = s;
        Tt4ddmmn {
            f0: FromValue::from_value(s[0].as_ref().expect("component f0 of Tt4ddmmn must be present")),
            f1: FromValue::from_value(s[1].as_ref().expect("component f1 of Tt4ddmmn must be present")),
            f2: FromValue::from_value(s[2].as_ref().expect("component f2 of Tt4ddmmn must be present")),
            f3: FromValue::from_value(s[3].as_ref().expect("component f3 of Tt4ddmmn must be present")),
        }
    }
}
impl ToValue for Tt4ddmmn {
    fn to_value(&self) -> Value {
        Value::Seq(vec![
            Some(self.f0.to_value()),
            Some(self.f1.to_value()),
            Some(self.f2.to_value()),
            Some(self.f3.to_value()),
        ])
    }
}
impl FromValue for Tt4ddmme0 {
    fn from_value(v: &Value) -> Self {
        let s = match v { Value::Seq(s) => s, other => panic!("Tt4ddmme0: expected Seq, got {other:?}") };
        assert_eq!(s.len(), 4, "Tt4ddmme0: component count");
        let _ = s;
        Tt4ddmme0 {
            f0: FromValue::from_value(s[0].as_ref().expect("component f0 of Tt4ddmme0 must be present")),
            f1: FromValue::from_value(s[1].as_ref().expect("component f1 of Tt4ddmme0 must be present")),
            f2: s[2].as_ref().map(FromValue::from_value),
            f3: s[3].as_ref().map(FromValue::from_value),
        }
    }
}
impl ToValue for Tt4ddmme0 {
    fn to_value(&self) -> Value {
        Value::Seq(vec![
            Some(self.f0.to_value()),
            Some(self.f1.to_value()),
            self.f2.as_ref().map(|x| x.to_value()),
            self.f3.as_ref().map(|x| x.to_value()),
        ])
    }
}
impl FromValue for Tt4ddmme1 {
    fn from_value(v: &Value) -> Self {
        let s = match v { Value::Seq(s) => s, other => panic!("Tt4ddmme1: expected Seq, got {other:?}") };
        assert_eq!(s.len(), 4, "Tt4ddmme1: component count");
        let _ = s;
        Tt4ddmme1 {
            f0: FromValue::from_value(s[0].as_ref().expect("component f0 of Tt4ddmme1 must be present")),
            f1: FromValue::from_value(s[1].as_ref().expect("component f1 of Tt4ddmme1 must be present")),
            f2: s[2].as_ref().map(FromValue::from_value),
            f3: s[3].as_ref().map(FromValue::from_value),
        }
    }
}
impl ToValue for Tt4ddmme1 {
    fn to_value(&self) -> Value {
        Value::Seq(vec![
            Some(self.f0.to_value()),
            Some(self.f1.to_value()),
            self.f2.as_ref().map(|x| x.to_value()),
            self.f3.as_ref().map(|x| x.to_value()),
        ])
    }
}
impl FromValue for Tt4ddmme2 {
    fn from_value(v: &Value) -> Self {
        let s = match v { Value::Seq(s) => s, other => panic!("Tt4ddmme2: expected Seq, got {other:?}") };
        assert_eq!(s.len(), 4, "Tt4ddmme2: component count");
        let _ = s;
        Tt4ddmme2 {
            f0: FromValue::from_value(s[0].as_ref().expect("component f0 of Tt4ddmme2 must be present")),
            f1: FromValue::from_value(s[1].as_ref().expect("component f1 of Tt4ddmme2 must be present")),
            f2: s[2].as_ref().map(FromValue::from_value),
            f3: s[3].as_ref().map(FromValue::from_value),
        }
    }
}
impl ToValue for Tt4ddmme2 {
    fn to_value(&self) -> Value {
        Value::Seq(vec![
            Some(self.f0.to_value()),
            Some(self.f1.to_value()),
            self.f2.as_ref().map(|x| x.to_value()),
            self.f3.as_ref().map(|x| x.to_value()),
        ])
    }
}
impl FromValue for Tt4ddmme3 {
    fn from_value(v: &Value) -> Self {
        let s = match v { Value::Seq(s) => s, other => panic!("Tt4ddmme3: expected Seq, got {other:?}") };
        assert_eq!(s.len(), 4, "Tt4ddmme3: component count");
        let _ = s;
        Tt4ddmme3 {
            f0: FromValue::from_value(s[0].as_ref().expect("component f0 of Tt4ddmme3 must be present")),
            f1: FromValue::from_value(s[1].as_ref().expect("component f1 of Tt4ddmme3 must be present")),
            f2: FromValue::from_value(s[2].as_ref().expect("component f2 of Tt4ddmme3 must be present")),
            f3: s[3].as_ref().map(FromValue::from_value),
        }
    }
}
impl ToValue for Tt4ddmme3 {
    fn to_value(&self) -> Value {
        Value::Seq(vec![
            Some(self.f0.to_value()),
            Some(self.f1.to_value()),
            Some(self.f2.to_value()),
            self.f3.as_ref().map(|x| x.to_value()),
        ])
    }
}
impl FromValue for Tt4ddmme4 {
    fn from_value(v: &Value) -> Self {
        let s = match v { Value::Seq(s) => s, other => panic!("Tt4ddmme4: expected Seq, got {other:?}") };
        assert_eq!(s.len(), 4, "Tt4ddmme4: component count");
        let _ = s;
        Tt4ddmme4 {
            f0: FromValue::from_value(s[0].as_ref().expect("component f0 of Tt4ddmme4 must be present")),
            f1: FromValue::from_value(s[1].as_ref().expect("component f1 of Tt4ddmme4 must be present")),
            f2: FromValue::from_value(s[2].as_ref().expect("component f2 of Tt4ddmme4 must be present")),
            f3: FromValue::from_value(s[3].as_ref().expect("component f3 of Tt4ddmme4 must be present")),
        }
    }
}
impl ToValue for Tt4ddmme4 {
    fn to_value(&self) -> Value {
        Value::Seq(vec![
            Some(self.f0.to_value()),
            Some(self.f1.to_value()),
            Some(self.f2.to_value()),
            Some(self.f3.to_value()),
        ])
    }
}
impl FromValue for Tt4mmomn {
    fn from_value(v: &Value) -> Self {
        let s = match v { Value::Seq(s) => s, other => panic!("Tt4mmomn: expected Seq, got {other:?}") };
        assert_eq!(s.len(), 4, "Tt4mmomn: component count");
        let _ = s;
        Tt4mmomn {
            f0: FromValue::from_value(s[0].as_ref().expect("component f0 of Tt4mmomn must be present")),
            f1: FromValue::from_value(s[1].as_ref().expect("component f1 of Tt4mmomn must be present")),
            f2: s[2].as_ref().map(FromValue::from_value),
            f3: FromValue::from_value(s[3].as_ref().expect("component f3 of Tt4mmomn must be present")),
        }
    }
}
impl ToValue for Tt4mmomn {
    fn to_value(&self) -> Value {
        Value::Seq(vec![
            Some(self.f0.to_value()),
            Some(self.f1.to_value()),
            self.f2.as_ref().map(|x| x.to_value()),
            Some(self.f3.to_value()),
        ])
    }
}
impl FromValue for Tt4mmome0 {
    fn from_value(v: &Value) -> Self {
        let s = match v { Value::Seq(s) => s, other => panic!("Tt4mmome0: expected Seq, got {other:?}") };
        assert_eq!(s.len(), 4, "Tt4mmome0: component count");
        let _ = s;
        Tt4mmome0 {
            f0: FromValue::from_value(s[0].as_ref().expect("component f0 of Tt4mmome0 must be present")),
            f1: s[1].as_ref().map(FromValue::from_value),
            f2: s[2].as_ref().map(FromValue::from_value),
            f3: s[3].as_ref().map(FromValue::from_value),
        }
    }
}
impl ToValue for Tt4mmome0 {
    fn to_value(&self) -> Value {
        Value::Seq(vec![
            Some(self.f0.to_value()),
            self.f1.as_ref().map(|x| x.to_value()),
            self.f2.as_ref().map(|x| x.to_value()),
            self.f3.as_ref().map(|x| x.to_value()),
        ])
    }
}
impl FromValue for Tt4mmome1 {
    fn from_value(v: &Value) -> Self {
        let s = match v { Value::Seq(s) => s, other => panic!("Tt4mmome1: expected Seq, got {other:?}") };
        assert_eq!(s.len(), 4, "Tt4mmome1: component count");
        let _ = s;
        Tt4mmome1 {
            f0: FromValue::from_value(s[0].as_ref().expect("component f0 of Tt4mmome1 must be present")),
            f1: s[1].as_ref().map(FromValue::from_value),
            f2: s[2].as_ref().map(FromValue::from_value),
            f3: s[3].as_ref().map(FromValue::from_value),
        }
    }
}
impl ToValue for Tt4mmome1 {
    fn to_value(&self) -> Value {
        Value::Seq(vec![
            Some(self.f0.to_value()),
            self.f1.as_ref().map(|x| x.to_value()),
            self.f2.as_ref().map(|x| x.to_value()),
            self.f3.as_ref().map(|x| x.to_value()),
        ])
    }
}
impl FromValue for Tt4mmome2 {
    fn from_value(v: &Value) -> Self {
        let s = match v { Value::Seq(s) => s, other => panic!("Tt4mmome2: expected Seq, got {other:?}") };
        assert_eq!(s.len(), 4, "Tt4mmome2: component count");
        let _ = s;
        Tt4mmome2 {
            f0: FromValue::from_value(s[0].as_ref().expect("component f0 of Tt4mmome2 must be present")),
            f1: FromValue::from_value(s[1].as_ref().expect("component f1 of Tt4mmome2 must be present")),
            f2: s[2].as_ref().map(FromValue::from_value),
            f3: s[3].as_ref().map(FromValue::from_value),
        }
    }
}
impl ToValue for Tt4mmome2 {
    fn to_value(&self) -> Value {
        Value::Seq(vec![
            Some(self.f0.to_value()),
            Some(self.f1.to_value()),
            self.f2.as_ref().map(|x| x.to_value()),
            self.f3.as_ref().map(|x| x.to_value()),
        ])
    }
}
impl FromValue for Tt4mmome3 {
    fn from_value(v: &Value) -> Self {
        let s = match v { Value::Seq(s) => s, other => panic!("Tt4mmome3: expected Seq, got {other:?}") };
        assert_eq!(s.len(), 4, "Tt4mmome3: component count");
        let _ = s;
        Tt4mmome3 {
            f0: FromValue::from_value(s[0].as_ref().expect("component f0 of Tt4mmome3 must be present")),
            f1: FromValue::from_value(s[1].as_ref().expect("component f1 of Tt4mmome3 must be present")),
            f2: s[2].as_ref().map(FromValue::from_value),
            f3: s[3].as_ref().map(FromValue::from_value),
        }
    }
}
impl ToValue for Tt4mmome3 {
    fn to_value(&self) -> Value {
        Value::Seq(vec![
            Some(self.f0.to_value()),
            Some(self.f1.to_value()),
            self.f2.as_ref().map(|x| x.to_value()),
            self.f3.as_ref().map(|x| x.to_value()),
        ])
    }
}
impl FromValue for Tt4mmome4 {
    fn from_value(v: &Value) -> Self {
        let s = match v { Value::Seq(s) => s, other => panic!("Tt4mmome4: expected Seq, got {other:?}") };
        assert_eq!(s.len(), 4, "Tt4mmome4: component count");
        let _ = s;
        Tt4mmome4 {
            f0: FromValue::from_value(s[0].as_ref().expect("component f0 of Tt4mmome4 must be present")),
            f1: FromValue::from_value(s[1].as_ref().expect("component f1 of Tt4mmome4 must be present")),
            f2: s[2].as_ref().map(FromValue::from_value),
            f3: FromValue::from_value(s[3].as_ref().expect("component f3 of Tt4mmome4 must be present")),
        }
    }
}
impl ToValue for Tt4mmome4 {
    fn to_value(&self) -> Value {
        Value::Seq(vec![
            Some(self.f0.to_value()),
            Some(self.f1.to_value()),
            self.f2.as_ref().map(|x| x.to_value()),
            Some(self.f3.to_value()),
        ])
    }
}
impl FromValue for Tt4omomn {
    fn from_value(v: &Value) -> Self {
        let s = match v { Value::Seq(s) => s, other => panic!("Tt4omomn: expected Seq, got {other:?}") };
        assert_eq!(s.len(), 4, "Tt4omomn: component count");
        let _ = s;
        Tt4omomn {
            f0: s[0].as_ref().map(FromValue::from_value),
            f1: FromValue::from_value(s[1].as_ref().expect("component f1 of Tt4omomn must be present")),
            f2: s[2].as_ref().map(FromValue::from_value),
            f3: FromValue::from_value(s[3].as_ref().expect("component f3 of Tt4omomn must be present")),
        }
    }
}
impl ToValue for Tt4omomn {
    fn to_value(&self) -> Value {
        Value::Seq(vec![
            self.f0.as_ref().map(|x| x.to_value()),
            Some(self.f1.to_value()),
            self.f2.as_ref().map(|x| x.to_value()),
            Some(self.f3.to_value()),
        ])
    }
}
impl FromValue for Tt4omome0 {
    fn from_value(v: &Value) -> Self {
        let s = match v { Value::Seq(s) => s, other => panic!("Tt4omome0: expected Seq, got {other:?}") };
        assert_eq!(s.len(), 4, "Tt4omome0: component count");
        let _ = s;
        Tt4omome0 {
            f0: s[0].as_ref().map(FromValue::from_value),
            f1: s[1].as_ref().map(FromValue::from_value),
            f2: s[2].as_ref().map(FromValue::from_value),
            f3: s[3].as_ref().map(FromValue::from_value),
        }
    }
}
impl ToValue for Tt4omome0 {
    fn to_value(&self) -> Value {
        Value::Seq(vec![
            self.f0.as_ref().map(|x| x.to_value()),
            self.f1.as_ref().map(|x| x.to_value()),
            self.f2.as_ref().map(|x| x.to_value()),
            self.f3.as_ref().map(|x| x.to_value()),
        ])
    }
}
impl FromValue for Tt4omome1 {
    fn from_value(v: &Value) -> Self {
        let s = match v { Value::Seq(s) => s, other => panic!("Tt4omome1: expected Seq, got {other:?}") };
        assert_eq!(s.len(), 4, "Tt4omome1: component count");
        let _ = s;
        Tt4omome1 {
            f0: s[0].as_ref().map(FromValue::from_value),
            f1: s[1].as_ref().map(FromValue::from_value),
            f2: s[2].as_ref().map(FromValue::from_value),
            f3: s[3].as_ref().map(FromValue::from_value),
        }
    }
}
impl ToValue for Tt4omome1 {
    fn to_value(&self) -> Value {
        Value::Seq(vec![
            self.f0.as_ref().map(|x| x.to_value()),
            self.f1.as_ref().map(|x| x.to_value()),
            self.f2.as_ref().map(|x| x.to_value()),
            self.f3.as_ref().map(|x| x.to_value()),
        ])
    }
}
impl FromValue for Tt4omome2 {
    fn from_value(v: &Value) -> Self {
        let s = match v { Value::Seq(s) => s, other => panic!("Tt4omome2: expected Seq, got {other:?}") };
        assert_eq!(s.len(), 4, "Tt4omome2: component count");
        let _ = s;
        Tt4omome2 {
            f0: s[0].as_ref().map(FromValue::from_value),
            f1: FromValue::from_value(s[1].as_ref().expect("component f1 of Tt4omome2 must be present")),
            f2: s[2].as_ref().map(FromValue::from_value),
            f3: s[3].as_ref().map(FromValue::from_value),
        }
    }
}
impl ToValue for Tt4omome2 {
    fn to_value(&self) -> Value {
        Value::Seq(vec![
            self.f0.as_ref().map(|x| x.to_value()),
            Some(self.f1.to_value()),
            self.f2.as_ref().map(|x| x.to_value()),
            self.f3.as_ref().map(|x| x.to_value()),
        ])
    }
}
impl FromValue for Tt4omome3 {
    fn from_value(v: &Value) -> Self {
        let s = match v { Value::Seq(s) => s, other => panic!("Tt4omome3: expected Seq, got {other:?}") };
        assert_eq!(s.len(), 4, "Tt4omome3: component count");
        let _ = s;
        Tt4omome3 {
            f0: s[0].as_ref().map(FromValue::from_value),
            f1: FromValue::from_value(s[1].as_ref().expect("component f1 of Tt4omome3 must be present")),
            f2: s[2].as_ref().map(FromValue::from_value),
            f3: s[3].as_ref().map(FromValue::from_value),
        }
    }
}
impl ToValue for Tt4omome3 {
    fn to_value(&self) -> Value {
        Value::Seq(vec![
            self.f0.as_ref().map(|x| x.to_value()),
            Some(self.f1.to_value()),
            self.f2.as_ref().map(|x| x.to_value()),
            self.f3.as_ref().map(|x| x.to_value()),
        ])
    }
}
impl FromValue for Tt4omome4 {
    fn from_value(v: &Value) -> Self {
        let s = match v { Value::Seq(s) => s, other => panic!("Tt4omome4: expected Seq, got {other:?}") };
        assert_eq!(s.len(), 4, "Tt4omome4: component count");
        let _ = s;
        Tt4omome4 {
            f0: s[0].as_ref().map(FromValue::from_value),
            f1: FromValue::from_value(s[1].as_ref().expect("component f1 of Tt4omome4 must be present")),
            f2: s[2].as_ref().map(FromValue::from_value),
            f3: FromValue::from_value(s[3].as_ref().expect("component f3 of Tt4omome4 must be present")),
        }
    }
}
impl ToValue for Tt4omome4 {
    fn to_value(&self) -> Value {
        Value::Seq(vec![
            self.f0.as_ref().map(|x| x.to_value()),
            Some(self.f1.to_value()),
            self.f2.as_ref().map(|x| x.to_value()),
            Some(self.f3.to_value()),
        ])
    }
}
impl FromValue for Tt4dmomn {
    fn from_value(v: &Value) -> Self {
        let s = match v { Value::Seq(s) => s, other => panic!("Tt4dmomn: expected Seq, got {other:?}") };
        assert_eq!(s.len(), 4, "Tt4dmomn: component count");
        let _ = s;
        Tt4dmomn {
            f0: FromValue::from_value(s[0].as_ref().expect("component f0 of Tt4dmomn must be present")),
            f1: FromValue::from_value(s[1].as_ref().expect("component f1 of Tt4dmomn must be present")),
            f2: s[2].as_ref().map(FromValue::from_value),
            f3: FromValue::from_value(s[3].as_ref().expect("component f3 of Tt4dmomn must be present")),
        }
    }
}
impl ToValue for Tt4dmomn {
    fn to_value(&self) -> Value {
        Value::Seq(vec![
            Some(self.f0.to_value()),
            Some(self.f1.to_value()),
            self.f2.as_ref().map(|x| x.to_value()),
            Some(self.f3.to_value()),
        ])
    }
}
impl FromValue for Tt4dmome0 {
    fn from_value(v: &Value) -> Self {
        let s = match v { Value::Seq(s) => s, other => panic!("Tt4dmome0: expected Seq, got {other:?}") };
        assert_eq!(s.len(), 4, "Tt4dmome0: component count");
        let _ = s;
        Tt4dmome0 {
            f0: FromValue::from_value(s[0].as_ref().expect("component f0 of Tt4dmome0 must be present")),
            f1: s[1].as_ref().map(FromValue::from_value),
            f2: s[2].as_ref().map(FromValue::from_value),
            f3: s[3].as_ref().map(FromValue::from_value),
        }
    }
}
impl ToValue for Tt4dmome0 {
    fn to_value(&self) -> Value {
        Value::Seq(vec![
            Some(self.f0.to_value()),
            self.f1.as_ref().map(|x| x.to_value()),
            self.f2.as_ref().map(|x| x.to_value()),
            self.f3.as_ref().map(|x| x.to_value()),
        ])
    }
}
impl FromValue for Tt4dmome1 {
    fn from_value(v: &Value) -> Self {
        let s = match v { Value::Seq(s) => s, other => panic!("Tt4dmome1: expected Seq, got {other:?}") };
        assert_eq!(s.len(), 4, "Tt4dmome1: component count");
        let _ = s;
        Tt4dmome1 {
            f0: FromValue::from_value(s[0].as_ref().expect("component f0 of Tt4dmome1 must be present")),
            f1: s[1].as_ref().map(FromValue::from_value),
            f2: s[2].as_ref().map(FromValue::from_value),
            f3: s[3].as_ref().map(FromValue::from_value),
        }
    }
}
impl ToValue for Tt4dmome1 {
    fn to_value(&self) -> Value {
        Value::Seq(vec![
            Some(self.f0.to_value()),
            self.f1.as_ref().map(|x| x.to_value()),
            self.f2.as_ref().map(|x| x.to_value()),
            self.f3.as_ref().map(|x| x.to_value()),
        ])
    }
}
impl FromValue for Tt4dmome2 {
    fn from_value(v: &Value) -> Self {
        let s = match v { Value::Seq(s) => s, other => panic!("Tt4dmome2: expected Seq, got {other:?}") };
        assert_eq!(s.len(), 4, "Tt4dmome2: component count");
        let _ = s;
        Tt4dmome2 {
            f0: FromValue::from_value(s[0].as_ref().expect("component f0 of Tt4dmome2 must be present")),
            f1: FromValue::from_value(s[1].as_ref().expect("component f1 of Tt4dmome2 must be present")),
            f2: s[2].as_ref().map(FromValue::from_value),
            f3: s[3].as_ref().map(FromValue::from_value),
        }
    }
}
impl ToValue for Tt4dmome2 {
    fn to_value(&self) -> Value {
        Value::Seq(vec![
            Some(self.f0.to_value()),
            Some(self.f1.to_value()),
            self.f2.as_ref().map(|x| x.to_value()),
            self.f3.as_ref().map(|x| x.to_value()),
        ])
    }
}
impl FromValue for Tt4dmome3 {
    fn from_value(v: &Value) -> Self {
        let s = match v { Value::Seq(s) => s, other => panic!("Tt4dmome3: expected Seq, got {other:?}") };
        assert_eq!(s.len(), 4, "Tt4dmome3: component count");
        let _ = s;
        Tt4dmome3 {
            f0: FromValue::from_value(s[0].as_ref().expect("component f0 of Tt4dmome3 must be present")),
            f1: FromValue::from_value(s[1].as_ref().expect("component f1 of Tt4dmome3 must be present")),
            f2: s[2].as_ref().map(FromValue::from_value),
            f3: s[3].as_ref().map(FromValue::from_value),
        }
    }
}
impl ToValue for Tt4dmome3 {
    fn to_value(&self) -> Value {
        Value::Seq(vec![
            Some(self.f0.to_value()),
            Some(self.f1.to_value()),
            self.f2.as_ref().map(|x| x.to_value()),
            self.f3.as_ref().map(|x| x.to_value()),
        ])
    }
}
impl FromValue for Tt4dmome4 {
    fn from_value(v: &Value) -> Self {
        let s = match v { Value::Seq(s) => s, other => panic!("Tt4dmome4: expected Seq, got {other:?}") };
        assert_eq!(s.len(), 4, "Tt4dmome4: component count");
        let _ = s;
        Tt4dmome4 {
            f0: FromValue::from_value(s[0].as_ref().expect("component f0 of Tt4dmome4 must be present")),
            f1: FromValue::from_value(s[1].as_ref().expect("component f1 of Tt4dmome4 must be present")),
            f2: s[2].as_ref().map(FromValue::from_value),
            f3: FromValue::from_value(s[3].as_ref().expect("component f3 of Tt4dmome4 must be present")),
        }
    }
}
impl ToValue for Tt4dmome4 {
    fn to_value(&self) -> Value {
        Value::Seq(vec![
            Some(self.f0.to_value()),
            Some(self.f1.to_value()),
            self.f2.as_ref().map(|x| x.to_value()),
            Some(self.f3.to_value()),
        ])
    }
}
impl FromValue for Tt4moomn {
    fn from_value(v: &Value) -> Self {
        let s = match v { Value::Seq(s) => s, other => panic!("Tt4moomn: expected Seq, got {other:?}") };
        assert_eq!(s.len(), 4, "Tt4moomn: component count");
        let _ = s;
        Tt4moomn {
            f0: FromValue::from_value(s[0].as_ref().expect("component f0 of Tt4moomn must be present")),
            f1: s[1].as_ref().map(FromValue::from_value),
            f2: s[2].as_ref().map(FromValue::from_value),
            f3: FromValue::from_value(s[3].as_ref().expect("component f3 of Tt4moomn must be present")),
        }
    }
}
impl ToValue for Tt4moomn {
    fn to_value(&self) -> Value {
        Value::Seq(vec![
            Some(self.f0.to_value()),
            self.f1.as_ref().map(|x| x.to_value()),
            self.f2.as_ref().map(|x| x.to_value()),
            Some(self.f3.to_value()),
        ])
    }
}
impl FromValue for Tt4moome0 {
    fn from_value(v: &Value) -> Self {
        let s = match v { Value::Seq(s) => s, other => panic!("Tt4moome0: expected Seq, got {other:?}") };
        assert_eq!(s.len(), 4, "Tt4moome0: component count");
        let _ = s;
        Tt4moome0 {
            f0: FromValue::from_value(s[0].as_ref().expect("component f0 of Tt4moome0 must be present")),
            f1: s[1].as_ref().map(FromValue::from_value),
            f2: s[2].as_ref().map(FromValue::from_value),
            f3: s[3].as_ref().map(FromValue::from_value),
        }
    }
}
impl ToValue for Tt4moome0 {
    fn to_value(&self) -> Value {
        Value::Seq(vec![
            Some(self.f0.to_value()),
            self.f1.as_ref().map(|x| x.to_value()),
            self.f2.as_ref().map(|x| x.to_value()),
            self.f3.as_ref().map(|x| x.to_value()),
        ])
    }
}
impl FromValue for Tt4moome1 {
    fn from_value(v: &Value) -> Self {
        let s = match v { Value::Seq(s) => s, other => panic!("Tt4moome1: expected Seq, got {other:?}") };
        assert_eq!(s.len(), 4, "Tt4moome1: component count");
        let _ = s;
        Tt4moome1 {
            f0: FromValue::from_value(s[0].as_ref().expect("component f0 of Tt4moome1 must be present")),
            f1: s[1].as_ref().map(FromValue::from_value),
            f2: s[2].as_ref().map(FromValue::from_value),
            f3: s[3].as_ref().map(FromValue::from_value),
        }
    }
}
impl ToValue for Tt4moome1 {
    fn to_value(&self) -> Value {
        Value::Seq(vec![
            Some(self.f0.to_value()),
            self.f1.as_ref().map(|x| x.to_value()),
            self.f2.as_ref().map(|x| x.to_value()),
            self.f3.as_ref().map(|x| x.to_value()),
        ])
    }
}
impl FromValue for Tt4moome2 {
    fn from_value(v: &Value) -> Self {
        let s = match v { Value::Seq(s) => s, other => panic!("Tt4moome2: expected Seq, got {other:?}") };
        assert_eq!(s.len(), 4, "Tt4moome2: component count");
        let _ = s;
        Tt4moome2 {
            f0: FromValue::from_value(s[0].as_ref().expect("component f0 of Tt4moome2 must be present")),
            f1: s[1].as_ref().map(FromValue::from_value),
            f2: s[2].as_ref().map(FromValue::from_value),
            f3: s[3].as_ref().map(FromValue::from_value),
        }
    }
}
impl ToValue for Tt4moome2 {
    fn to_value(&self) -> Value {
        Value::Seq(vec![
            Some(self.f0.to_value()),
            self.f1.as_ref().map(|x| x.to_value()),
            self.f2.as_ref().map(|x| x.to_value()),
            self.f3.as_ref().map(|x| x.to_value()),
        ])
    }
}
impl FromValue for Tt4moome3 {
    fn from_value(v: &Value) -> Self {
        let s = match v { Value::Seq(s) => s, other => panic!("Tt4moome3: expected Seq, got {other:?}") };
        assert_eq!(s.len(), 4, "Tt4moome3: component count");
        let _ = s;
        Tt4moome3 {
            f0: FromValue::from_value(s[0].as_ref().expect("component f0 of Tt4moome3 must be present")),
            f1: s[1].as_ref().map(FromValue::from_value),
            f2: s[2].as_ref().map(FromValue::from_value),
            f3: s[3].as_ref().map(FromValue::from_value),
        }
    }
}
impl ToValue for Tt4moome3 {
    fn to_value(&self) -> Value {
        Value::Seq(vec![
            Some(self.f0.to_value()),
            self.f1.as_ref().map(|x| x.to_value()),
            self.f2.as_ref().map(|x| x.to_value()),
            self.f3.as_ref().map(|x| x.to_value()),
        ])
    }
}
impl FromValue for Tt4moome4 {
    fn from_value(v: &Value) -> Self {
        let s = match v { Value::Seq(s) => s, other => panic!("Tt4moome4: expected Seq, got {other:?}") };
        assert_eq!(s.len(), 4, "Tt4moome4: component count");
        let _ = s;
        Tt4moome4 {
            f0: FromValue::from_value(s[0].as_ref().expect("component f0 of Tt4moome4 must be present")),
            f1: s[1].as_ref().map(FromValue::from_value),
            f2: s[2].as_ref().map(FromValue::from_value),
            f3: FromValue::from_value(s[3].as_ref().expect("component f3 of Tt4moome4 must be present")),
        }
    }
}
impl ToValue for Tt4moome4 {
    fn to_value(&self) -> Value {
        Value::Seq(vec![
            Some(self.f0.to_value()),
            self.f1.as_ref().map(|x| x.to_value()),
            self.f2.as_ref().map(|x| x.to_value()),
            Some(self.f3.to_value()),
        ])
    }
}
impl FromValue for Tt4ooomn {
    fn from_value(v: &Value) -> Self {
        let s = match v { Value::Seq(s) => s, other => panic!("Tt4ooomn: expected Seq, got {other:?}") };
        assert_eq!(s.len(), 4, "Tt4ooomn: component count");
        let _ = s;
        Tt4ooomn {
            f0: s[0].as_ref().map(FromValue::from_value),
            f1: s[1].as_ref().map(FromValue::from_value),
            f2: s[2].as_ref().map(FromValue::from_value),
            f3: FromValue::from_value(s[3].as_ref().expect("component f3 of Tt4ooomn must be present")),
        }
    }
}
impl ToValue for Tt4ooomn {
    fn to_value(&self) -> Value {
        Value::Seq(vec![
            self.f0.as_ref().map(|x| x.to_value()),
            self.f1.as_ref().map(|x| x.to_value()),
            self.f2.as_ref().map(|x| x.to_value()),
            Some(self.f3.to_value()),
        ])
    }
}
impl FromValue for Tt4ooome0 {
    fn from_value(v: &Value) -> Self {
        let s = match v { Value::Seq(s) => s, other => panic!("Tt4ooome0: expected Seq, got {other:?}") };
        assert_eq!(s.len(), 4, "Tt4ooome0: component count");
        let _ = s;
        Tt4ooome0 {
            f0: s[0].as_ref().map(FromValue::from_value),
            f1: s[1].as_ref().map(FromValue::from_value),
            f2: s[2].as_ref().map(FromValue::from_value),
            f3: s[3].as_ref().map(FromValue::from_value),
        }
    }
}
impl ToValue for Tt4ooome0 {
    fn to_value(&self) -> Value {
        Value::Seq(vec![
            self.f0.as_ref().map(|x| x.to_value()),
            self.f1.as_ref().map(|x| x.to_value()),
            self.f2.as_ref().map(|x| x.to_value()),
            self.f3.as_ref().map(|x| x.to_value()),
        ])
    }
}
impl FromValue for Tt4ooome1 {
    fn from_value(v: &Value) -> Self {
        let s = match v { Value::Seq(s) => s, other => panic!("Tt4ooome1: expected Seq, got {other:?}") };
        assert_eq!(s.len(), 4, "Tt4ooome1: component count");
        let _ = s;
        Tt4ooome1 {
            f0: s[0].as_ref().map(FromValue::from_value),
            f1: s[1].as_ref().map(FromValue::from_value),
            f2: s[2].as_ref().map(FromValue::from_value),
            f3: s[3].as_ref().map(FromValue::from_value),
        }
    }
}
impl ToValue for Tt4ooome1 {
    fn to_value(&self) -> Value {
        Value::Seq(vec![
            self.f0.as_ref().map(|x| x.to_value()),
            self.f1.as_ref().map(|x| x.to_value()),
            self.f2.as_ref().map(|x| x.to_value()),
            self.f3.as_ref().map(|x| x.to_value()),
        ])
    }
}
impl FromValue for Tt4ooome2 {
    fn from_value(v: &Value) -> Self {
        let s = match v { Value::Seq(s) => s, other => panic!("Tt4ooome2: expected Seq, got {other:?}") };
        assert_eq!(s.len(), 4, "Tt4ooome2: component count");
        let _ = s;
        Tt4ooome2 {
            f0: s[0].as_ref().map(FromValue::from_value),
            f1: s[1].as_ref().map(FromValue::from_value),
            f2: s[2].as_ref().map(FromValue::from_value),
            f3: s[3].as_ref().map(FromValue::from_value),
        }
    }
}
impl ToValue for Tt4ooome2 {
    fn to_value(&self) -> Value {
        Value::Seq(vec![
            self.f0.as_ref().map(|x| x.to_value()),
            self.f1.as_ref().map(|x| x.to_value()),
            self.f2.as_ref().map(|x| x.to_value()),
            self.f3.as_ref().map(|x| x.to_value()),
        ])
    }
}
impl FromValue for Tt4ooome3 {
    fn from_value(v: &Value) -> Self {
        let s = match v { Value::Seq(s) => s, other => panic!("Tt4ooome3: expected Seq, got {other:?}") };
        assert_eq!(s.len(), 4, "Tt4ooome3: component count");
        let _ = s;
        Tt4ooome3 {
            f0: s[0].as_ref().map(FromValue::from_value),
            f1: s[1].as_ref().map(FromValue::from_value),
            f2: s[2].as_ref().map(FromValue::from_value),
            f3: s[3].as_ref().map(FromValue::from_value),
        }
    }
}
impl ToValue for Tt4ooome3 {
    fn to_value(&self) -> Value {
        Value::Seq(vec![
            self.f0.as_ref().map(|x| x.to_value()),
            self.f1.as_ref().map(|x| x.to_value()),
            self.f2.as_ref().map(|x| x.to_value()),
            self.f3.as_ref().map(|x| x.to_value()),
        ])
    }
}
impl FromValue for Tt4ooome4 {
    fn from_value(v: &Value) -> Self {
        let s = match v { Value::Seq(s) => s, other => panic!("Tt4ooome4: expected Seq, got {other:?}") };
        assert_eq!(s.len(), 4, "Tt4ooome4: component count");
        let _ = s;
        Tt4ooome4 {
            f0: s[0].as_ref().map(FromValue::from_value),
            f1: s[1].as_ref().map(FromValue::from_value),
            f2: s[2].as_ref().map(FromValue::from_value),
            f3: FromValue::from_value(s[3].as_ref().expect("component f3 of Tt4ooome4 must be present")),
        }
    }
}
impl ToValue for Tt4ooome4 {
    fn to_value(&self) -> Value {
        Value::Seq(vec![
            self.f0.as_ref().map(|x| x.to_value()),
            self.f1.as_ref().map(|x| x.to_value()),
            self.f2.as_ref().map(|x| x.to_value()),
            Some(self.f3.to_value()),
        ])
    }
}
impl FromValue for Tt4doomn {
    fn from_value(v: &Value) -> Self {
        let s = match v { Value::Seq(s) => s, other => panic!("Tt4doomn: expected Seq, got {other:?}") };
        assert_eq!(s.len(), 4, "Tt4doomn: component count");
        let _ = s;
        Tt4doomn {
            f0: FromValue::from_value(s[0].as_ref().expect("component f0 of Tt4doomn must be present")),
            f1: s[1].as_ref().map(FromValue::from_value),
            f2: s[2].as_ref().map(FromValue::from_value),
            f3: FromValue::from_value(s[3].as_ref().expect("component f3 of Tt4doomn must be present")),
        }
    }
}
impl ToValue for Tt4doomn {
    fn to_value(&self) -> Value {
        Value::Seq(vec![
            Some(self.f0.to_value()),
            self.f1.as_ref().map(|x| x.to_value()),
            self.f2.as_ref().map(|x| x.to_value()),
            Some(self.f3.to_value()),
        ])
    }
}
impl FromValue for Tt4doome0 {
    fn from_value(v: &Value) -> Self {
        let s = match v { Value::Seq(s) => s, other => panic!("Tt4doome0: expected Seq, got {other:?}") };
        assert_eq!(s.len(), 4, "Tt4doome0: component count");
        let _ = s;
        Tt4doome0 {
            f0: FromValue::from_value(s[0].as_ref().expect("component f0 of Tt4doome0 must be present")),
            f1: s[1].as_ref().map(FromValue::from_value),
            f2: s[2].as_ref().map(FromValue::from_value),
            f3: s[3].as_ref().map(FromValue::from_value),
        }
    }
}
impl ToValue for Tt4doome0 {
    fn to_value(&self) -> Value {
        Value::Seq(vec![
            Some(self.f0.to_value()),
            self.f1.as_ref().map(|x| x.to_value()),
            self.f2.as_ref().map(|x| x.to_value()),
            self.f3.as_ref().map(|x| x.to_value()),
        ])
    }
}
impl FromValue for Tt4doome1 {
    fn from_value(v: &Value) -> Self {
        let s = match v { Value::Seq(s) => s, other => panic!("Tt4doome1: expected Seq, got {other:?}") };
        assert_eq!(s.len(), 4, "Tt4doome1: component count");
        let _ = s;
        Tt4doome1 {
            f0: FromValue::from_value(s[0].as_ref().expect("component f0 of Tt4doome1 must be present")),
            f1: s[1].as_ref().map(FromValue::from_value),
            f2: s[2].as_ref().map(FromValue::from_value),
            f3: s[3].as_ref().map(FromValue::from_value),
        }
    }
}
impl ToValue for Tt4doome1 {
    fn to_value(&self) -> Value {
        Value::Seq(vec![
            Some(self.f0.to_value()),
            self.f1.as_ref().map(|x| x.to_value()),
            self.f2.as_ref().map(|x| x.to_value()),
            self.f3.as_ref().map(|x| x.to_value()),
        ])
    }
}
impl FromValue for Tt4doome2 {
    fn from_value(v: &Value) -> Self {
        let s = match v { Value::Seq(s) => s, other => panic!("Tt4doome2: expected Seq, got {other:?}") };
        assert_eq!(s.len(), 4, "Tt4doome2: component count");
        let _ = s;
        Tt4doome2 {
            f0: FromValue::from_value(s[0].as_ref().expect("component f0 of Tt4doome2 must be present")),
            f1: s[1].as_ref().map(FromValue::from_value),
            f2: s[2].as_ref().map(FromValue::from_value),
            f3: s[3].as_ref().map(FromValue::from_value),
        }
    }
}
impl ToValue for Tt4doome2 {
    fn to_value(&self) -> Value {
        Value::Seq(vec![
            Some(self.f0.to_value()),
            self.f1.as_ref().map(|x| x.to_value()),
            self.f2.as_ref().map(|x| x.to_value()),
            self.f3.as_ref().map(|x| x.to_value()),
        ])
    }
}
impl FromValue for Tt4doome3 {
    fn from_value(v: &Value) -> Self {
        let s = match v { Value::Seq(s) => s, other => panic!("Tt4doome3: expected Seq, got {other:?}") };
        assert_eq!(s.len(), 4, "Tt4doome3: component count");
        let _ = s;
        Tt4doome3 {
            f0: FromValue::from_value(s[0].as_ref().expect("component f0 of Tt4doome3 must be present")),
            f1: s[1].as_ref().map(FromValue::from_value),
            f2: s[2].as_ref().map(FromValue::from_value),
            f3: s[3].as_ref().map(FromValue::from_value),
        }
    }
}
impl ToValue for Tt4doome3 {
    fn to_value(&self) -> Value {
        Value::Seq(vec![
            Some(self.f0.to_value()),
            self.f1.as_ref().map(|x| x.to_value()),
            self.f2.as_ref().map(|x| x.to_value()),
            self.f3.as_ref().map(|x| x.to_value()),
        ])
    }
}
impl FromValue for Tt4doome4 {
    fn from_value(v: &Value) -> Self {
        let s = match v { Value::Seq(s) => s, other => panic!("Tt4doome4: expected Seq, got {other:?}") };
        assert_eq!(s.len(), 4, "Tt4doome4: component count");
        let _ = s;
        Tt4doome4 {
            f0: FromValue::from_value(s[0].as_ref().expect("component f0 of Tt4doome4 must be present")),
            f1: s[1].as_ref().map(FromValue::from_value),
            f2: s[2].as_ref().map(FromValue::from_value),
            f3: FromValue::from_value(s[3].as_ref().expect("component f3 of Tt4doome4 must be present")),
        }
    }
}
impl ToValue for Tt4doome4 {
    fn to_value(&self) -> Value {
        Value::Seq(vec![
            Some(self.f0.to_value()),
            self.f1.as_ref().map(|x| x.to_value()),
            self.f2.as_ref().map(|x| x.to_value()),
            Some(self.f3.to_value()),
        ])
    }
}
impl FromValue for Tt4mdomn {
    fn from_value(v: &Value) -> Self {
        let s = match v { Value::Seq(s) => s, other => panic!("Tt4mdomn: expected Seq, got {other:?}") };
        assert_eq!(s.len(), 4, "Tt4mdomn: component count");
        let _ = s;
        Tt4mdomn {
            f0: FromValue::from_value(s[0].as_ref().expect("component f0 of Tt4mdomn must be present")),
            f1: FromValue::from_value(s[1].as_ref().expect("component f1 of Tt4mdomn must be present")),
            f2: s[2].as_ref().map(FromValue::from_value),
            f3: FromValue::from_value(s[3].as_ref().expect("component f3 of Tt4mdomn must be present")),
        }
    }
}
impl ToValue for Tt4mdomn {
    fn to_value(&self) -> Value {
        Value::Seq(vec![
            Some(self.f0.to_value()),
            Some(self.f1.to_value()),
            self.f2.as_ref().map(|x| x.to_value()),
            Some(self.f3.to_value()),
        ])
    }
}
impl FromValue for Tt4mdome0 {
    fn from_value(v: &Value) -> Self {
        let s = match v { Value::Seq(s) => s, other => panic!("Tt4mdome0: expected Seq, got {other:?}") };
        assert_eq!(s.len(), 4, "Tt4mdome0: component count");
        let _ = s;
        Tt4mdome0 {
            f0: FromValue::from_value(s[0].as_ref().expect("component f0 of Tt4mdome0 must be present")),
            f1: FromValue::from_value(s[1].as_ref().expect("component f1 of Tt4mdome0 must be present")),
            f2: s[2].as_ref().map(FromValue::from_value),
            f3: s[3].as_ref().map(FromValue::from_value),
        }
    }
}
impl ToValue for Tt4mdome0 {
    fn to_value(&self) -> Value {
        Value::Seq(vec![
            Some(self.f0.to_value()),
            Some(self.f1.to_value()),
            self.f2.as_ref().map(|x| x.to_value()),
            self.f3.as_ref().map(|x| x.to_value()),
        ])
    }
}
impl FromValue for Tt4mdome1 {
    fn from_value(v: &Value) -> Self {
        let s = match v { Value::Seq(s) => s, other => panic!("Tt4mdome1: expected Seq, got {other:?}") };
        assert_eq!(s.len(), 4, "Tt4mdome1: component count");
        let _ = s;
        Tt4mdome1 {
            f0: FromValue::from_value(s[0].as_ref().expect("component f0 of Tt4mdome1 must be present")),
            f1: FromValue::from_value(s[1].as_ref().expect("component f1 of Tt4mdome1 must be present")),
            f2: s[2].as_ref().map(FromValue::from_value),
            f3: s[3].as_ref().map(FromValue::from_value),
        }
    }
}
impl ToValue for Tt4mdome1 {
    fn to_value(&self) -> Value {
        Value::Seq(vec![
            Some(self.f0.to_value()),
            Some(self.f1.to_value()),
            self.f2.as_ref().map(|x| x.to_value()),
            self.f3.as_ref().map(|x| x.to_value()),
        ])
    }
}
impl FromValue for Tt4mdome2 {
    fn from_value(v: &Value) -> Self {
        let s = match v { Value::Seq(s) => s, other => panic!("Tt4mdome2: expected Seq, got {other:?}") };
        assert_eq!(s.len(), 4, "Tt4mdome2: component count");
        let _ = s;
        Tt4mdome2 {
            f0: FromValue::from_value(s[0].as_ref().expect("component f0 of Tt4mdome2 must be present")),
            f1: FromValue::from_value(s[1].as_ref().expect("component f1 of Tt4mdome2 must be present")),
            f2: s[2].as_ref().map(FromValue::from_value),
            f3: s[3].as_ref().map(FromValue::from_value),
        }
    }
}
impl ToValue for Tt4mdome2 {
    fn to_value(&self) -> Value {
        Value::Seq(vec![
            Some(self.f0.to_value()),
            Some(self.f1.to_value()),
            self.f2.as_ref().map(|x| x.to_value()),
            self.f3.as_ref().map(|x| x.to_value()),
        ])
    }
}
impl FromValue for Tt4mdome3 {
    fn from_value(v: &Value) -> Self {
        let s = match v { Value::Seq(s) => s, other => panic!("Tt4mdome3: expected Seq, got {other:?}") };
        assert_eq!(s.len(), 4, "Tt4mdome3: component count");
        let _ = s;
        Tt4mdome3 {
            f0: FromValue::from_value(s[0].as_ref().expect("component f0 of Tt4mdome3 must be present")),
            f1: FromValue::from_value(s[1].as_ref().expect("component f1 of Tt4mdome3 must be present")),
            f2: s[2].as_ref().map(FromValue::from_value),
            f3: s[3].as_ref().map(FromValue::from_value),
        }
    }
}
impl ToValue for Tt4mdome3 {
    fn to_value(&self) -> Value {
        Value::Seq(vec![
            Some(self.f0.to_value()),
            Some(self.f1.to_value()),
            self.f2.as_ref().map(|x| x.to_value()),
            self.f3.as_ref().map(|x| x.to_value()),
        ])
    }
}
impl FromValue for Tt4mdome4 {
    fn from_value(v: &Value) -> Self {
        let s = match v { Value::Seq(s) => s, other => panic!("Tt4mdome4: expected Seq, got {other:?}") };
        assert_eq!(s.len(), 4, "Tt4mdome4: component count");
        let _ = s;
        Tt4mdome4 {
            f0: FromValue::from_value(s[0].as_ref().expect("component f0 of Tt4mdome4 must be present")),
            f1: FromValue::from_value(s[1].as_ref().expect("component f1 of Tt4mdome4 must be present")),
            f2: s[2].as_ref().map(FromValue::from_value),
            f3: FromValue::from_value(s[3].as_ref().expect("component f3 of Tt4mdome4 must be present")),
        }
    }
}
impl ToValue for Tt4mdome4 {
    fn to_value(&self) -> Value {
        Value::Seq(vec![
            Some(self.f0.to_value()),
            Some(self.f1.to_value()),
            self.f2.as_ref().map(|x| x.to_value()),
            Some(self.f3.to_value()),
        ])
    }
}
impl FromValue for Tt4odomn {
    fn from_value(v: &Value) -> Self {
        let s = match v { Value::Seq(s) => s, other => panic!("Tt4odomn: expected Seq, got {other:?}") };
        assert_eq!(s.len(), 4, "Tt4odomn: component count");
        let _ = s;
        Tt4odomn {
            f0: s[0].as_ref().map(FromValue::from_value),
            f1: FromValue::from_value(s[1].as_ref().expect("component f1 of Tt4odomn must be present")),
            f2: s[2].as_ref().map(FromValue::from_value),
            f3: FromValue::from_value(s[3].as_ref().expect("component f3 of Tt4odomn must be present")),
        }
    }
}
impl ToValue for Tt4odomn {
    fn to_value(&self) -> Value {
        Value::Seq(vec![
            self.f0.as_ref().map(|x| x.to_value()),
            Some(self.f1.to_value()),
            self.f2.as_ref().map(|x| x.to_value()),
            Some(self.f3.to_value()),
        ])
    }
}
impl FromValue for Tt4odome0 {
    fn from_value(v: &Value) -> Self {
        let s = match v { Value::Seq(s) => s, other => panic!("Tt4odome0: expected Seq, got {other:?}") };
        assert_eq!(s.len(), 4, "Tt4odome0: component count");
        let _ = s;
        Tt4odome0 {
            f0: s[0].as_ref().map(FromValue::from_value),
            f1: FromValue::from_value(s[1].as_ref().expect("component f1 of Tt4odome0 must be present")),
            f2: s[2].as_ref().map(FromValue::from_value),
            f3: s[3].as_ref().map(FromValue::from_value),
        }
    }
}
impl ToValue for Tt4odome0 {
    fn to_value(&self) -> Value {
        Value::Seq(vec![
            self.f0.as_ref().map(|x| x.to_value()),
            Some(self.f1.to_value()),
            self.f2.as_ref().map(|x| x.to_value()),
            self.f3.as_ref().map(|x| x.to_value()),
        ])
    }
}
impl FromValue for Tt4odome1 {
    fn from_value(v: &Value) -> Self {
        let s = match v { Value::Seq(s) => s, other => panic!("Tt4odome1: expected Seq, got {other:?}") };
        assert_eq!(s.len(), 4, "Tt4odome1: component count");
        let _ = s;
        Tt4odome1 {
            f0: s[0].as_ref().map(FromValue::from_value),
            f1: FromValue::from_value(s[1].as_ref().expect("component f1 of Tt4odome1 must be present")),
            f2: s[2].as_ref().map(FromValue::from_value),
            f3: s[3].as_ref().map(FromValue::from_value),
        }
    }
}
impl ToValue for Tt4odome1 {
    fn to_value(&self) -> Value {
        Value::Seq(vec![
            self.f0.as_ref().map(|x| x.to_value()),
            Some(self.f1.to_value()),
            self.f2.as_ref().map(|x| x.to_value()),
            self.f3.as_ref().map(|x| x.to_value()),
        ])
    }
}
impl FromValue for Tt4odome2 {
    fn from_value(v: &Value) -> Self {
        let s = match v { Value::Seq(s) => s, other => panic!("Tt4odome2: expected Seq, got {other:?}") };
        assert_eq!(s.len(), 4, "Tt4odome2: component count");
        let _ = s;
        Tt4odome2 {
            f0: s[0].as_ref().map(FromValue::from_value),
            f1: FromValue::from_value(s[1].as_ref().expect("component f1 of Tt4odome2 must be present")),
            f2: s[2].as_ref().map(FromValue::from_value),
            f3: s[3].as_ref().map(FromValue::from_value),
        }
    }
}
impl ToValue for Tt4odome2 {
    fn to_value(&self) -> Value {
        Value::Seq(vec![
            self.f0.as_ref().map(|x| x.to_value()),
            Some(self.f1.to_value()),
            self.f2.as_ref().map(|x| x.to_value()),
            self.f3.as_ref().map(|x| x.to_value()),
        ])
    }
}
impl FromValue for Tt4odome3 {
    fn from_value(v: &Value) -> Self {
        let s = match v { Value::Seq(s) => s, other => panic!("Tt4odome3: expected Seq, got {other:?}") };
        assert_eq!(s.len(), 4, "Tt4odome3: component count");
        let _ = s;
        Tt4odome3 {
            f0: s[0].as_ref().map(FromValue::from_value),
            f1: FromValue::from_value(s[1].as_ref().expect("component f1 of Tt4odome3 must be present")),
            f2: s[2].as_ref().map(FromValue::from_value),
            f3: s[3].as_ref().map(FromValue::from_value),
        }
    }
}
impl ToValue for Tt4odome3 {
    fn to_value(&self) -> Value {
        Value::Seq(vec![
            self.f0.as_ref().map(|x| x.to_value()),
            Some(self.f1.to_value()),
            self.f2.as_ref().map(|x| x.to_value()),
            self.f3.as_ref().map(|x| x.to_value()),
        ])
    }
}
impl FromValue for Tt4odome4 {
    fn from_value(v: &Value) -> Self {
        let s = match v { Value::Seq(s) => s, other => panic!("Tt4odome4: expected Seq, got {other:?}") };
        assert_eq!(s.len(), 4, "Tt4odome4: component count");
        let _ = s;
        Tt4odome4 {
            f0: s[0].as_ref().map(FromValue::from_value),
            f1: FromValue::from_value(s[1].as_ref().expect("component f1 of Tt4odome4 must be present")),
            f2: s[2].as_ref().map(FromValue::from_value),
            f3: FromValue::from_value(s[3].as_ref().expect("component f3 of Tt4odome4 must be present")),
        }
    }
}
impl ToValue for Tt4odome4 {
    fn to_value(&self) -> Value {
        Value::Seq(vec![
            self.f0.as_ref().map(|x| x.to_value()),
            Some(self.f1.to_value()),
            self.f2.as_ref().map(|x| x.to_value()),
            Some(self.f3.to_value()),
        ])
    }
}
impl FromValue for Tt4ddomn {
    fn from_value(v: &Value) -> Self {
        let s = match v { Value::Seq(s) => s, other => panic!("Tt4ddomn: expected Seq, got {other:?}") };
        assert_eq!(s.len(), 4, "Tt4ddomn: component count");
        let _ = s;
        Tt4ddomn {
            f0: FromValue::from_value(s[0].as_ref().expect("component f0 of Tt4ddomn must be present")),
            f1: FromValue::from_value(s[1].as_ref().expect("component f1 of Tt4ddomn must be present")),
            f2: s[2].as_ref().map(FromValue::from_value),
            f3: FromValue::from_value(s[3].as_ref().expect("component f3 of Tt4ddomn must be present")),
        }
    }
}
impl ToValue for Tt4ddomn {
    fn to_value(&self) -> Value {
        Value::Seq(vec![
            Some(self.f0.to_value()),
            Some(self.f1.to_value()),
            self.f2.as_ref().map(|x| x.to_value()),
            Some(self.f3.to_value()),
        ])
    }
}
impl FromValue for Tt4ddome0 {
    fn from_value(v: &Value) -> Self {
        let s = match v { Value::Seq(s) => s, other => panic!("Tt4ddome0: expected Seq, got {other:?}") };
        assert_eq!(s.len(), 4, "Tt4ddome0: component count");
        let _ = s;
        Tt4ddome0 {
            f0: FromValue::from_value(s[0].as_ref().expect("component f0 of Tt4ddome0 must be present")),
            f1: FromValue::from_value(s[1].as_ref().expect("component f1 of Tt4ddome0 must be present")),
            f2: s[2].as_ref().map(FromValue::from_value),
            f3: s[3].as_ref().map(FromValue::from_value),
        }
    }
}
impl ToValue for Tt4ddome0 {
    fn to_value(&self) -> Value {
        Value::Seq(vec![
            Some(self.f0.to_value()),
            Some(self.f1.to_value()),
            self.f2.as_ref().map(|x| x.to_value()),
            self.f3.as_ref().map(|x| x.to_value()),
        ])
    }
}
impl FromValue for Tt4ddome1 {
    fn from_value(v: &Value) -> Self {
        let s = match v { Value::Seq(s) => s, other => panic!("Tt4ddome1: expected Seq, got {other:?}") };
        assert_eq!(s.len(), 4, "Tt4ddome1: component count");
        let _ = s;
        Tt4ddome1 {
            f0: FromValue::from_value(s[0].as_ref().expect("component f0 of Tt4ddome1 must be present")),
            f1: FromValue::from_value(s[1].as_ref().expect("component f1 of Tt4ddome1 must be present")),
            f2: s[2].as_ref().map(FromValue::from_value),
            f3: s[3].as_ref().map(FromValue::from_value),
        }
    }
}
impl ToValue for Tt4ddome1 {
    fn to_value(&self) -> Value {
        Value::Seq(vec![
            Some(self.f0.to_value()),
            Some(self.f1.to_value()),
            self.f2.as_ref().map(|x| x.to_value()),
            self.f3.as_ref().map(|x| x.to_value()),
        ])
    }
}
impl FromValue for Tt4ddome2 {
    fn from_value(v: &Value) -> Self {
        let s = match v { Value::Seq(s) => s, other => panic!("Tt4ddome2: expected Seq, got {other:?}") };
        assert_eq!(s.len(), 4, "Tt4ddome2: component count");
        let _ = s;
        Tt4ddome2 {
            f0: FromValue::from_value(s[0].as_ref().expect("component f0 of Tt4ddome2 must be present")),
            f1: FromValue::from_value(s[1].as_ref().expect("component f1 of Tt4ddome2 must be present")),
            f2: s[2].as_ref().map(FromValue::from_value),
            f3: s[3].as_ref().map(FromValue::from_value),
        }
    }
}
impl ToValue for Tt4ddome2 {
    fn to_value(&self) -> Value {
        Value::Seq(vec![
            Some(self.f0.to_value()),
            Some(self.f1.to_value()),
            self.f2.as_ref().map(|x| x.to_value()),
            self.f3.as_ref().map(|x| x.to_value()),
        ])
    }
}
impl FromValue for Tt4ddome3 {
    fn from_value(v: &Value) -> Self {
        let s = match v { Value::Seq(s) => s, other => panic!("Tt4ddome3: expected Seq, got {other:?}") };
        assert_eq!(s.len(), 4, "Tt4ddome3: component count");
        let _ = s;
        Tt4ddome3 {
            f0: FromValue::from_value(s[0].as_ref().expect("component f0 of Tt4ddome3 must be present")),
            f1: FromValue::from_value(s[1].as_ref().expect("component f1 of Tt4ddome3 must be present")),
            f2: s[2].as_ref().map(FromValue::from_value),
            f3: s[3].as_ref().map(FromValue::from_value),
        }
    }
}
impl ToValue for Tt4ddome3 {
    fn to_value(&self) -> Value {
        Value::Seq(vec![
            Some(self.f0.to_value()),
            Some(self.f1.to_value()),
            self.f2.as_ref().map(|x| x.to_value()),
            self.f3.as_ref().map(|x| x.to_value()),
        ])
    }
}
impl FromValue for Tt4ddome4 {
    fn from_value(v: &Value) -> Self {
        let s = match v { Value::Seq(s) => s, other => panic!("Tt4ddome4: expected Seq, got {other:?}") };
        assert_eq!(s.len(), 4, "Tt4ddome4: component count");
        let _ = s;
        Tt4ddome4 {
            f0: FromValue::from_value(s[0].as_ref().expect("component f0 of Tt4ddome4 must be present")),
            f1: FromValue::from_value(s[1].as_ref().expect("component f1 of Tt4ddome4 must be present")),
            f2: s[2].as_ref().map(FromValue::from_value),
            f3: FromValue::from_value(s[3].as_ref().expect("component f3 of Tt4ddome4 must be present")),
        }
    }
}
impl ToValue for Tt4ddome4 {
    fn to_value(&self) -> Value {
        Value::Seq(vec![
            Some(self.f0.to_value()),
            Some(self.f1.to_value()),
            self.f2.as_ref().map(|x| x.to_value()),
            Some(self.f3.to_value()),
        ])
    }
}
impl FromValue for Tt4mmdmn {
    fn from_value(v: &Value) -> Self {
        let s = match v { Value::Seq(s) => s, other => panic!("Tt4mmdmn: expected Seq, got {other:?}") };
        assert_eq!(s.len(), 4, "Tt4mmdmn: component count");
        let _ = s;
        Tt4mmdmn {
            f0: FromValue::from_value(s[0].as_ref().expect("component f0 of Tt4mmdmn must be present")),
            f1: FromValue::from_value(s[1].as_ref().expect("component f1 of Tt4mmdmn must be present")),
            f2: FromValue::from_value(s[2].as_ref().expect("component f2 of Tt4mmdmn must be present")),
            f3: FromValue::from_value(s[3].as_ref().expect("component f3 of Tt4mmdmn must be present")),
        }
    }
}
impl ToValue for Tt4mmdmn {
    fn to_value(&self) -> Value {
        Value::Seq(vec![
            Some(self.f0.to_value()),
            Some(self.f1.to_value()),
            Some(self.f2.to_value()),
            Some(self.f3.to_value()),
        ])
    }
}
impl FromValue for Tt4mmdme0 {
    fn from_value(v: &Value) -> Self {
        let s = match v { Value::Seq(s) => s, other => panic!("Tt4mmdme0: expected Seq, got {other:?}") };
        assert_eq!(s.len(), 4, "Tt4mmdme0: component count");
        let _ = s;
        Tt4mmdme0 {
            f0: FromValue::from_value(s[0].as_ref().expect("component f0 of Tt4mmdme0 must be present")),
            f1: s[1].as_ref().map(FromValue::from_value),
            f2: FromValue::from_value(s[2].as_ref().expect("component f2 of Tt4mmdme0 must be present")),
            f3: s[3].as_ref().map(FromValue::from_value),
        }
    }
}
impl ToValue for Tt4mmdme0 {
    fn to_value(&self) -> Value {
        Value::Seq(vec![
            Some(self.f0.to_value()),
            self.f1.as_ref().map(|x| x.to_value()),
            Some(self.f2.to_value()),
            self.f3.as_ref().map(|x| x.to_value()),
        ])
    }
}
impl FromValue for Tt4mmdme1 {
    fn from_value(v: &Value) -> Self {
        let s = match v { Value::Seq(s) => s, other => panic!("Tt4mmdme1: expected Seq, got {other:?}") };
        assert_eq!(s.len(), 4, "Tt4mmdme1: component count");
        let _ = s;
        Tt4mmdme1 {
            f0: FromValue::from_value(s[0].as_ref().expect("component f0 of Tt4mmdme1 must be present")),
            f1: s[1].as_ref().map(FromValue::from_value),
            f2: FromValue::from_value(s[2].as_ref().expect("component f2 of Tt4mmdme1 must be present")),
            f3: s[3].as_ref().map(FromValue::from_value),
        }
    }
}
impl ToValue for Tt4mmdme1 {
    fn to_value(&self) -> Value {
        Value::Seq(vec![
            Some(self.f0.to_value()),
            self.f1.as_ref().map(|x| x.to_value()),
            Some(self.f2.to_value()),
            self.f3.as_ref().map(|x| x.to_value()),
        ])
    }
}
impl FromValue for Tt4mmdme2 {
    fn from_value(v: &Value) -> Self {
        let s = match v { Value::Seq(s) => s, other => panic!("Tt4mmdme2: expected Seq, got {other:?}") };
        assert_eq!(s.len(), 4, "Tt4mmdme2: component count");
        let _ = s;
        Tt4mmdme2 {
            f0: FromValue::from_value(s[0].as_ref().expect("component f0 of Tt4mmdme2 must be present")),
            f1: FromValue::from_value(s[1].as_ref().expect("component f1 of Tt4mmdme2 must be present")),
            f2: FromValue::from_value(s[2].as_ref().expect("component f2 of Tt4mmdme2 must be present")),
            f3: s[3].as_ref().map(FromValue::from_value),
        }
    }
}
impl ToValue for Tt4mmdme2 {
    fn to_value(&self) -> Value {
        Value::Seq(vec![
            Some(self.f0.to_value()),
            Some(self.f1.to_value()),
            Some(self.f2.to_value()),
            self.f3.as_ref().map(|x| x.to_value()),
        ])
    }
}
impl FromValue for Tt4mmdme3 {
    fn from_value(v: &Value) -> Self {
        let s = match v { Value::Seq(s) => s, other => panic!("Tt4mmdme3: expected Seq, got {other:?}") };
        assert_eq!(s.len(), 4, "Tt4mmdme3: component count");
        let _ = s;
        Tt4mmdme3 {
            f0: FromValue::from_value(s[0].as_ref().expect("component f0 of Tt4mmdme3 must be present")),
            f1: FromValue::from_value(s[1].as_ref().expect("component f1 of Tt4mmdme3 must be present")),
            f2: FromValue::from_value(s[2].as_ref().expect("component f2 of Tt4mmdme3 must be present")),
            f3: s[3].as_ref().map(FromValue::from_value),
        }
    }
}
impl ToValue for Tt4mmdme3 {
    fn to_value(&self) -> Value {
        Value::Seq(vec![
            Some(self.f0.to_value()),
            Some(self.f1.to_value()),
            Some(self.f2.to_value()),
            self.f3.as_ref().map(|x| x.to_value()),
        ])
    }
}
impl FromValue for Tt4mmdme4 {
    fn from_value(v: &Value) -> Self {
        let s = match v { Value::Seq(s) => s, other => panic!("Tt4mmdme4: expected Seq, got {other:?}") };
        assert_eq!(s.len(), 4, "Tt4mmdme4: component count");
        let _ = s;
        Tt4mmdme4 {
            f0: FromValue::from_value(s[0].as_ref().expect("component f0 of Tt4mmdme4 must be present")),
            f1: FromValue::from_value(s[1].as_ref().expect("component f1 of Tt4mmdme4 must be present")),
            f2: FromValue::from_value(s[2].as_ref().expect("component f2 of Tt4mmdme4 must be present")),
            f3: FromValue::from_value(s[3].as_ref().expect("component f3 of Tt4mmdme4 must be present")),
        }
    }
}
impl ToValue for Tt4mmdme4 {
    fn to_value(&self) -> Value {
        Value::Seq(vec![
            Some(self.f0.to_value()),
            Some(self.f1.to_value()),
            Some(self.f2.to_value()),
            Some(self.f3.to_value()),
        ])
    }
}
impl FromValue for Tt4omdmn {
    fn from_value(v: &Value) -> Self {
        let s = match v { Value::Seq(s) => s, other => panic!("Tt4omdmn: expected Seq, got {other:?}") };
        assert_eq!(s.len(), 4, "Tt4omdmn: component count");
        let _ = s;
        Tt4omdmn {
            f0: s[0].as_ref().map(FromValue::from_value),
            f1: FromValue::from_value(s[1].as_ref().expect("component f1 of Tt4omdmn must be present")),
            f2: FromValue::from_value(s[2].as_ref().expect("component f2 of Tt4omdmn must be present")),
            f3: FromValue::from_value(s[3].as_ref().expect("component f3 of Tt4omdmn must be present")),
        }
    }
}
impl ToValue for Tt4omdmn {
    fn to_value(&self) -> Value {
        Value::Seq(vec![
            self.f0.as_ref().map(|x| x.to_value()),
            Some(self.f1.to_value()),
            Some(self.f2.to_value()),
            Some(self.f3.to_value()),
        ])
    }
}
impl FromValue for Tt4omdme0 {
    fn from_value(v: &Value) -> Self {
        let s = match v { Value::Seq(s) => s, other => panic!("Tt4omdme0: expected Seq, got {other:?}") };
        assert_eq!(s.len(), 4, "Tt4omdme0: component count");
        let _ = s;
        Tt4omdme0 {
            f0: s[0].as_ref().map(FromValue::from_value),
            f1: s[1].as_ref().map(FromValue::from_value),
            f2: FromValue::from_value(s[2].as_ref().expect("component f2 of Tt4omdme0 must be present")),
            f3: s[3].as_ref().map(FromValue::from_value),
        }
    }
}
impl ToValue for Tt4omdme0 {
    fn to_value(&self) -> Value {
        Value::Seq(vec![
            self.f0.as_ref().map(|x| x.to_value()),
            self.f1.as_ref().map(|x| x.to_value()),
            Some(self.f2.to_value()),
            self.f3.as_ref().map(|x| x.to_value()),
        ])
    }
}
impl FromValue for Tt4omdme1 {
    fn from_value(v: &Value) -> Self {
        let s = match v { Value::Seq(s) => s, other => panic!("Tt4omdme1: expected Seq, got {other:?}") };
        assert_eq!(s.len(), 4, "Tt4omdme1: component count");
        let _ = s;
        Tt4omdme1 {
            f0: s[0].as_ref().map(FromValue::from_value),
            f1: s[1].as_ref().map(FromValue::from_value),
            f2: FromValue::from_value(s[2].as_ref().expect("component f2 of Tt4omdme1 must be present")),
            f3: s[3].as_ref().map(FromValue::from_value),
        }
    }
}
impl ToValue for Tt4omdme1 {
    fn to_value(&self) -> Value {
        Value::Seq(vec![
            self.f0.as_ref().map(|x| x.to_value()),
            self.f1.as_ref().map(|x| x.to_value()),
            Some(self.f2.to_value()),
            self.f3.as_ref().map(|x| x.to_value()),
        ])
    }
}
impl FromValue for Tt4omdme2 {
    fn from_value(v: &Value) -> Self {
        let s = match v { Value::Seq(s) => s, other => panic!("Tt4omdme2: expected Seq, got {other:?}") };
        assert_eq!(s.len(), 4, "Tt4omdme2: component count");
        let _ = s;
        Tt4omdme2 {
            f0: s[0].as_ref().map(FromValue::from_value),
            f1: FromValue::from_value(s[1].as_ref().expect("component f1 of Tt4omdme2 must be present")),
            f2: FromValue::from_value(s[2].as_ref().expect("component f2 of Tt4omdme2 must be present")),
            f3: s[3].as_ref().map(FromValue::from_value),
        }
    }
}
impl ToValue for Tt4omdme2 {
    fn to_value(&self) -> Value {
        Value::Seq(vec![
            self.f0.as_ref().map(|x| x.to_value()),
            Some(self.f1.to_value()),
            Some(self.f2.to_value()),
            self.f3.as_ref().map(|x| x.to_value()),
        ])
    }
}
impl FromValue for Tt4omdme3 {
    fn from_value(v: &Value) -> Self {
        let s = match v { Value::Seq(s) => s, other => panic!("Tt4omdme3: expected Seq, got {other:?}") };
        assert_eq!(s.len(), 4, "Tt4omdme3: component count");
        let _ = s;
        Tt4omdme3 {
            f0: s[0].as_ref().map(FromValue::from_value),
            f1: FromValue::from_value(s[1].as_ref().expect("component f1 of Tt4omdme3 must be present")),
            f2: FromValue::from_value(s[2].as_ref().expect("component f2 of Tt4omdme3 must be present")),
            f3: s[3].as_ref().map(FromValue::from_value),
        }
    }
}
impl ToValue for Tt4omdme3 {
    fn to_value(&self) -> Value {
        Value::Seq(vec![
            self.f0.as_ref().map(|x| x.to_value()),
            Some(self.f1.to_value()),
            Some(self.f2.to_value()),
            self.f3.as_ref().map(|x| x.to_value()),
        ])
    }
}
impl FromValue for Tt4omdme4 {
    fn from_value(v: &Value) -> Self {
        let s = match v { Value::Seq(s) => s, other => panic!("Tt4omdme4: expected Seq, got {other:?}") };
        assert_eq!(s.len(), 4, "Tt4omdme4: component count");
        let _ = s;
        Tt4omdme4 {
            f0: s[0].as_ref().map(FromValue::from_value),
            f1: FromValue::from_value(s[1].as_ref().expect("component f1 of Tt4omdme4 must be present")),
            f2: FromValue::from_value(s[2].as_ref().expect("component f2 of Tt4omdme4 must be present")),
            f3: FromValue::from_value(s[3].as_ref().expect("component f3 of Tt4omdme4 must be present")),
        }
    }
}
impl ToValue for Tt4omdme4 {
    fn to_value(&self) -> Value {
        Value::Seq(vec![
            self.f0.as_ref().map(|x| x.to_value()),
            Some(self.f1.to_value()),
            Some(self.f2.to_value()),
            Some(self.f3.to_value()),
        ])
    }
}

use asn1rs::prelude::*;

#[asn(transparent)]

#[derive(Default, Debug, Clone, PartialEq, Hash)]
pub struct Tsobf0(#[asn(sequence_of(size(0), boolean))] pub Vec<bool>);

impl Tsobf0 {
}

impl Tsobf0 {
    pub const fn new(value: Vec<bool>) -> Self {
        Self(value)
    }
}

impl ::core::ops::Deref for Tsobf0 {
    type Target = Vec<bool>;

    fn deref(&self) -> &Vec<bool> {
        &self.0
    }
}

impl ::core::ops::DerefMut for Tsobf0 {
    fn deref_mut(&mut self) -> &mut Vec<bool> {
        &mut self.0
    }
}

impl ::core::convert::From<Vec<bool>> for Tsobf0 {
    fn from(value: Vec<bool>) -> Self {
        Self(value)
    }
}

impl ::core::convert::From<Tsobf0> for Vec<bool> {
    fn from(value: Tsobf0) -> Self {
        value.0
    }
}

#[asn(transparent)]

#[derive(Default, Debug, Clone, PartialEq, Hash)]
pub struct Tsobf2(#[asn(sequence_of(size(2), boolean))] pub Vec<bool>);

impl Tsobf2 {
}

impl Tsobf2 {
    pub const fn new(value: Vec<bool>) -> Self {
        Self(value)
    }
}

impl ::core::ops::Deref for Tsobf2 {
    type Target = Vec<bool>;

    fn deref(&self) -> &Vec<bool> {
        &self.0
    }
}

impl ::core::ops::DerefMut for Tsobf2 {
    fn deref_mut(&mut self) -> &mut Vec<bool> {
        &mut self.0
    }
}

impl ::core::convert::From<Vec<bool>> for Tsobf2 {
    fn from(value: Vec<bool>) -> Self {
        Self(value)
    }
}

impl ::core::convert::From<Tsobf2> for Vec<bool> {
    fn from(value: Tsobf2) -> Self {
        value.0
    }
}

#[asn(transparent)]

#[derive(Default, Debug, Clone, PartialEq, Hash)]
pub struct Tsobf17(#[asn(sequence_of(size(17), boolean))] pub Vec<bool>);

impl Tsobf17 {
}

impl Tsobf17 {
    pub const fn new(value: Vec<bool>) -> Self {
        Self(value)
    }
}

impl ::core::ops::Deref for Tsobf17 {
    type Target = Vec<bool>;

    fn deref(&self) -> &Vec<bool> {
        &self.0
    }
}

impl ::core::ops::DerefMut for Tsobf17 {
    fn deref_mut(&mut self) -> &mut Vec<bool> {
        &mut self.0
    }
}

impl ::core::convert::From<Vec<bool>> for Tsobf17 {
    fn from(value: Vec<bool>) -> Self {
        Self(value)
    }
}

impl ::core::convert::From<Tsobf17> for Vec<bool> {
    fn from(value: Tsobf17) -> Self {
        value.0
    }
}

#[asn(transparent)]

#[derive(Default, Debug, Clone, PartialEq, Hash)]
pub struct Tsobr0to1(#[asn(sequence_of(size(0..1), boolean))] pub Vec<bool>);

impl Tsobr0to1 {
}

impl Tsobr0to1 {
    pub const fn new(value: Vec<bool>) -> Self {
        Self(value)
    }
}

impl ::core::ops::Deref for Tsobr0to1 {
    type Target = Vec<bool>;

    fn deref(&self) -> &Vec<bool> {
        &self.0
    }
}

impl ::core::ops::DerefMut for Tsobr0to1 {
    fn deref_mut(&mut self) -> &mut Vec<bool> {
        &mut self.0
    }
}

impl ::core::convert::From<Vec<bool>> for Tsobr0to1 {
    fn from(value: Vec<bool>) -> Self {
        Self(value)
    }
}

impl ::core::convert::From<Tsobr0to1> for Vec<bool> {
    fn from(value: Tsobr0to1) -> Self {
        value.0
    }
}

#[asn(transparent)]

#[derive(Default, Debug, Clone, PartialEq, Hash)]
pub struct Tsobr0to255(#[asn(sequence_of(size(0..255), boolean))] pub Vec<bool>);

impl Tsobr0to255 {
}

impl Tsobr0to255 {
    pub const fn new(value: Vec<bool>) -> Self {
        Self(value)
    }
}

impl ::core::ops::Deref for Tsobr0to255 {
    type Target = Vec<bool>;

    fn deref(&self) -> &Vec<bool> {
        &self.0
    }
}

impl ::core::ops::DerefMut for Tsobr0to255 {
    fn deref_mut(&mut self) -> &mut Vec<bool> {
        &mut self.0
    }
}

impl ::core::convert::From<Vec<bool>> for Tsobr0to255 {
    fn from(value: Vec<bool>) -> Self {
        Self(value)
    }
}

impl ::core::convert::From<Tsobr0to255> for Vec<bool> {
    fn from(value: Tsobr0to255) -> Self {
        value.0
    }
}

#[asn(transparent)]

#[derive(Default, Debug, Clone, PartialEq, Hash)]
pub struct Tsobr0to256(#[asn(sequence_of(size(0..256), boolean))] pub Vec<bool>);

impl Tsobr0to256 {
}

impl Tsobr0to256 {
    pub const fn new(value: Vec<bool>) -> Self {
        Self(value)
    }
}

impl ::core::ops::Deref for Tsobr0to256 {
    type Target = Vec<bool>;

    fn deref(&self) -> &Vec<bool> {
        &self.0
    }
}

impl ::core::ops::DerefMut for Tsobr0to256 {
    fn deref_mut(&mut self) -> &mut Vec<bool> {
        &mut self.0
    }
}

impl ::core::convert::From<Vec<bool>> for Tsobr0to256 {
    fn from(value: Vec<bool>) -> Self {
        Self(value)
    }
}

impl ::core::convert::From<Tsobr0to256> for Vec<bool> {
    fn from(value: Tsobr0to256) -> Self {
        value.0
    }
}

#[asn(transparent)]

#[derive(Default, Debug, Clone, PartialEq, Hash)]
pub struct Tsobr1to65535(#[asn(sequence_of(size(1..65535), boolean))] pub Vec<bool>);

impl Tsobr1to65535 {
}

impl Tsobr1to65535 {
    pub const fn new(value: Vec<bool>) -> Self {
        Self(value)
    }
}

impl ::core::ops::Deref for Tsobr1to65535 {
    type Target = Vec<bool>;

    fn deref(&self) -> &Vec<bool> {
        &self.0
    }
}

impl ::core::ops::DerefMut for Tsobr1to65535 {
    fn deref_mut(&mut self) -> &mut Vec<bool> {
        &mut self.0
    }
}

impl ::core::convert::From<Vec<bool>> for Tsobr1to65535 {
    fn from(value: Vec<bool>) -> Self {
        Self(value)
    }
}

impl ::core::convert::From<Tsobr1to65535> for Vec<bool> {
    fn from(value: Tsobr1to65535) -> Self {
        value.0
    }
}

#[asn(transparent)]

#[derive(Default, Debug, Clone, PartialEq, Hash)]
pub struct Tsobr1to65536(#[asn(sequence_of(size(1..65536), boolean))] pub Vec<bool>);

impl Tsobr1to65536 {
}

impl Tsobr1to65536 {
    pub const fn new(value: Vec<bool>) -> Self {
        Self(value)
    }
}

impl ::core::ops::Deref for Tsobr1to65536 {
    type Target = Vec<bool>;

    fn deref(&self) -> &Vec<bool> {
        &self.0
    }
}

impl ::core::ops::DerefMut for Tsobr1to65536 {
    fn deref_mut(&mut self) -> &mut Vec<bool> {
        &mut self.0
    }
}

impl ::core::convert::From<Vec<bool>> for Tsobr1to65536 {
    fn from(value: Vec<bool>) -> Self {
        Self(value)
    }
}

impl ::core::convert::From<Tsobr1to65536> for Vec<bool> {
    fn from(value: Tsobr1to65536) -> Self {
        value.0
    }
}

#[asn(transparent)]

#[derive(Default, Debug, Clone, PartialEq, Hash)]
pub struct Tsobr0to65535x(#[asn(sequence_of(size(0..65535,...), boolean))] pub Vec<bool>);

impl Tsobr0to65535x {
}

impl Tsobr0to65535x {
    pub const fn new(value: Vec<bool>) -> Self {
        Self(value)
    }
}

impl ::core::ops::Deref for Tsobr0to65535x {
    type Target = Vec<bool>;

    fn deref(&self) -> &Vec<bool> {
        &self.0
    }
}

impl ::core::ops::DerefMut for Tsobr0to65535x {
    fn deref_mut(&mut self) -> &mut Vec<bool> {
        &mut self.0
    }
}

impl ::core::convert::From<Vec<bool>> for Tsobr0to65535x {
    fn from(value: Vec<bool>) -> Self {
        Self(value)
    }
}

impl ::core::convert::From<Tsobr0to65535x> for Vec<bool> {
    fn from(value: Tsobr0to65535x) -> Self {
        value.0
    }
}
// ---- harness conversions (generated by the zoo build script from the items above) ----
impl FromValue for Tsobf0 { fn from_value(v: &Value) -> Self { Tsobf0(FromValue::from_value(v)) } }
impl ToValue for Tsobf0 { fn to_value(&self) -> Value { self.0.to_value() } }
impl FromValue for Tsobf2 { fn from_value(v: &Value) -> Self { Tsobf2(FromValue::from_value(v)) } }
impl ToValue for Tsobf2 { fn to_value(&self) -> Value { self.0.to_value() } }
impl FromValue for Tsobf17 { fn from_value(v: &Value) -> Self { Tsobf17(FromValue::from_value(v)) } }
impl ToValue for Tsobf17 { fn to_value(&self) -> Value { self.0.to_value() } }
impl FromValue for Tsobr0to1 { fn from_value(v: &Value) -> Self { Tsobr0to1(FromValue::from_value(v)) } }
impl ToValue for Tsobr0to1 { fn to_value(&self) -> Value { self.0.to_value() } }
impl FromValue for Tsobr0to255 { fn from_value(v: &Value) -> Self { Tsobr0to255(FromValue::from_value(v)) } }
impl ToValue for Tsobr0to255 { fn to_value(&self) -> Value { self.0.to_value() } }
impl FromValue for Tsobr0to256 { fn from_value(v: &Value) -> Self { Tsobr0to256(FromValue::from_value(v)) } }
impl ToValue for Tsobr0to256 { fn to_value(&self) -> Value { self.0.to_value() } }
impl FromValue for Tsobr1to65535 { fn from_value(v: &Value) -> Self { Tsobr1to65535(FromValue::from_value(v)) } }
impl ToValue for Tsobr1to65535 { fn to_value(&self) -> Value { self.0.to_value() } }
impl FromValue for Tsobr1to65536 { fn from_value(v: &Value) -> Self { Tsobr1to65536(FromValue::from_value(v)) } }
impl ToValue for Tsobr1to65536 { fn to_value(&self) -> Value { self.0.to_value() } }
impl FromValue for Tsobr0to65535x { fn from_value(v: &Value) -> Self { Tsobr0to65535x(FromValue::from_value(v)) } }
impl ToValue for Tsobr0to65535x { fn to_value(&self) -> Value { self.0.to_value() } }

use asn1rs::prelude::*;

#[asn(sequence, extensible_after(b))]

#[derive(Default, Debug, Clone, PartialEq, Hash)]
pub struct Tinner {
    #[asn(integer(0..7))] pub a: u8,
    #[asn(optional(boolean))] pub b: Option<bool>,
}

impl Tinner {
    pub const fn a_min() -> u8 {
        0
    }

    pub const fn a_max() -> u8 {
        7
    }
}

#[asn(enumerated, extensible_after(Blue))]

#[derive(Debug, Clone, PartialEq, Hash, Copy, PartialOrd, Eq, Default)]
pub enum Tenum {
    #[default] Red,
    Green,
    Blue,
    Alpha,
}

impl Tenum {
    pub fn variant(index: usize) -> Option<Self> {
        match index {
            0 => Some(Tenum::Red),
            1 => Some(Tenum::Green),
            2 => Some(Tenum::Blue),
            3 => Some(Tenum::Alpha),
            _ => None,
        }
    }

    pub const fn variants() -> [Self; 4] {
        [
        Tenum::Red,
        Tenum::Green,
        Tenum::Blue,
        Tenum::Alpha,
        ]
    }

    pub fn value_index(self) -> usize {
        match self {
            Tenum::Red => 0,
            Tenum::Green => 1,
            Tenum::Blue => 2,
            Tenum::Alpha => 3,
        }
    }
}

#[asn(transparent)]

#[derive(Default, Debug, Clone, PartialEq, Hash)]
pub struct Tsoseq(#[asn(sequence_of(size(0..3), complex(Tinner, tag(UNIVERSAL(16)))))] pub Vec<Tinner>);

impl Tsoseq {
}

impl Tsoseq {
    pub const fn new(value: Vec<Tinner>) -> Self {
        Self(value)
    }
}

impl ::core::ops::Deref for Tsoseq {
    type Target = Vec<Tinner>;

    fn deref(&self) -> &Vec<Tinner> {
        &self.0
    }
}

impl ::core::ops::DerefMut for Tsoseq {
    fn deref_mut(&mut self) -> &mut Vec<Tinner> {
        &mut self.0
    }
}

impl ::core::convert::From<Vec<Tinner>> for Tsoseq {
    fn from(value: Vec<Tinner>) -> Self {
        Self(value)
    }
}

impl ::core::convert::From<Tsoseq> for Vec<Tinner> {
    fn from(value: Tsoseq) -> Self {
        value.0
    }
}

#[asn(transparent)]

#[derive(Default, Debug, Clone, PartialEq, Hash)]
pub struct Tsoso(#[asn(sequence_of(sequence_of(size(2), integer(0..255))))] pub Vec<Vec<u8>>);

impl Tsoso {
    pub const fn value_min() -> u8 {
        0
    }

    pub const fn value_max() -> u8 {
        255
    }
}

impl Tsoso {
    pub const fn new(value: Vec<Vec<u8>>) -> Self {
        Self(value)
    }
}

impl ::core::ops::Deref for Tsoso {
    type Target = Vec<Vec<u8>>;

    fn deref(&self) -> &Vec<Vec<u8>> {
        &self.0
    }
}

impl ::core::ops::DerefMut for Tsoso {
    fn deref_mut(&mut self) -> &mut Vec<Vec<u8>> {
        &mut self.0
    }
}

impl ::core::convert::From<Vec<Vec<u8>>> for Tsoso {
    fn from(value: Vec<Vec<u8>>) -> Self {
        Self(value)
    }
}

impl ::core::convert::From<Tsoso> for Vec<Vec<u8>> {
    fn from(value: Tsoso) -> Self {
        value.0
    }
}

#[asn(transparent)]

#[derive(Default, Debug, Clone, PartialEq, Hash)]
pub struct Tsooct(#[asn(sequence_of(size(0..3), octet_string(size(0..2))))] pub Vec<Vec<u8>>);

impl Tsooct {
}

impl Tsooct {
    pub const fn new(value: Vec<Vec<u8>>) -> Self {
        Self(value)
    }
}

impl ::core::ops::Deref for Tsooct {
    type Target = Vec<Vec<u8>>;

    fn deref(&self) -> &Vec<Vec<u8>> {
        &self.0
    }
}

impl ::core::ops::DerefMut for Tsooct {
    fn deref_mut(&mut self) -> &mut Vec<Vec<u8>> {
        &mut self.0
    }
}

impl ::core::convert::From<Vec<Vec<u8>>> for Tsooct {
    fn from(value: Vec<Vec<u8>>) -> Self {
        Self(value)
    }
}

impl ::core::convert::From<Tsooct> for Vec<Vec<u8>> {
    fn from(value: Tsooct) -> Self {
        value.0
    }
}

#[asn(transparent)]

#[derive(Default, Debug, Clone, PartialEq, Hash)]
pub struct Tsoenum(#[asn(sequence_of(complex(Tenum, tag(UNIVERSAL(10)))))] pub Vec<Tenum>);

impl Tsoenum {
}

impl Tsoenum {
    pub const fn new(value: Vec<Tenum>) -> Self {
        Self(value)
    }
}

impl ::core::ops::Deref for Tsoenum {
    type Target = Vec<Tenum>;

    fn deref(&self) -> &Vec<Tenum> {
        &self.0
    }
}

impl ::core::ops::DerefMut for Tsoenum {
    fn deref_mut(&mut self) -> &mut Vec<Tenum> {
        &mut self.0
    }
}

impl ::core::convert::From<Vec<Tenum>> for Tsoenum {
    fn from(value: Vec<Tenum>) -> Self {
        Self(value)
    }
}

impl ::core::convert::From<Tsoenum> for Vec<Tenum> {
    fn from(value: Tsoenum) -> Self {
        value.0
    }
}

#[asn(transparent)]

#[derive(Default, Debug, Clone, PartialEq, Hash)]
pub struct Tsoia5(#[asn(sequence_of(size(2), ia5string(size(1..4))))] pub Vec<String>);

impl Tsoia5 {
}

impl Tsoia5 {
    pub const fn new(value: Vec<String>) -> Self {
        Self(value)
    }
}

impl ::core::ops::Deref for Tsoia5 {
    type Target = Vec<String>;

    fn deref(&self) -> &Vec<String> {
        &self.0
    }
}

impl ::core::ops::DerefMut for Tsoia5 {
    fn deref_mut(&mut self) -> &mut Vec<String> {
        &mut self.0
    }
}

impl ::core::convert::From<Vec<String>> for Tsoia5 {
    fn from(value: Vec<String>) -> Self {
        Self(value)
    }
}

impl ::core::convert::From<Tsoia5> for Vec<String> {
    fn from(value: Tsoia5) -> Self {
        value.0
    }
}

#[asn(choice)]

#[derive(Debug, Clone, PartialEq, Hash)]
pub enum Tch2 {
    #[asn(integer(0..7))] A(u8),
    #[asn(boolean)] B(bool),
}

impl Tch2 {
    pub fn variants() -> [Self; 2] {
        [
        Tch2::A(Default::default()),
        Tch2::B(Default::default()),
        ]
    }

    pub fn value_index(&self) -> usize {
        match self {
            Tch2::A(_) => 0,
            Tch2::B(_) => 1,
        }
    }

    pub const fn a_min() -> u8 {
        0
    }

    pub const fn a_max() -> u8 {
        7
    }
}

impl Default for Tch2 {
    fn default() -> Tch2 {
        Tch2::A(Default::default())
    }
}

#[asn(choice, extensible_after(B))]

#[derive(Debug, Clone, PartialEq, Hash)]
pub enum Tch2x1 {
    #[asn(integer(0..7))] A(u8),
    #[asn(boolean)] B(bool),
    #[asn(integer(0..255))] C(u8),
}

impl Tch2x1 {
    pub fn variants() -> [Self; 3] {
        [
        Tch2x1::A(Default::default()),
        Tch2x1::B(Default::default()),
        Tch2x1::C(Default::default()),
        ]
    }

    pub fn value_index(&self) -> usize {
        match self {
            Tch2x1::A(_) => 0,
            Tch2x1::B(_) => 1,
            Tch2x1::C(_) => 2,
        }
    }

    pub const fn a_min() -> u8 {
        0
    }

    pub const fn a_max() -> u8 {
        7
    }

    pub const fn c_min() -> u8 {
        0
    }

    pub const fn c_max() -> u8 {
        255
    }
}

impl Default for Tch2x1 {
    fn default() -> Tch2x1 {
        Tch2x1::A(Default::default())
    }
}

#[asn(choice)]

#[derive(Debug, Clone, PartialEq, Hash)]
pub enum Tchdesc {
    #[asn(integer(0..7), tag(5))] A(u8),
    #[asn(boolean, tag(2))] B(bool),
    #[asn(null, tag(0))] C(Null),
}

impl Tchdesc {
    pub fn variants() -> [Self; 3] {
        [
        Tchdesc::A(Default::default()),
        Tchdesc::B(Default::default()),
        Tchdesc::C(Default::default()),
        ]
    }

    pub fn value_index(&self) -> usize {
        match self {
            Tchdesc::A(_) => 0,
            Tchdesc::B(_) => 1,
            Tchdesc::C(_) => 2,
        }
    }

    pub const fn a_min() -> u8 {
        0
    }

    pub const fn a_max() -> u8 {
        7
    }
}

impl Default for Tchdesc {
    fn default() -> Tchdesc {
        Tchdesc::A(Default::default())
    }
}

#[asn(choice)]

#[derive(Debug, Clone, PartialEq, Hash)]
pub enum Tchch {
    #[asn(complex(Tch2x1, tag(UNIVERSAL(1))))] X(Tch2x1),
    #[asn(complex(Tch2, tag(UNIVERSAL(1))))] Y(Tch2),
}

impl Tchch {
    pub fn variants() -> [Self; 2] {
        [
        Tchch::X(Default::default()),
        Tchch::Y(Default::default()),
        ]
    }

    pub fn value_index(&self) -> usize {
        match self {
            Tchch::X(_) => 0,
            Tchch::Y(_) => 1,
        }
    }
}

impl Default for Tchch {
    fn default() -> Tchch {
        Tchch::X(Default::default())
    }
}

#[asn(sequence, extensible_after(n))]

#[derive(Default, Debug, Clone, PartialEq, Hash)]
pub struct Tnest {
    #[asn(complex(Tinner, tag(UNIVERSAL(16))))] pub head: Tinner,
    #[asn(integer(0..255))] pub n: u8,
    #[asn(optional(complex(Tinner, tag(UNIVERSAL(16)))))] pub tail: Option<Tinner>,
    #[asn(optional(sequence_of(size(0..2), boolean)))] pub more: Option<Vec<bool>>,
}

impl Tnest {
    pub const fn n_min() -> u8 {
        0
    }

    pub const fn n_max() -> u8 {
        255
    }
}

#[asn(sequence)]

#[derive(Default, Debug, Clone, PartialEq, Hash)]
pub struct TaddkindsE;

impl TaddkindsE {
}

#[asn(sequence, extensible_after(a))]

#[derive(Default, Debug, Clone, PartialEq, Hash)]
pub struct Taddkinds {
    #[asn(integer(0..7))] pub a: u8,
    #[asn(optional(null))] pub n: Option<Null>,
    #[asn(optional(complex(TaddkindsE, tag(UNIVERSAL(16)))))] pub e: Option<TaddkindsE>,
    #[asn(default(integer(0..255), 9))] pub d: u8,
    #[asn(optional(sequence_of(boolean)))] pub l: Option<Vec<bool>>,
}

impl Taddkinds {
    pub const fn a_min() -> u8 {
        0
    }

    pub const fn a_max() -> u8 {
        7
    }

    pub const fn d_min() -> u8 {
        0
    }

    pub const fn d_max() -> u8 {
        255
    }
}

#[asn(sequence)]

#[derive(Default, Debug, Clone, PartialEq, Hash)]
pub struct Tdefaults {
    #[asn(default(integer(-5..5), -3))] pub i: i8,
    #[asn(default(boolean, true))] pub b: bool,
    #[asn(default(utf8string, "hi"))] pub s: String,
    #[asn(default(complex(Tenum, tag(UNIVERSAL(10))), Tenum::Green))] pub e: Tenum,
    #[asn(default(integer(min..max), 1500))] pub u: u64,
}

impl Tdefaults {
    pub const fn i_min() -> i8 {
        -5
    }

    pub const fn i_max() -> i8 {
        5
    }

    pub const fn u_min() -> u64 {
        0
    }

    pub const fn u_max() -> u64 {
        9_223_372_036_854_775_807
    }
}

#[asn(transparent)]

#[derive(Default, Debug, Clone, PartialEq, Hash)]
pub struct Tref1(#[asn(complex(Tref2, tag(UNIVERSAL(16))))] pub Tref2);

impl Tref1 {
}

impl Tref1 {
    pub const fn new(value: Tref2) -> Self {
        Self(value)
    }
}

impl ::core::ops::Deref for Tref1 {
    type Target = Tref2;

    fn deref(&self) -> &Tref2 {
        &self.0
    }
}

impl ::core::ops::DerefMut for Tref1 {
    fn deref_mut(&mut self) -> &mut Tref2 {
        &mut self.0
    }
}

impl ::core::convert::From<Tref2> for Tref1 {
    fn from(value: Tref2) -> Self {
        Self(value)
    }
}

impl ::core::convert::From<Tref1> for Tref2 {
    fn from(value: Tref1) -> Self {
        value.0
    }
}

#[asn(transparent)]

#[derive(Default, Debug, Clone, PartialEq, Hash)]
pub struct Tref2(#[asn(complex(Tinner, tag(UNIVERSAL(16))))] pub Tinner);

impl Tref2 {
}

impl Tref2 {
    pub const fn new(value: Tinner) -> Self {
        Self(value)
    }
}

impl ::core::ops::Deref for Tref2 {
    type Target = Tinner;

    fn deref(&self) -> &Tinner {
        &self.0
    }
}

impl ::core::ops::DerefMut for Tref2 {
    fn deref_mut(&mut self) -> &mut Tinner {
        &mut self.0
    }
}

impl ::core::convert::From<Tinner> for Tref2 {
    fn from(value: Tinner) -> Self {
        Self(value)
    }
}

impl ::core::convert::From<Tref2> for Tinner {
    fn from(value: Tref2) -> Self {
        value.0
    }
}

#[asn(choice)]

#[derive(Debug, Clone, PartialEq, Hash)]
pub enum TinlinePick {
    #[asn(integer(0..7))] I(u8),
    #[asn(ia5string(size(2)))] S(String),
}

impl TinlinePick {
    pub fn variants() -> [Self; 2] {
        [
        TinlinePick::I(Default::default()),
        TinlinePick::S(Default::default()),
        ]
    }

    pub fn value_index(&self) -> usize {
        match self {
            TinlinePick::I(_) => 0,
            TinlinePick::S(_) => 1,
        }
    }

    pub const fn i_min() -> u8 {
        0
    }

    pub const fn i_max() -> u8 {
        7
    }
}

impl Default for TinlinePick {
    fn default() -> TinlinePick {
        TinlinePick::I(Default::default())
    }
}

#[asn(enumerated)]

#[derive(Debug, Clone, PartialEq, Hash, Copy, PartialOrd, Eq, Default)]
pub enum TinlineEn {
    #[default] E0,
    E1,
    E2,
}

impl TinlineEn {
    pub fn variant(index: usize) -> Option<Self> {
        match index {
            0 => Some(TinlineEn::E0),
            1 => Some(TinlineEn::E1),
            2 => Some(TinlineEn::E2),
            _ => None,
        }
    }

    pub const fn variants() -> [Self; 3] {
        [
        TinlineEn::E0,
        TinlineEn::E1,
        TinlineEn::E2,
        ]
    }

    pub fn value_index(self) -> usize {
        match self {
            TinlineEn::E0 => 0,
            TinlineEn::E1 => 1,
            TinlineEn::E2 => 2,
        }
    }
}

#[asn(sequence)]

#[derive(Default, Debug, Clone, PartialEq, Hash)]
pub struct TinlineSq {
    #[asn(boolean)] pub z: bool,
}

impl TinlineSq {
}

#[asn(sequence)]

#[derive(Default, Debug, Clone, PartialEq, Hash)]
pub struct Tinline {
    #[asn(complex(TinlinePick, tag(UNIVERSAL(2))))] pub pick: TinlinePick,
    #[asn(optional(complex(TinlineEn, tag(UNIVERSAL(10)))))] pub en: Option<TinlineEn>,
    #[asn(complex(TinlineSq, tag(UNIVERSAL(16))))] pub sq: TinlineSq,
}

impl Tinline {
}

#[asn(set)]

#[derive(Default, Debug, Clone, PartialEq, Hash)]
pub struct Tmix {
    #[asn(optional(octet_string(size(0..3))))] pub o: Option<Vec<u8>>,
    #[asn(bit_string(size(5)))] pub b: BitVec,
    #[asn(optional(utf8string))] pub u: Option<String>,
    #[asn(integer(min..max))] pub i: u64,
}

impl Tmix {
    pub const fn i_min() -> u64 {
        0
    }

    pub const fn i_max() -> u64 {
        9_223_372_036_854_775_807
    }
}
// ---- harness conversions (generated by the zoo build script from the items above) ----
impl FromValue for Tinner {
    fn from_value(v: &Value) -> Self {
        let s = match v { Value::Seq(s) => s, other => panic!("Tinner: expected Seq, got {other:?}") };
        assert_eq!(s.len(), 2, "Tinner: component count");
        let _ = s;
        Tinner {
            a: FromValue::from_value(s[0].as_ref().expect("component a of Tinner must be present")),
            b: s[1].as_ref().map(FromValue::from_value),
        }
    }
}
impl ToValue for Tinner {
    fn to_value(&self) -> Value {
        Value::Seq(vec![
            Some(self.a.to_value()),
            self.b.as_ref().map(|x| x.to_value()),
        ])
    }
}
impl FromValue for Tenum {
    fn from_value(v: &Value) -> Self {
        match v {
            Value::Enum(0) => Tenum::Red,
            Value::Enum(1) => Tenum::Green,
            Value::Enum(2) => Tenum::Blue,
            Value::Enum(3) => Tenum::Alpha,
            other => panic!("Tenum: bad enum value {other:?}"),
        }
    }
}
impl ToValue for Tenum {
    fn to_value(&self) -> Value {
        match self {
            Tenum::Red => Value::Enum(0),
            Tenum::Green => Value::Enum(1),
            Tenum::Blue => Value::Enum(2),
            Tenum::Alpha => Value::Enum(3),
        }
    }
}
impl FromValue for Tsoseq { fn from_value(v: &Value) -> Self { Tsoseq(FromValue::from_value(v)) } }
impl ToValue for Tsoseq { fn to_value(&self) -> Value { self.0.to_value() } }
impl FromValue for Tsoso { fn from_value(v: &Value) -> Self { Tsoso(FromValue::from_value(v)) } }
impl ToValue for Tsoso { fn to_value(&self) -> Value { self.0.to_value() } }
impl FromValue for Tsooct { fn from_value(v: &Value) -> Self { Tsooct(FromValue::from_value(v)) } }
impl ToValue for Tsooct { fn to_value(&self) -> Value { self.0.to_value() } }
impl FromValue for Tsoenum { fn from_value(v: &Value) -> Self { Tsoenum(FromValue::from_value(v)) } }
impl ToValue for Tsoenum { fn to_value(&self) -> Value { self.0.to_value() } }
impl FromValue for Tsoia5 { fn from_value(v: &Value) -> Self { Tsoia5(FromValue::from_value(v)) } }
impl ToValue for Tsoia5 { fn to_value(&self) -> Value { self.0.to_value() } }
impl FromValue for Tch2 {
    fn from_value(v: &Value) -> Self {
        let (i, inner) = match v { Value::Choice(i, inner) => (*i, &**inner), other => panic!("Tch2: expected Choice, got {other:?}") };
        match i {
            0 => Tch2::A(FromValue::from_value(inner)),
            1 => Tch2::B(FromValue::from_value(inner)),
            _ => panic!("Tch2: alternative index {i} out of range"),
        }
    }
}
impl ToValue for Tch2 {
    fn to_value(&self) -> Value {
        match self {
            Tch2::A(x) => Value::Choice(0, Box::new(x.to_value())),
            Tch2::B(x) => Value::Choice(1, Box::new(x.to_value())),
        }
    }
}
impl FromValue for Tch2x1 {
    fn from_value(v: &Value) -> Self {
        let (i, inner) = match v { Value::Choice(i, inner) => (*i, &**inner), other => panic!("Tch2x1: expected Choice, got {other:?}") };
        match i {
            0 => Tch2x1::A(FromValue::from_value(inner)),
            1 => Tch2x1::B(FromValue::from_value(inner)),
            2 => Tch2x1::C(FromValue::from_value(inner)),
            _ => panic!("Tch2x1: alternative index {i} out of range"),
        }
    }
}
impl ToValue for Tch2x1 {
    fn to_value(&self) -> Value {
        match self {
            Tch2x1::A(x) => Value::Choice(0, Box::new(x.to_value())),
            Tch2x1::B(x) => Value::Choice(1, Box::new(x.to_value())),
            Tch2x1::C(x) => Value::Choice(2, Box::new(x.to_value())),
        }
    }
}
impl FromValue for Tchdesc {
    fn from_value(v: &Value) -> Self {
        let (i, inner) = match v { Value::Choice(i, inner) => (*i, &**inner), other => panic!("Tchdesc: expected Choice, got {other:?}") };
        match i {
            0 => Tchdesc::A(FromValue::from_value(inner)),
            1 => Tchdesc::B(FromValue::from_value(inner)),
            2 => Tchdesc::C(FromValue::from_value(inner)),
            _ => panic!("Tchdesc: alternative index {i} out of range"),
        }
    }
}
impl ToValue for Tchdesc {
    fn to_value(&self) -> Value {
        match self {
            Tchdesc::A(x) => Value::Choice(0, Box::new(x.to_value())),
            Tchdesc::B(x) => Value::Choice(1, Box::new(x.to_value())),
            Tchdesc::C(x) => Value::Choice(2, Box::new(x.to_value())),
        }
    }
}
impl FromValue for Tchch {
    fn from_value(v: &Value) -> Self {
        let (i, inner) = match v { Value::Choice(i, inner) => (*i, &**inner), other => panic!("Tchch: expected Choice, got {other:?}") };
        match i {
            0 => Tchch::X(FromValue::from_value(inner)),
            1 => Tchch::Y(FromValue::from_value(inner)),
            _ => panic!("Tchch: alternative index {i} out of range"),
        }
    }
}
impl ToValue for Tchch {
    fn to_value(&self) -> Value {
        match self {
            Tchch::X(x) => Value::Choice(0, Box::new(x.to_value())),
            Tchch::Y(x) => Value::Choice(1, Box::new(x.to_value())),
        }
    }
}
impl FromValue for Tnest {
    fn from_value(v: &Value) -> Self {
        let s = match v { Value::Seq(s) => s, other => panic!("Tnest: expected Seq, got {other:?}") };
        assert_eq!(s.len(), 4, "Tnest: component count");
        let _ = s;
        Tnest {
            head: FromValue::from_value(s[0].as_ref().expect("component head of Tnest must be present")),
            n: FromValue::from_value(s[1].as_ref().expect("component n of Tnest must be present")),
            tail: s[2].as_ref().map(FromValue::from_value),
            more: s[3].as_ref().map(FromValue::from_value),
        }
    }
}
impl ToValue for Tnest {
    fn to_value(&self) -> Value {
        Value::Seq(vec![
            Some(self.head.to_value()),
            Some(self.n.to_value()),
            self.tail.as_ref().map(|x| x.to_value()),
            self.more.as_ref().map(|x| x.to_value()),
        ])
    }
}
impl FromValue for TaddkindsE { fn from_value(_: &Value) -> Self { TaddkindsE } }
impl ToValue for TaddkindsE { fn to_value(&self) -> Value { Value::Seq(vec![]) } }
impl FromValue for Taddkinds {
    fn from_value(v: &Value) -> Self {
        let s = match v { Value::Seq(s) => s, other => panic!("Taddkinds: expected Seq, got {other:?}") };
        assert_eq!(s.len(), 5, "Taddkinds: component count");
        let _ = s;
        Taddkinds {
            a: FromValue::from_value(s[0].as_ref().expect("component a of Taddkinds must be present")),
            n: s[1].as_ref().map(FromValue::from_value),
            e: s[2].as_ref().map(FromValue::from_value),
            d: FromValue::from_value(s[3].as_ref().expect("component d of Taddkinds must be present")),
            l: s[4].as_ref().map(FromValue::from_value),
        }
    }
}
impl ToValue for Taddkinds {
    fn to_value(&self) -> Value {
        Value::Seq(vec![
            Some(self.a.to_value()),
            self.n.as_ref().map(|x| x.to_value()),
            self.e.as_ref().map(|x| x.to_value()),
            Some(self.d.to_value()),
            self.l.as_ref().map(|x| x.to_value()),
        ])
    }
}
impl FromValue for Tdefaults {
    fn from_value(v: &Value) -> Self {
        let s = match v { Value::Seq(s) => s, other => panic!("Tdefaults: expected Seq, got {other:?}") };
        assert_eq!(s.len(), 5, "Tdefaults: component count");
        let _ = s;
        Tdefaults {
            i: FromValue::from_value(s[0].as_ref().expect("component i of Tdefaults must be present")),
            b: FromValue::from_value(s[1].as_ref().expect("component b of Tdefaults must be present")),
            s: FromValue::from_value(s[2].as_ref().expect("component s of Tdefaults must be present")),
            e: FromValue::from_value(s[3].as_ref().expect("component e of Tdefaults must be present")),
            u: FromValue::from_value(s[4].as_ref().expect("component u of Tdefaults must be present")),
        }
    }
}
impl ToValue for Tdefaults {
    fn to_value(&self) -> Value {
        Value::Seq(vec![
            Some(self.i.to_value()),
            Some(self.b.to_value()),
            Some(self.s.to_value()),
            Some(self.e.to_value()),
            Some(self.u.to_value()),
        ])
    }
}
impl FromValue for Tref1 { fn from_value(v: &Value) -> Self { Tref1(FromValue::from_value(v)) } }
impl ToValue for Tref1 { fn to_value(&self) -> Value { self.0.to_value() } }
impl FromValue for Tref2 { fn from_value(v: &Value) -> Self { Tref2(FromValue::from_value(v)) } }
impl ToValue for Tref2 { fn to_value(&self) -> Value { self.0.to_value() } }
impl FromValue for TinlinePick {
    fn from_value(v: &Value) -> Self {
        let (i, inner) = match v { Value::Choice(i, inner) => (*i, &**inner), other => panic!("TinlinePick: expected Choice, got {other:?}") };
        match i {
            0 => TinlinePick::I(FromValue::from_value(inner)),
            1 => TinlinePick::S(FromValue::from_value(inner)),
            _ => panic!("TinlinePick: alternative index {i} out of range"),
        }
    }
}
impl ToValue for TinlinePick {
    fn to_value(&self) -> Value {
        match self {
            TinlinePick::I(x) => Value::Choice(0, Box::new(x.to_value())),
            TinlinePick::S(x) => Value::Choice(1, Box::new(x.to_value())),
        }
    }
}
impl FromValue for TinlineEn {
    fn from_value(v: &Value) -> Self {
        match v {
            Value::Enum(0) => TinlineEn::E0,
            Value::Enum(1) => TinlineEn::E1,
            Value::Enum(2) => TinlineEn::E2,
            other => panic!("TinlineEn: bad enum value {other:?}"),
        }
    }
}
impl ToValue for TinlineEn {
    fn to_value(&self) -> Value {
        match self {
            TinlineEn::E0 => Value::Enum(0),
            TinlineEn::E1 => Value::Enum(1),
            TinlineEn::E2 => Value::Enum(2),
        }
    }
}
impl FromValue for TinlineSq {
    fn from_value(v: &Value) -> Self {
        let s = match v { Value::Seq(s) => s, other => panic!("TinlineSq: expected Seq, got {other:?}") };
        assert_eq!(s.len(), 1, "TinlineSq: component count");
        let _ = s;
        TinlineSq {
            z: FromValue::from_value(s[0].as_ref().expect("component z of TinlineSq must be present")),
        }
    }
}
impl ToValue for TinlineSq {
    fn to_value(&self) -> Value {
        Value::Seq(vec![
            Some(self.z.to_value()),
        ])
    }
}
impl FromValue for Tinline {
    fn from_value(v: &Value) -> Self {
        let s = match v { Value::Seq(s) => s, other => panic!("Tinline: expected Seq, got {other:?}") };
        assert_eq!(s.len(), 3, "Tinline: component count");
        let _ = s;
        Tinline {
            pick: FromValue::from_value(s[0].as_ref().expect("component pick of Tinline must be present")),
            en: s[1].as_ref().map(FromValue::from_value),
            sq: FromValue::from_value(s[2].as_ref().expect("component sq of Tinline must be present")),
        }
    }
}
impl ToValue for Tinline {
    fn to_value(&self) -> Value {
        Value::Seq(vec![
            Some(self.pick.to_value()),
            self.en.as_ref().map(|x| x.to_value()),
            Some(self.sq.to_value()),
        ])
    }
}
impl FromValue for Tmix {
    fn from_value(v: &Value) -> Self {
        let s = match v { Value::Seq(s) => s, other => panic!("Tmix: expected Seq, got {other:?}") };
        assert_eq!(s.len(), 4, "Tmix: component count");
        let _ = s;
        Tmix {
            o: s[0].as_ref().map(FromValue::from_value),
            b: FromValue::from_value(s[1].as_ref().expect("component b of Tmix must be present")),
            u: s[2].as_ref().map(FromValue::from_value),
            i: FromValue::from_value(s[3].as_ref().expect("component i of Tmix must be present")),
        }
    }
}
impl ToValue for Tmix {
    fn to_value(&self) -> Value {
        Value::Seq(vec![
            self.o.as_ref().map(|x| x.to_value()),
            Some(self.b.to_value()),
            self.u.as_ref().map(|x| x.to_value()),
            Some(self.i.to_value()),
        ])
    }
}

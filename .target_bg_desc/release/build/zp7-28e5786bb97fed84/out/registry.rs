#[allow(unused_imports, dead_code, non_camel_case_types, clippy::all)]
pub mod m_intq {
    use zoo_core::conv::*;
    include!(concat!(env!("OUT_DIR"), "/m_intq.rs"));
}
#[allow(unused_imports, dead_code, non_camel_case_types, clippy::all)]
pub mod m_bitq {
    use zoo_core::conv::*;
    include!(concat!(env!("OUT_DIR"), "/m_bitq.rs"));
}
#[allow(unused_imports, dead_code, non_camel_case_types, clippy::all)]
pub mod m_visq {
    use zoo_core::conv::*;
    include!(concat!(env!("OUT_DIR"), "/m_visq.rs"));
}
#[allow(unused_imports, dead_code, non_camel_case_types, clippy::all)]
pub mod m_stiq {
    use zoo_core::conv::*;
    include!(concat!(env!("OUT_DIR"), "/m_stiq.rs"));
}
#[allow(unused_imports, dead_code, non_camel_case_types, clippy::all)]
pub mod m_contq {
    use zoo_core::conv::*;
    include!(concat!(env!("OUT_DIR"), "/m_contq.rs"));
}
#[allow(unused_imports, dead_code, non_camel_case_types, clippy::all)]
pub mod m_hist {
    use zoo_core::conv::*;
    include!(concat!(env!("OUT_DIR"), "/m_hist.rs"));
}
#[allow(unused_imports, dead_code, non_camel_case_types, clippy::all)]
pub mod m_c05b0 {
    use zoo_core::conv::*;
    include!(concat!(env!("OUT_DIR"), "/m_c05b0.rs"));
}
#[allow(unused_imports, dead_code, non_camel_case_types, clippy::all)]
pub mod m_c05c0 {
    use zoo_core::conv::*;
    include!(concat!(env!("OUT_DIR"), "/m_c05c0.rs"));
}
#[allow(unused_imports, dead_code, non_camel_case_types, clippy::all)]
pub mod m_c05d0 {
    use zoo_core::conv::*;
    include!(concat!(env!("OUT_DIR"), "/m_c05d0.rs"));
}
#[allow(unused_imports, dead_code, non_camel_case_types, clippy::all)]
pub mod m_c05e0 {
    use zoo_core::conv::*;
    include!(concat!(env!("OUT_DIR"), "/m_c05e0.rs"));
}
#[allow(unused_imports, dead_code, non_camel_case_types, clippy::all)]
pub mod m_c05f3 {
    use zoo_core::conv::*;
    include!(concat!(env!("OUT_DIR"), "/m_c05f3.rs"));
}
#[allow(unused_imports, dead_code, non_camel_case_types, clippy::all)]
pub mod m_c05g3 {
    use zoo_core::conv::*;
    include!(concat!(env!("OUT_DIR"), "/m_c05g3.rs"));
}
#[allow(unused_imports, dead_code, non_camel_case_types, clippy::all)]
pub mod m_c05h3 {
    use zoo_core::conv::*;
    include!(concat!(env!("OUT_DIR"), "/m_c05h3.rs"));
}
#[allow(unused_imports, dead_code, non_camel_case_types, clippy::all)]
pub mod m_c05k0 {
    use zoo_core::conv::*;
    include!(concat!(env!("OUT_DIR"), "/m_c05k0.rs"));
}

pub fn registry() -> Vec<Entry> {
    vec![
        Entry { module_index: 0, order: 0, module_id: "intq", def: "Tiun", ops: &Ops::<m_intq::Tiun>(PhantomData) },
        Entry { module_index: 0, order: 1, module_id: "intq", def: "Til0", ops: &Ops::<m_intq::Til0>(PhantomData) },
        Entry { module_index: 0, order: 2, module_id: "intq", def: "Til2", ops: &Ops::<m_intq::Til2>(PhantomData) },
        Entry { module_index: 0, order: 3, module_id: "intq", def: "Til6", ops: &Ops::<m_intq::Til6>(PhantomData) },
        Entry { module_index: 0, order: 4, module_id: "intq", def: "Til9", ops: &Ops::<m_intq::Til9>(PhantomData) },
        Entry { module_index: 0, order: 5, module_id: "intq", def: "Til13", ops: &Ops::<m_intq::Til13>(PhantomData) },
        Entry { module_index: 0, order: 6, module_id: "intq", def: "Til14", ops: &Ops::<m_intq::Til14>(PhantomData) },
        Entry { module_index: 0, order: 7, module_id: "intq", def: "Til16", ops: &Ops::<m_intq::Til16>(PhantomData) },
        Entry { module_index: 0, order: 8, module_id: "intq", def: "Til18", ops: &Ops::<m_intq::Til18>(PhantomData) },
        Entry { module_index: 0, order: 9, module_id: "intq", def: "Til21", ops: &Ops::<m_intq::Til21>(PhantomData) },
        Entry { module_index: 0, order: 10, module_id: "intq", def: "Tis0", ops: &Ops::<m_intq::Tis0>(PhantomData) },
        Entry { module_index: 0, order: 11, module_id: "intq", def: "Tis1", ops: &Ops::<m_intq::Tis1>(PhantomData) },
        Entry { module_index: 0, order: 12, module_id: "intq", def: "Tis3", ops: &Ops::<m_intq::Tis3>(PhantomData) },
        Entry { module_index: 0, order: 13, module_id: "intq", def: "Tix0", ops: &Ops::<m_intq::Tix0>(PhantomData) },
        Entry { module_index: 0, order: 14, module_id: "intq", def: "Tix1", ops: &Ops::<m_intq::Tix1>(PhantomData) },
        Entry { module_index: 0, order: 15, module_id: "intq", def: "Tix2", ops: &Ops::<m_intq::Tix2>(PhantomData) },
        Entry { module_index: 0, order: 16, module_id: "intq", def: "Ten2", ops: &Ops::<m_intq::Ten2>(PhantomData) },
        Entry { module_index: 0, order: 17, module_id: "intq", def: "Ten5", ops: &Ops::<m_intq::Ten5>(PhantomData) },
        Entry { module_index: 0, order: 18, module_id: "intq", def: "Tex1", ops: &Ops::<m_intq::Tex1>(PhantomData) },
        Entry { module_index: 0, order: 19, module_id: "intq", def: "Tenum", ops: &Ops::<m_intq::Tenum>(PhantomData) },
        Entry { module_index: 0, order: 20, module_id: "intq", def: "Tbool", ops: &Ops::<m_intq::Tbool>(PhantomData) },
        Entry { module_index: 0, order: 21, module_id: "intq", def: "Tnull", ops: &Ops::<m_intq::Tnull>(PhantomData) },
        Entry { module_index: 4, order: 0, module_id: "bitq", def: "Tbitany", ops: &Ops::<m_bitq::Tbitany>(PhantomData) },
        Entry { module_index: 4, order: 1, module_id: "bitq", def: "Tbitf1", ops: &Ops::<m_bitq::Tbitf1>(PhantomData) },
        Entry { module_index: 4, order: 2, module_id: "bitq", def: "Tbitf3", ops: &Ops::<m_bitq::Tbitf3>(PhantomData) },
        Entry { module_index: 4, order: 3, module_id: "bitq", def: "Tbitr1to4", ops: &Ops::<m_bitq::Tbitr1to4>(PhantomData) },
        Entry { module_index: 4, order: 4, module_id: "bitq", def: "Tbitr4to6", ops: &Ops::<m_bitq::Tbitr4to6>(PhantomData) },
        Entry { module_index: 4, order: 5, module_id: "bitq", def: "Tbitr1to70000", ops: &Ops::<m_bitq::Tbitr1to70000>(PhantomData) },
        Entry { module_index: 4, order: 6, module_id: "bitq", def: "Tbitr2tomax", ops: &Ops::<m_bitq::Tbitr2tomax>(PhantomData) },
        Entry { module_index: 4, order: 7, module_id: "bitq", def: "Tbitf3x", ops: &Ops::<m_bitq::Tbitf3x>(PhantomData) },
        Entry { module_index: 4, order: 8, module_id: "bitq", def: "Tbitr1to4x", ops: &Ops::<m_bitq::Tbitr1to4x>(PhantomData) },
        Entry { module_index: 12, order: 0, module_id: "visq", def: "Tvisany", ops: &Ops::<m_visq::Tvisany>(PhantomData) },
        Entry { module_index: 12, order: 1, module_id: "visq", def: "Tvisf1", ops: &Ops::<m_visq::Tvisf1>(PhantomData) },
        Entry { module_index: 12, order: 2, module_id: "visq", def: "Tvisf3", ops: &Ops::<m_visq::Tvisf3>(PhantomData) },
        Entry { module_index: 12, order: 3, module_id: "visq", def: "Tvisr1to4", ops: &Ops::<m_visq::Tvisr1to4>(PhantomData) },
        Entry { module_index: 12, order: 4, module_id: "visq", def: "Tvisr4to6", ops: &Ops::<m_visq::Tvisr4to6>(PhantomData) },
        Entry { module_index: 12, order: 5, module_id: "visq", def: "Tvisr1to70000", ops: &Ops::<m_visq::Tvisr1to70000>(PhantomData) },
        Entry { module_index: 12, order: 6, module_id: "visq", def: "Tvisr2tomax", ops: &Ops::<m_visq::Tvisr2tomax>(PhantomData) },
        Entry { module_index: 12, order: 7, module_id: "visq", def: "Tvisf3x", ops: &Ops::<m_visq::Tvisf3x>(PhantomData) },
        Entry { module_index: 12, order: 8, module_id: "visq", def: "Tvisr1to4x", ops: &Ops::<m_visq::Tvisr1to4x>(PhantomData) },
        Entry { module_index: 20, order: 0, module_id: "stiq", def: "Tstiany", ops: &Ops::<m_stiq::Tstiany>(PhantomData) },
        Entry { module_index: 20, order: 1, module_id: "stiq", def: "Tstif1", ops: &Ops::<m_stiq::Tstif1>(PhantomData) },
        Entry { module_index: 20, order: 2, module_id: "stiq", def: "Tstif3", ops: &Ops::<m_stiq::Tstif3>(PhantomData) },
        Entry { module_index: 20, order: 3, module_id: "stiq", def: "Tstir1to4", ops: &Ops::<m_stiq::Tstir1to4>(PhantomData) },
        Entry { module_index: 20, order: 4, module_id: "stiq", def: "Tstir4to6", ops: &Ops::<m_stiq::Tstir4to6>(PhantomData) },
        Entry { module_index: 20, order: 5, module_id: "stiq", def: "Tstir1to70000", ops: &Ops::<m_stiq::Tstir1to70000>(PhantomData) },
        Entry { module_index: 20, order: 6, module_id: "stiq", def: "Tstir2tomax", ops: &Ops::<m_stiq::Tstir2tomax>(PhantomData) },
        Entry { module_index: 20, order: 7, module_id: "stiq", def: "Tstif3x", ops: &Ops::<m_stiq::Tstif3x>(PhantomData) },
        Entry { module_index: 20, order: 8, module_id: "stiq", def: "Tstir1to4x", ops: &Ops::<m_stiq::Tstir1to4x>(PhantomData) },
        Entry { module_index: 51, order: 0, module_id: "contq", def: "Tinner", ops: &Ops::<m_contq::Tinner>(PhantomData) },
        Entry { module_index: 51, order: 1, module_id: "contq", def: "Tenum", ops: &Ops::<m_contq::Tenum>(PhantomData) },
        Entry { module_index: 51, order: 2, module_id: "contq", def: "Tsoseq", ops: &Ops::<m_contq::Tsoseq>(PhantomData) },
        Entry { module_index: 51, order: 3, module_id: "contq", def: "Tsoso", ops: &Ops::<m_contq::Tsoso>(PhantomData) },
        Entry { module_index: 51, order: 4, module_id: "contq", def: "Tsooct", ops: &Ops::<m_contq::Tsooct>(PhantomData) },
        Entry { module_index: 51, order: 5, module_id: "contq", def: "Tsoenum", ops: &Ops::<m_contq::Tsoenum>(PhantomData) },
        Entry { module_index: 51, order: 6, module_id: "contq", def: "Tsoia5", ops: &Ops::<m_contq::Tsoia5>(PhantomData) },
        Entry { module_index: 51, order: 7, module_id: "contq", def: "Tch2", ops: &Ops::<m_contq::Tch2>(PhantomData) },
        Entry { module_index: 51, order: 8, module_id: "contq", def: "Tch2x1", ops: &Ops::<m_contq::Tch2x1>(PhantomData) },
        Entry { module_index: 51, order: 9, module_id: "contq", def: "Tchdesc", ops: &Ops::<m_contq::Tchdesc>(PhantomData) },
        Entry { module_index: 51, order: 10, module_id: "contq", def: "Tchch", ops: &Ops::<m_contq::Tchch>(PhantomData) },
        Entry { module_index: 51, order: 11, module_id: "contq", def: "Tnest", ops: &Ops::<m_contq::Tnest>(PhantomData) },
        Entry { module_index: 51, order: 12, module_id: "contq", def: "Taddkinds", ops: &Ops::<m_contq::Taddkinds>(PhantomData) },
        Entry { module_index: 51, order: 13, module_id: "contq", def: "Tdefaults", ops: &Ops::<m_contq::Tdefaults>(PhantomData) },
        Entry { module_index: 51, order: 14, module_id: "contq", def: "Tref1", ops: &Ops::<m_contq::Tref1>(PhantomData) },
        Entry { module_index: 51, order: 15, module_id: "contq", def: "Tref2", ops: &Ops::<m_contq::Tref2>(PhantomData) },
        Entry { module_index: 51, order: 16, module_id: "contq", def: "Tinline", ops: &Ops::<m_contq::Tinline>(PhantomData) },
        Entry { module_index: 51, order: 17, module_id: "contq", def: "Tmix", ops: &Ops::<m_contq::Tmix>(PhantomData) },
        Entry { module_index: 53, order: 0, module_id: "hist", def: "Tbool", ops: &Ops::<m_hist::Tbool>(PhantomData) },
        Entry { module_index: 53, order: 1, module_id: "hist", def: "Tint3", ops: &Ops::<m_hist::Tint3>(PhantomData) },
        Entry { module_index: 53, order: 2, module_id: "hist", def: "Tenumx", ops: &Ops::<m_hist::Tenumx>(PhantomData) },
        Entry { module_index: 53, order: 3, module_id: "hist", def: "Tbits13", ops: &Ops::<m_hist::Tbits13>(PhantomData) },
        Entry { module_index: 53, order: 4, module_id: "hist", def: "Tnull", ops: &Ops::<m_hist::Tnull>(PhantomData) },
        Entry { module_index: 53, order: 5, module_id: "hist", def: "Tintun", ops: &Ops::<m_hist::Tintun>(PhantomData) },
        Entry { module_index: 53, order: 6, module_id: "hist", def: "Tia5f5", ops: &Ops::<m_hist::Tia5f5>(PhantomData) },
        Entry { module_index: 53, order: 7, module_id: "hist", def: "Tutf8", ops: &Ops::<m_hist::Tutf8>(PhantomData) },
        Entry { module_index: 53, order: 8, module_id: "hist", def: "Tsobool", ops: &Ops::<m_hist::Tsobool>(PhantomData) },
        Entry { module_index: 53, order: 9, module_id: "hist", def: "Tseqx", ops: &Ops::<m_hist::Tseqx>(PhantomData) },
        Entry { module_index: 53, order: 10, module_id: "hist", def: "Tchx", ops: &Ops::<m_hist::Tchx>(PhantomData) },
        Entry { module_index: 53, order: 11, module_id: "hist", def: "Toct", ops: &Ops::<m_hist::Toct>(PhantomData) },
        Entry { module_index: 63, order: 0, module_id: "c05b0", def: "Tsent", ops: &Ops::<m_c05b0::Tsent>(PhantomData) },
        Entry { module_index: 63, order: 1, module_id: "c05b0", def: "Tmsg", ops: &Ops::<m_c05b0::Tmsg>(PhantomData) },
        Entry { module_index: 72, order: 0, module_id: "c05c0", def: "Tsent", ops: &Ops::<m_c05c0::Tsent>(PhantomData) },
        Entry { module_index: 72, order: 1, module_id: "c05c0", def: "Tmsg", ops: &Ops::<m_c05c0::Tmsg>(PhantomData) },
        Entry { module_index: 77, order: 0, module_id: "c05d0", def: "Tsent", ops: &Ops::<m_c05d0::Tsent>(PhantomData) },
        Entry { module_index: 77, order: 1, module_id: "c05d0", def: "Tmsg", ops: &Ops::<m_c05d0::Tmsg>(PhantomData) },
        Entry { module_index: 82, order: 0, module_id: "c05e0", def: "Tsent", ops: &Ops::<m_c05e0::Tsent>(PhantomData) },
        Entry { module_index: 82, order: 1, module_id: "c05e0", def: "Tmsg", ops: &Ops::<m_c05e0::Tmsg>(PhantomData) },
        Entry { module_index: 90, order: 0, module_id: "c05f3", def: "Tsent", ops: &Ops::<m_c05f3::Tsent>(PhantomData) },
        Entry { module_index: 90, order: 1, module_id: "c05f3", def: "Tinner", ops: &Ops::<m_c05f3::Tinner>(PhantomData) },
        Entry { module_index: 90, order: 2, module_id: "c05f3", def: "Tmsg", ops: &Ops::<m_c05f3::Tmsg>(PhantomData) },
        Entry { module_index: 95, order: 0, module_id: "c05g3", def: "Tsent", ops: &Ops::<m_c05g3::Tsent>(PhantomData) },
        Entry { module_index: 95, order: 1, module_id: "c05g3", def: "Tinner", ops: &Ops::<m_c05g3::Tinner>(PhantomData) },
        Entry { module_index: 95, order: 2, module_id: "c05g3", def: "Tmsg", ops: &Ops::<m_c05g3::Tmsg>(PhantomData) },
        Entry { module_index: 99, order: 0, module_id: "c05h3", def: "Tsent", ops: &Ops::<m_c05h3::Tsent>(PhantomData) },
        Entry { module_index: 99, order: 1, module_id: "c05h3", def: "Tinner", ops: &Ops::<m_c05h3::Tinner>(PhantomData) },
        Entry { module_index: 99, order: 2, module_id: "c05h3", def: "Tmsg", ops: &Ops::<m_c05h3::Tmsg>(PhantomData) },
        Entry { module_index: 100, order: 0, module_id: "c05k0", def: "Tsent", ops: &Ops::<m_c05k0::Tsent>(PhantomData) },
        Entry { module_index: 100, order: 1, module_id: "c05k0", def: "Tmsg", ops: &Ops::<m_c05k0::Tmsg>(PhantomData) },
    ]
}
pub const ZOO_TYPES: usize = 98;
pub const ZOO_REJECTED_JSON: &str = "[]";

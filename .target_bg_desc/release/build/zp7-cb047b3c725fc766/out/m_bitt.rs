use asn1rs::prelude::*;

#[asn(transparent)]

#[derive(Default, Debug, Clone, PartialEq, Hash)]
pub struct Tbitf0(#[asn(bit_string(size(0)))] pub BitVec);

impl Tbitf0 {
}

impl Tbitf0 {
    pub const fn new(value: BitVec) -> Self {
        Self(value)
    }
}

impl ::core::ops::Deref for Tbitf0 {
    type Target = BitVec;

    fn deref(&self) -> &BitVec {
        &self.0
    }
}

impl ::core::ops::DerefMut for Tbitf0 {
    fn deref_mut(&mut self) -> &mut BitVec {
        &mut self.0
    }
}

impl ::core::convert::From<BitVec> for Tbitf0 {
    fn from(value: BitVec) -> Self {
        Self(value)
    }
}

impl ::core::convert::From<Tbitf0> for BitVec {
    fn from(value: Tbitf0) -> Self {
        value.0
    }
}

#[asn(transparent)]

#[derive(Default, Debug, Clone, PartialEq, Hash)]
pub struct Tbitf2(#[asn(bit_string(size(2)))] pub BitVec);

impl Tbitf2 {
}

impl Tbitf2 {
    pub const fn new(value: BitVec) -> Self {
        Self(value)
    }
}

impl ::core::ops::Deref for Tbitf2 {
    type Target = BitVec;

    fn deref(&self) -> &BitVec {
        &self.0
    }
}

impl ::core::ops::DerefMut for Tbitf2 {
    fn deref_mut(&mut self) -> &mut BitVec {
        &mut self.0
    }
}

impl ::core::convert::From<BitVec> for Tbitf2 {
    fn from(value: BitVec) -> Self {
        Self(value)
    }
}

impl ::core::convert::From<Tbitf2> for BitVec {
    fn from(value: Tbitf2) -> Self {
        value.0
    }
}

#[asn(transparent)]

#[derive(Default, Debug, Clone, PartialEq, Hash)]
pub struct Tbitf17(#[asn(bit_string(size(17)))] pub BitVec);

impl Tbitf17 {
}

impl Tbitf17 {
    pub const fn new(value: BitVec) -> Self {
        Self(value)
    }
}

impl ::core::ops::Deref for Tbitf17 {
    type Target = BitVec;

    fn deref(&self) -> &BitVec {
        &self.0
    }
}

impl ::core::ops::DerefMut for Tbitf17 {
    fn deref_mut(&mut self) -> &mut BitVec {
        &mut self.0
    }
}

impl ::core::convert::From<BitVec> for Tbitf17 {
    fn from(value: BitVec) -> Self {
        Self(value)
    }
}

impl ::core::convert::From<Tbitf17> for BitVec {
    fn from(value: Tbitf17) -> Self {
        value.0
    }
}

#[asn(transparent)]

#[derive(Default, Debug, Clone, PartialEq, Hash)]
pub struct Tbitr0to1(#[asn(bit_string(size(0..1)))] pub BitVec);

impl Tbitr0to1 {
}

impl Tbitr0to1 {
    pub const fn new(value: BitVec) -> Self {
        Self(value)
    }
}

impl ::core::ops::Deref for Tbitr0to1 {
    type Target = BitVec;

    fn deref(&self) -> &BitVec {
        &self.0
    }
}

impl ::core::ops::DerefMut for Tbitr0to1 {
    fn deref_mut(&mut self) -> &mut BitVec {
        &mut self.0
    }
}

impl ::core::convert::From<BitVec> for Tbitr0to1 {
    fn from(value: BitVec) -> Self {
        Self(value)
    }
}

impl ::core::convert::From<Tbitr0to1> for BitVec {
    fn from(value: Tbitr0to1) -> Self {
        value.0
    }
}

#[asn(transparent)]

#[derive(Default, Debug, Clone, PartialEq, Hash)]
pub struct Tbitr0to255(#[asn(bit_string(size(0..255)))] pub BitVec);

impl Tbitr0to255 {
}

impl Tbitr0to255 {
    pub const fn new(value: BitVec) -> Self {
        Self(value)
    }
}

impl ::core::ops::Deref for Tbitr0to255 {
    type Target = BitVec;

    fn deref(&self) -> &BitVec {
        &self.0
    }
}

impl ::core::ops::DerefMut for Tbitr0to255 {
    fn deref_mut(&mut self) -> &mut BitVec {
        &mut self.0
    }
}

impl ::core::convert::From<BitVec> for Tbitr0to255 {
    fn from(value: BitVec) -> Self {
        Self(value)
    }
}

impl ::core::convert::From<Tbitr0to255> for BitVec {
    fn from(value: Tbitr0to255) -> Self {
        value.0
    }
}

#[asn(transparent)]

#[derive(Default, Debug, Clone, PartialEq, Hash)]
pub struct Tbitr0to256(#[asn(bit_string(size(0..256)))] pub BitVec);

impl Tbitr0to256 {
}

impl Tbitr0to256 {
    pub const fn new(value: BitVec) -> Self {
        Self(value)
    }
}

impl ::core::ops::Deref for Tbitr0to256 {
    type Target = BitVec;

    fn deref(&self) -> &BitVec {
        &self.0
    }
}

impl ::core::ops::DerefMut for Tbitr0to256 {
    fn deref_mut(&mut self) -> &mut BitVec {
        &mut self.0
    }
}

impl ::core::convert::From<BitVec> for Tbitr0to256 {
    fn from(value: BitVec) -> Self {
        Self(value)
    }
}

impl ::core::convert::From<Tbitr0to256> for BitVec {
    fn from(value: Tbitr0to256) -> Self {
        value.0
    }
}

#[asn(transparent)]

#[derive(Default, Debug, Clone, PartialEq, Hash)]
pub struct Tbitr1to65535(#[asn(bit_string(size(1..65535)))] pub BitVec);

impl Tbitr1to65535 {
}

impl Tbitr1to65535 {
    pub const fn new(value: BitVec) -> Self {
        Self(value)
    }
}

impl ::core::ops::Deref for Tbitr1to65535 {
    type Target = BitVec;

    fn deref(&self) -> &BitVec {
        &self.0
    }
}

impl ::core::ops::DerefMut for Tbitr1to65535 {
    fn deref_mut(&mut self) -> &mut BitVec {
        &mut self.0
    }
}

impl ::core::convert::From<BitVec> for Tbitr1to65535 {
    fn from(value: BitVec) -> Self {
        Self(value)
    }
}

impl ::core::convert::From<Tbitr1to65535> for BitVec {
    fn from(value: Tbitr1to65535) -> Self {
        value.0
    }
}

#[asn(transparent)]

#[derive(Default, Debug, Clone, PartialEq, Hash)]
pub struct Tbitr1to65536(#[asn(bit_string(size(1..65536)))] pub BitVec);

impl Tbitr1to65536 {
}

impl Tbitr1to65536 {
    pub const fn new(value: BitVec) -> Self {
        Self(value)
    }
}

impl ::core::ops::Deref for Tbitr1to65536 {
    type Target = BitVec;

    fn deref(&self) -> &BitVec {
        &self.0
    }
}

impl ::core::ops::DerefMut for Tbitr1to65536 {
    fn deref_mut(&mut self) -> &mut BitVec {
        &mut self.0
    }
}

impl ::core::convert::From<BitVec> for Tbitr1to65536 {
    fn from(value: BitVec) -> Self {
        Self(value)
    }
}

impl ::core::convert::From<Tbitr1to65536> for BitVec {
    fn from(value: Tbitr1to65536) -> Self {
        value.0
    }
}

#[asn(transparent)]

#[derive(Default, Debug, Clone, PartialEq, Hash)]
pub struct Tbitr0to65535x(#[asn(bit_string(size(0..65535,...)))] pub BitVec);

impl Tbitr0to65535x {
}

impl Tbitr0to65535x {
    pub const fn new(value: BitVec) -> Self {
        Self(value)
    }
}

impl ::core::ops::Deref for Tbitr0to65535x {
    type Target = BitVec;

    fn deref(&self) -> &BitVec {
        &self.0
    }
}

impl ::core::ops::DerefMut for Tbitr0to65535x {
    fn deref_mut(&mut self) -> &mut BitVec {
        &mut self.0
    }
}

impl ::core::convert::From<BitVec> for Tbitr0to65535x {
    fn from(value: BitVec) -> Self {
        Self(value)
    }
}

impl ::core::convert::From<Tbitr0to65535x> for BitVec {
    fn from(value: Tbitr0to65535x) -> Self {
        value.0
    }
}
// ---- harness conversions (generated by the zoo build script from the items above) ----
impl FromValue for Tbitf0 { fn from_value(v: &Value) -> Self { Tbitf0(FromValue::from_value(v)) } }
impl ToValue for Tbitf0 { fn to_value(&self) -> Value { self.0.to_value() } }
impl FromValue for Tbitf2 { fn from_value(v: &Value) -> Self { Tbitf2(FromValue::from_value(v)) } }
impl ToValue for Tbitf2 { fn to_value(&self) -> Value { self.0.to_value() } }
impl FromValue for Tbitf17 { fn from_value(v: &Value) -> Self { Tbitf17(FromValue::from_value(v)) } }
impl ToValue for Tbitf17 { fn to_value(&self) -> Value { self.0.to_value() } }
impl FromValue for Tbitr0to1 { fn from_value(v: &Value) -> Self { Tbitr0to1(FromValue::from_value(v)) } }
impl ToValue for Tbitr0to1 { fn to_value(&self) -> Value { self.0.to_value() } }
impl FromValue for Tbitr0to255 { fn from_value(v: &Value) -> Self { Tbitr0to255(FromValue::from_value(v)) } }
impl ToValue for Tbitr0to255 { fn to_value(&self) -> Value { self.0.to_value() } }
impl FromValue for Tbitr0to256 { fn from_value(v: &Value) -> Self { Tbitr0to256(FromValue::from_value(v)) } }
impl ToValue for Tbitr0to256 { fn to_value(&self) -> Value { self.0.to_value() } }
impl FromValue for Tbitr1to65535 { fn from_value(v: &Value) -> Self { Tbitr1to65535(FromValue::from_value(v)) } }
impl ToValue for Tbitr1to65535 { fn to_value(&self) -> Value { self.0.to_value() } }
impl FromValue for Tbitr1to65536 { fn from_value(v: &Value) -> Self { Tbitr1to65536(FromValue::from_value(v)) } }
impl ToValue for Tbitr1to65536 { fn to_value(&self) -> Value { self.0.to_value() } }
impl FromValue for Tbitr0to65535x { fn from_value(v: &Value) -> Self { Tbitr0to65535x(FromValue::from_value(v)) } }
impl ToValue for Tbitr0to65535x { fn to_value(&self) -> Value { self.0.to_value() } }

use asn1rs::prelude::*;

#[asn(transparent, tag(APPLICATION(9)))]

#[derive(Default, Debug, Clone, PartialEq, Hash)]
pub struct Tapp9(#[asn(integer(0..3))] pub u8);

impl Tapp9 {
    pub const fn value_min() -> u8 {
        0
    }

    pub const fn value_max() -> u8 {
        3
    }
}

impl Tapp9 {
    pub const fn new(value: u8) -> Self {
        Self(value)
    }
}

impl ::core::ops::Deref for Tapp9 {
    type Target = u8;

    fn deref(&self) -> &u8 {
        &self.0
    }
}

impl ::core::ops::DerefMut for Tapp9 {
    fn deref_mut(&mut self) -> &mut u8 {
        &mut self.0
    }
}

impl ::core::convert::From<u8> for Tapp9 {
    fn from(value: u8) -> Self {
        Self(value)
    }
}

impl ::core::convert::From<Tapp9> for u8 {
    fn from(value: Tapp9) -> Self {
        value.0
    }
}

#[asn(sequence)]

#[derive(Default, Debug, Clone, PartialEq, Hash)]
pub struct Tsq {
    #[asn(boolean)] pub z: bool,
}

impl Tsq {
}

#[asn(choice)]

#[derive(Debug, Clone, PartialEq, Hash)]
pub enum Tcho {
    #[asn(boolean, tag(4))] M(bool),
    #[asn(integer(0..7), tag(1))] N(u8),
}

impl Tcho {
    pub fn variants() -> [Self; 2] {
        [
        Tcho::M(Default::default()),
        Tcho::N(Default::default()),
        ]
    }

    pub fn value_index(&self) -> usize {
        match self {
            Tcho::M(_) => 0,
            Tcho::N(_) => 1,
        }
    }

    pub const fn n_min() -> u8 {
        0
    }

    pub const fn n_max() -> u8 {
        7
    }
}

impl Default for Tcho {
    fn default() -> Tcho {
        Tcho::M(Default::default())
    }
}

#[asn(choice, extensible_after(N))]

#[derive(Debug, Clone, PartialEq, Hash)]
pub enum Tchox {
    #[asn(boolean, tag(PRIVATE(1)))] M(bool),
    #[asn(integer(0..7), tag(PRIVATE(3)))] N(u8),
    #[asn(null, tag(APPLICATION(2)))] O(Null),
}

impl Tchox {
    pub fn variants() -> [Self; 3] {
        [
        Tchox::M(Default::default()),
        Tchox::N(Default::default()),
        Tchox::O(Default::default()),
        ]
    }

    pub fn value_index(&self) -> usize {
        match self {
            Tchox::M(_) => 0,
            Tchox::N(_) => 1,
            Tchox::O(_) => 2,
        }
    }

    pub const fn n_min() -> u8 {
        0
    }

    pub const fn n_max() -> u8 {
        7
    }
}

impl Default for Tchox {
    fn default() -> Tchox {
        Tchox::M(Default::default())
    }
}

#[asn(set)]

#[derive(Default, Debug, Clone, PartialEq, Hash)]
pub struct Tst {
    #[asn(boolean)] pub z: bool,
}

impl Tst {
}

#[asn(set)]

#[derive(Default, Debug, Clone, PartialEq, Hash)]
pub struct Ttp6p4p5 {
    #[asn(integer(0..255))] pub i: u8,
    #[asn(integer(0..127), tag(PRIVATE(2)))] pub p: u8,
    #[asn(optional(boolean))] pub b: Option<bool>,
}

impl Ttp6p4p5 {
    pub const fn i_min() -> u8 {
        0
    }

    pub const fn i_max() -> u8 {
        255
    }

    pub const fn p_min() -> u8 {
        0
    }

    pub const fn p_max() -> u8 {
        127
    }
}

#[asn(set)]

#[derive(Default, Debug, Clone, PartialEq, Hash)]
pub struct Ttp6p4p7 {
    #[asn(integer(0..255))] pub i: u8,
    #[asn(integer(0..127), tag(PRIVATE(2)))] pub p: u8,
    #[asn(optional(complex(Tapp9, tag(APPLICATION(9)))))] pub ra: Option<Tapp9>,
}

impl Ttp6p4p7 {
    pub const fn i_min() -> u8 {
        0
    }

    pub const fn i_max() -> u8 {
        255
    }

    pub const fn p_min() -> u8 {
        0
    }

    pub const fn p_max() -> u8 {
        127
    }
}

#[asn(set)]

#[derive(Default, Debug, Clone, PartialEq, Hash)]
pub struct Ttp6p4p8 {
    #[asn(integer(0..255))] pub i: u8,
    #[asn(integer(0..127), tag(PRIVATE(2)))] pub p: u8,
    #[asn(complex(Tsq, tag(UNIVERSAL(16))))] pub rs: Tsq,
}

impl Ttp6p4p8 {
    pub const fn i_min() -> u8 {
        0
    }

    pub const fn i_max() -> u8 {
        255
    }

    pub const fn p_min() -> u8 {
        0
    }

    pub const fn p_max() -> u8 {
        127
    }
}

#[asn(set)]

#[derive(Default, Debug, Clone, PartialEq, Hash)]
pub struct Ttp6p4p9 {
    #[asn(integer(0..255))] pub i: u8,
    #[asn(integer(0..127), tag(PRIVATE(2)))] pub p: u8,
    #[asn(optional(complex(Tcho, tag(1))))] pub rc: Option<Tcho>,
}

impl Ttp6p4p9 {
    pub const fn i_min() -> u8 {
        0
    }

    pub const fn i_max() -> u8 {
        255
    }

    pub const fn p_min() -> u8 {
        0
    }

    pub const fn p_max() -> u8 {
        127
    }
}

#[asn(set)]

#[derive(Default, Debug, Clone, PartialEq, Hash)]
pub struct Ttp6p4p10 {
    #[asn(integer(0..255))] pub i: u8,
    #[asn(integer(0..127), tag(PRIVATE(2)))] pub p: u8,
    #[asn(complex(Tst, tag(UNIVERSAL(17))))] pub rt: Tst,
}

impl Ttp6p4p10 {
    pub const fn i_min() -> u8 {
        0
    }

    pub const fn i_max() -> u8 {
        255
    }

    pub const fn p_min() -> u8 {
        0
    }

    pub const fn p_max() -> u8 {
        127
    }
}

#[asn(set)]

#[derive(Default, Debug, Clone, PartialEq, Hash)]
pub struct Ttp6p4p11 {
    #[asn(integer(0..255))] pub i: u8,
    #[asn(integer(0..127), tag(PRIVATE(2)))] pub p: u8,
    #[asn(optional(sequence_of(size(0..3), boolean)))] pub so: Option<Vec<bool>>,
}

impl Ttp6p4p11 {
    pub const fn i_min() -> u8 {
        0
    }

    pub const fn i_max() -> u8 {
        255
    }

    pub const fn p_min() -> u8 {
        0
    }

    pub const fn p_max() -> u8 {
        127
    }
}

#[asn(set)]

#[derive(Default, Debug, Clone, PartialEq, Hash)]
pub struct Ttp6p4p12 {
    #[asn(integer(0..255))] pub i: u8,
    #[asn(integer(0..127), tag(PRIVATE(2)))] pub p: u8,
    #[asn(set_of(size(0..2), boolean))] pub st: Vec<bool>,
}

impl Ttp6p4p12 {
    pub const fn i_min() -> u8 {
        0
    }

    pub const fn i_max() -> u8 {
        255
    }

    pub const fn p_min() -> u8 {
        0
    }

    pub const fn p_max() -> u8 {
        127
    }
}

#[asn(set)]

#[derive(Default, Debug, Clone, PartialEq, Hash)]
pub struct Ttp6p4p13 {
    #[asn(integer(0..255))] pub i: u8,
    #[asn(integer(0..127), tag(PRIVATE(2)))] pub p: u8,
    #[asn(optional(complex(Tchox, tag(PRIVATE(1)))))] pub rx: Option<Tchox>,
}

impl Ttp6p4p13 {
    pub const fn i_min() -> u8 {
        0
    }

    pub const fn i_max() -> u8 {
        255
    }

    pub const fn p_min() -> u8 {
        0
    }

    pub const fn p_max() -> u8 {
        127
    }
}

#[asn(set)]

#[derive(Default, Debug, Clone, PartialEq, Hash)]
pub struct Ttp6p4p14 {
    #[asn(integer(0..255))] pub i: u8,
    #[asn(integer(0..127), tag(PRIVATE(2)))] pub p: u8,
    #[asn(integer(0..1), tag(UNIVERSAL(2)))] pub u2: u8,
}

impl Ttp6p4p14 {
    pub const fn i_min() -> u8 {
        0
    }

    pub const fn i_max() -> u8 {
        255
    }

    pub const fn p_min() -> u8 {
        0
    }

    pub const fn p_max() -> u8 {
        127
    }

    pub const fn u2_min() -> u8 {
        0
    }

    pub const fn u2_max() -> u8 {
        1
    }
}

#[asn(sequence, tag(APPLICATION(5)))]

#[derive(Default, Debug, Clone, PartialEq, Hash)]
pub struct Ttp6p4p15Is {
    #[asn(integer(0..3))] pub v: u8,
}

impl Ttp6p4p15Is {
    pub const fn v_min() -> u8 {
        0
    }

    pub const fn v_max() -> u8 {
        3
    }
}

#[asn(set)]

#[derive(Default, Debug, Clone, PartialEq, Hash)]
pub struct Ttp6p4p15 {
    #[asn(integer(0..255))] pub i: u8,
    #[asn(integer(0..127), tag(PRIVATE(2)))] pub p: u8,
    #[asn(optional(complex(Ttp6p4p15Is, tag(APPLICATION(5)))), tag(APPLICATION(5)))] pub is: Option<Ttp6p4p15Is>,
}

impl Ttp6p4p15 {
    pub const fn i_min() -> u8 {
        0
    }

    pub const fn i_max() -> u8 {
        255
    }

    pub const fn p_min() -> u8 {
        0
    }

    pub const fn p_max() -> u8 {
        127
    }
}

#[asn(set)]

#[derive(Default, Debug, Clone, PartialEq, Hash)]
pub struct Ttp6p5p0 {
    #[asn(integer(0..255))] pub i: u8,
    #[asn(optional(boolean))] pub b: Option<bool>,
    #[asn(integer(0..7), tag(UNIVERSAL(30)))] pub x: u8,
}

impl Ttp6p5p0 {
    pub const fn i_min() -> u8 {
        0
    }

    pub const fn i_max() -> u8 {
        255
    }

    pub const fn x_min() -> u8 {
        0
    }

    pub const fn x_max() -> u8 {
        7
    }
}

#[asn(set)]

#[derive(Default, Debug, Clone, PartialEq, Hash)]
pub struct Ttp6p5p1 {
    #[asn(integer(0..255))] pub i: u8,
    #[asn(optional(boolean))] pub b: Option<bool>,
    #[asn(optional(integer(0..15)), tag(APPLICATION(1)))] pub a: Option<u8>,
}

impl Ttp6p5p1 {
    pub const fn i_min() -> u8 {
        0
    }

    pub const fn i_max() -> u8 {
        255
    }

    pub const fn a_min() -> u8 {
        0
    }

    pub const fn a_max() -> u8 {
        15
    }
}

#[asn(set)]

#[derive(Default, Debug, Clone, PartialEq, Hash)]
pub struct Ttp6p5p2 {
    #[asn(integer(0..255))] pub i: u8,
    #[asn(optional(boolean))] pub b: Option<bool>,
    #[asn(integer(0..31), tag(3))] pub c3: u8,
}

impl Ttp6p5p2 {
    pub const fn i_min() -> u8 {
        0
    }

    pub const fn i_max() -> u8 {
        255
    }

    pub const fn c3_min() -> u8 {
        0
    }

    pub const fn c3_max() -> u8 {
        31
    }
}

#[asn(set)]

#[derive(Default, Debug, Clone, PartialEq, Hash)]
pub struct Ttp6p5p3 {
    #[asn(integer(0..255))] pub i: u8,
    #[asn(optional(boolean))] pub b: Option<bool>,
    #[asn(optional(integer(0..63)), tag(0))] pub c0: Option<u8>,
}

impl Ttp6p5p3 {
    pub const fn i_min() -> u8 {
        0
    }

    pub const fn i_max() -> u8 {
        255
    }

    pub const fn c0_min() -> u8 {
        0
    }

    pub const fn c0_max() -> u8 {
        63
    }
}

#[asn(set)]

#[derive(Default, Debug, Clone, PartialEq, Hash)]
pub struct Ttp6p5p4 {
    #[asn(integer(0..255))] pub i: u8,
    #[asn(optional(boolean))] pub b: Option<bool>,
    #[asn(integer(0..127), tag(PRIVATE(2)))] pub p: u8,
}

impl Ttp6p5p4 {
    pub const fn i_min() -> u8 {
        0
    }

    pub const fn i_max() -> u8 {
        255
    }

    pub const fn p_min() -> u8 {
        0
    }

    pub const fn p_max() -> u8 {
        127
    }
}

#[asn(set)]

#[derive(Default, Debug, Clone, PartialEq, Hash)]
pub struct Ttp6p5p7 {
    #[asn(integer(0..255))] pub i: u8,
    #[asn(optional(boolean))] pub b: Option<bool>,
    #[asn(optional(complex(Tapp9, tag(APPLICATION(9)))))] pub ra: Option<Tapp9>,
}

impl Ttp6p5p7 {
    pub const fn i_min() -> u8 {
        0
    }

    pub const fn i_max() -> u8 {
        255
    }
}

#[asn(set)]

#[derive(Default, Debug, Clone, PartialEq, Hash)]
pub struct Ttp6p5p8 {
    #[asn(integer(0..255))] pub i: u8,
    #[asn(optional(boolean))] pub b: Option<bool>,
    #[asn(complex(Tsq, tag(UNIVERSAL(16))))] pub rs: Tsq,
}

impl Ttp6p5p8 {
    pub const fn i_min() -> u8 {
        0
    }

    pub const fn i_max() -> u8 {
        255
    }
}

#[asn(set)]

#[derive(Default, Debug, Clone, PartialEq, Hash)]
pub struct Ttp6p5p9 {
    #[asn(integer(0..255))] pub i: u8,
    #[asn(optional(boolean))] pub b: Option<bool>,
    #[asn(optional(complex(Tcho, tag(1))))] pub rc: Option<Tcho>,
}

impl Ttp6p5p9 {
    pub const fn i_min() -> u8 {
        0
    }

    pub const fn i_max() -> u8 {
        255
    }
}

#[asn(set)]

#[derive(Default, Debug, Clone, PartialEq, Hash)]
pub struct Ttp6p5p10 {
    #[asn(integer(0..255))] pub i: u8,
    #[asn(optional(boolean))] pub b: Option<bool>,
    #[asn(complex(Tst, tag(UNIVERSAL(17))))] pub rt: Tst,
}

impl Ttp6p5p10 {
    pub const fn i_min() -> u8 {
        0
    }

    pub const fn i_max() -> u8 {
        255
    }
}

#[asn(set)]

#[derive(Default, Debug, Clone, PartialEq, Hash)]
pub struct Ttp6p5p11 {
    #[asn(integer(0..255))] pub i: u8,
    #[asn(optional(boolean))] pub b: Option<bool>,
    #[asn(optional(sequence_of(size(0..3), boolean)))] pub so: Option<Vec<bool>>,
}

impl Ttp6p5p11 {
    pub const fn i_min() -> u8 {
        0
    }

    pub const fn i_max() -> u8 {
        255
    }
}

#[asn(set)]

#[derive(Default, Debug, Clone, PartialEq, Hash)]
pub struct Ttp6p5p12 {
    #[asn(integer(0..255))] pub i: u8,
    #[asn(optional(boolean))] pub b: Option<bool>,
    #[asn(set_of(size(0..2), boolean))] pub st: Vec<bool>,
}

impl Ttp6p5p12 {
    pub const fn i_min() -> u8 {
        0
    }

    pub const fn i_max() -> u8 {
        255
    }
}

#[asn(set)]

#[derive(Default, Debug, Clone, PartialEq, Hash)]
pub struct Ttp6p5p13 {
    #[asn(integer(0..255))] pub i: u8,
    #[asn(optional(boolean))] pub b: Option<bool>,
    #[asn(optional(complex(Tchox, tag(PRIVATE(1)))))] pub rx: Option<Tchox>,
}

impl Ttp6p5p13 {
    pub const fn i_min() -> u8 {
        0
    }

    pub const fn i_max() -> u8 {
        255
    }
}

#[asn(set)]

#[derive(Default, Debug, Clone, PartialEq, Hash)]
pub struct Ttp6p5p14 {
    #[asn(integer(0..255))] pub i: u8,
    #[asn(optional(boolean))] pub b: Option<bool>,
    #[asn(integer(0..1), tag(UNIVERSAL(2)))] pub u2: u8,
}

impl Ttp6p5p14 {
    pub const fn i_min() -> u8 {
        0
    }

    pub const fn i_max() -> u8 {
        255
    }

    pub const fn u2_min() -> u8 {
        0
    }

    pub const fn u2_max() -> u8 {
        1
    }
}

#[asn(sequence, tag(APPLICATION(5)))]

#[derive(Default, Debug, Clone, PartialEq, Hash)]
pub struct Ttp6p5p15Is {
    #[asn(integer(0..3))] pub v: u8,
}

impl Ttp6p5p15Is {
    pub const fn v_min() -> u8 {
        0
    }

    pub const fn v_max() -> u8 {
        3
    }
}

#[asn(set)]

#[derive(Default, Debug, Clone, PartialEq, Hash)]
pub struct Ttp6p5p15 {
    #[asn(integer(0..255))] pub i: u8,
    #[asn(optional(boolean))] pub b: Option<bool>,
    #[asn(optional(complex(Ttp6p5p15Is, tag(APPLICATION(5)))), tag(APPLICATION(5)))] pub is: Option<Ttp6p5p15Is>,
}

impl Ttp6p5p15 {
    pub const fn i_min() -> u8 {
        0
    }

    pub const fn i_max() -> u8 {
        255
    }
}

#[asn(set)]

#[derive(Default, Debug, Clone, PartialEq, Hash)]
pub struct Ttp6p7p0 {
    #[asn(integer(0..255))] pub i: u8,
    #[asn(optional(complex(Tapp9, tag(APPLICATION(9)))))] pub ra: Option<Tapp9>,
    #[asn(integer(0..7), tag(UNIVERSAL(30)))] pub x: u8,
}

impl Ttp6p7p0 {
    pub const fn i_min() -> u8 {
        0
    }

    pub const fn i_max() -> u8 {
        255
    }

    pub const fn x_min() -> u8 {
        0
    }

    pub const fn x_max() -> u8 {
        7
    }
}

#[asn(set)]

#[derive(Default, Debug, Clone, PartialEq, Hash)]
pub struct Ttp6p7p1 {
    #[asn(integer(0..255))] pub i: u8,
    #[asn(optional(complex(Tapp9, tag(APPLICATION(9)))))] pub ra: Option<Tapp9>,
    #[asn(optional(integer(0..15)), tag(APPLICATION(1)))] pub a: Option<u8>,
}

impl Ttp6p7p1 {
    pub const fn i_min() -> u8 {
        0
    }

    pub const fn i_max() -> u8 {
        255
    }

    pub const fn a_min() -> u8 {
        0
    }

    pub const fn a_max() -> u8 {
        15
    }
}

#[asn(set)]

#[derive(Default, Debug, Clone, PartialEq, Hash)]
pub struct Ttp6p7p2 {
    #[asn(integer(0..255))] pub i: u8,
    #[asn(optional(complex(Tapp9, tag(APPLICATION(9)))))] pub ra: Option<Tapp9>,
    #[asn(integer(0..31), tag(3))] pub c3: u8,
}

impl Ttp6p7p2 {
    pub const fn i_min() -> u8 {
        0
    }

    pub const fn i_max() -> u8 {
        255
    }

    pub const fn c3_min() -> u8 {
        0
    }

    pub const fn c3_max() -> u8 {
        31
    }
}

#[asn(set)]

#[derive(Default, Debug, Clone, PartialEq, Hash)]
pub struct Ttp6p7p3 {
    #[asn(integer(0..255))] pub i: u8,
    #[asn(optional(complex(Tapp9, tag(APPLICATION(9)))))] pub ra: Option<Tapp9>,
    #[asn(optional(integer(0..63)), tag(0))] pub c0: Option<u8>,
}

impl Ttp6p7p3 {
    pub const fn i_min() -> u8 {
        0
    }

    pub const fn i_max() -> u8 {
        255
    }

    pub const fn c0_min() -> u8 {
        0
    }

    pub const fn c0_max() -> u8 {
        63
    }
}

#[asn(set)]

#[derive(Default, Debug, Clone, PartialEq, Hash)]
pub struct Ttp6p7p4 {
    #[asn(integer(0..255))] pub i: u8,
    #[asn(optional(complex(Tapp9, tag(APPLICATION(9)))))] pub ra: Option<Tapp9>,
    #[asn(integer(0..127), tag(PRIVATE(2)))] pub p: u8,
}

impl Ttp6p7p4 {
    pub const fn i_min() -> u8 {
        0
    }

    pub const fn i_max() -> u8 {
        255
    }

    pub const fn p_min() -> u8 {
        0
    }

    pub const fn p_max() -> u8 {
        127
    }
}

#[asn(set)]

#[derive(Default, Debug, Clone, PartialEq, Hash)]
pub struct Ttp6p7p5 {
    #[asn(integer(0..255))] pub i: u8,
    #[asn(optional(complex(Tapp9, tag(APPLICATION(9)))))] pub ra: Option<Tapp9>,
    #[asn(optional(boolean))] pub b: Option<bool>,
}

impl Ttp6p7p5 {
    pub const fn i_min() -> u8 {
        0
    }

    pub const fn i_max() -> u8 {
        255
    }
}

#[asn(set)]

#[derive(Default, Debug, Clone, PartialEq, Hash)]
pub struct Ttp6p7p8 {
    #[asn(integer(0..255))] pub i: u8,
    #[asn(optional(complex(Tapp9, tag(APPLICATION(9)))))] pub ra: Option<Tapp9>,
    #[asn(complex(Tsq, tag(UNIVERSAL(16))))] pub rs: Tsq,
}

impl Ttp6p7p8 {
    pub const fn i_min() -> u8 {
        0
    }

    pub const fn i_max() -> u8 {
        255
    }
}

#[asn(set)]

#[derive(Default, Debug, Clone, PartialEq, Hash)]
pub struct Ttp6p7p9 {
    #[asn(integer(0..255))] pub i: u8,
    #[asn(optional(complex(Tapp9, tag(APPLICATION(9)))))] pub ra: Option<Tapp9>,
    #[asn(optional(complex(Tcho, tag(1))))] pub rc: Option<Tcho>,
}

impl Ttp6p7p9 {
    pub const fn i_min() -> u8 {
        0
    }

    pub const fn i_max() -> u8 {
        255
    }
}

#[asn(set)]

#[derive(Default, Debug, Clone, PartialEq, Hash)]
pub struct Ttp6p7p10 {
    #[asn(integer(0..255))] pub i: u8,
    #[asn(optional(complex(Tapp9, tag(APPLICATION(9)))))] pub ra: Option<Tapp9>,
    #[asn(complex(Tst, tag(UNIVERSAL(17))))] pub rt: Tst,
}

impl Ttp6p7p10 {
    pub const fn i_min() -> u8 {
        0
    }

    pub const fn i_max() -> u8 {
        255
    }
}

#[asn(set)]

#[derive(Default, Debug, Clone, PartialEq, Hash)]
pub struct Ttp6p7p11 {
    #[asn(integer(0..255))] pub i: u8,
    #[asn(optional(complex(Tapp9, tag(APPLICATION(9)))))] pub ra: Option<Tapp9>,
    #[asn(optional(sequence_of(size(0..3), boolean)))] pub so: Option<Vec<bool>>,
}

impl Ttp6p7p11 {
    pub const fn i_min() -> u8 {
        0
    }

    pub const fn i_max() -> u8 {
        255
    }
}

#[asn(set)]

#[derive(Default, Debug, Clone, PartialEq, Hash)]
pub struct Ttp6p7p12 {
    #[asn(integer(0..255))] pub i: u8,
    #[asn(optional(complex(Tapp9, tag(APPLICATION(9)))))] pub ra: Option<Tapp9>,
    #[asn(set_of(size(0..2), boolean))] pub st: Vec<bool>,
}

impl Ttp6p7p12 {
    pub const fn i_min() -> u8 {
        0
    }

    pub const fn i_max() -> u8 {
        255
    }
}

#[asn(set)]

#[derive(Default, Debug, Clone, PartialEq, Hash)]
pub struct Ttp6p7p13 {
    #[asn(integer(0..255))] pub i: u8,
    #[asn(optional(complex(Tapp9, tag(APPLICATION(9)))))] pub ra: Option<Tapp9>,
    #[asn(optional(complex(Tchox, tag(PRIVATE(1)))))] pub rx: Option<Tchox>,
}

impl Ttp6p7p13 {
    pub const fn i_min() -> u8 {
        0
    }

    pub const fn i_max() -> u8 {
        255
    }
}

#[asn(set)]

#[derive(Default, Debug, Clone, PartialEq, Hash)]
pub struct Ttp6p7p14 {
    #[asn(integer(0..255))] pub i: u8,
    #[asn(optional(complex(Tapp9, tag(APPLICATION(9)))))] pub ra: Option<Tapp9>,
    #[asn(integer(0..1), tag(UNIVERSAL(2)))] pub u2: u8,
}

impl Ttp6p7p14 {
    pub const fn i_min() -> u8 {
        0
    }

    pub const fn i_max() -> u8 {
        255
    }

    pub const fn u2_min() -> u8 {
        0
    }

    pub const fn u2_max() -> u8 {
        1
    }
}

#[asn(sequence, tag(APPLICATION(5)))]

#[derive(Default, Debug, Clone, PartialEq, Hash)]
pub struct Ttp6p7p15Is {
    #[asn(integer(0..3))] pub v: u8,
}

impl Ttp6p7p15Is {
    pub const fn v_min() -> u8 {
        0
    }

    pub const fn v_max() -> u8 {
        3
    }
}

#[asn(set)]

#[derive(Default, Debug, Clone, PartialEq, Hash)]
pub struct Ttp6p7p15 {
    #[asn(integer(0..255))] pub i: u8,
    #[asn(optional(complex(Tapp9, tag(APPLICATION(9)))))] pub ra: Option<Tapp9>,
    #[asn(optional(complex(Ttp6p7p15Is, tag(APPLICATION(5)))), tag(APPLICATION(5)))] pub is: Option<Ttp6p7p15Is>,
}

impl Ttp6p7p15 {
    pub const fn i_min() -> u8 {
        0
    }

    pub const fn i_max() -> u8 {
        255
    }
}

#[asn(set)]

#[derive(Default, Debug, Clone, PartialEq, Hash)]
pub struct Ttp6p8p0 {
    #[asn(integer(0..255))] pub i: u8,
    #[asn(complex(Tsq, tag(UNIVERSAL(16))))] pub rs: Tsq,
    #[asn(integer(0..7), tag(UNIVERSAL(30)))] pub x: u8,
}

impl Ttp6p8p0 {
    pub const fn i_min() -> u8 {
        0
    }

    pub const fn i_max() -> u8 {
        255
    }

    pub const fn x_min() -> u8 {
        0
    }

    pub const fn x_max() -> u8 {
        7
    }
}

#[asn(set)]

#[derive(Default, Debug, Clone, PartialEq, Hash)]
pub struct Ttp6p8p1 {
    #[asn(integer(0..255))] pub i: u8,
    #[asn(complex(Tsq, tag(UNIVERSAL(16))))] pub rs: Tsq,
    #[asn(optional(integer(0..15)), tag(APPLICATION(1)))] pub a: Option<u8>,
}

impl Ttp6p8p1 {
    pub const fn i_min() -> u8 {
        0
    }

    pub const fn i_max() -> u8 {
        255
    }

    pub const fn a_min() -> u8 {
        0
    }

    pub const fn a_max() -> u8 {
        15
    }
}

#[asn(set)]

#[derive(Default, Debug, Clone, PartialEq, Hash)]
pub struct Ttp6p8p2 {
    #[asn(integer(0..255))] pub i: u8,
    #[asn(complex(Tsq, tag(UNIVERSAL(16))))] pub rs: Tsq,
    #[asn(integer(0..31), tag(3))] pub c3: u8,
}

impl Ttp6p8p2 {
    pub const fn i_min() -> u8 {
        0
    }

    pub const fn i_max() -> u8 {
        255
    }

    pub const fn c3_min() -> u8 {
        0
    }

    pub const fn c3_max() -> u8 {
        31
    }
}

#[asn(set)]

#[derive(Default, Debug, Clone, PartialEq, Hash)]
pub struct Ttp6p8p3 {
    #[asn(integer(0..255))] pub i: u8,
    #[asn(complex(Tsq, tag(UNIVERSAL(16))))] pub rs: Tsq,
    #[asn(optional(integer(0..63)), tag(0))] pub c0: Option<u8>,
}

impl Ttp6p8p3 {
    pub const fn i_min() -> u8 {
        0
    }

    pub const fn i_max() -> u8 {
        255
    }

    pub const fn c0_min() -> u8 {
        0
    }

    pub const fn c0_max() -> u8 {
        63
    }
}

#[asn(set)]

#[derive(Default, Debug, Clone, PartialEq, Hash)]
pub struct Ttp6p8p4 {
    #[asn(integer(0..255))] pub i: u8,
    #[asn(complex(Tsq, tag(UNIVERSAL(16))))] pub rs: Tsq,
    #[asn(integer(0..127), tag(PRIVATE(2)))] pub p: u8,
}

impl Ttp6p8p4 {
    pub const fn i_min() -> u8 {
        0
    }

    pub const fn i_max() -> u8 {
        255
    }

    pub const fn p_min() -> u8 {
        0
    }

    pub const fn p_max() -> u8 {
        127
    }
}

#[asn(set)]

#[derive(Default, Debug, Clone, PartialEq, Hash)]
pub struct Ttp6p8p5 {
    #[asn(integer(0..255))] pub i: u8,
    #[asn(complex(Tsq, tag(UNIVERSAL(16))))] pub rs: Tsq,
    #[asn(optional(boolean))] pub b: Option<bool>,
}

impl Ttp6p8p5 {
    pub const fn i_min() -> u8 {
        0
    }

    pub const fn i_max() -> u8 {
        255
    }
}

#[asn(set)]

#[derive(Default, Debug, Clone, PartialEq, Hash)]
pub struct Ttp6p8p7 {
    #[asn(integer(0..255))] pub i: u8,
    #[asn(complex(Tsq, tag(UNIVERSAL(16))))] pub rs: Tsq,
    #[asn(optional(complex(Tapp9, tag(APPLICATION(9)))))] pub ra: Option<Tapp9>,
}

impl Ttp6p8p7 {
    pub const fn i_min() -> u8 {
        0
    }

    pub const fn i_max() -> u8 {
        255
    }
}

#[asn(set)]

#[derive(Default, Debug, Clone, PartialEq, Hash)]
pub struct Ttp6p8p9 {
    #[asn(integer(0..255))] pub i: u8,
    #[asn(complex(Tsq, tag(UNIVERSAL(16))))] pub rs: Tsq,
    #[asn(optional(complex(Tcho, tag(1))))] pub rc: Option<Tcho>,
}

impl Ttp6p8p9 {
    pub const fn i_min() -> u8 {
        0
    }

    pub const fn i_max() -> u8 {
        255
    }
}

#[asn(set)]

#[derive(Default, Debug, Clone, PartialEq, Hash)]
pub struct Ttp6p8p10 {
    #[asn(integer(0..255))] pub i: u8,
    #[asn(complex(Tsq, tag(UNIVERSAL(16))))] pub rs: Tsq,
    #[asn(complex(Tst, tag(UNIVERSAL(17))))] pub rt: Tst,
}

impl Ttp6p8p10 {
    pub const fn i_min() -> u8 {
        0
    }

    pub const fn i_max() -> u8 {
        255
    }
}

#[asn(set)]

#[derive(Default, Debug, Clone, PartialEq, Hash)]
pub struct Ttp6p8p11 {
    #[asn(integer(0..255))] pub i: u8,
    #[asn(complex(Tsq, tag(UNIVERSAL(16))))] pub rs: Tsq,
    #[asn(optional(sequence_of(size(0..3), boolean)))] pub so: Option<Vec<bool>>,
}

impl Ttp6p8p11 {
    pub const fn i_min() -> u8 {
        0
    }

    pub const fn i_max() -> u8 {
        255
    }
}

#[asn(set)]

#[derive(Default, Debug, Clone, PartialEq, Hash)]
pub struct Ttp6p8p12 {
    #[asn(integer(0..255))] pub i: u8,
    #[asn(complex(Tsq, tag(UNIVERSAL(16))))] pub rs: Tsq,
    #[asn(set_of(size(0..2), boolean))] pub st: Vec<bool>,
}

impl Ttp6p8p12 {
    pub const fn i_min() -> u8 {
        0
    }

    pub const fn i_max() -> u8 {
        255
    }
}

#[asn(set)]

#[derive(Default, Debug, Clone, PartialEq, Hash)]
pub struct Ttp6p8p13 {
    #[asn(integer(0..255))] pub i: u8,
    #[asn(complex(Tsq, tag(UNIVERSAL(16))))] pub rs: Tsq,
    #[asn(optional(complex(Tchox, tag(PRIVATE(1)))))] pub rx: Option<Tchox>,
}

impl Ttp6p8p13 {
    pub const fn i_min() -> u8 {
        0
    }

    pub const fn i_max() -> u8 {
        255
    }
}

#[asn(set)]

#[derive(Default, Debug, Clone, PartialEq, Hash)]
pub struct Ttp6p8p14 {
    #[asn(integer(0..255))] pub i: u8,
    #[asn(complex(Tsq, tag(UNIVERSAL(16))))] pub rs: Tsq,
    #[asn(integer(0..1), tag(UNIVERSAL(2)))] pub u2: u8,
}

impl Ttp6p8p14 {
    pub const fn i_min() -> u8 {
        0
    }

    pub const fn i_max() -> u8 {
        255
    }

    pub const fn u2_min() -> u8 {
        0
    }

    pub const fn u2_max() -> u8 {
        1
    }
}

#[asn(sequence, tag(APPLICATION(5)))]

#[derive(Default, Debug, Clone, PartialEq, Hash)]
pub struct Ttp6p8p15Is {
    #[asn(integer(0..3))] pub v: u8,
}

impl Ttp6p8p15Is {
    pub const fn v_min() -> u8 {
        0
    }

    pub const fn v_max() -> u8 {
        3
    }
}

#[asn(set)]

#[derive(Default, Debug, Clone, PartialEq, Hash)]
pub struct Ttp6p8p15 {
    #[asn(integer(0..255))] pub i: u8,
    #[asn(complex(Tsq, tag(UNIVERSAL(16))))] pub rs: Tsq,
    #[asn(optional(complex(Ttp6p8p15Is, tag(APPLICATION(5)))), tag(APPLICATION(5)))] pub is: Option<Ttp6p8p15Is>,
}

impl Ttp6p8p15 {
    pub const fn i_min() -> u8 {
        0
    }

    pub const fn i_max() -> u8 {
        255
    }
}

#[asn(set)]

#[derive(Default, Debug, Clone, PartialEq, Hash)]
pub struct Ttp6p9p0 {
    #[asn(integer(0..255))] pub i: u8,
    #[asn(optional(complex(Tcho, tag(1))))] pub rc: Option<Tcho>,
    #[asn(integer(0..7), tag(UNIVERSAL(30)))] pub x: u8,
}

impl Ttp6p9p0 {
    pub const fn i_min() -> u8 {
        0
    }

    pub const fn i_max() -> u8 {
        255
    }

    pub const fn x_min() -> u8 {
        0
    }

    pub const fn x_max() -> u8 {
        7
    }
}

#[asn(set)]

#[derive(Default, Debug, Clone, PartialEq, Hash)]
pub struct Ttp6p9p1 {
    #[asn(integer(0..255))] pub i: u8,
    #[asn(optional(complex(Tcho, tag(1))))] pub rc: Option<Tcho>,
    #[asn(optional(integer(0..15)), tag(APPLICATION(1)))] pub a: Option<u8>,
}

impl Ttp6p9p1 {
    pub const fn i_min() -> u8 {
        0
    }

    pub const fn i_max() -> u8 {
        255
    }

    pub const fn a_min() -> u8 {
        0
    }

    pub const fn a_max() -> u8 {
        15
    }
}

#[asn(set)]

#[derive(Default, Debug, Clone, PartialEq, Hash)]
pub struct Ttp6p9p2 {
    #[asn(integer(0..255))] pub i: u8,
    #[asn(optional(complex(Tcho, tag(1))))] pub rc: Option<Tcho>,
    #[asn(integer(0..31), tag(3))] pub c3: u8,
}

impl Ttp6p9p2 {
    pub const fn i_min() -> u8 {
        0
    }

    pub const fn i_max() -> u8 {
        255
    }

    pub const fn c3_min() -> u8 {
        0
    }

    pub const fn c3_max() -> u8 {
        31
    }
}

#[asn(set)]

#[derive(Default, Debug, Clone, PartialEq, Hash)]
pub struct Ttp6p9p3 {
    #[asn(integer(0..255))] pub i: u8,
    #[asn(optional(complex(Tcho, tag(1))))] pub rc: Option<Tcho>,
    #[asn(optional(integer(0..63)), tag(0))] pub c0: Option<u8>,
}

impl Ttp6p9p3 {
    pub const fn i_min() -> u8 {
        0
    }

    pub const fn i_max() -> u8 {
        255
    }

    pub const fn c0_min() -> u8 {
        0
    }

    pub const fn c0_max() -> u8 {
        63
    }
}

#[asn(set)]

#[derive(Default, Debug, Clone, PartialEq, Hash)]
pub struct Ttp6p9p4 {
    #[asn(integer(0..255))] pub i: u8,
    #[asn(optional(complex(Tcho, tag(1))))] pub rc: Option<Tcho>,
    #[asn(integer(0..127), tag(PRIVATE(2)))] pub p: u8,
}

impl Ttp6p9p4 {
    pub const fn i_min() -> u8 {
        0
    }

    pub const fn i_max() -> u8 {
        255
    }

    pub const fn p_min() -> u8 {
        0
    }

    pub const fn p_max() -> u8 {
        127
    }
}

#[asn(set)]

#[derive(Default, Debug, Clone, PartialEq, Hash)]
pub struct Ttp6p9p5 {
    #[asn(integer(0..255))] pub i: u8,
    #[asn(optional(complex(Tcho, tag(1))))] pub rc: Option<Tcho>,
    #[asn(optional(boolean))] pub b: Option<bool>,
}

impl Ttp6p9p5 {
    pub const fn i_min() -> u8 {
        0
    }

    pub const fn i_max() -> u8 {
        255
    }
}

#[asn(set)]

#[derive(Default, Debug, Clone, PartialEq, Hash)]
pub struct Ttp6p9p7 {
    #[asn(integer(0..255))] pub i: u8,
    #[asn(optional(complex(Tcho, tag(1))))] pub rc: Option<Tcho>,
    #[asn(optional(complex(Tapp9, tag(APPLICATION(9)))))] pub ra: Option<Tapp9>,
}

impl Ttp6p9p7 {
    pub const fn i_min() -> u8 {
        0
    }

    pub const fn i_max() -> u8 {
        255
    }
}

#[asn(set)]

#[derive(Default, Debug, Clone, PartialEq, Hash)]
pub struct Ttp6p9p8 {
    #[asn(integer(0..255))] pub i: u8,
    #[asn(optional(complex(Tcho, tag(1))))] pub rc: Option<Tcho>,
    #[asn(complex(Tsq, tag(UNIVERSAL(16))))] pub rs: Tsq,
}

impl Ttp6p9p8 {
    pub const fn i_min() -> u8 {
        0
    }

    pub const fn i_max() -> u8 {
        255
    }
}

#[asn(set)]

#[derive(Default, Debug, Clone, PartialEq, Hash)]
pub struct Ttp6p9p10 {
    #[asn(integer(0..255))] pub i: u8,
    #[asn(optional(complex(Tcho, tag(1))))] pub rc: Option<Tcho>,
    #[asn(complex(Tst, tag(UNIVERSAL(17))))] pub rt: Tst,
}

impl Ttp6p9p10 {
    pub const fn i_min() -> u8 {
        0
    }

    pub const fn i_max() -> u8 {
        255
    }
}

#[asn(set)]

#[derive(Default, Debug, Clone, PartialEq, Hash)]
pub struct Ttp6p9p11 {
    #[asn(integer(0..255))] pub i: u8,
    #[asn(optional(complex(Tcho, tag(1))))] pub rc: Option<Tcho>,
    #[asn(optional(sequence_of(size(0..3), boolean)))] pub so: Option<Vec<bool>>,
}

impl Ttp6p9p11 {
    pub const fn i_min() -> u8 {
        0
    }

    pub const fn i_max() -> u8 {
        255
    }
}

#[asn(set)]

#[derive(Default, Debug, Clone, PartialEq, Hash)]
pub struct Ttp6p9p12 {
    #[asn(integer(0..255))] pub i: u8,
    #[asn(optional(complex(Tcho, tag(1))))] pub rc: Option<Tcho>,
    #[asn(set_of(size(0..2), boolean))] pub st: Vec<bool>,
}

impl Ttp6p9p12 {
    pub const fn i_min() -> u8 {
        0
    }

    pub const fn i_max() -> u8 {
        255
    }
}

#[asn(set)]

#[derive(Default, Debug, Clone, PartialEq, Hash)]
pub struct Ttp6p9p13 {
    #[asn(integer(0..255))] pub i: u8,
    #[asn(optional(complex(Tcho, tag(1))))] pub rc: Option<Tcho>,
    #[asn(optional(complex(Tchox, tag(PRIVATE(1)))))] pub rx: Option<Tchox>,
}

impl Ttp6p9p13 {
    pub const fn i_min() -> u8 {
        0
    }

    pub const fn i_max() -> u8 {
        255
    }
}

#[asn(set)]

#[derive(Default, Debug, Clone, PartialEq, Hash)]
pub struct Ttp6p9p14 {
    #[asn(integer(0..255))] pub i: u8,
    #[asn(optional(complex(Tcho, tag(1))))] pub rc: Option<Tcho>,
    #[asn(integer(0..1), tag(UNIVERSAL(2)))] pub u2: u8,
}

impl Ttp6p9p14 {
    pub const fn i_min() -> u8 {
        0
    }

    pub const fn i_max() -> u8 {
        255
    }

    pub const fn u2_min() -> u8 {
        0
    }

    pub const fn u2_max() -> u8 {
        1
    }
}

#[asn(sequence, tag(APPLICATION(5)))]

#[derive(Default, Debug, Clone, PartialEq, Hash)]
pub struct Ttp6p9p15Is {
    #[asn(integer(0..3))] pub v: u8,
}

impl Ttp6p9p15Is {
    pub const fn v_min() -> u8 {
        0
    }

    pub const fn v_max() -> u8 {
        3
    }
}

#[asn(set)]

#[derive(Default, Debug, Clone, PartialEq, Hash)]
pub struct Ttp6p9p15 {
    #[asn(integer(0..255))] pub i: u8,
    #[asn(optional(complex(Tcho, tag(1))))] pub rc: Option<Tcho>,
    #[asn(optional(complex(Ttp6p9p15Is, tag(APPLICATION(5)))), tag(APPLICATION(5)))] pub is: Option<Ttp6p9p15Is>,
}

impl Ttp6p9p15 {
    pub const fn i_min() -> u8 {
        0
    }

    pub const fn i_max() -> u8 {
        255
    }
}

#[asn(set)]

#[derive(Default, Debug, Clone, PartialEq, Hash)]
pub struct Ttp6p10p0 {
    #[asn(integer(0..255))] pub i: u8,
    #[asn(complex(Tst, tag(UNIVERSAL(17))))] pub rt: Tst,
    #[asn(integer(0..7), tag(UNIVERSAL(30)))] pub x: u8,
}

impl Ttp6p10p0 {
    pub const fn i_min() -> u8 {
        0
    }

    pub const fn i_max() -> u8 {
        255
    }

    pub const fn x_min() -> u8 {
        0
    }

    pub const fn x_max() -> u8 {
        7
    }
}

#[asn(set)]

#[derive(Default, Debug, Clone, PartialEq, Hash)]
pub struct Ttp6p10p1 {
    #[asn(integer(0..255))] pub i: u8,
    #[asn(complex(Tst, tag(UNIVERSAL(17))))] pub rt: Tst,
    #[asn(optional(integer(0..15)), tag(APPLICATION(1)))] pub a: Option<u8>,
}

impl Ttp6p10p1 {
    pub const fn i_min() -> u8 {
        0
    }

    pub const fn i_max() -> u8 {
        255
    }

    pub const fn a_min() -> u8 {
        0
    }

    pub const fn a_max() -> u8 {
        15
    }
}

#[asn(set)]

#[derive(Default, Debug, Clone, PartialEq, Hash)]
pub struct Ttp6p10p2 {
    #[asn(integer(0..255))] pub i: u8,
    #[asn(complex(Tst, tag(UNIVERSAL(17))))] pub rt: Tst,
    #[asn(integer(0..31), tag(3))] pub c3: u8,
}

impl Ttp6p10p2 {
    pub const fn i_min() -> u8 {
        0
    }

    pub const fn i_max() -> u8 {
        255
    }

    pub const fn c3_min() -> u8 {
        0
    }

    pub const fn c3_max() -> u8 {
        31
    }
}

#[asn(set)]

#[derive(Default, Debug, Clone, PartialEq, Hash)]
pub struct Ttp6p10p3 {
    #[asn(integer(0..255))] pub i: u8,
    #[asn(complex(Tst, tag(UNIVERSAL(17))))] pub rt: Tst,
    #[asn(optional(integer(0..63)), tag(0))] pub c0: Option<u8>,
}

impl Ttp6p10p3 {
    pub const fn i_min() -> u8 {
        0
    }

    pub const fn i_max() -> u8 {
        255
    }

    pub const fn c0_min() -> u8 {
        0
    }

    pub const fn c0_max() -> u8 {
        63
    }
}

#[asn(set)]

#[derive(Default, Debug, Clone, PartialEq, Hash)]
pub struct Ttp6p10p4 {
    #[asn(integer(0..255))] pub i: u8,
    #[asn(complex(Tst, tag(UNIVERSAL(17))))] pub rt: Tst,
    #[asn(integer(0..127), tag(PRIVATE(2)))] pub p: u8,
}

impl Ttp6p10p4 {
    pub const fn i_min() -> u8 {
        0
    }

    pub const fn i_max() -> u8 {
        255
    }

    pub const fn p_min() -> u8 {
        0
    }

    pub const fn p_max() -> u8 {
        127
    }
}

#[asn(set)]

#[derive(Default, Debug, Clone, PartialEq, Hash)]
pub struct Ttp6p10p5 {
    #[asn(integer(0..255))] pub i: u8,
    #[asn(complex(Tst, tag(UNIVERSAL(17))))] pub rt: Tst,
    #[asn(optional(boolean))] pub b: Option<bool>,
}

impl Ttp6p10p5 {
    pub const fn i_min() -> u8 {
        0
    }

    pub const fn i_max() -> u8 {
        255
    }
}

#[asn(set)]

#[derive(Default, Debug, Clone, PartialEq, Hash)]
pub struct Ttp6p10p7 {
    #[asn(integer(0..255))] pub i: u8,
    #[asn(complex(Tst, tag(UNIVERSAL(17))))] pub rt: Tst,
    #[asn(optional(complex(Tapp9, tag(APPLICATION(9)))))] pub ra: Option<Tapp9>,
}

impl Ttp6p10p7 {
    pub const fn i_min() -> u8 {
        0
    }

    pub const fn i_max() -> u8 {
        255
    }
}

#[asn(set)]

#[derive(Default, Debug, Clone, PartialEq, Hash)]
pub struct Ttp6p10p8 {
    #[asn(integer(0..255))] pub i: u8,
    #[asn(complex(Tst, tag(UNIVERSAL(17))))] pub rt: Tst,
    #[asn(complex(Tsq, tag(UNIVERSAL(16))))] pub rs: Tsq,
}

impl Ttp6p10p8 {
    pub const fn i_min() -> u8 {
        0
    }

    pub const fn i_max() -> u8 {
        255
    }
}

#[asn(set)]

#[derive(Default, Debug, Clone, PartialEq, Hash)]
pub struct Ttp6p10p9 {
    #[asn(integer(0..255))] pub i: u8,
    #[asn(complex(Tst, tag(UNIVERSAL(17))))] pub rt: Tst,
    #[asn(optional(complex(Tcho, tag(1))))] pub rc: Option<Tcho>,
}

impl Ttp6p10p9 {
    pub const fn i_min() -> u8 {
        0
    }

    pub const fn i_max() -> u8 {
        255
    }
}

#[asn(set)]

#[derive(Default, Debug, Clone, PartialEq, Hash)]
pub struct Ttp6p10p11 {
    #[asn(integer(0..255))] pub i: u8,
    #[asn(complex(Tst, tag(UNIVERSAL(17))))] pub rt: Tst,
    #[asn(optional(sequence_of(size(0..3), boolean)))] pub so: Option<Vec<bool>>,
}

impl Ttp6p10p11 {
    pub const fn i_min() -> u8 {
        0
    }

    pub const fn i_max() -> u8 {
        255
    }
}

#[asn(set)]

#[derive(Default, Debug, Clone, PartialEq, Hash)]
pub struct Ttp6p10p12 {
    #[asn(integer(0..255))] pub i: u8,
    #[asn(complex(Tst, tag(UNIVERSAL(17))))] pub rt: Tst,
    #[asn(set_of(size(0..2), boolean))] pub st: Vec<bool>,
}

impl Ttp6p10p12 {
    pub const fn i_min() -> u8 {
        0
    }

    pub const fn i_max() -> u8 {
        255
    }
}

#[asn(set)]

#[derive(Default, Debug, Clone, PartialEq, Hash)]
pub struct Ttp6p10p13 {
    #[asn(integer(0..255))] pub i: u8,
    #[asn(complex(Tst, tag(UNIVERSAL(17))))] pub rt: Tst,
    #[asn(optional(complex(Tchox, tag(PRIVATE(1)))))] pub rx: Option<Tchox>,
}

impl Ttp6p10p13 {
    pub const fn i_min() -> u8 {
        0
    }

    pub const fn i_max() -> u8 {
        255
    }
}

#[asn(set)]

#[derive(Default, Debug, Clone, PartialEq, Hash)]
pub struct Ttp6p10p14 {
    #[asn(integer(0..255))] pub i: u8,
    #[asn(complex(Tst, tag(UNIVERSAL(17))))] pub rt: Tst,
    #[asn(integer(0..1), tag(UNIVERSAL(2)))] pub u2: u8,
}

impl Ttp6p10p14 {
    pub const fn i_min() -> u8 {
        0
    }

    pub const fn i_max() -> u8 {
        255
    }

    pub const fn u2_min() -> u8 {
        0
    }

    pub const fn u2_max() -> u8 {
        1
    }
}

#[asn(sequence, tag(APPLICATION(5)))]

#[derive(Default, Debug, Clone, PartialEq, Hash)]
pub struct Ttp6p10p15Is {
    #[asn(integer(0..3))] pub v: u8,
}

impl Ttp6p10p15Is {
    pub const fn v_min() -> u8 {
        0
    }

    pub const fn v_max() -> u8 {
        3
    }
}

#[asn(set)]

#[derive(Default, Debug, Clone, PartialEq, Hash)]
pub struct Ttp6p10p15 {
    #[asn(integer(0..255))] pub i: u8,
    #[asn(complex(Tst, tag(UNIVERSAL(17))))] pub rt: Tst,
    #[asn(optional(complex(Ttp6p10p15Is, tag(APPLICATION(5)))), tag(APPLICATION(5)))] pub is: Option<Ttp6p10p15Is>,
}

impl Ttp6p10p15 {
    pub const fn i_min() -> u8 {
        0
    }

    pub const fn i_max() -> u8 {
        255
    }
}

#[asn(set)]

#[derive(Default, Debug, Clone, PartialEq, Hash)]
pub struct Ttp6p11p0 {
    #[asn(integer(0..255))] pub i: u8,
    #[asn(optional(sequence_of(size(0..3), boolean)))] pub so: Option<Vec<bool>>,
    #[asn(integer(0..7), tag(UNIVERSAL(30)))] pub x: u8,
}

impl Ttp6p11p0 {
    pub const fn i_min() -> u8 {
        0
    }

    pub const fn i_max() -> u8 {
        255
    }

    pub const fn x_min() -> u8 {
        0
    }

    pub const fn x_max() -> u8 {
        7
    }
}

#[asn(set)]

#[derive(Default, Debug, Clone, PartialEq, Hash)]
pub struct Ttp6p11p1 {
    #[asn(integer(0..255))] pub i: u8,
    #[asn(optional(sequence_of(size(0..3), boolean)))] pub so: Option<Vec<bool>>,
    #[asn(optional(integer(0..15)), tag(APPLICATION(1)))] pub a: Option<u8>,
}

impl Ttp6p11p1 {
    pub const fn i_min() -> u8 {
        0
    }

    pub const fn i_max() -> u8 {
        255
    }

    pub const fn a_min() -> u8 {
        0
    }

    pub const fn a_max() -> u8 {
        15
    }
}

#[asn(set)]

#[derive(Default, Debug, Clone, PartialEq, Hash)]
pub struct Ttp6p11p2 {
    #[asn(integer(0..255))] pub i: u8,
    #[asn(optional(sequence_of(size(0..3), boolean)))] pub so: Option<Vec<bool>>,
    #[asn(integer(0..31), tag(3))] pub c3: u8,
}

impl Ttp6p11p2 {
    pub const fn i_min() -> u8 {
        0
    }

    pub const fn i_max() -> u8 {
        255
    }

    pub const fn c3_min() -> u8 {
        0
    }

    pub const fn c3_max() -> u8 {
        31
    }
}

#[asn(set)]

#[derive(Default, Debug, Clone, PartialEq, Hash)]
pub struct Ttp6p11p3 {
    #[asn(integer(0..255))] pub i: u8,
    #[asn(optional(sequence_of(size(0..3), boolean)))] pub so: Option<Vec<bool>>,
    #[asn(optional(integer(0..63)), tag(0))] pub c0: Option<u8>,
}

impl Ttp6p11p3 {
    pub const fn i_min() -> u8 {
        0
    }

    pub const fn i_max() -> u8 {
        255
    }

    pub const fn c0_min() -> u8 {
        0
    }

    pub const fn c0_max() -> u8 {
        63
    }
}

#[asn(set)]

#[derive(Default, Debug, Clone, PartialEq, Hash)]
pub struct Ttp6p11p4 {
    #[asn(integer(0..255))] pub i: u8,
    #[asn(optional(sequence_of(size(0..3), boolean)))] pub so: Option<Vec<bool>>,
    #[asn(integer(0..127), tag(PRIVATE(2)))] pub p: u8,
}

impl Ttp6p11p4 {
    pub const fn i_min() -> u8 {
        0
    }

    pub const fn i_max() -> u8 {
        255
    }

    pub const fn p_min() -> u8 {
        0
    }

    pub const fn p_max() -> u8 {
        127
    }
}

#[asn(set)]

#[derive(Default, Debug, Clone, PartialEq, Hash)]
pub struct Ttp6p11p5 {
    #[asn(integer(0..255))] pub i: u8,
    #[asn(optional(sequence_of(size(0..3), boolean)))] pub so: Option<Vec<bool>>,
    #[asn(optional(boolean))] pub b: Option<bool>,
}

impl Ttp6p11p5 {
    pub const fn i_min() -> u8 {
        0
    }

    pub const fn i_max() -> u8 {
        255
    }
}

#[asn(set)]

#[derive(Default, Debug, Clone, PartialEq, Hash)]
pub struct Ttp6p11p7 {
    #[asn(integer(0..255))] pub i: u8,
    #[asn(optional(sequence_of(size(0..3), boolean)))] pub so: Option<Vec<bool>>,
    #[asn(optional(complex(Tapp9, tag(APPLICATION(9)))))] pub ra: Option<Tapp9>,
}

impl Ttp6p11p7 {
    pub const fn i_min() -> u8 {
        0
    }

    pub const fn i_max() -> u8 {
        255
    }
}

#[asn(set)]

#[derive(Default, Debug, Clone, PartialEq, Hash)]
pub struct Ttp6p11p8 {
    #[asn(integer(0..255))] pub i: u8,
    #[asn(optional(sequence_of(size(0..3), boolean)))] pub so: Option<Vec<bool>>,
    #[asn(complex(Tsq, tag(UNIVERSAL(16))))] pub rs: Tsq,
}

impl Ttp6p11p8 {
    pub const fn i_min() -> u8 {
        0
    }

    pub const fn i_max() -> u8 {
        255
    }
}

#[asn(set)]

#[derive(Default, Debug, Clone, PartialEq, Hash)]
pub struct Ttp6p11p9 {
    #[asn(integer(0..255))] pub i: u8,
    #[asn(optional(sequence_of(size(0..3), boolean)))] pub so: Option<Vec<bool>>,
    #[asn(optional(complex(Tcho, tag(1))))] pub rc: Option<Tcho>,
}

impl Ttp6p11p9 {
    pub const fn i_min() -> u8 {
        0
    }

    pub const fn i_max() -> u8 {
        255
    }
}

#[asn(set)]

#[derive(Default, Debug, Clone, PartialEq, Hash)]
pub struct Ttp6p11p10 {
    #[asn(integer(0..255))] pub i: u8,
    #[asn(optional(sequence_of(size(0..3), boolean)))] pub so: Option<Vec<bool>>,
    #[asn(complex(Tst, tag(UNIVERSAL(17))))] pub rt: Tst,
}

impl Ttp6p11p10 {
    pub const fn i_min() -> u8 {
        0
    }

    pub const fn i_max() -> u8 {
        255
    }
}

#[asn(set)]

#[derive(Default, Debug, Clone, PartialEq, Hash)]
pub struct Ttp6p11p12 {
    #[asn(integer(0..255))] pub i: u8,
    #[asn(optional(sequence_of(size(0..3), boolean)))] pub so: Option<Vec<bool>>,
    #[asn(set_of(size(0..2), boolean))] pub st: Vec<bool>,
}

impl Ttp6p11p12 {
    pub const fn i_min() -> u8 {
        0
    }

    pub const fn i_max() -> u8 {
        255
    }
}

#[asn(set)]

#[derive(Default, Debug, Clone, PartialEq, Hash)]
pub struct Ttp6p11p13 {
    #[asn(integer(0..255))] pub i: u8,
    #[asn(optional(sequence_of(size(0..3), boolean)))] pub so: Option<Vec<bool>>,
    #[asn(optional(complex(Tchox, tag(PRIVATE(1)))))] pub rx: Option<Tchox>,
}

impl Ttp6p11p13 {
    pub const fn i_min() -> u8 {
        0
    }

    pub const fn i_max() -> u8 {
        255
    }
}

#[asn(set)]

#[derive(Default, Debug, Clone, PartialEq, Hash)]
pub struct Ttp6p11p14 {
    #[asn(integer(0..255))] pub i: u8,
    #[asn(optional(sequence_of(size(0..3), boolean)))] pub so: Option<Vec<bool>>,
    #[asn(integer(0..1), tag(UNIVERSAL(2)))] pub u2: u8,
}

impl Ttp6p11p14 {
    pub const fn i_min() -> u8 {
        0
    }

    pub const fn i_max() -> u8 {
        255
    }

    pub const fn u2_min() -> u8 {
        0
    }

    pub const fn u2_max() -> u8 {
        1
    }
}

#[asn(sequence, tag(APPLICATION(5)))]

#[derive(Default, Debug, Clone, PartialEq, Hash)]
pub struct Ttp6p11p15Is {
    #[asn(integer(0..3))] pub v: u8,
}

impl Ttp6p11p15Is {
    pub const fn v_min() -> u8 {
        0
    }

    pub const fn v_max() -> u8 {
        3
    }
}

#[asn(set)]

#[derive(Default, Debug, Clone, PartialEq, Hash)]
pub struct Ttp6p11p15 {
    #[asn(integer(0..255))] pub i: u8,
    #[asn(optional(sequence_of(size(0..3), boolean)))] pub so: Option<Vec<bool>>,
    #[asn(optional(complex(Ttp6p11p15Is, tag(APPLICATION(5)))), tag(APPLICATION(5)))] pub is: Option<Ttp6p11p15Is>,
}

impl Ttp6p11p15 {
    pub const fn i_min() -> u8 {
        0
    }

    pub const fn i_max() -> u8 {
        255
    }
}

#[asn(set)]

#[derive(Default, Debug, Clone, PartialEq, Hash)]
pub struct Ttp6p12p0 {
    #[asn(integer(0..255))] pub i: u8,
    #[asn(set_of(size(0..2), boolean))] pub st: Vec<bool>,
    #[asn(integer(0..7), tag(UNIVERSAL(30)))] pub x: u8,
}

impl Ttp6p12p0 {
    pub const fn i_min() -> u8 {
        0
    }

    pub const fn i_max() -> u8 {
        255
    }

    pub const fn x_min() -> u8 {
        0
    }

    pub const fn x_max() -> u8 {
        7
    }
}

#[asn(set)]

#[derive(Default, Debug, Clone, PartialEq, Hash)]
pub struct Ttp6p12p1 {
    #[asn(integer(0..255))] pub i: u8,
    #[asn(set_of(size(0..2), boolean))] pub st: Vec<bool>,
    #[asn(optional(integer(0..15)), tag(APPLICATION(1)))] pub a: Option<u8>,
}

impl Ttp6p12p1 {
    pub const fn i_min() -> u8 {
        0
    }

    pub const fn i_max() -> u8 {
        255
    }

    pub const fn a_min() -> u8 {
        0
    }

    pub const fn a_max() -> u8 {
        15
    }
}

#[asn(set)]

#[derive(Default, Debug, Clone, PartialEq, Hash)]
pub struct Ttp6p12p2 {
    #[asn(integer(0..255))] pub i: u8,
    #[asn(set_of(size(0..2), boolean))] pub st: Vec<bool>,
    #[asn(integer(0..31), tag(3))] pub c3: u8,
}

impl Ttp6p12p2 {
    pub const fn i_min() -> u8 {
        0
    }

    pub const fn i_max() -> u8 {
        255
    }

    pub const fn c3_min() -> u8 {
        0
    }

    pub const fn c3_max() -> u8 {
        31
    }
}

#[asn(set)]

#[derive(Default, Debug, Clone, PartialEq, Hash)]
pub struct Ttp6p12p3 {
    #[asn(integer(0..255))] pub i: u8,
    #[asn(set_of(size(0..2), boolean))] pub st: Vec<bool>,
    #[asn(optional(integer(0..63)), tag(0))] pub c0: Option<u8>,
}

impl Ttp6p12p3 {
    pub const fn i_min() -> u8 {
        0
    }

    pub const fn i_max() -> u8 {
        255
    }

    pub const fn c0_min() -> u8 {
        0
    }

    pub const fn c0_max() -> u8 {
        63
    }
}

#[asn(set)]

#[derive(Default, Debug, Clone, PartialEq, Hash)]
pub struct Ttp6p12p4 {
    #[asn(integer(0..255))] pub i: u8,
    #[asn(set_of(size(0..2), boolean))] pub st: Vec<bool>,
    #[asn(integer(0..127), tag(PRIVATE(2)))] pub p: u8,
}

impl Ttp6p12p4 {
    pub const fn i_min() -> u8 {
        0
    }

    pub const fn i_max() -> u8 {
        255
    }

    pub const fn p_min() -> u8 {
        0
    }

    pub const fn p_max() -> u8 {
        127
    }
}

#[asn(set)]

#[derive(Default, Debug, Clone, PartialEq, Hash)]
pub struct Ttp6p12p5 {
    #[asn(integer(0..255))] pub i: u8,
    #[asn(set_of(size(0..2), boolean))] pub st: Vec<bool>,
    #[asn(optional(boolean))] pub b: Option<bool>,
}

impl Ttp6p12p5 {
    pub const fn i_min() -> u8 {
        0
    }

    pub const fn i_max() -> u8 {
        255
    }
}

#[asn(set)]

#[derive(Default, Debug, Clone, PartialEq, Hash)]
pub struct Ttp6p12p7 {
    #[asn(integer(0..255))] pub i: u8,
    #[asn(set_of(size(0..2), boolean))] pub st: Vec<bool>,
    #[asn(optional(complex(Tapp9, tag(APPLICATION(9)))))] pub ra: Option<Tapp9>,
}

impl Ttp6p12p7 {
    pub const fn i_min() -> u8 {
        0
    }

    pub const fn i_max() -> u8 {
        255
    }
}

#[asn(set)]

#[derive(Default, Debug, Clone, PartialEq, Hash)]
pub struct Ttp6p12p8 {
    #[asn(integer(0..255))] pub i: u8,
    #[asn(set_of(size(0..2), boolean))] pub st: Vec<bool>,
    #[asn(complex(Tsq, tag(UNIVERSAL(16))))] pub rs: Tsq,
}

impl Ttp6p12p8 {
    pub const fn i_min() -> u8 {
        0
    }

    pub const fn i_max() -> u8 {
        255
    }
}

#[asn(set)]

#[derive(Default, Debug, Clone, PartialEq, Hash)]
pub struct Ttp6p12p9 {
    #[asn(integer(0..255))] pub i: u8,
    #[asn(set_of(size(0..2), boolean))] pub st: Vec<bool>,
    #[asn(optional(complex(Tcho, tag(1))))] pub rc: Option<Tcho>,
}

impl Ttp6p12p9 {
    pub const fn i_min() -> u8 {
        0
    }

    pub const fn i_max() -> u8 {
        255
    }
}

#[asn(set)]

#[derive(Default, Debug, Clone, PartialEq, Hash)]
pub struct Ttp6p12p10 {
    #[asn(integer(0..255))] pub i: u8,
    #[asn(set_of(size(0..2), boolean))] pub st: Vec<bool>,
    #[asn(complex(Tst, tag(UNIVERSAL(17))))] pub rt: Tst,
}

impl Ttp6p12p10 {
    pub const fn i_min() -> u8 {
        0
    }

    pub const fn i_max() -> u8 {
        255
    }
}

#[asn(set)]

#[derive(Default, Debug, Clone, PartialEq, Hash)]
pub struct Ttp6p12p11 {
    #[asn(integer(0..255))] pub i: u8,
    #[asn(set_of(size(0..2), boolean))] pub st: Vec<bool>,
    #[asn(optional(sequence_of(size(0..3), boolean)))] pub so: Option<Vec<bool>>,
}

impl Ttp6p12p11 {
    pub const fn i_min() -> u8 {
        0
    }

    pub const fn i_max() -> u8 {
        255
    }
}

#[asn(set)]

#[derive(Default, Debug, Clone, PartialEq, Hash)]
pub struct Ttp6p12p13 {
    #[asn(integer(0..255))] pub i: u8,
    #[asn(set_of(size(0..2), boolean))] pub st: Vec<bool>,
    #[asn(optional(complex(Tchox, tag(PRIVATE(1)))))] pub rx: Option<Tchox>,
}

impl Ttp6p12p13 {
    pub const fn i_min() -> u8 {
        0
    }

    pub const fn i_max() -> u8 {
        255
    }
}

#[asn(set)]

#[derive(Default, Debug, Clone, PartialEq, Hash)]
pub struct Ttp6p12p14 {
    #[asn(integer(0..255))] pub i: u8,
    #[asn(set_of(size(0..2), boolean))] pub st: Vec<bool>,
    #[asn(integer(0..1), tag(UNIVERSAL(2)))] pub u2: u8,
}

impl Ttp6p12p14 {
    pub const fn i_min() -> u8 {
        0
    }

    pub const fn i_max() -> u8 {
        255
    }

    pub const fn u2_min() -> u8 {
        0
    }

    pub const fn u2_max() -> u8 {
        1
    }
}

#[asn(sequence, tag(APPLICATION(5)))]

#[derive(Default, Debug, Clone, PartialEq, Hash)]
pub struct Ttp6p12p15Is {
    #[asn(integer(0..3))] pub v: u8,
}

impl Ttp6p12p15Is {
    pub const fn v_min() -> u8 {
        0
    }

    pub const fn v_max() -> u8 {
        3
    }
}

#[asn(set)]

#[derive(Default, Debug, Clone, PartialEq, Hash)]
pub struct Ttp6p12p15 {
    #[asn(integer(0..255))] pub i: u8,
    #[asn(set_of(size(0..2), boolean))] pub st: Vec<bool>,
    #[asn(optional(complex(Ttp6p12p15Is, tag(APPLICATION(5)))), tag(APPLICATION(5)))] pub is: Option<Ttp6p12p15Is>,
}

impl Ttp6p12p15 {
    pub const fn i_min() -> u8 {
        0
    }

    pub const fn i_max() -> u8 {
        255
    }
}

#[asn(set)]

#[derive(Default, Debug, Clone, PartialEq, Hash)]
pub struct Ttp6p13p0 {
    #[asn(integer(0..255))] pub i: u8,
    #[asn(optional(complex(Tchox, tag(PRIVATE(1)))))] pub rx: Option<Tchox>,
    #[asn(integer(0..7), tag(UNIVERSAL(30)))] pub x: u8,
}

impl Ttp6p13p0 {
    pub const fn i_min() -> u8 {
        0
    }

    pub const fn i_max() -> u8 {
        255
    }

    pub const fn x_min() -> u8 {
        0
    }

    pub const fn x_max() -> u8 {
        7
    }
}

#[asn(set)]

#[derive(Default, Debug, Clone, PartialEq, Hash)]
pub struct Ttp6p13p1 {
    #[asn(integer(0..255))] pub i: u8,
    #[asn(optional(complex(Tchox, tag(PRIVATE(1)))))] pub rx: Option<Tchox>,
    #[asn(optional(integer(0..15)), tag(APPLICATION(1)))] pub a: Option<u8>,
}

impl Ttp6p13p1 {
    pub const fn i_min() -> u8 {
        0
    }

    pub const fn i_max() -> u8 {
        255
    }

    pub const fn a_min() -> u8 {
        0
    }

    pub const fn a_max() -> u8 {
        15
    }
}

#[asn(set)]

#[derive(Default, Debug, Clone, PartialEq, Hash)]
pub struct Ttp6p13p2 {
    #[asn(integer(0..255))] pub i: u8,
    #[asn(optional(complex(Tchox, tag(PRIVATE(1)))))] pub rx: Option<Tchox>,
    #[asn(integer(0..31), tag(3))] pub c3: u8,
}

impl Ttp6p13p2 {
    pub const fn i_min() -> u8 {
        0
    }

    pub const fn i_max() -> u8 {
        255
    }

    pub const fn c3_min() -> u8 {
        0
    }

    pub const fn c3_max() -> u8 {
        31
    }
}

#[asn(set)]

#[derive(Default, Debug, Clone, PartialEq, Hash)]
pub struct Ttp6p13p3 {
    #[asn(integer(0..255))] pub i: u8,
    #[asn(optional(complex(Tchox, tag(PRIVATE(1)))))] pub rx: Option<Tchox>,
    #[asn(optional(integer(0..63)), tag(0))] pub c0: Option<u8>,
}

impl Ttp6p13p3 {
    pub const fn i_min() -> u8 {
        0
    }

    pub const fn i_max() -> u8 {
        255
    }

    pub const fn c0_min() -> u8 {
        0
    }

    pub const fn c0_max() -> u8 {
        63
    }
}

#[asn(set)]

#[derive(Default, Debug, Clone, PartialEq, Hash)]
pub struct Ttp6p13p4 {
    #[asn(integer(0..255))] pub i: u8,
    #[asn(optional(complex(Tchox, tag(PRIVATE(1)))))] pub rx: Option<Tchox>,
    #[asn(integer(0..127), tag(PRIVATE(2)))] pub p: u8,
}

impl Ttp6p13p4 {
    pub const fn i_min() -> u8 {
        0
    }

    pub const fn i_max() -> u8 {
        255
    }

    pub const fn p_min() -> u8 {
        0
    }

    pub const fn p_max() -> u8 {
        127
    }
}

#[asn(set)]

#[derive(Default, Debug, Clone, PartialEq, Hash)]
pub struct Ttp6p13p5 {
    #[asn(integer(0..255))] pub i: u8,
    #[asn(optional(complex(Tchox, tag(PRIVATE(1)))))] pub rx: Option<Tchox>,
    #[asn(optional(boolean))] pub b: Option<bool>,
}

impl Ttp6p13p5 {
    pub const fn i_min() -> u8 {
        0
    }

    pub const fn i_max() -> u8 {
        255
    }
}

#[asn(set)]

#[derive(Default, Debug, Clone, PartialEq, Hash)]
pub struct Ttp6p13p7 {
    #[asn(integer(0..255))] pub i: u8,
    #[asn(optional(complex(Tchox, tag(PRIVATE(1)))))] pub rx: Option<Tchox>,
    #[asn(optional(complex(Tapp9, tag(APPLICATION(9)))))] pub ra: Option<Tapp9>,
}

impl Ttp6p13p7 {
    pub const fn i_min() -> u8 {
        0
    }

    pub const fn i_max() -> u8 {
        255
    }
}

#[asn(set)]

#[derive(Default, Debug, Clone, PartialEq, Hash)]
pub struct Ttp6p13p8 {
    #[asn(integer(0..255))] pub i: u8,
    #[asn(optional(complex(Tchox, tag(PRIVATE(1)))))] pub rx: Option<Tchox>,
    #[asn(complex(Tsq, tag(UNIVERSAL(16))))] pub rs: Tsq,
}

impl Ttp6p13p8 {
    pub const fn i_min() -> u8 {
        0
    }

    pub const fn i_max() -> u8 {
        255
    }
}

#[asn(set)]

#[derive(Default, Debug, Clone, PartialEq, Hash)]
pub struct Ttp6p13p9 {
    #[asn(integer(0..255))] pub i: u8,
    #[asn(optional(complex(Tchox, tag(PRIVATE(1)))))] pub rx: Option<Tchox>,
    #[asn(optional(complex(Tcho, tag(1))))] pub rc: Option<Tcho>,
}

impl Ttp6p13p9 {
    pub const fn i_min() -> u8 {
        0
    }

    pub const fn i_max() -> u8 {
        255
    }
}

#[asn(set)]

#[derive(Default, Debug, Clone, PartialEq, Hash)]
pub struct Ttp6p13p10 {
    #[asn(integer(0..255))] pub i: u8,
    #[asn(optional(complex(Tchox, tag(PRIVATE(1)))))] pub rx: Option<Tchox>,
    #[asn(complex(Tst, tag(UNIVERSAL(17))))] pub rt: Tst,
}

impl Ttp6p13p10 {
    pub const fn i_min() -> u8 {
        0
    }

    pub const fn i_max() -> u8 {
        255
    }
}

#[asn(set)]

#[derive(Default, Debug, Clone, PartialEq, Hash)]
pub struct Ttp6p13p11 {
    #[asn(integer(0..255))] pub i: u8,
    #[asn(optional(complex(Tchox, tag(PRIVATE(1)))))] pub rx: Option<Tchox>,
    #[asn(optional(sequence_of(size(0..3), boolean)))] pub so: Option<Vec<bool>>,
}

impl Ttp6p13p11 {
    pub const fn i_min() -> u8 {
        0
    }

    pub const fn i_max() -> u8 {
        255
    }
}

#[asn(set)]

#[derive(Default, Debug, Clone, PartialEq, Hash)]
pub struct Ttp6p13p12 {
    #[asn(integer(0..255))] pub i: u8,
    #[asn(optional(complex(Tchox, tag(PRIVATE(1)))))] pub rx: Option<Tchox>,
    #[asn(set_of(size(0..2), boolean))] pub st: Vec<bool>,
}

impl Ttp6p13p12 {
    pub const fn i_min() -> u8 {
        0
    }

    pub const fn i_max() -> u8 {
        255
    }
}
// ---- harness conversions (generated by the zoo build script from the items above) ----
impl FromValue for Tapp9 { fn from_value(v: &Value) -> Self { Tapp9(FromValue::from_value(v)) } }
impl ToValue for Tapp9 { fn to_value(&self) -> Value { self.0.to_value() } }
impl FromValue for Tsq {
    fn from_value(v: &Value) -> Self {
        let s = match v { Value::Seq(s) => s, other => panic!("Tsq: expected Seq, got {other:?}") };
        assert_eq!(s.len(), 1, "Tsq: component count");
        let _ = s;
        Tsq {
            z: FromValue::from_value(s[0].as_ref().expect("component z of Tsq must be present")),
        }
    }
}
impl ToValue for Tsq {
    fn to_value(&self) -> Value {
        Value::Seq(vec![
            Some(self.z.to_value()),
        ])
    }
}
impl FromValue for Tcho {
    fn from_value(v: &Value) -> Self {
        let (i, inner) = match v { Value::Choice(i, inner) => (*i, &**inner), other => panic!("Tcho: expected Choice, got {other:?}") };
        match i {
            0 => Tcho::M(FromValue::from_value(inner)),
            1 => Tcho::N(FromValue::from_value(inner)),
            _ => panic!("Tcho: alternative index {i} out of range"),
        }
    }
}
impl ToValue for Tcho {
    fn to_value(&self) -> Value {
        match self {
            Tcho::M(x) => Value::Choice(0, Box::new(x.to_value())),
            Tcho::N(x) => Value::Choice(1, Box::new(x.to_value())),
        }
    }
}
impl FromValue for Tchox {
    fn from_value(v: &Value) -> Self {
        let (i, inner) = match v { Value::Choice(i, inner) => (*i, &**inner), other => panic!("Tchox: expected Choice, got {other:?}") };
        match i {
            0 => Tchox::M(FromValue::from_value(inner)),
            1 => Tchox::N(FromValue::from_value(inner)),
            2 => Tchox::O(FromValue::from_value(inner)),
            _ => panic!("Tchox: alternative index {i} out of range"),
        }
    }
}
impl ToValue for Tchox {
    fn to_value(&self) -> Value {
        match self {
            Tchox::M(x) => Value::Choice(0, Box::new(x.to_value())),
            Tchox::N(x) => Value::Choice(1, Box::new(x.to_value())),
            Tchox::O(x) => Value::Choice(2, Box::new(x.to_value())),
        }
    }
}
impl FromValue for Tst {
    fn from_value(v: &Value) -> Self {
        let s = match v { Value::Seq(s) => s, other => panic!("Tst: expected Seq, got {other:?}") };
        assert_eq!(s.len(), 1, "Tst: component count");
        let _ = s;
        Tst {
            z: FromValue::from_value(s[0].as_ref().expect("component z of Tst must be present")),
        }
    }
}
impl ToValue for Tst {
    fn to_value(&self) -> Value {
        Value::Seq(vec![
            Some(self.z.to_value()),
        ])
    }
}
impl FromValue for Ttp6p4p5 {
    fn from_value(v: &Value) -> Self {
        let s = match v { Value::Seq(s) => s, other => panic!("Ttp6p4p5: expected Seq, got {other:?}") };
        assert_eq!(s.len(), 3, "Ttp6p4p5: component count");
        let _ = s;
        Ttp6p4p5 {
            i: FromValue::from_value(s[0].as_ref().expect("component i of Ttp6p4p5 must be present")),
            p: FromValue::from_value(s[1].as_ref().expect("component p of Ttp6p4p5 must be present")),
            b: s[2].as_ref().map(FromValue::from_value),
        }
    }
}
impl ToValue for Ttp6p4p5 {
    fn to_value(&self) -> Value {
        Value::Seq(vec![
            Some(self.i.to_value()),
            Some(self.p.to_value()),
            self.b.as_ref().map(|x| x.to_value()),
        ])
    }
}
impl FromValue for Ttp6p4p7 {
    fn from_value(v: &Value) -> Self {
        let s = match v { Value::Seq(s) => s, other => panic!("Ttp6p4p7: expected Seq, got {other:?}") };
        assert_eq!(s.len(), 3, "Ttp6p4p7: component count");
        let _ = s;
        Ttp6p4p7 {
            i: FromValue::from_value(s[0].as_ref().expect("component i of Ttp6p4p7 must be present")),
            p: FromValue::from_value(s[1].as_ref().expect("component p of Ttp6p4p7 must be present")),
            ra: s[2].as_ref().map(FromValue::from_value),
        }
    }
}
impl ToValue for Ttp6p4p7 {
    fn to_value(&self) -> Value {
        Value::Seq(vec![
            Some(self.i.to_value()),
            Some(self.p.to_value()),
            self.ra.as_ref().map(|x| x.to_value()),
        ])
    }
}
impl FromValue for Ttp6p4p8 {
    fn from_value(v: &Value) -> Self {
        let s = match v { Value::Seq(s) => s, other => panic!("Ttp6p4p8: expected Seq, got {other:?}") };
        assert_eq!(s.len(), 3, "Ttp6p4p8: component count");
        let _ = s;
        Ttp6p4p8 {
            i: FromValue::from_value(s[0].as_ref().expect("component i of Ttp6p4p8 must be present")),
            p: FromValue::from_value(s[1].as_ref().expect("component p of Ttp6p4p8 must be present")),
            rs: FromValue::from_value(s[2].as_ref().expect("component rs of Ttp6p4p8 must be present")),
        }
    }
}
impl ToValue for Ttp6p4p8 {
    fn to_value(&self) -> Value {
        Value::Seq(vec![
            Some(self.i.to_value()),
            Some(self.p.to_value()),
            Some(self.rs.to_value()),
        ])
    }
}
impl FromValue for Ttp6p4p9 {
    fn from_value(v: &Value) -> Self {
        let s = match v { Value::Seq(s) => s, other => panic!("Ttp6p4p9: expected Seq, got {other:?}") };
        assert_eq!(s.len(), 3, "Ttp6p4p9: component count");
        let _ = s;
        Ttp6p4p9 {
            i: FromValue::from_value(s[0].as_ref().expect("component i of Ttp6p4p9 must be present")),
            p: FromValue::from_value(s[1].as_ref().expect("component p of Ttp6p4p9 must be present")),
            rc: s[2].as_ref().map(FromValue::from_value),
        }
    }
}
impl ToValue for Ttp6p4p9 {
    fn to_value(&self) -> Value {
        Value::Seq(vec![
            Some(self.i.to_value()),
            Some(self.p.to_value()),
            self.rc.as_ref().map(|x| x.to_value()),
        ])
    }
}
impl FromValue for Ttp6p4p10 {
    fn from_value(v: &Value) -> Self {
        let s = match v { Value::Seq(s) => s, other => panic!("Ttp6p4p10: expected Seq, got {other:?}") };
        assert_eq!(s.len(), 3, "Ttp6p4p10: component count");
        let _ = s;
        Ttp6p4p10 {
            i: FromValue::from_value(s[0].as_ref().expect("component i of Ttp6p4p10 must be present")),
            p: FromValue::from_value(s[1].as_ref().expect("component p of Ttp6p4p10 must be present")),
            rt: FromValue::from_value(s[2].as_ref().expect("component rt of Ttp6p4p10 must be present")),
        }
    }
}
impl ToValue for Ttp6p4p10 {
    fn to_value(&self) -> Value {
        Value::Seq(vec![
            Some(self.i.to_value()),
            Some(self.p.to_value()),
            Some(self.rt.to_value()),
        ])
    }
}
impl FromValue for Ttp6p4p11 {
    fn from_value(v: &Value) -> Self {
        let s = match v { Value::Seq(s) => s, other => panic!("Ttp6p4p11: expected Seq, got {other:?}") };
        assert_eq!(s.len(), 3, "Ttp6p4p11: component count");
        let _ = s;
        Ttp6p4p11 {
            i: FromValue::from_value(s[0].as_ref().expect("component i of Ttp6p4p11 must be present")),
            p: FromValue::from_value(s[1].as_ref().expect("component p of Ttp6p4p11 must be present")),
            so: s[2].as_ref().map(FromValue::from_value),
        }
    }
}
impl ToValue for Ttp6p4p11 {
    fn to_value(&self) -> Value {
        Value::Seq(vec![
            Some(self.i.to_value()),
            Some(self.p.to_value()),
            self.so.as_ref().map(|x| x.to_value()),
        ])
    }
}
impl FromValue for Ttp6p4p12 {
    fn from_value(v: &Value) -> Self {
        let s = match v { Value::Seq(s) => s, other => panic!("Ttp6p4p12: expected Seq, got {other:?}") };
        assert_eq!(s.len(), 3, "Ttp6p4p12: component count");
        let _ = s;
        Ttp6p4p12 {
            i: FromValue::from_value(s[0].as_ref().expect("component i of Ttp6p4p12 must be present")),
            p: FromValue::from_value(s[1].as_ref().expect("component p of Ttp6p4p12 must be present")),
            st: FromValue::from_value(s[2].as_ref().expect("component st of Ttp6p4p12 must be present")),
        }
    }
}
impl ToValue for Ttp6p4p12 {
    fn to_value(&self) -> Value {
        Value::Seq(vec![
            Some(self.i.to_value()),
            Some(self.p.to_value()),
            Some(self.st.to_value()),
        ])
    }
}
impl FromValue for Ttp6p4p13 {
    fn from_value(v: &Value) -> Self {
        let s = match v { Value::Seq(s) => s, other => panic!("Ttp6p4p13: expected Seq, got {other:?}") };
        assert_eq!(s.len(), 3, "Ttp6p4p13: component count");
        let _ = s;
        Ttp6p4p13 {
            i: FromValue::from_value(s[0].as_ref().expect("component i of Ttp6p4p13 must be present")),
            p: FromValue::from_value(s[1].as_ref().expect("component p of Ttp6p4p13 must be present")),
            rx: s[2].as_ref().map(FromValue::from_value),
        }
    }
}
impl ToValue for Ttp6p4p13 {
    fn to_value(&self) -> Value {
        Value::Seq(vec![
            Some(self.i.to_value()),
            Some(self.p.to_value()),
            self.rx.as_ref().map(|x| x.to_value()),
        ])
    }
}
impl FromValue for Ttp6p4p14 {
    fn from_value(v: &Value) -> Self {
        let s = match v { Value::Seq(s) => s, other => panic!("Ttp6p4p14: expected Seq, got {other:?}") };
        assert_eq!(s.len(), 3, "Ttp6p4p14: component count");
        let _ = s;
        Ttp6p4p14 {
            i: FromValue::from_value(s[0].as_ref().expect("component i of Ttp6p4p14 must be present")),
            p: FromValue::from_value(s[1].as_ref().expect("component p of Ttp6p4p14 must be present")),
            u2: FromValue::from_value(s[2].as_ref().expect("component u2 of Ttp6p4p14 must be present")),
        }
    }
}
impl ToValue for Ttp6p4p14 {
    fn to_value(&self) -> Value {
        Value::Seq(vec![
            Some(self.i.to_value()),
            Some(self.p.to_value()),
            Some(self.u2.to_value()),
        ])
    }
}
impl FromValue for Ttp6p4p15Is {
    fn from_value(v: &Value) -> Self {
        let s = match v { Value::Seq(s) => s, other => panic!("Ttp6p4p15Is: expected Seq, got {other:?}") };
        assert_eq!(s.len(), 1, "Ttp6p4p15Is: component count");
        let _ = s;
        Ttp6p4p15Is {
            v: FromValue::from_value(s[0].as_ref().expect("component v of Ttp6p4p15Is must be present")),
        }
    }
}
impl ToValue for Ttp6p4p15Is {
    fn to_value(&self) -> Value {
        Value::Seq(vec![
            Some(self.v.to_value()),
        ])
    }
}
impl FromValue for Ttp6p4p15 {
    fn from_value(v: &Value) -> Self {
        let s = match v { Value::Seq(s) => s, other => panic!("Ttp6p4p15: expected Seq, got {other:?}") };
        assert_eq!(s.len(), 3, "Ttp6p4p15: component count");
        let _ = s;
        Ttp6p4p15 {
            i: FromValue::from_value(s[0].as_ref().expect("component i of Ttp6p4p15 must be present")),
            p: FromValue::from_value(s[1].as_ref().expect("component p of Ttp6p4p15 must be present")),
            is: s[2].as_ref().map(FromValue::from_value),
        }
    }
}
impl ToValue for Ttp6p4p15 {
    fn to_value(&self) -> Value {
        Value::Seq(vec![
            Some(self.i.to_value()),
            Some(self.p.to_value()),
            self.is.as_ref().map(|x| x.to_value()),
        ])
    }
}
impl FromValue for Ttp6p5p0 {
    fn from_value(v: &Value) -> Self {
        let s = match v { Value::Seq(s) => s, other => panic!("Ttp6p5p0: expected Seq, got {other:?}") };
        assert_eq!(s.len(), 3, "Ttp6p5p0: component count");
        let _ = s;
        Ttp6p5p0 {
            i: FromValue::from_value(s[0].as_ref().expect("component i of Ttp6p5p0 must be present")),
            b: s[1].as_ref().map(FromValue::from_value),
            x: FromValue::from_value(s[2].as_ref().expect("component x of Ttp6p5p0 must be present")),
        }
    }
}
impl ToValue for Ttp6p5p0 {
    fn to_value(&self) -> Value {
        Value::Seq(vec![
            Some(self.i.to_value()),
            self.b.as_ref().map(|x| x.to_value()),
            Some(self.x.to_value()),
        ])
    }
}
impl FromValue for Ttp6p5p1 {
    fn from_value(v: &Value) -> Self {
        let s = match v { Value::Seq(s) => s, other => panic!("Ttp6p5p1: expected Seq, got {other:?}") };
        assert_eq!(s.len(), 3, "Ttp6p5p1: component count");
        let _ = s;
        Ttp6p5p1 {
            i: FromValue::from_value(s[0].as_ref().expect("component i of Ttp6p5p1 must be present")),
            b: s[1].as_ref().map(FromValue::from_value),
            a: s[2].as_ref().map(FromValue::from_value),
        }
    }
}
impl ToValue for Ttp6p5p1 {
    fn to_value(&self) -> Value {
        Value::Seq(vec![
            Some(self.i.to_value()),
            self.b.as_ref().map(|x| x.to_value()),
            self.a.as_ref().map(|x| x.to_value()),
        ])
    }
}
impl FromValue for Ttp6p5p2 {
    fn from_value(v: &Value) -> Self {
        let s = match v { Value::Seq(s) => s, other => panic!("Ttp6p5p2: expected Seq, got {other:?}") };
        assert_eq!(s.len(), 3, "Ttp6p5p2: component count");
        let _ = s;
        Ttp6p5p2 {
            i: FromValue::from_value(s[0].as_ref().expect("component i of Ttp6p5p2 must be present")),
            b: s[1].as_ref().map(FromValue::from_value),
            c3: FromValue::from_value(s[2].as_ref().expect("component c3 of Ttp6p5p2 must be present")),
        }
    }
}
impl ToValue for Ttp6p5p2 {
    fn to_value(&self) -> Value {
        Value::Seq(vec![
            Some(self.i.to_value()),
            self.b.as_ref().map(|x| x.to_value()),
            Some(self.c3.to_value()),
        ])
    }
}
impl FromValue for Ttp6p5p3 {
    fn from_value(v: &Value) -> Self {
        let s = match v { Value::Seq(s) => s, other => panic!("Ttp6p5p3: expected Seq, got {other:?}") };
        assert_eq!(s.len(), 3, "Ttp6p5p3: component count");
        let _ = s;
        Ttp6p5p3 {
            i: FromValue::from_value(s[0].as_ref().expect("component i of Ttp6p5p3 must be present")),
            b: s[1].as_ref().map(FromValue::from_value),
            c0: s[2].as_ref().map(FromValue::from_value),
        }
    }
}
impl ToValue for Ttp6p5p3 {
    fn to_value(&self) -> Value {
        Value::Seq(vec![
            Some(self.i.to_value()),
            self.b.as_ref().map(|x| x.to_value()),
            self.c0.as_ref().map(|x| x.to_value()),
        ])
    }
}
impl FromValue for Ttp6p5p4 {
    fn from_value(v: &Value) -> Self {
        let s = match v { Value::Seq(s) => s, other => panic!("Ttp6p5p4: expected Seq, got {other:?}") };
        assert_eq!(s.len(), 3, "Ttp6p5p4: component count");
        let _ = s;
        Ttp6p5p4 {
            i: FromValue::from_value(s[0].as_ref().expect("component i of Ttp6p5p4 must be present")),
            b: s[1].as_ref().map(FromValue::from_value),
            p: FromValue::from_value(s[2].as_ref().expect("component p of Ttp6p5p4 must be present")),
        }
    }
}
impl ToValue for Ttp6p5p4 {
    fn to_value(&self) -> Value {
        Value::Seq(vec![
            Some(self.i.to_value()),
            self.b.as_ref().map(|x| x.to_value()),
            Some(self.p.to_value()),
        ])
    }
}
impl FromValue for Ttp6p5p7 {
    fn from_value(v: &Value) -> Self {
        let s = match v { Value::Seq(s) => s, other => panic!("Ttp6p5p7: expected Seq, got {other:?}") };
        assert_eq!(s.len(), 3, "Ttp6p5p7: component count");
        let _ = s;
        Ttp6p5p7 {
            i: FromValue::from_value(s[0].as_ref().expect("component i of Ttp6p5p7 must be present")),
            b: s[1].as_ref().map(FromValue::from_value),
            ra: s[2].as_ref().map(FromValue::from_value),
        }
    }
}
impl ToValue for Ttp6p5p7 {
    fn to_value(&self) -> Value {
        Value::Seq(vec![
            Some(self.i.to_value()),
            self.b.as_ref().map(|x| x.to_value()),
            self.ra.as_ref().map(|x| x.to_value()),
        ])
    }
}
impl FromValue for Ttp6p5p8 {
    fn from_value(v: &Value) -> Self {
        let s = match v { Value::Seq(s) => s, other => panic!("Ttp6p5p8: expected Seq, got {other:?}") };
        assert_eq!(s.len(), 3, "Ttp6p5p8: component count");
        let _ = s;
        Ttp6p5p8 {
            i: FromValue::from_value(s[0].as_ref().expect("component i of Ttp6p5p8 must be present")),
            b: s[1].as_ref().map(FromValue::from_value),
            rs: FromValue::from_value(s[2].as_ref().expect("component rs of Ttp6p5p8 must be present")),
        }
    }
}
impl ToValue for Ttp6p5p8 {
    fn to_value(&self) -> Value {
        Value::Seq(vec![
            Some(self.i.to_value()),
            self.b.as_ref().map(|x| x.to_value()),
            Some(self.rs.to_value()),
        ])
    }
}
impl FromValue for Ttp6p5p9 {
    fn from_value(v: &Value) -> Self {
        let s = match v { Value::Seq(s) => s, other => panic!("Ttp6p5p9: expected Seq, got {other:?}") };
        assert_eq!(s.len(), 3, "Ttp6p5p9: component count");
        let _ = s;
        Ttp6p5p9 {
            i: FromValue::from_value(s[0].as_ref().expect("component i of Ttp6p5p9 must be present")),
            b: s[1].as_ref().map(FromValue::from_value),
            rc: s[2].as_ref().map(FromValue::from_value),
        }
    }
}
impl ToValue for Ttp6p5p9 {
    fn to_value(&self) -> Value {
        Value::Seq(vec![
            Some(self.i.to_value()),
            self.b.as_ref().map(|x| x.to_value()),
            self.rc.as_ref().map(|x| x.to_value()),
        ])
    }
}
impl FromValue for Ttp6p5p10 {
    fn from_value(v: &Value) -> Self {
        let s = match v { Value::Seq(s) => s, other => panic!("Ttp6p5p10: expected Seq, got {other:?}") };
        assert_eq!(s.len(), 3, "Ttp6p5p10: component count");
        let _ = s;
        Ttp6p5p10 {
            i: FromValue::from_value(s[0].as_ref().expect("component i of Ttp6p5p10 must be present")),
            b: s[1].as_ref().map(FromValue::from_value),
            rt: FromValue::from_value(s[2].as_ref().expect("component rt of Ttp6p5p10 must be present")),
        }
    }
}
impl ToValue for Ttp6p5p10 {
    fn to_value(&self) -> Value {
        Value::Seq(vec![
            Some(self.i.to_value()),
            self.b.as_ref().map(|x| x.to_value()),
            Some(self.rt.to_value()),
        ])
    }
}
impl FromValue for Ttp6p5p11 {
    fn from_value(v: &Value) -> Self {
        let s = match v { Value::Seq(s) => s, other => panic!("Ttp6p5p11: expected Seq, got {other:?}") };
        assert_eq!(s.len(), 3, "Ttp6p5p11: component count");
        let _ = s;
        Ttp6p5p11 {
            i: FromValue::from_value(s[0].as_ref().expect("component i of Ttp6p5p11 must be present")),
            b: s[1].as_ref().map(FromValue::from_value),
            so: s[2].as_ref().map(FromValue::from_value),
        }
    }
}
impl ToValue for Ttp6p5p11 {
    fn to_value(&self) -> Value {
        Value::Seq(vec![
            Some(self.i.to_value()),
            self.b.as_ref().map(|x| x.to_value()),
            self.so.as_ref().map(|x| x.to_value()),
        ])
    }
}
impl FromValue for Ttp6p5p12 {
    fn from_value(v: &Value) -> Self {
        let s = match v { Value::Seq(s) => s, other => panic!("Ttp6p5p12: expected Seq, got {other:?}") };
        assert_eq!(s.len(), 3, "Ttp6p5p12: component count");
        let _ = s;
        Ttp6p5p12 {
            i: FromValue::from_value(s[0].as_ref().expect("component i of Ttp6p5p12 must be present")),
            b: s[1].as_ref().map(FromValue::from_value),
            st: FromValue::from_value(s[2].as_ref().expect("component st of Ttp6p5p12 must be present")),
        }
    }
}
impl ToValue for Ttp6p5p12 {
    fn to_value(&self) -> Value {
        Value::Seq(vec![
            Some(self.i.to_value()),
            self.b.as_ref().map(|x| x.to_value()),
            Some(self.st.to_value()),
        ])
    }
}
impl FromValue for Ttp6p5p13 {
    fn from_value(v: &Value) -> Self {
        let s = match v { Value::Seq(s) => s, other => panic!("Ttp6p5p13: expected Seq, got {other:?}") };
        assert_eq!(s.len(), 3, "Ttp6p5p13: component count");
        let _ = s;
        Ttp6p5p13 {
            i: FromValue::from_value(s[0].as_ref().expect("component i of Ttp6p5p13 must be present")),
            b: s[1].as_ref().map(FromValue::from_value),
            rx: s[2].as_ref().map(FromValue::from_value),
        }
    }
}
impl ToValue for Ttp6p5p13 {
    fn to_value(&self) -> Value {
        Value::Seq(vec![
            Some(self.i.to_value()),
            self.b.as_ref().map(|x| x.to_value()),
            self.rx.as_ref().map(|x| x.to_value()),
        ])
    }
}
impl FromValue for Ttp6p5p14 {
    fn from_value(v: &Value) -> Self {
        let s = match v { Value::Seq(s) => s, other => panic!("Ttp6p5p14: expected Seq, got {other:?}") };
        assert_eq!(s.len(), 3, "Ttp6p5p14: component count");
        let _ = s;
        Ttp6p5p14 {
            i: FromValue::from_value(s[0].as_ref().expect("component i of Ttp6p5p14 must be present")),
            b: s[1].as_ref().map(FromValue::from_value),
            u2: FromValue::from_value(s[2].as_ref().expect("component u2 of Ttp6p5p14 must be present")),
        }
    }
}
impl ToValue for Ttp6p5p14 {
    fn to_value(&self) -> Value {
        Value::Seq(vec![
            Some(self.i.to_value()),
            self.b.as_ref().map(|x| x.to_value()),
            Some(self.u2.to_value()),
        ])
    }
}
impl FromValue for Ttp6p5p15Is {
    fn from_value(v: &Value) -> Self {
        let s = match v { Value::Seq(s) => s, other => panic!("Ttp6p5p15Is: expected Seq, got {other:?}") };
        assert_eq!(s.len(), 1, "Ttp6p5p15Is: component count");
        let _ = s;
        Ttp6p5p15Is {
            v: FromValue::from_value(s[0].as_ref().expect("component v of Ttp6p5p15Is must be present")),
        }
    }
}
impl ToValue for Ttp6p5p15Is {
    fn to_value(&self) -> Value {
        Value::Seq(vec![
            Some(self.v.to_value()),
        ])
    }
}
impl FromValue for Ttp6p5p15 {
    fn from_value(v: &Value) -> Self {
        let s = match v { Value::Seq(s) => s, other => panic!("Ttp6p5p15: expected Seq, got {other:?}") };
        assert_eq!(s.len(), 3, "Ttp6p5p15: component count");
        let _ = s;
        Ttp6p5p15 {
            i: FromValue::from_value(s[0].as_ref().expect("component i of Ttp6p5p15 must be present")),
            b: s[1].as_ref().map(FromValue::from_value),
            is: s[2].as_ref().map(FromValue::from_value),
        }
    }
}
impl ToValue for Ttp6p5p15 {
    fn to_value(&self) -> Value {
        Value::Seq(vec![
            Some(self.i.to_value()),
            self.b.as_ref().map(|x| x.to_value()),
            self.is.as_ref().map(|x| x.to_value()),
        ])
    }
}
impl FromValue for Ttp6p7p0 {
    fn from_value(v: &Value) -> Self {
        let s = match v { Value::Seq(s) => s, other => panic!("Ttp6p7p0: expected Seq, got {other:?}") };
        assert_eq!(s.len(), 3, "Ttp6p7p0: component count");
        let _ = s;
        Ttp6p7p0 {
            i: FromValue::from_value(s[0].as_ref().expect("component i of Ttp6p7p0 must be present")),
            ra: s[1].as_ref().map(FromValue::from_value),
            x: FromValue::from_value(s[2].as_ref().expect("component x of Ttp6p7p0 must be present")),
        }
    }
}
impl ToValue for Ttp6p7p0 {
    fn to_value(&self) -> Value {
        Value::Seq(vec![
            Some(self.i.to_value()),
            self.ra.as_ref().map(|x| x.to_value()),
            Some(self.x.to_value()),
        ])
    }
}
impl FromValue for Ttp6p7p1 {
    fn from_value(v: &Value) -> Self {
        let s = match v { Value::Seq(s) => s, other => panic!("Ttp6p7p1: expected Seq, got {other:?}") };
        assert_eq!(s.len(), 3, "Ttp6p7p1: component count");
        let _ = s;
        Ttp6p7p1 {
            i: FromValue::from_value(s[0].as_ref().expect("component i of Ttp6p7p1 must be present")),
            ra: s[1].as_ref().map(FromValue::from_value),
            a: s[2].as_ref().map(FromValue::from_value),
        }
    }
}
impl ToValue for Ttp6p7p1 {
    fn to_value(&self) -> Value {
        Value::Seq(vec![
            Some(self.i.to_value()),
            self.ra.as_ref().map(|x| x.to_value()),
            self.a.as_ref().map(|x| x.to_value()),
        ])
    }
}
impl FromValue for Ttp6p7p2 {
    fn from_value(v: &Value) -> Self {
        let s = match v { Value::Seq(s) => s, other => panic!("Ttp6p7p2: expected Seq, got {other:?}") };
        assert_eq!(s.len(), 3, "Ttp6p7p2: component count");
        let _ = s;
        Ttp6p7p2 {
            i: FromValue::from_value(s[0].as_ref().expect("component i of Ttp6p7p2 must be present")),
            ra: s[1].as_ref().map(FromValue::from_value),
            c3: FromValue::from_value(s[2].as_ref().expect("component c3 of Ttp6p7p2 must be present")),
        }
    }
}
impl ToValue for Ttp6p7p2 {
    fn to_value(&self) -> Value {
        Value::Seq(vec![
            Some(self.i.to_value()),
            self.ra.as_ref().map(|x| x.to_value()),
            Some(self.c3.to_value()),
        ])
    }
}
impl FromValue for Ttp6p7p3 {
    fn from_value(v: &Value) -> Self {
        let s = match v { Value::Seq(s) => s, other => panic!("Ttp6p7p3: expected Seq, got {other:?}") };
        assert_eq!(s.len(), 3, "Ttp6p7p3: component count");
        let _ = s;
        Ttp6p7p3 {
            i: FromValue::from_value(s[0].as_ref().expect("component i of Ttp6p7p3 must be present")),
            ra: s[1].as_ref().map(FromValue::from_value),
            c0: s[2].as_ref().map(FromValue::from_value),
        }
    }
}
impl ToValue for Ttp6p7p3 {
    fn to_value(&self) -> Value {
        Value::Seq(vec![
            Some(self.i.to_value()),
            self.ra.as_ref().map(|x| x.to_value()),
            self.c0.as_ref().map(|x| x.to_value()),
        ])
    }
}
impl FromValue for Ttp6p7p4 {
    fn from_value(v: &Value) -> Self {
        let s = match v { Value::Seq(s) => s, other => panic!("Ttp6p7p4: expected Seq, got {other:?}") };
        assert_eq!(s.len(), 3, "Ttp6p7p4: component count");
        let _ = s;
        Ttp6p7p4 {
            i: FromValue::from_value(s[0].as_ref().expect("component i of Ttp6p7p4 must be present")),
            ra: s[1].as_ref().map(FromValue::from_value),
            p: FromValue::from_value(s[2].as_ref().expect("component p of Ttp6p7p4 must be present")),
        }
    }
}
impl ToValue for Ttp6p7p4 {
    fn to_value(&self) -> Value {
        Value::Seq(vec![
            Some(self.i.to_value()),
            self.ra.as_ref().map(|x| x.to_value()),
            Some(self.p.to_value()),
        ])
    }
}
impl FromValue for Ttp6p7p5 {
    fn from_value(v: &Value) -> Self {
        let s = match v { Value::Seq(s) => s, other => panic!("Ttp6p7p5: expected Seq, got {other:?}") };
        assert_eq!(s.len(), 3, "Ttp6p7p5: component count");
        let _ = s;
        Ttp6p7p5 {
            i: FromValue::from_value(s[0].as_ref().expect("component i of Ttp6p7p5 must be present")),
            ra: s[1].as_ref().map(FromValue::from_value),
            b: s[2].as_ref().map(FromValue::from_value),
        }
    }
}
impl ToValue for Ttp6p7p5 {
    fn to_value(&self) -> Value {
        Value::Seq(vec![
            Some(self.i.to_value()),
            self.ra.as_ref().map(|x| x.to_value()),
            self.b.as_ref().map(|x| x.to_value()),
        ])
    }
}
impl FromValue for Ttp6p7p8 {
    fn from_value(v: &Value) -> Self {
        let s = match v { Value::Seq(s) => s, other => panic!("Ttp6p7p8: expected Seq, got {other:?}") };
        assert_eq!(s.len(), 3, "Ttp6p7p8: component count");
        let _ = s;
        Ttp6p7p8 {
            i: FromValue::from_value(s[0].as_ref().expect("component i of Ttp6p7p8 must be present")),
            ra: s[1].as_ref().map(FromValue::from_value),
            rs: FromValue::from_value(s[2].as_ref().expect("component rs of Ttp6p7p8 must be present")),
        }
    }
}
impl ToValue for Ttp6p7p8 {
    fn to_value(&self) -> Value {
        Value::Seq(vec![
            Some(self.i.to_value()),
            self.ra.as_ref().map(|x| x.to_value()),
            Some(self.rs.to_value()),
        ])
    }
}
impl FromValue for Ttp6p7p9 {
    fn from_value(v: &Value) -> Self {
        let s = match v { Value::Seq(s) => s, other => panic!("Ttp6p7p9: expected Seq, got {other:?}") };
        assert_eq!(s.len(), 3, "Ttp6p7p9: component count");
        let _ = s;
        Ttp6p7p9 {
            i: FromValue::from_value(s[0].as_ref().expect("component i of Ttp6p7p9 must be present")),
            ra: s[1].as_ref().map(FromValue::from_value),
            rc: s[2].as_ref().map(FromValue::from_value),
        }
    }
}
impl ToValue for Ttp6p7p9 {
    fn to_value(&self) -> Value {
        Value::Seq(vec![
            Some(self.i.to_value()),
            self.ra.as_ref().map(|x| x.to_value()),
            self.rc.as_ref().map(|x| x.to_value()),
        ])
    }
}
impl FromValue for Ttp6p7p10 {
    fn from_value(v: &Value) -> Self {
        let s = match v { Value::Seq(s) => s, other => panic!("Ttp6p7p10: expected Seq, got {other:?}") };
        assert_eq!(s.len(), 3, "Ttp6p7p10: component count");
        let _ = s;
        Ttp6p7p10 {
            i: FromValue::from_value(s[0].as_ref().expect("component i of Ttp6p7p10 must be present")),
            ra: s[1].as_ref().map(FromValue::from_value),
            rt: FromValue::from_value(s[2].as_ref().expect("component rt of Ttp6p7p10 must be present")),
        }
    }
}
impl ToValue for Ttp6p7p10 {
    fn to_value(&self) -> Value {
        Value::Seq(vec![
            Some(self.i.to_value()),
            self.ra.as_ref().map(|x| x.to_value()),
            Some(self.rt.to_value()),
        ])
    }
}
impl FromValue for Ttp6p7p11 {
    fn from_value(v: &Value) -> Self {
        let s = match v { Value::Seq(s) => s, other => panic!("Ttp6p7p11: expected Seq, got {other:?}") };
        assert_eq!(s.len(), 3, "Ttp6p7p11: component count");
        let _ = s;
        Ttp6p7p11 {
            i: FromValue::from_value(s[0].as_ref().expect("component i of Ttp6p7p11 must be present")),
            ra: s[1].as_ref().map(FromValue::from_value),
            so: s[2].as_ref().map(FromValue::from_value),
        }
    }
}
impl ToValue for Ttp6p7p11 {
    fn to_value(&self) -> Value {
        Value::Seq(vec![
            Some(self.i.to_value()),
            self.ra.as_ref().map(|x| x.to_value()),
            self.so.as_ref().map(|x| x.to_value()),
        ])
    }
}
impl FromValue for Ttp6p7p12 {
    fn from_value(v: &Value) -> Self {
        let s = match v { Value::Seq(s) => s, other => panic!("Ttp6p7p12: expected Seq, got {other:?}") };
        assert_eq!(s.len(), 3, "Ttp6p7p12: component count");
        let _ = s;
        Ttp6p7p12 {
            i: FromValue::from_value(s[0].as_ref().expect("component i of Ttp6p7p12 must be present")),
            ra: s[1].as_ref().map(FromValue::from_value),
            st: FromValue::from_value(s[2].as_ref().expect("component st of Ttp6p7p12 must be present")),
        }
    }
}
impl ToValue for Ttp6p7p12 {
    fn to_value(&self) -> Value {
        Value::Seq(vec![
            Some(self.i.to_value()),
            self.ra.as_ref().map(|x| x.to_value()),
            Some(self.st.to_value()),
        ])
    }
}
impl FromValue for Ttp6p7p13 {
    fn from_value(v: &Value) -> Self {
        let s = match v { Value::Seq(s) => s, other => panic!("Ttp6p7p13: expected Seq, got {other:?}") };
        assert_eq!(s.len(), 3, "Ttp6p7p13: component count");
        let _ = s;
        Ttp6p7p13 {
            i: FromValue::from_value(s[0].as_ref().expect("component i of Ttp6p7p13 must be present")),
            ra: s[1].as_ref().map(FromValue::from_value),
            rx: s[2].as_ref().map(FromValue::from_value),
        }
    }
}
impl ToValue for Ttp6p7p13 {
    fn to_value(&self) -> Value {
        Value::Seq(vec![
            Some(self.i.to_value()),
            self.ra.as_ref().map(|x| x.to_value()),
            self.rx.as_ref().map(|x| x.to_value()),
        ])
    }
}
impl FromValue for Ttp6p7p14 {
    fn from_value(v: &Value) -> Self {
        let s = match v { Value::Seq(s) => s, other => panic!("Ttp6p7p14: expected Seq, got {other:?}") };
        assert_eq!(s.len(), 3, "Ttp6p7p14: component count");
        let _ = s;
        Ttp6p7p14 {
            i: FromValue::from_value(s[0].as_ref().expect("component i of Ttp6p7p14 must be present")),
            ra: s[1].as_ref().map(FromValue::from_value),
            u2: FromValue::from_value(s[2].as_ref().expect("component u2 of Ttp6p7p14 must be present")),
        }
    }
}
impl ToValue for Ttp6p7p14 {
    fn to_value(&self) -> Value {
        Value::Seq(vec![
            Some(self.i.to_value()),
            self.ra.as_ref().map(|x| x.to_value()),
            Some(self.u2.to_value()),
        ])
    }
}
impl FromValue for Ttp6p7p15Is {
    fn from_value(v: &Value) -> Self {
        let s = match v { Value::Seq(s) => s, other => panic!("Ttp6p7p15Is: expected Seq, got {other:?}") };
        assert_eq!(s.len(), 1, "Ttp6p7p15Is: component count");
        let _ = s;
        Ttp6p7p15Is {
            v: FromValue::from_value(s[0].as_ref().expect("component v of Ttp6p7p15Is must be present")),
        }
    }
}
impl ToValue for Ttp6p7p15Is {
    fn to_value(&self) -> Value {
        Value::Seq(vec![
            Some(self.v.to_value()),
        ])
    }
}
impl FromValue for Ttp6p7p15 {
    fn from_value(v: &Value) -> Self {
        let s = match v { Value::Seq(s) => s, other => panic!("Ttp6p7p15: expected Seq, got {other:?}") };
        assert_eq!(s.len(), 3, "Ttp6p7p15: component count");
        let _ = s;
        Ttp6p7p15 {
            i: FromValue::from_value(s[0].as_ref().expect("component i of Ttp6p7p15 must be present")),
            ra: s[1].as_ref().map(FromValue::from_value),
            is: s[2].as_ref().map(FromValue::from_value),
        }
    }
}
impl ToValue for Ttp6p7p15 {
    fn to_value(&self) -> Value {
        Value::Seq(vec![
            Some(self.i.to_value()),
            self.ra.as_ref().map(|x| x.to_value()),
            self.is.as_ref().map(|x| x.to_value()),
        ])
    }
}
impl FromValue for Ttp6p8p0 {
    fn from_value(v: &Value) -> Self {
        let s = match v { Value::Seq(s) => s, other => panic!("Ttp6p8p0: expected Seq, got {other:?}") };
        assert_eq!(s.len(), 3, "Ttp6p8p0: component count");
        let _ = s;
        Ttp6p8p0 {
            i: FromValue::from_value(s[0].as_ref().expect("component i of Ttp6p8p0 must be present")),
            rs: FromValue::from_value(s[1].as_ref().expect("component rs of Ttp6p8p0 must be present")),
            x: FromValue::from_value(s[2].as_ref().expect("component x of Ttp6p8p0 must be present")),
        }
    }
}
impl ToValue for Ttp6p8p0 {
    fn to_value(&self) -> Value {
        Value::Seq(vec![
            Some(self.i.to_value()),
            Some(self.rs.to_value()),
            Some(self.x.to_value()),
        ])
    }
}
impl FromValue for Ttp6p8p1 {
    fn from_value(v: &Value) -> Self {
        let s = match v { Value::Seq(s) => s, other => panic!("Ttp6p8p1: expected Seq, got {other:?}") };
        assert_eq!(s.len(), 3, "Ttp6p8p1: component count");
        let _ = s;
        Ttp6p8p1 {
            i: FromValue::from_value(s[0].as_ref().expect("component i of Ttp6p8p1 must be present")),
            rs: FromValue::from_value(s[1].as_ref().expect("component rs of Ttp6p8p1 must be present")),
            a: s[2].as_ref().map(FromValue::from_value),
        }
    }
}
impl ToValue for Ttp6p8p1 {
    fn to_value(&self) -> Value {
        Value::Seq(vec![
            Some(self.i.to_value()),
            Some(self.rs.to_value()),
            self.a.as_ref().map(|x| x.to_value()),
        ])
    }
}
impl FromValue for Ttp6p8p2 {
    fn from_value(v: &Value) -> Self {
        let s = match v { Value::Seq(s) => s, other => panic!("Ttp6p8p2: expected Seq, got {other:?}") };
        assert_eq!(s.len(), 3, "Ttp6p8p2: component count");
        let _ = s;
        Ttp6p8p2 {
            i: FromValue::from_value(s[0].as_ref().expect("component i of Ttp6p8p2 must be present")),
            rs: FromValue::from_value(s[1].as_ref().expect("component rs of Ttp6p8p2 must be present")),
            c3: FromValue::from_value(s[2].as_ref().expect("component c3 of Ttp6p8p2 must be present")),
        }
    }
}
impl ToValue for Ttp6p8p2 {
    fn to_value(&self) -> Value {
        Value::Seq(vec![
            Some(self.i.to_value()),
            Some(self.rs.to_value()),
            Some(self.c3.to_value()),
        ])
    }
}
impl FromValue for Ttp6p8p3 {
    fn from_value(v: &Value) -> Self {
        let s = match v { Value::Seq(s) => s, other => panic!("Ttp6p8p3: expected Seq, got {other:?}") };
        assert_eq!(s.len(), 3, "Ttp6p8p3: component count");
        let _ = s;
        Ttp6p8p3 {
            i: FromValue::from_value(s[0].as_ref().expect("component i of Ttp6p8p3 must be present")),
            rs: FromValue::from_value(s[1].as_ref().expect("component rs of Ttp6p8p3 must be present")),
            c0: s[2].as_ref().map(FromValue::from_value),
        }
    }
}
impl ToValue for Ttp6p8p3 {
    fn to_value(&self) -> Value {
        Value::Seq(vec![
            Some(self.i.to_value()),
            Some(self.rs.to_value()),
            self.c0.as_ref().map(|x| x.to_value()),
        ])
    }
}
impl FromValue for Ttp6p8p4 {
    fn from_value(v: &Value) -> Self {
        let s = match v { Value::Seq(s) => s, other => panic!("Ttp6p8p4: expected Seq, got {other:?}") };
        assert_eq!(s.len(), 3, "Ttp6p8p4: component count");
        let _ = s;
        Ttp6p8p4 {
            i: FromValue::from_value(s[0].as_ref().expect("component i of Ttp6p8p4 must be present")),
            rs: FromValue::from_value(s[1].as_ref().expect("component rs of Ttp6p8p4 must be present")),
            p: FromValue::from_value(s[2].as_ref().expect("component p of Ttp6p8p4 must be present")),
        }
    }
}
impl ToValue for Ttp6p8p4 {
    fn to_value(&self) -> Value {
        Value::Seq(vec![
            Some(self.i.to_value()),
            Some(self.rs.to_value()),
            Some(self.p.to_value()),
        ])
    }
}
impl FromValue for Ttp6p8p5 {
    fn from_value(v: &Value) -> Self {
        let s = match v { Value::Seq(s) => s, other => panic!("Ttp6p8p5: expected Seq, got {other:?}") };
        assert_eq!(s.len(), 3, "Ttp6p8p5: component count");
        let _ = s;
        Ttp6p8p5 {
            i: FromValue::from_value(s[0].as_ref().expect("component i of Ttp6p8p5 must be present")),
            rs: FromValue::from_value(s[1].as_ref().expect("component rs of Ttp6p8p5 must be present")),
            b: s[2].as_ref().map(FromValue::from_value),
        }
    }
}
impl ToValue for Ttp6p8p5 {
    fn to_value(&self) -> Value {
        Value::Seq(vec![
            Some(self.i.to_value()),
            Some(self.rs.to_value()),
            self.b.as_ref().map(|x| x.to_value()),
        ])
    }
}
impl FromValue for Ttp6p8p7 {
    fn from_value(v: &Value) -> Self {
        let s = match v { Value::Seq(s) => s, other => panic!("Ttp6p8p7: expected Seq, got {other:?}") };
        assert_eq!(s.len(), 3, "Ttp6p8p7: component count");
        let _ = s;
        Ttp6p8p7 {
            i: FromValue::from_value(s[0].as_ref().expect("component i of Ttp6p8p7 must be present")),
            rs: FromValue::from_value(s[1].as_ref().expect("component rs of Ttp6p8p7 must be present")),
            ra: s[2].as_ref().map(FromValue::from_value),
        }
    }
}
impl ToValue for Ttp6p8p7 {
    fn to_value(&self) -> Value {
        Value::Seq(vec![
            Some(self.i.to_value()),
            Some(self.rs.to_value()),
            self.ra.as_ref().map(|x| x.to_value()),
        ])
    }
}
impl FromValue for Ttp6p8p9 {
    fn from_value(v: &Value) -> Self {
        let s = match v { Value::Seq(s) => s, other => panic!("Ttp6p8p9: expected Seq, got {other:?}") };
        assert_eq!(s.len(), 3, "Ttp6p8p9: component count");
        let _ = s;
        Ttp6p8p9 {
            i: FromValue::from_value(s[0].as_ref().expect("component i of Ttp6p8p9 must be present")),
            rs: FromValue::from_value(s[1].as_ref().expect("component rs of Ttp6p8p9 must be present")),
            rc: s[2].as_ref().map(FromValue::from_value),
        }
    }
}
impl ToValue for Ttp6p8p9 {
    fn to_value(&self) -> Value {
        Value::Seq(vec![
            Some(self.i.to_value()),
            Some(self.rs.to_value()),
            self.rc.as_ref().map(|x| x.to_value()),
        ])
    }
}
impl FromValue for Ttp6p8p10 {
    fn from_value(v: &Value) -> Self {
        let s = match v { Value::Seq(s) => s, other => panic!("Ttp6p8p10: expected Seq, got {other:?}") };
        assert_eq!(s.len(), 3, "Ttp6p8p10: component count");
        let _ = s;
        Ttp6p8p10 {
            i: FromValue::from_value(s[0].as_ref().expect("component i of Ttp6p8p10 must be present")),
            rs: FromValue::from_value(s[1].as_ref().expect("component rs of Ttp6p8p10 must be present")),
            rt: FromValue::from_value(s[2].as_ref().expect("component rt of Ttp6p8p10 must be present")),
        }
    }
}
impl ToValue for Ttp6p8p10 {
    fn to_value(&self) -> Value {
        Value::Seq(vec![
            Some(self.i.to_value()),
            Some(self.rs.to_value()),
            Some(self.rt.to_value()),
        ])
    }
}
impl FromValue for Ttp6p8p11 {
    fn from_value(v: &Value) -> Self {
        let s = match v { Value::Seq(s) => s, other => panic!("Ttp6p8p11: expected Seq, got {other:?}") };
        assert_eq!(s.len(), 3, "Ttp6p8p11: component count");
        let _ = s;
        Ttp6p8p11 {
            i: FromValue::from_value(s[0].as_ref().expect("component i of Ttp6p8p11 must be present")),
            rs: FromValue::from_value(s[1].as_ref().expect("component rs of Ttp6p8p11 must be present")),
            so: s[2].as_ref().map(FromValue::from_value),
        }
    }
}
impl ToValue for Ttp6p8p11 {
    fn to_value(&self) -> Value {
        Value::Seq(vec![
            Some(self.i.to_value()),
            Some(self.rs.to_value()),
            self.so.as_ref().map(|x| x.to_value()),
        ])
    }
}
impl FromValue for Ttp6p8p12 {
    fn from_value(v: &Value) -> Self {
        let s = match v { Value::Seq(s) => s, other => panic!("Ttp6p8p12: expected Seq, got {other:?}") };
        assert_eq!(s.len(), 3, "Ttp6p8p12: component count");
        let _ = s;
        Ttp6p8p12 {
            i: FromValue::from_value(s[0].as_ref().expect("component i of Ttp6p8p12 must be present")),
            rs: FromValue::from_value(s[1].as_ref().expect("component rs of Ttp6p8p12 must be present")),
            st: FromValue::from_value(s[2].as_ref().expect("component st of Ttp6p8p12 must be present")),
        }
    }
}
impl ToValue for Ttp6p8p12 {
    fn to_value(&self) -> Value {
        Value::Seq(vec![
            Some(self.i.to_value()),
            Some(self.rs.to_value()),
            Some(self.st.to_value()),
        ])
    }
}
impl FromValue for Ttp6p8p13 {
    fn from_value(v: &Value) -> Self {
        let s = match v { Value::Seq(s) => s, other => panic!("Ttp6p8p13: expected Seq, got {other:?}") };
        assert_eq!(s.len(), 3, "Ttp6p8p13: component count");
        let _ = s;
        Ttp6p8p13 {
            i: FromValue::from_value(s[0].as_ref().expect("component i of Ttp6p8p13 must be present")),
            rs: FromValue::from_value(s[1].as_ref().expect("component rs of Ttp6p8p13 must be present")),
            rx: s[2].as_ref().map(FromValue::from_value),
        }
    }
}
impl ToValue for Ttp6p8p13 {
    fn to_value(&self) -> Value {
        Value::Seq(vec![
            Some(self.i.to_value()),
            Some(self.rs.to_value()),
            self.rx.as_ref().map(|x| x.to_value()),
        ])
    }
}
impl FromValue for Ttp6p8p14 {
    fn from_value(v: &Value) -> Self {
        let s = match v { Value::Seq(s) => s, other => panic!("Ttp6p8p14: expected Seq, got {other:?}") };
        assert_eq!(s.len(), 3, "Ttp6p8p14: component count");
        let _ = s;
        Ttp6p8p14 {
            i: FromValue::from_value(s[0].as_ref().expect("component i of Ttp6p8p14 must be present")),
            rs: FromValue::from_value(s[1].as_ref().expect("component rs of Ttp6p8p14 must be present")),
            u2: FromValue::from_value(s[2].as_ref().expect("component u2 of Ttp6p8p14 must be present")),
        }
    }
}
impl ToValue for Ttp6p8p14 {
    fn to_value(&self) -> Value {
        Value::Seq(vec![
            Some(self.i.to_value()),
            Some(self.rs.to_value()),
            Some(self.u2.to_value()),
        ])
    }
}
impl FromValue for Ttp6p8p15Is {
    fn from_value(v: &Value) -> Self {
        let s = match v { Value::Seq(s) => s, other => panic!("Ttp6p8p15Is: expected Seq, got {other:?}") };
        assert_eq!(s.len(), 1, "Ttp6p8p15Is: component count");
        let _ = s;
        Ttp6p8p15Is {
            v: FromValue::from_value(s[0].as_ref().expect("component v of Ttp6p8p15Is must be present")),
        }
    }
}
impl ToValue for Ttp6p8p15Is {
    fn to_value(&self) -> Value {
        Value::Seq(vec![
            Some(self.v.to_value()),
        ])
    }
}
impl FromValue for Ttp6p8p15 {
    fn from_value(v: &Value) -> Self {
        let s = match v { Value::Seq(s) => s, other => panic!("Ttp6p8p15: expected Seq, got {other:?}") };
        assert_eq!(s.len(), 3, "Ttp6p8p15: component count");
        let _ = s;
        Ttp6p8p15 {
            i: FromValue::from_value(s[0].as_ref().expect("component i of Ttp6p8p15 must be present")),
            rs: FromValue::from_value(s[1].as_ref().expect("component rs of Ttp6p8p15 must be present")),
            is: s[2].as_ref().map(FromValue::from_value),
        }
    }
}
impl ToValue for Ttp6p8p15 {
    fn to_value(&self) -> Value {
        Value::Seq(vec![
            Some(self.i.to_value()),
            Some(self.rs.to_value()),
            self.is.as_ref().map(|x| x.to_value()),
        ])
    }
}
impl FromValue for Ttp6p9p0 {
    fn from_value(v: &Value) -> Self {
        let s = match v { Value::Seq(s) => s, other => panic!("Ttp6p9p0: expected Seq, got {other:?}") };
        assert_eq!(s.len(), 3, "Ttp6p9p0: component count");
        let _ = s;
        Ttp6p9p0 {
            i: FromValue::from_value(s[0].as_ref().expect("component i of Ttp6p9p0 must be present")),
            rc: s[1].as_ref().map(FromValue::from_value),
            x: FromValue::from_value(s[2].as_ref().expect("component x of Ttp6p9p0 must be present")),
        }
    }
}
impl ToValue for Ttp6p9p0 {
    fn to_value(&self) -> Value {
        Value::Seq(vec![
            Some(self.i.to_value()),
            self.rc.as_ref().map(|x| x.to_value()),
            Some(self.x.to_value()),
        ])
    }
}
impl FromValue for Ttp6p9p1 {
    fn from_value(v: &Value) -> Self {
        let s = match v { Value::Seq(s) => s, other => panic!("Ttp6p9p1: expected Seq, got {other:?}") };
        assert_eq!(s.len(), 3, "Ttp6p9p1: component count");
        let _ = s;
        Ttp6p9p1 {
            i: FromValue::from_value(s[0].as_ref().expect("component i of Ttp6p9p1 must be present")),
            rc: s[1].as_ref().map(FromValue::from_value),
            a: s[2].as_ref().map(FromValue::from_value),
        }
    }
}
impl ToValue for Ttp6p9p1 {
    fn to_value(&self) -> Value {
        Value::Seq(vec![
            Some(self.i.to_value()),
            self.rc.as_ref().map(|x| x.to_value()),
            self.a.as_ref().map(|x| x.to_value()),
        ])
    }
}
impl FromValue for Ttp6p9p2 {
    fn from_value(v: &Value) -> Self {
        let s = match v { Value::Seq(s) => s, other => panic!("Ttp6p9p2: expected Seq, got {other:?}") };
        assert_eq!(s.len(), 3, "Ttp6p9p2: component count");
        let _ = s;
        Ttp6p9p2 {
            i: FromValue::from_value(s[0].as_ref().expect("component i of Ttp6p9p2 must be present")),
            rc: s[1].as_ref().map(FromValue::from_value),
            c3: FromValue::from_value(s[2].as_ref().expect("component c3 of Ttp6p9p2 must be present")),
        }
    }
}
impl ToValue for Ttp6p9p2 {
    fn to_value(&self) -> Value {
        Value::Seq(vec![
            Some(self.i.to_value()),
            self.rc.as_ref().map(|x| x.to_value()),
            Some(self.c3.to_value()),
        ])
    }
}
impl FromValue for Ttp6p9p3 {
    fn from_value(v: &Value) -> Self {
        let s = match v { Value::Seq(s) => s, other => panic!("Ttp6p9p3: expected Seq, got {other:?}") };
        assert_eq!(s.len(), 3, "Ttp6p9p3: component count");
        let _ = s;
        Ttp6p9p3 {
            i: FromValue::from_value(s[0].as_ref().expect("component i of Ttp6p9p3 must be present")),
            rc: s[1].as_ref().map(FromValue::from_value),
            c0: s[2].as_ref().map(FromValue::from_value),
        }
    }
}
impl ToValue for Ttp6p9p3 {
    fn to_value(&self) -> Value {
        Value::Seq(vec![
            Some(self.i.to_value()),
            self.rc.as_ref().map(|x| x.to_value()),
            self.c0.as_ref().map(|x| x.to_value()),
        ])
    }
}
impl FromValue for Ttp6p9p4 {
    fn from_value(v: &Value) -> Self {
        let s = match v { Value::Seq(s) => s, other => panic!("Ttp6p9p4: expected Seq, got {other:?}") };
        assert_eq!(s.len(), 3, "Ttp6p9p4: component count");
        let _ = s;
        Ttp6p9p4 {
            i: FromValue::from_value(s[0].as_ref().expect("component i of Ttp6p9p4 must be present")),
            rc: s[1].as_ref().map(FromValue::from_value),
            p: FromValue::from_value(s[2].as_ref().expect("component p of Ttp6p9p4 must be present")),
        }
    }
}
impl ToValue for Ttp6p9p4 {
    fn to_value(&self) -> Value {
        Value::Seq(vec![
            Some(self.i.to_value()),
            self.rc.as_ref().map(|x| x.to_value()),
            Some(self.p.to_value()),
        ])
    }
}
impl FromValue for Ttp6p9p5 {
    fn from_value(v: &Value) -> Self {
        let s = match v { Value::Seq(s) => s, other => panic!("Ttp6p9p5: expected Seq, got {other:?}") };
        assert_eq!(s.len(), 3, "Ttp6p9p5: component count");
        let _ = s;
        Ttp6p9p5 {
            i: FromValue::from_value(s[0].as_ref().expect("component i of Ttp6p9p5 must be present")),
            rc: s[1].as_ref().map(FromValue::from_value),
            b: s[2].as_ref().map(FromValue::from_value),
        }
    }
}
impl ToValue for Ttp6p9p5 {
    fn to_value(&self) -> Value {
        Value::Seq(vec![
            Some(self.i.to_value()),
            self.rc.as_ref().map(|x| x.to_value()),
            self.b.as_ref().map(|x| x.to_value()),
        ])
    }
}
impl FromValue for Ttp6p9p7 {
    fn from_value(v: &Value) -> Self {
        let s = match v { Value::Seq(s) => s, other => panic!("Ttp6p9p7: expected Seq, got {other:?}") };
        assert_eq!(s.len(), 3, "Ttp6p9p7: component count");
        let _ = s;
        Ttp6p9p7 {
            i: FromValue::from_value(s[0].as_ref().expect("component i of Ttp6p9p7 must be present")),
            rc: s[1].as_ref().map(FromValue::from_value),
            ra: s[2].as_ref().map(FromValue::from_value),
        }
    }
}
impl ToValue for Ttp6p9p7 {
    fn to_value(&self) -> Value {
        Value::Seq(vec![
            Some(self.i.to_value()),
            self.rc.as_ref().map(|x| x.to_value()),
            self.ra.as_ref().map(|x| x.to_value()),
        ])
    }
}
impl FromValue for Ttp6p9p8 {
    fn from_value(v: &Value) -> Self {
        let s = match v { Value::Seq(s) => s, other => panic!("Ttp6p9p8: expected Seq, got {other:?}") };
        assert_eq!(s.len(), 3, "Ttp6p9p8: component count");
        let _ = s;
        Ttp6p9p8 {
            i: FromValue::from_value(s[0].as_ref().expect("component i of Ttp6p9p8 must be present")),
            rc: s[1].as_ref().map(FromValue::from_value),
            rs: FromValue::from_value(s[2].as_ref().expect("component rs of Ttp6p9p8 must be present")),
        }
    }
}
impl ToValue for Ttp6p9p8 {
    fn to_value(&self) -> Value {
        Value::Seq(vec![
            Some(self.i.to_value()),
            self.rc.as_ref().map(|x| x.to_value()),
            Some(self.rs.to_value()),
        ])
    }
}
impl FromValue for Ttp6p9p10 {
    fn from_value(v: &Value) -> Self {
        let s = match v { Value::Seq(s) => s, other => panic!("Ttp6p9p10: expected Seq, got {other:?}") };
        assert_eq!(s.len(), 3, "Ttp6p9p10: component count");
        let _ = s;
        Ttp6p9p10 {
            i: FromValue::from_value(s[0].as_ref().expect("component i of Ttp6p9p10 must be present")),
            rc: s[1].as_ref().map(FromValue::from_value),
            rt: FromValue::from_value(s[2].as_ref().expect("component rt of Ttp6p9p10 must be present")),
        }
    }
}
impl ToValue for Ttp6p9p10 {
    fn to_value(&self) -> Value {
        Value::Seq(vec![
            Some(self.i.to_value()),
            self.rc.as_ref().map(|x| x.to_value()),
            Some(self.rt.to_value()),
        ])
    }
}
impl FromValue for Ttp6p9p11 {
    fn from_value(v: &Value) -> Self {
        let s = match v { Value::Seq(s) => s, other => panic!("Ttp6p9p11: expected Seq, got {other:?}") };
        assert_eq!(s.len(), 3, "Ttp6p9p11: component count");
        let _ = s;
        Ttp6p9p11 {
            i: FromValue::from_value(s[0].as_ref().expect("component i of Ttp6p9p11 must be present")),
            rc: s[1].as_ref().map(FromValue::from_value),
            so: s[2].as_ref().map(FromValue::from_value),
        }
    }
}
impl ToValue for Ttp6p9p11 {
    fn to_value(&self) -> Value {
        Value::Seq(vec![
            Some(self.i.to_value()),
            self.rc.as_ref().map(|x| x.to_value()),
            self.so.as_ref().map(|x| x.to_value()),
        ])
    }
}
impl FromValue for Ttp6p9p12 {
    fn from_value(v: &Value) -> Self {
        let s = match v { Value::Seq(s) => s, other => panic!("Ttp6p9p12: expected Seq, got {other:?}") };
        assert_eq!(s.len(), 3, "Ttp6p9p12: component count");
        let _ = s;
        Ttp6p9p12 {
            i: FromValue::from_value(s[0].as_ref().expect("component i of Ttp6p9p12 must be present")),
            rc: s[1].as_ref().map(FromValue::from_value),
            st: FromValue::from_value(s[2].as_ref().expect("component st of Ttp6p9p12 must be present")),
        }
    }
}
impl ToValue for Ttp6p9p12 {
    fn to_value(&self) -> Value {
        Value::Seq(vec![
            Some(self.i.to_value()),
            self.rc.as_ref().map(|x| x.to_value()),
            Some(self.st.to_value()),
        ])
    }
}
impl FromValue for Ttp6p9p13 {
    fn from_value(v: &Value) -> Self {
        let s = match v { Value::Seq(s) => s, other => panic!("Ttp6p9p13: expected Seq, got {other:?}") };
        assert_eq!(s.len(), 3, "Ttp6p9p13: component count");
        let _ = s;
        Ttp6p9p13 {
            i: FromValue::from_value(s[0].as_ref().expect("component i of Ttp6p9p13 must be present")),
            rc: s[1].as_ref().map(FromValue::from_value),
            rx: s[2].as_ref().map(FromValue::from_value),
        }
    }
}
impl ToValue for Ttp6p9p13 {
    fn to_value(&self) -> Value {
        Value::Seq(vec![
            Some(self.i.to_value()),
            self.rc.as_ref().map(|x| x.to_value()),
            self.rx.as_ref().map(|x| x.to_value()),
        ])
    }
}
impl FromValue for Ttp6p9p14 {
    fn from_value(v: &Value) -> Self {
        let s = match v { Value::Seq(s) => s, other => panic!("Ttp6p9p14: expected Seq, got {other:?}") };
        assert_eq!(s.len(), 3, "Ttp6p9p14: component count");
        let _ = s;
        Ttp6p9p14 {
            i: FromValue::from_value(s[0].as_ref().expect("component i of Ttp6p9p14 must be present")),
            rc: s[1].as_ref().map(FromValue::from_value),
            u2: FromValue::from_value(s[2].as_ref().expect("component u2 of Ttp6p9p14 must be present")),
        }
    }
}
impl ToValue for Ttp6p9p14 {
    fn to_value(&self) -> Value {
        Value::Seq(vec![
            Some(self.i.to_value()),
            self.rc.as_ref().map(|x| x.to_value()),
            Some(self.u2.to_value()),
        ])
    }
}
impl FromValue for Ttp6p9p15Is {
    fn from_value(v: &Value) -> Self {
        let s = match v { Value::Seq(s) => s, other => panic!("Ttp6p9p15Is: expected Seq, got {other:?}") };
        assert_eq!(s.len(), 1, "Ttp6p9p15Is: component count");
        let _ = s;
        Ttp6p9p15Is {
            v: FromValue::from_value(s[0].as_ref().expect("component v of Ttp6p9p15Is must be present")),
        }
    }
}
impl ToValue for Ttp6p9p15Is {
    fn to_value(&self) -> Value {
        Value::Seq(vec![
            Some(self.v.to_value()),
        ])
    }
}
impl FromValue for Ttp6p9p15 {
    fn from_value(v: &Value) -> Self {
        let s = match v { Value::Seq(s) => s, other => panic!("Ttp6p9p15: expected Seq, got {other:?}") };
        assert_eq!(s.len(), 3, "Ttp6p9p15: component count");
        let _ = s;
        Ttp6p9p15 {
            i: FromValue::from_value(s[0].as_ref().expect("component i of Ttp6p9p15 must be present")),
            rc: s[1].as_ref().map(FromValue::from_value),
            is: s[2].as_ref().map(FromValue::from_value),
        }
    }
}
impl ToValue for Ttp6p9p15 {
    fn to_value(&self) -> Value {
        Value::Seq(vec![
            Some(self.i.to_value()),
            self.rc.as_ref().map(|x| x.to_value()),
            self.is.as_ref().map(|x| x.to_value()),
        ])
    }
}
impl FromValue for Ttp6p10p0 {
    fn from_value(v: &Value) -> Self {
        let s = match v { Value::Seq(s) => s, other => panic!("Ttp6p10p0: expected Seq, got {other:?}") };
        assert_eq!(s.len(), 3, "Ttp6p10p0: component count");
        let _ = s;
        Ttp6p10p0 {
            i: FromValue::from_value(s[0].as_ref().expect("component i of Ttp6p10p0 must be present")),
            rt: FromValue::from_value(s[1].as_ref().expect("component rt of Ttp6p10p0 must be present")),
            x: FromValue::from_value(s[2].as_ref().expect("component x of Ttp6p10p0 must be present")),
        }
    }
}
impl ToValue for Ttp6p10p0 {
    fn to_value(&self) -> Value {
        Value::Seq(vec![
            Some(self.i.to_value()),
            Some(self.rt.to_value()),
            Some(self.x.to_value()),
        ])
    }
}
impl FromValue for Ttp6p10p1 {
    fn from_value(v: &Value) -> Self {
        let s = match v { Value::Seq(s) => s, other => panic!("Ttp6p10p1: expected Seq, got {other:?}") };
        assert_eq!(s.len(), 3, "Ttp6p10p1: component count");
        let _ = s;
        Ttp6p10p1 {
            i: FromValue::from_value(s[0].as_ref().expect("component i of Ttp6p10p1 must be present")),
            rt: FromValue::from_value(s[1].as_ref().expect("component rt of Ttp6p10p1 must be present")),
            a: s[2].as_ref().map(FromValue::from_value),
        }
    }
}
impl ToValue for Ttp6p10p1 {
    fn to_value(&self) -> Value {
        Value::Seq(vec![
            Some(self.i.to_value()),
            Some(self.rt.to_value()),
            self.a.as_ref().map(|x| x.to_value()),
        ])
    }
}
impl FromValue for Ttp6p10p2 {
    fn from_value(v: &Value) -> Self {
        let s = match v { Value::Seq(s) => s, other => panic!("Ttp6p10p2: expected Seq, got {other:?}") };
        assert_eq!(s.len(), 3, "Ttp6p10p2: component count");
        let _ = s;
        Ttp6p10p2 {
            i: FromValue::from_value(s[0].as_ref().expect("component i of Ttp6p10p2 must be present")),
            rt: FromValue::from_value(s[1].as_ref().expect("component rt of Ttp6p10p2 must be present")),
            c3: FromValue::from_value(s[2].as_ref().expect("component c3 of Ttp6p10p2 must be present")),
        }
    }
}
impl ToValue for Ttp6p10p2 {
    fn to_value(&self) -> Value {
        Value::Seq(vec![
            Some(self.i.to_value()),
            Some(self.rt.to_value()),
            Some(self.c3.to_value()),
        ])
    }
}
impl FromValue for Ttp6p10p3 {
    fn from_value(v: &Value) -> Self {
        let s = match v { Value::Seq(s) => s, other => panic!("Ttp6p10p3: expected Seq, got {other:?}") };
        assert_eq!(s.len(), 3, "Ttp6p10p3: component count");
        let _ = s;
        Ttp6p10p3 {
            i: FromValue::from_value(s[0].as_ref().expect("component i of Ttp6p10p3 must be present")),
            rt: FromValue::from_value(s[1].as_ref().expect("component rt of Ttp6p10p3 must be present")),
            c0: s[2].as_ref().map(FromValue::from_value),
        }
    }
}
impl ToValue for Ttp6p10p3 {
    fn to_value(&self) -> Value {
        Value::Seq(vec![
            Some(self.i.to_value()),
            Some(self.rt.to_value()),
            self.c0.as_ref().map(|x| x.to_value()),
        ])
    }
}
impl FromValue for Ttp6p10p4 {
    fn from_value(v: &Value) -> Self {
        let s = match v { Value::Seq(s) => s, other => panic!("Ttp6p10p4: expected Seq, got {other:?}") };
        assert_eq!(s.len(), 3, "Ttp6p10p4: component count");
        let _ = s;
        Ttp6p10p4 {
            i: FromValue::from_value(s[0].as_ref().expect("component i of Ttp6p10p4 must be present")),
            rt: FromValue::from_value(s[1].as_ref().expect("component rt of Ttp6p10p4 must be present")),
            p: FromValue::from_value(s[2].as_ref().expect("component p of Ttp6p10p4 must be present")),
        }
    }
}
impl ToValue for Ttp6p10p4 {
    fn to_value(&self) -> Value {
        Value::Seq(vec![
            Some(self.i.to_value()),
            Some(self.rt.to_value()),
            Some(self.p.to_value()),
        ])
    }
}
impl FromValue for Ttp6p10p5 {
    fn from_value(v: &Value) -> Self {
        let s = match v { Value::Seq(s) => s, other => panic!("Ttp6p10p5: expected Seq, got {other:?}") };
        assert_eq!(s.len(), 3, "Ttp6p10p5: component count");
        let _ = s;
        Ttp6p10p5 {
            i: FromValue::from_value(s[0].as_ref().expect("component i of Ttp6p10p5 must be present")),
            rt: FromValue::from_value(s[1].as_ref().expect("component rt of Ttp6p10p5 must be present")),
            b: s[2].as_ref().map(FromValue::from_value),
        }
    }
}
impl ToValue for Ttp6p10p5 {
    fn to_value(&self) -> Value {
        Value::Seq(vec![
            Some(self.i.to_value()),
            Some(self.rt.to_value()),
            self.b.as_ref().map(|x| x.to_value()),
        ])
    }
}
impl FromValue for Ttp6p10p7 {
    fn from_value(v: &Value) -> Self {
        let s = match v { Value::Seq(s) => s, other => panic!("Ttp6p10p7: expected Seq, got {other:?}") };
        assert_eq!(s.len(), 3, "Ttp6p10p7: component count");
        let _ = s;
        Ttp6p10p7 {
            i: FromValue::from_value(s[0].as_ref().expect("component i of Ttp6p10p7 must be present")),
            rt: FromValue::from_value(s[1].as_ref().expect("component rt of Ttp6p10p7 must be present")),
            ra: s[2].as_ref().map(FromValue::from_value),
        }
    }
}
impl ToValue for Ttp6p10p7 {
    fn to_value(&self) -> Value {
        Value::Seq(vec![
            Some(self.i.to_value()),
            Some(self.rt.to_value()),
            self.ra.as_ref().map(|x| x.to_value()),
        ])
    }
}
impl FromValue for Ttp6p10p8 {
    fn from_value(v: &Value) -> Self {
        let s = match v { Value::Seq(s) => s, other => panic!("Ttp6p10p8: expected Seq, got {other:?}") };
        assert_eq!(s.len(), 3, "Ttp6p10p8: component count");
        let _ = s;
        Ttp6p10p8 {
            i: FromValue::from_value(s[0].as_ref().expect("component i of Ttp6p10p8 must be present")),
            rt: FromValue::from_value(s[1].as_ref().expect("component rt of Ttp6p10p8 must be present")),
            rs: FromValue::from_value(s[2].as_ref().expect("component rs of Ttp6p10p8 must be present")),
        }
    }
}
impl ToValue for Ttp6p10p8 {
    fn to_value(&self) -> Value {
        Value::Seq(vec![
            Some(self.i.to_value()),
            Some(self.rt.to_value()),
            Some(self.rs.to_value()),
        ])
    }
}
impl FromValue for Ttp6p10p9 {
    fn from_value(v: &Value) -> Self {
        let s = match v { Value::Seq(s) => s, other => panic!("Ttp6p10p9: expected Seq, got {other:?}") };
        assert_eq!(s.len(), 3, "Ttp6p10p9: component count");
        let _ = s;
        Ttp6p10p9 {
            i: FromValue::from_value(s[0].as_ref().expect("component i of Ttp6p10p9 must be present")),
            rt: FromValue::from_value(s[1].as_ref().expect("component rt of Ttp6p10p9 must be present")),
            rc: s[2].as_ref().map(FromValue::from_value),
        }
    }
}
impl ToValue for Ttp6p10p9 {
    fn to_value(&self) -> Value {
        Value::Seq(vec![
            Some(self.i.to_value()),
            Some(self.rt.to_value()),
            self.rc.as_ref().map(|x| x.to_value()),
        ])
    }
}
impl FromValue for Ttp6p10p11 {
    fn from_value(v: &Value) -> Self {
        let s = match v { Value::Seq(s) => s, other => panic!("Ttp6p10p11: expected Seq, got {other:?}") };
        assert_eq!(s.len(), 3, "Ttp6p10p11: component count");
        let _ = s;
        Ttp6p10p11 {
            i: FromValue::from_value(s[0].as_ref().expect("component i of Ttp6p10p11 must be present")),
            rt: FromValue::from_value(s[1].as_ref().expect("component rt of Ttp6p10p11 must be present")),
            so: s[2].as_ref().map(FromValue::from_value),
        }
    }
}
impl ToValue for Ttp6p10p11 {
    fn to_value(&self) -> Value {
        Value::Seq(vec![
            Some(self.i.to_value()),
            Some(self.rt.to_value()),
            self.so.as_ref().map(|x| x.to_value()),
        ])
    }
}
impl FromValue for Ttp6p10p12 {
    fn from_value(v: &Value) -> Self {
        let s = match v { Value::Seq(s) => s, other => panic!("Ttp6p10p12: expected Seq, got {other:?}") };
        assert_eq!(s.len(), 3, "Ttp6p10p12: component count");
        let _ = s;
        Ttp6p10p12 {
            i: FromValue::from_value(s[0].as_ref().expect("component i of Ttp6p10p12 must be present")),
            rt: FromValue::from_value(s[1].as_ref().expect("component rt of Ttp6p10p12 must be present")),
            st: FromValue::from_value(s[2].as_ref().expect("component st of Ttp6p10p12 must be present")),
        }
    }
}
impl ToValue for Ttp6p10p12 {
    fn to_value(&self) -> Value {
        Value::Seq(vec![
            Some(self.i.to_value()),
            Some(self.rt.to_value()),
            Some(self.st.to_value()),
        ])
    }
}
impl FromValue for Ttp6p10p13 {
    fn from_value(v: &Value) -> Self {
        let s = match v { Value::Seq(s) => s, other => panic!("Ttp6p10p13: expected Seq, got {other:?}") };
        assert_eq!(s.len(), 3, "Ttp6p10p13: component count");
        let _ = s;
        Ttp6p10p13 {
            i: FromValue::from_value(s[0].as_ref().expect("component i of Ttp6p10p13 must be present")),
            rt: FromValue::from_value(s[1].as_ref().expect("component rt of Ttp6p10p13 must be present")),
            rx: s[2].as_ref().map(FromValue::from_value),
        }
    }
}
impl ToValue for Ttp6p10p13 {
    fn to_value(&self) -> Value {
        Value::Seq(vec![
            Some(self.i.to_value()),
            Some(self.rt.to_value()),
            self.rx.as_ref().map(|x| x.to_value()),
        ])
    }
}
impl FromValue for Ttp6p10p14 {
    fn from_value(v: &Value) -> Self {
        let s = match v { Value::Seq(s) => s, other => panic!("Ttp6p10p14: expected Seq, got {other:?}") };
        assert_eq!(s.len(), 3, "Ttp6p10p14: component count");
        let _ = s;
        Ttp6p10p14 {
            i: FromValue::from_value(s[0].as_ref().expect("component i of Ttp6p10p14 must be present")),
            rt: FromValue::from_value(s[1].as_ref().expect("component rt of Ttp6p10p14 must be present")),
            u2: FromValue::from_value(s[2].as_ref().expect("component u2 of Ttp6p10p14 must be present")),
        }
    }
}
impl ToValue for Ttp6p10p14 {
    fn to_value(&self) -> Value {
        Value::Seq(vec![
            Some(self.i.to_value()),
            Some(self.rt.to_value()),
            Some(self.u2.to_value()),
        ])
    }
}
impl FromValue for Ttp6p10p15Is {
    fn from_value(v: &Value) -> Self {
        let s = match v { Value::Seq(s) => s, other => panic!("Ttp6p10p15Is: expected Seq, got {other:?}") };
        assert_eq!(s.len(), 1, "Ttp6p10p15Is: component count");
        let _ = s;
        Ttp6p10p15Is {
            v: FromValue::from_value(s[0].as_ref().expect("component v of Ttp6p10p15Is must be present")),
        }
    }
}
impl ToValue for Ttp6p10p15Is {
    fn to_value(&self) -> Value {
        Value::Seq(vec![
            Some(self.v.to_value()),
        ])
    }
}
impl FromValue for Ttp6p10p15 {
    fn from_value(v: &Value) -> Self {
        let s = match v { Value::Seq(s) => s, other => panic!("Ttp6p10p15: expected Seq, got {other:?}") };
        assert_eq!(s.len(), 3, "Ttp6p10p15: component count");
        let _ = s;
        Ttp6p10p15 {
            i: FromValue::from_value(s[0].as_ref().expect("component i of Ttp6p10p15 must be present")),
            rt: FromValue::from_value(s[1].as_ref().expect("component rt of Ttp6p10p15 must be present")),
            is: s[2].as_ref().map(FromValue::from_value),
        }
    }
}
impl ToValue for Ttp6p10p15 {
    fn to_value(&self) -> Value {
        Value::Seq(vec![
            Some(self.i.to_value()),
            Some(self.rt.to_value()),
            self.is.as_ref().map(|x| x.to_value()),
        ])
    }
}
impl FromValue for Ttp6p11p0 {
    fn from_value(v: &Value) -> Self {
        let s = match v { Value::Seq(s) => s, other => panic!("Ttp6p11p0: expected Seq, got {other:?}") };
        assert_eq!(s.len(), 3, "Ttp6p11p0: component count");
        let _ = s;
        Ttp6p11p0 {
            i: FromValue::from_value(s[0].as_ref().expect("component i of Ttp6p11p0 must be present")),
            so: s[1].as_ref().map(FromValue::from_value),
            x: FromValue::from_value(s[2].as_ref().expect("component x of Ttp6p11p0 must be present")),
        }
    }
}
impl ToValue for Ttp6p11p0 {
    fn to_value(&self) -> Value {
        Value::Seq(vec![
            Some(self.i.to_value()),
            self.so.as_ref().map(|x| x.to_value()),
            Some(self.x.to_value()),
        ])
    }
}
impl FromValue for Ttp6p11p1 {
    fn from_value(v: &Value) -> Self {
        let s = match v { Value::Seq(s) => s, other => panic!("Ttp6p11p1: expected Seq, got {other:?}") };
        assert_eq!(s.len(), 3, "Ttp6p11p1: component count");
        let _ = s;
        Ttp6p11p1 {
            i: FromValue::from_value(s[0].as_ref().expect("component i of Ttp6p11p1 must be present")),
            so: s[1].as_ref().map(FromValue::from_value),
            a: s[2].as_ref().map(FromValue::from_value),
        }
    }
}
impl ToValue for Ttp6p11p1 {
    fn to_value(&self) -> Value {
        Value::Seq(vec![
            Some(self.i.to_value()),
            self.so.as_ref().map(|x| x.to_value()),
            self.a.as_ref().map(|x| x.to_value()),
        ])
    }
}
impl FromValue for Ttp6p11p2 {
    fn from_value(v: &Value) -> Self {
        let s = match v { Value::Seq(s) => s, other => panic!("Ttp6p11p2: expected Seq, got {other:?}") };
        assert_eq!(s.len(), 3, "Ttp6p11p2: component count");
        let _ = s;
        Ttp6p11p2 {
            i: FromValue::from_value(s[0].as_ref().expect("component i of Ttp6p11p2 must be present")),
            so: s[1].as_ref().map(FromValue::from_value),
            c3: FromValue::from_value(s[2].as_ref().expect("component c3 of Ttp6p11p2 must be present")),
        }
    }
}
impl ToValue for Ttp6p11p2 {
    fn to_value(&self) -> Value {
        Value::Seq(vec![
            Some(self.i.to_value()),
            self.so.as_ref().map(|x| x.to_value()),
            Some(self.c3.to_value()),
        ])
    }
}
impl FromValue for Ttp6p11p3 {
    fn from_value(v: &Value) -> Self {
        let s = match v { Value::Seq(s) => s, other => panic!("Ttp6p11p3: expected Seq, got {other:?}") };
        assert_eq!(s.len(), 3, "Ttp6p11p3: component count");
        let _ = s;
        Ttp6p11p3 {
            i: FromValue::from_value(s[0].as_ref().expect("component i of Ttp6p11p3 must be present")),
            so: s[1].as_ref().map(FromValue::from_value),
            c0: s[2].as_ref().map(FromValue::from_value),
        }
    }
}
impl ToValue for Ttp6p11p3 {
    fn to_value(&self) -> Value {
        Value::Seq(vec![
            Some(self.i.to_value()),
            self.so.as_ref().map(|x| x.to_value()),
            self.c0.as_ref().map(|x| x.to_value()),
        ])
    }
}
impl FromValue for Ttp6p11p4 {
    fn from_value(v: &Value) -> Self {
        let s = match v { Value::Seq(s) => s, other => panic!("Ttp6p11p4: expected Seq, got {other:?}") };
        assert_eq!(s.len(), 3, "Ttp6p11p4: component count");
        let _ = s;
        Ttp6p11p4 {
            i: FromValue::from_value(s[0].as_ref().expect("component i of Ttp6p11p4 must be present")),
            so: s[1].as_ref().map(FromValue::from_value),
            p: FromValue::from_value(s[2].as_ref().expect("component p of Ttp6p11p4 must be present")),
        }
    }
}
impl ToValue for Ttp6p11p4 {
    fn to_value(&self) -> Value {
        Value::Seq(vec![
            Some(self.i.to_value()),
            self.so.as_ref().map(|x| x.to_value()),
            Some(self.p.to_value()),
        ])
    }
}
impl FromValue for Ttp6p11p5 {
    fn from_value(v: &Value) -> Self {
        let s = match v { Value::Seq(s) => s, other => panic!("Ttp6p11p5: expected Seq, got {other:?}") };
        assert_eq!(s.len(), 3, "Ttp6p11p5: component count");
        let _ = s;
        Ttp6p11p5 {
            i: FromValue::from_value(s[0].as_ref().expect("component i of Ttp6p11p5 must be present")),
            so: s[1].as_ref().map(FromValue::from_value),
            b: s[2].as_ref().map(FromValue::from_value),
        }
    }
}
impl ToValue for Ttp6p11p5 {
    fn to_value(&self) -> Value {
        Value::Seq(vec![
            Some(self.i.to_value()),
            self.so.as_ref().map(|x| x.to_value()),
            self.b.as_ref().map(|x| x.to_value()),
        ])
    }
}
impl FromValue for Ttp6p11p7 {
    fn from_value(v: &Value) -> Self {
        let s = match v { Value::Seq(s) => s, other => panic!("Ttp6p11p7: expected Seq, got {other:?}") };
        assert_eq!(s.len(), 3, "Ttp6p11p7: component count");
        let _ = s;
        Ttp6p11p7 {
            i: FromValue::from_value(s[0].as_ref().expect("component i of Ttp6p11p7 must be present")),
            so: s[1].as_ref().map(FromValue::from_value),
            ra: s[2].as_ref().map(FromValue::from_value),
        }
    }
}
impl ToValue for Ttp6p11p7 {
    fn to_value(&self) -> Value {
        Value::Seq(vec![
            Some(self.i.to_value()),
            self.so.as_ref().map(|x| x.to_value()),
            self.ra.as_ref().map(|x| x.to_value()),
        ])
    }
}
impl FromValue for Ttp6p11p8 {
    fn from_value(v: &Value) -> Self {
        let s = match v { Value::Seq(s) => s, other => panic!("Ttp6p11p8: expected Seq, got {other:?}") };
        assert_eq!(s.len(), 3, "Ttp6p11p8: component count");
        let _ = s;
        Ttp6p11p8 {
            i: FromValue::from_value(s[0].as_ref().expect("component i of Ttp6p11p8 must be present")),
            so: s[1].as_ref().map(FromValue::from_value),
            rs: FromValue::from_value(s[2].as_ref().expect("component rs of Ttp6p11p8 must be present")),
        }
    }
}
impl ToValue for Ttp6p11p8 {
    fn to_value(&self) -> Value {
        Value::Seq(vec![
            Some(self.i.to_value()),
            self.so.as_ref().map(|x| x.to_value()),
            Some(self.rs.to_value()),
        ])
    }
}
impl FromValue for Ttp6p11p9 {
    fn from_value(v: &Value) -> Self {
        let s = match v { Value::Seq(s) => s, other => panic!("Ttp6p11p9: expected Seq, got {other:?}") };
        assert_eq!(s.len(), 3, "Ttp6p11p9: component count");
        let _ = s;
        Ttp6p11p9 {
            i: FromValue::from_value(s[0].as_ref().expect("component i of Ttp6p11p9 must be present")),
            so: s[1].as_ref().map(FromValue::from_value),
            rc: s[2].as_ref().map(FromValue::from_value),
        }
    }
}
impl ToValue for Ttp6p11p9 {
    fn to_value(&self) -> Value {
        Value::Seq(vec![
            Some(self.i.to_value()),
            self.so.as_ref().map(|x| x.to_value()),
            self.rc.as_ref().map(|x| x.to_value()),
        ])
    }
}
impl FromValue for Ttp6p11p10 {
    fn from_value(v: &Value) -> Self {
        let s = match v { Value::Seq(s) => s, other => panic!("Ttp6p11p10: expected Seq, got {other:?}") };
        assert_eq!(s.len(), 3, "Ttp6p11p10: component count");
        let _ = s;
        Ttp6p11p10 {
            i: FromValue::from_value(s[0].as_ref().expect("component i of Ttp6p11p10 must be present")),
            so: s[1].as_ref().map(FromValue::from_value),
            rt: FromValue::from_value(s[2].as_ref().expect("component rt of Ttp6p11p10 must be present")),
        }
    }
}
impl ToValue for Ttp6p11p10 {
    fn to_value(&self) -> Value {
        Value::Seq(vec![
            Some(self.i.to_value()),
            self.so.as_ref().map(|x| x.to_value()),
            Some(self.rt.to_value()),
        ])
    }
}
impl FromValue for Ttp6p11p12 {
    fn from_value(v: &Value) -> Self {
        let s = match v { Value::Seq(s) => s, other => panic!("Ttp6p11p12: expected Seq, got {other:?}") };
        assert_eq!(s.len(), 3, "Ttp6p11p12: component count");
        let _ = s;
        Ttp6p11p12 {
            i: FromValue::from_value(s[0].as_ref().expect("component i of Ttp6p11p12 must be present")),
            so: s[1].as_ref().map(FromValue::from_value),
            st: FromValue::from_value(s[2].as_ref().expect("component st of Ttp6p11p12 must be present")),
        }
    }
}
impl ToValue for Ttp6p11p12 {
    fn to_value(&self) -> Value {
        Value::Seq(vec![
            Some(self.i.to_value()),
            self.so.as_ref().map(|x| x.to_value()),
            Some(self.st.to_value()),
        ])
    }
}
impl FromValue for Ttp6p11p13 {
    fn from_value(v: &Value) -> Self {
        let s = match v { Value::Seq(s) => s, other => panic!("Ttp6p11p13: expected Seq, got {other:?}") };
        assert_eq!(s.len(), 3, "Ttp6p11p13: component count");
        let _ = s;
        Ttp6p11p13 {
            i: FromValue::from_value(s[0].as_ref().expect("component i of Ttp6p11p13 must be present")),
            so: s[1].as_ref().map(FromValue::from_value),
            rx: s[2].as_ref().map(FromValue::from_value),
        }
    }
}
impl ToValue for Ttp6p11p13 {
    fn to_value(&self) -> Value {
        Value::Seq(vec![
            Some(self.i.to_value()),
            self.so.as_ref().map(|x| x.to_value()),
            self.rx.as_ref().map(|x| x.to_value()),
        ])
    }
}
impl FromValue for Ttp6p11p14 {
    fn from_value(v: &Value) -> Self {
        let s = match v { Value::Seq(s) => s, other => panic!("Ttp6p11p14: expected Seq, got {other:?}") };
        assert_eq!(s.len(), 3, "Ttp6p11p14: component count");
        let _ = s;
        Ttp6p11p14 {
            i: FromValue::from_value(s[0].as_ref().expect("component i of Ttp6p11p14 must be present")),
            so: s[1].as_ref().map(FromValue::from_value),
            u2: FromValue::from_value(s[2].as_ref().expect("component u2 of Ttp6p11p14 must be present")),
        }
    }
}
impl ToValue for Ttp6p11p14 {
    fn to_value(&self) -> Value {
        Value::Seq(vec![
            Some(self.i.to_value()),
            self.so.as_ref().map(|x| x.to_value()),
            Some(self.u2.to_value()),
        ])
    }
}
impl FromValue for Ttp6p11p15Is {
    fn from_value(v: &Value) -> Self {
        let s = match v { Value::Seq(s) => s, other => panic!("Ttp6p11p15Is: expected Seq, got {other:?}") };
        assert_eq!(s.len(), 1, "Ttp6p11p15Is: component count");
        let _ = s;
        Ttp6p11p15Is {
            v: FromValue::from_value(s[0].as_ref().expect("component v of Ttp6p11p15Is must be present")),
        }
    }
}
impl ToValue for Ttp6p11p15Is {
    fn to_value(&self) -> Value {
        Value::Seq(vec![
            Some(self.v.to_value()),
        ])
    }
}
impl FromValue for Ttp6p11p15 {
    fn from_value(v: &Value) -> Self {
        let s = match v { Value::Seq(s) => s, other => panic!("Ttp6p11p15: expected Seq, got {other:?}") };
        assert_eq!(s.len(), 3, "Ttp6p11p15: component count");
        let _ = s;
        Ttp6p11p15 {
            i: FromValue::from_value(s[0].as_ref().expect("component i of Ttp6p11p15 must be present")),
            so: s[1].as_ref().map(FromValue::from_value),
            is: s[2].as_ref().map(FromValue::from_value),
        }
    }
}
impl ToValue for Ttp6p11p15 {
    fn to_value(&self) -> Value {
        Value::Seq(vec![
            Some(self.i.to_value()),
            self.so.as_ref().map(|x| x.to_value()),
            self.is.as_ref().map(|x| x.to_value()),
        ])
    }
}
impl FromValue for Ttp6p12p0 {
    fn from_value(v: &Value) -> Self {
        let s = match v { Value::Seq(s) => s, other => panic!("Ttp6p12p0: expected Seq, got {other:?}") };
        assert_eq!(s.len(), 3, "Ttp6p12p0: component count");
        let _ = s;
        Ttp6p12p0 {
            i: FromValue::from_value(s[0].as_ref().expect("component i of Ttp6p12p0 must be present")),
            st: FromValue::from_value(s[1].as_ref().expect("component st of Ttp6p12p0 must be present")),
            x: FromValue::from_value(s[2].as_ref().expect("component x of Ttp6p12p0 must be present")),
        }
    }
}
impl ToValue for Ttp6p12p0 {
    fn to_value(&self) -> Value {
        Value::Seq(vec![
            Some(self.i.to_value()),
            Some(self.st.to_value()),
            Some(self.x.to_value()),
        ])
    }
}
impl FromValue for Ttp6p12p1 {
    fn from_value(v: &Value) -> Self {
        let s = match v { Value::Seq(s) => s, other => panic!("Ttp6p12p1: expected Seq, got {other:?}") };
        assert_eq!(s.len(), 3, "Ttp6p12p1: component count");
        let _ = s;
        Ttp6p12p1 {
            i: FromValue::from_value(s[0].as_ref().expect("component i of Ttp6p12p1 must be present")),
            st: FromValue::from_value(s[1].as_ref().expect("component st of Ttp6p12p1 must be present")),
            a: s[2].as_ref().map(FromValue::from_value),
        }
    }
}
impl ToValue for Ttp6p12p1 {
    fn to_value(&self) -> Value {
        Value::Seq(vec![
            Some(self.i.to_value()),
            Some(self.st.to_value()),
            self.a.as_ref().map(|x| x.to_value()),
        ])
    }
}
impl FromValue for Ttp6p12p2 {
    fn from_value(v: &Value) -> Self {
        let s = match v { Value::Seq(s) => s, other => panic!("Ttp6p12p2: expected Seq, got {other:?}") };
        assert_eq!(s.len(), 3, "Ttp6p12p2: component count");
        let _ = s;
        Ttp6p12p2 {
            i: FromValue::from_value(s[0].as_ref().expect("component i of Ttp6p12p2 must be present")),
            st: FromValue::from_value(s[1].as_ref().expect("component st of Ttp6p12p2 must be present")),
            c3: FromValue::from_value(s[2].as_ref().expect("component c3 of Ttp6p12p2 must be present")),
        }
    }
}
impl ToValue for Ttp6p12p2 {
    fn to_value(&self) -> Value {
        Value::Seq(vec![
            Some(self.i.to_value()),
            Some(self.st.to_value()),
            Some(self.c3.to_value()),
        ])
    }
}
impl FromValue for Ttp6p12p3 {
    fn from_value(v: &Value) -> Self {
        let s = match v { Value::Seq(s) => s, other => panic!("Ttp6p12p3: expected Seq, got {other:?}") };
        assert_eq!(s.len(), 3, "Ttp6p12p3: component count");
        let _ = s;
        Ttp6p12p3 {
            i: FromValue::from_value(s[0].as_ref().expect("component i of Ttp6p12p3 must be present")),
            st: FromValue::from_value(s[1].as_ref().expect("component st of Ttp6p12p3 must be present")),
            c0: s[2].as_ref().map(FromValue::from_value),
        }
    }
}
impl ToValue for Ttp6p12p3 {
    fn to_value(&self) -> Value {
        Value::Seq(vec![
            Some(self.i.to_value()),
            Some(self.st.to_value()),
            self.c0.as_ref().map(|x| x.to_value()),
        ])
    }
}
impl FromValue for Ttp6p12p4 {
    fn from_value(v: &Value) -> Self {
        let s = match v { Value::Seq(s) => s, other => panic!("Ttp6p12p4: expected Seq, got {other:?}") };
        assert_eq!(s.len(), 3, "Ttp6p12p4: component count");
        let _ = s;
        Ttp6p12p4 {
            i: FromValue::from_value(s[0].as_ref().expect("component i of Ttp6p12p4 must be present")),
            st: FromValue::from_value(s[1].as_ref().expect("component st of Ttp6p12p4 must be present")),
            p: FromValue::from_value(s[2].as_ref().expect("component p of Ttp6p12p4 must be present")),
        }
    }
}
impl ToValue for Ttp6p12p4 {
    fn to_value(&self) -> Value {
        Value::Seq(vec![
            Some(self.i.to_value()),
            Some(self.st.to_value()),
            Some(self.p.to_value()),
        ])
    }
}
impl FromValue for Ttp6p12p5 {
    fn from_value(v: &Value) -> Self {
        let s = match v { Value::Seq(s) => s, other => panic!("Ttp6p12p5: expected Seq, got {other:?}") };
        assert_eq!(s.len(), 3, "Ttp6p12p5: component count");
        let _ = s;
        Ttp6p12p5 {
            i: FromValue::from_value(s[0].as_ref().expect("component i of Ttp6p12p5 must be present")),
            st: FromValue::from_value(s[1].as_ref().expect("component st of Ttp6p12p5 must be present")),
            b: s[2].as_ref().map(FromValue::from_value),
        }
    }
}
impl ToValue for Ttp6p12p5 {
    fn to_value(&self) -> Value {
        Value::Seq(vec![
            Some(self.i.to_value()),
            Some(self.st.to_value()),
            self.b.as_ref().map(|x| x.to_value()),
        ])
    }
}
impl FromValue for Ttp6p12p7 {
    fn from_value(v: &Value) -> Self {
        let s = match v { Value::Seq(s) => s, other => panic!("Ttp6p12p7: expected Seq, got {other:?}") };
        assert_eq!(s.len(), 3, "Ttp6p12p7: component count");
        let _ = s;
        Ttp6p12p7 {
            i: FromValue::from_value(s[0].as_ref().expect("component i of Ttp6p12p7 must be present")),
            st: FromValue::from_value(s[1].as_ref().expect("component st of Ttp6p12p7 must be present")),
            ra: s[2].as_ref().map(FromValue::from_value),
        }
    }
}
impl ToValue for Ttp6p12p7 {
    fn to_value(&self) -> Value {
        Value::Seq(vec![
            Some(self.i.to_value()),
            Some(self.st.to_value()),
            self.ra.as_ref().map(|x| x.to_value()),
        ])
    }
}
impl FromValue for Ttp6p12p8 {
    fn from_value(v: &Value) -> Self {
        let s = match v { Value::Seq(s) => s, other => panic!("Ttp6p12p8: expected Seq, got {other:?}") };
        assert_eq!(s.len(), 3, "Ttp6p12p8: component count");
        let _ = s;
        Ttp6p12p8 {
            i: FromValue::from_value(s[0].as_ref().expect("component i of Ttp6p12p8 must be present")),
            st: FromValue::from_value(s[1].as_ref().expect("component st of Ttp6p12p8 must be present")),
            rs: FromValue::from_value(s[2].as_ref().expect("component rs of Ttp6p12p8 must be present")),
        }
    }
}
impl ToValue for Ttp6p12p8 {
    fn to_value(&self) -> Value {
        Value::Seq(vec![
            Some(self.i.to_value()),
            Some(self.st.to_value()),
            Some(self.rs.to_value()),
        ])
    }
}
impl FromValue for Ttp6p12p9 {
    fn from_value(v: &Value) -> Self {
        let s = match v { Value::Seq(s) => s, other => panic!("Ttp6p12p9: expected Seq, got {other:?}") };
        assert_eq!(s.len(), 3, "Ttp6p12p9: component count");
        let _ = s;
        Ttp6p12p9 {
            i: FromValue::from_value(s[0].as_ref().expect("component i of Ttp6p12p9 must be present")),
            st: FromValue::from_value(s[1].as_ref().expect("component st of Ttp6p12p9 must be present")),
            rc: s[2].as_ref().map(FromValue::from_value),
        }
    }
}
impl ToValue for Ttp6p12p9 {
    fn to_value(&self) -> Value {
        Value::Seq(vec![
            Some(self.i.to_value()),
            Some(self.st.to_value()),
            self.rc.as_ref().map(|x| x.to_value()),
        ])
    }
}
impl FromValue for Ttp6p12p10 {
    fn from_value(v: &Value) -> Self {
        let s = match v { Value::Seq(s) => s, other => panic!("Ttp6p12p10: expected Seq, got {other:?}") };
        assert_eq!(s.len(), 3, "Ttp6p12p10: component count");
        let _ = s;
        Ttp6p12p10 {
            i: FromValue::from_value(s[0].as_ref().expect("component i of Ttp6p12p10 must be present")),
            st: FromValue::from_value(s[1].as_ref().expect("component st of Ttp6p12p10 must be present")),
            rt: FromValue::from_value(s[2].as_ref().expect("component rt of Ttp6p12p10 must be present")),
        }
    }
}
impl ToValue for Ttp6p12p10 {
    fn to_value(&self) -> Value {
        Value::Seq(vec![
            Some(self.i.to_value()),
            Some(self.st.to_value()),
            Some(self.rt.to_value()),
        ])
    }
}
impl FromValue for Ttp6p12p11 {
    fn from_value(v: &Value) -> Self {
        let s = match v { Value::Seq(s) => s, other => panic!("Ttp6p12p11: expected Seq, got {other:?}") };
        assert_eq!(s.len(), 3, "Ttp6p12p11: component count");
        let _ = s;
        Ttp6p12p11 {
            i: FromValue::from_value(s[0].as_ref().expect("component i of Ttp6p12p11 must be present")),
            st: FromValue::from_value(s[1].as_ref().expect("component st of Ttp6p12p11 must be present")),
            so: s[2].as_ref().map(FromValue::from_value),
        }
    }
}
impl ToValue for Ttp6p12p11 {
    fn to_value(&self) -> Value {
        Value::Seq(vec![
            Some(self.i.to_value()),
            Some(self.st.to_value()),
            self.so.as_ref().map(|x| x.to_value()),
        ])
    }
}
impl FromValue for Ttp6p12p13 {
    fn from_value(v: &Value) -> Self {
        let s = match v { Value::Seq(s) => s, other => panic!("Ttp6p12p13: expected Seq, got {other:?}") };
        assert_eq!(s.len(), 3, "Ttp6p12p13: component count");
        let _ = s;
        Ttp6p12p13 {
            i: FromValue::from_value(s[0].as_ref().expect("component i of Ttp6p12p13 must be present")),
            st: FromValue::from_value(s[1].as_ref().expect("component st of Ttp6p12p13 must be present")),
            rx: s[2].as_ref().map(FromValue::from_value),
        }
    }
}
impl ToValue for Ttp6p12p13 {
    fn to_value(&self) -> Value {
        Value::Seq(vec![
            Some(self.i.to_value()),
            Some(self.st.to_value()),
            self.rx.as_ref().map(|x| x.to_value()),
        ])
    }
}
impl FromValue for Ttp6p12p14 {
    fn from_value(v: &Value) -> Self {
        let s = match v { Value::Seq(s) => s, other => panic!("Ttp6p12p14: expected Seq, got {other:?}") };
        assert_eq!(s.len(), 3, "Ttp6p12p14: component count");
        let _ = s;
        Ttp6p12p14 {
            i: FromValue::from_value(s[0].as_ref().expect("component i of Ttp6p12p14 must be present")),
            st: FromValue::from_value(s[1].as_ref().expect("component st of Ttp6p12p14 must be present")),
            u2: FromValue::from_value(s[2].as_ref().expect("component u2 of Ttp6p12p14 must be present")),
        }
    }
}
impl ToValue for Ttp6p12p14 {
    fn to_value(&self) -> Value {
        Value::Seq(vec![
            Some(self.i.to_value()),
            Some(self.st.to_value()),
            Some(self.u2.to_value()),
        ])
    }
}
impl FromValue for Ttp6p12p15Is {
    fn from_value(v: &Value) -> Self {
        let s = match v { Value::Seq(s) => s, other => panic!("Ttp6p12p15Is: expected Seq, got {other:?}") };
        assert_eq!(s.len(), 1, "Ttp6p12p15Is: component count");
        let _ = s;
        Ttp6p12p15Is {
            v: FromValue::from_value(s[0].as_ref().expect("component v of Ttp6p12p15Is must be present")),
        }
    }
}
impl ToValue for Ttp6p12p15Is {
    fn to_value(&self) -> Value {
        Value::Seq(vec![
            Some(self.v.to_value()),
        ])
    }
}
impl FromValue for Ttp6p12p15 {
    fn from_value(v: &Value) -> Self {
        let s = match v { Value::Seq(s) => s, other => panic!("Ttp6p12p15: expected Seq, got {other:?}") };
        assert_eq!(s.len(), 3, "Ttp6p12p15: component count");
        let _ = s;
        Ttp6p12p15 {
            i: FromValue::from_value(s[0].as_ref().expect("component i of Ttp6p12p15 must be present")),
            st: FromValue::from_value(s[1].as_ref().expect("component st of Ttp6p12p15 must be present")),
            is: s[2].as_ref().map(FromValue::from_value),
        }
    }
}
impl ToValue for Ttp6p12p15 {
    fn to_value(&self) -> Value {
        Value::Seq(vec![
            Some(self.i.to_value()),
            Some(self.st.to_value()),
            self.is.as_ref().map(|x| x.to_value()),
        ])
    }
}
impl FromValue for Ttp6p13p0 {
    fn from_value(v: &Value) -> Self {
        let s = match v { Value::Seq(s) => s, other => panic!("Ttp6p13p0: expected Seq, got {other:?}") };
        assert_eq!(s.len(), 3, "Ttp6p13p0: component count");
        let _ = s;
        Ttp6p13p0 {
            i: FromValue::from_value(s[0].as_ref().expect("component i of Ttp6p13p0 must be present")),
            rx: s[1].as_ref().map(FromValue::from_value),
            x: FromValue::from_value(s[2].as_ref().expect("component x of Ttp6p13p0 must be present")),
        }
    }
}
impl ToValue for Ttp6p13p0 {
    fn to_value(&self) -> Value {
        Value::Seq(vec![
            Some(self.i.to_value()),
            self.rx.as_ref().map(|x| x.to_value()),
            Some(self.x.to_value()),
        ])
    }
}
impl FromValue for Ttp6p13p1 {
    fn from_value(v: &Value) -> Self {
        let s = match v { Value::Seq(s) => s, other => panic!("Ttp6p13p1: expected Seq, got {other:?}") };
        assert_eq!(s.len(), 3, "Ttp6p13p1: component count");
        let _ = s;
        Ttp6p13p1 {
            i: FromValue::from_value(s[0].as_ref().expect("component i of Ttp6p13p1 must be present")),
            rx: s[1].as_ref().map(FromValue::from_value),
            a: s[2].as_ref().map(FromValue::from_value),
        }
    }
}
impl ToValue for Ttp6p13p1 {
    fn to_value(&self) -> Value {
        Value::Seq(vec![
            Some(self.i.to_value()),
            self.rx.as_ref().map(|x| x.to_value()),
            self.a.as_ref().map(|x| x.to_value()),
        ])
    }
}
impl FromValue for Ttp6p13p2 {
    fn from_value(v: &Value) -> Self {
        let s = match v { Value::Seq(s) => s, other => panic!("Ttp6p13p2: expected Seq, got {other:?}") };
        assert_eq!(s.len(), 3, "Ttp6p13p2: component count");
        let _ = s;
        Ttp6p13p2 {
            i: FromValue::from_value(s[0].as_ref().expect("component i of Ttp6p13p2 must be present")),
            rx: s[1].as_ref().map(FromValue::from_value),
            c3: FromValue::from_value(s[2].as_ref().expect("component c3 of Ttp6p13p2 must be present")),
        }
    }
}
impl ToValue for Ttp6p13p2 {
    fn to_value(&self) -> Value {
        Value::Seq(vec![
            Some(self.i.to_value()),
            self.rx.as_ref().map(|x| x.to_value()),
            Some(self.c3.to_value()),
        ])
    }
}
impl FromValue for Ttp6p13p3 {
    fn from_value(v: &Value) -> Self {
        let s = match v { Value::Seq(s) => s, other => panic!("Ttp6p13p3: expected Seq, got {other:?}") };
        assert_eq!(s.len(), 3, "Ttp6p13p3: component count");
        let _ = s;
        Ttp6p13p3 {
            i: FromValue::from_value(s[0].as_ref().expect("component i of Ttp6p13p3 must be present")),
            rx: s[1].as_ref().map(FromValue::from_value),
            c0: s[2].as_ref().map(FromValue::from_value),
        }
    }
}
impl ToValue for Ttp6p13p3 {
    fn to_value(&self) -> Value {
        Value::Seq(vec![
            Some(self.i.to_value()),
            self.rx.as_ref().map(|x| x.to_value()),
            self.c0.as_ref().map(|x| x.to_value()),
        ])
    }
}
impl FromValue for Ttp6p13p4 {
    fn from_value(v: &Value) -> Self {
        let s = match v { Value::Seq(s) => s, other => panic!("Ttp6p13p4: expected Seq, got {other:?}") };
        assert_eq!(s.len(), 3, "Ttp6p13p4: component count");
        let _ = s;
        Ttp6p13p4 {
            i: FromValue::from_value(s[0].as_ref().expect("component i of Ttp6p13p4 must be present")),
            rx: s[1].as_ref().map(FromValue::from_value),
            p: FromValue::from_value(s[2].as_ref().expect("component p of Ttp6p13p4 must be present")),
        }
    }
}
impl ToValue for Ttp6p13p4 {
    fn to_value(&self) -> Value {
        Value::Seq(vec![
            Some(self.i.to_value()),
            self.rx.as_ref().map(|x| x.to_value()),
            Some(self.p.to_value()),
        ])
    }
}
impl FromValue for Ttp6p13p5 {
    fn from_value(v: &Value) -> Self {
        let s = match v { Value::Seq(s) => s, other => panic!("Ttp6p13p5: expected Seq, got {other:?}") };
        assert_eq!(s.len(), 3, "Ttp6p13p5: component count");
        let _ = s;
        Ttp6p13p5 {
            i: FromValue::from_value(s[0].as_ref().expect("component i of Ttp6p13p5 must be present")),
            rx: s[1].as_ref().map(FromValue::from_value),
            b: s[2].as_ref().map(FromValue::from_value),
        }
    }
}
impl ToValue for Ttp6p13p5 {
    fn to_value(&self) -> Value {
        Value::Seq(vec![
            Some(self.i.to_value()),
            self.rx.as_ref().map(|x| x.to_value()),
            self.b.as_ref().map(|x| x.to_value()),
        ])
    }
}
impl FromValue for Ttp6p13p7 {
    fn from_value(v: &Value) -> Self {
        let s = match v { Value::Seq(s) => s, other => panic!("Ttp6p13p7: expected Seq, got {other:?}") };
        assert_eq!(s.len(), 3, "Ttp6p13p7: component count");
        let _ = s;
        Ttp6p13p7 {
            i: FromValue::from_value(s[0].as_ref().expect("component i of Ttp6p13p7 must be present")),
            rx: s[1].as_ref().map(FromValue::from_value),
            ra: s[2].as_ref().map(FromValue::from_value),
        }
    }
}
impl ToValue for Ttp6p13p7 {
    fn to_value(&self) -> Value {
        Value::Seq(vec![
            Some(self.i.to_value()),
            self.rx.as_ref().map(|x| x.to_value()),
            self.ra.as_ref().map(|x| x.to_value()),
        ])
    }
}
impl FromValue for Ttp6p13p8 {
    fn from_value(v: &Value) -> Self {
        let s = match v { Value::Seq(s) => s, other => panic!("Ttp6p13p8: expected Seq, got {other:?}") };
        assert_eq!(s.len(), 3, "Ttp6p13p8: component count");
        let _ = s;
        Ttp6p13p8 {
            i: FromValue::from_value(s[0].as_ref().expect("component i of Ttp6p13p8 must be present")),
            rx: s[1].as_ref().map(FromValue::from_value),
            rs: FromValue::from_value(s[2].as_ref().expect("component rs of Ttp6p13p8 must be present")),
        }
    }
}
impl ToValue for Ttp6p13p8 {
    fn to_value(&self) -> Value {
        Value::Seq(vec![
            Some(self.i.to_value()),
            self.rx.as_ref().map(|x| x.to_value()),
            Some(self.rs.to_value()),
        ])
    }
}
impl FromValue for Ttp6p13p9 {
    fn from_value(v: &Value) -> Self {
        let s = match v { Value::Seq(s) => s, other => panic!("Ttp6p13p9: expected Seq, got {other:?}") };
        assert_eq!(s.len(), 3, "Ttp6p13p9: component count");
        let _ = s;
        Ttp6p13p9 {
            i: FromValue::from_value(s[0].as_ref().expect("component i of Ttp6p13p9 must be present")),
            rx: s[1].as_ref().map(FromValue::from_value),
            rc: s[2].as_ref().map(FromValue::from_value),
        }
    }
}
impl ToValue for Ttp6p13p9 {
    fn to_value(&self) -> Value {
        Value::Seq(vec![
            Some(self.i.to_value()),
            self.rx.as_ref().map(|x| x.to_value()),
            self.rc.as_ref().map(|x| x.to_value()),
        ])
    }
}
impl FromValue for Ttp6p13p10 {
    fn from_value(v: &Value) -> Self {
        let s = match v { Value::Seq(s) => s, other => panic!("Ttp6p13p10: expected Seq, got {other:?}") };
        assert_eq!(s.len(), 3, "Ttp6p13p10: component count");
        let _ = s;
        Ttp6p13p10 {
            i: FromValue::from_value(s[0].as_ref().expect("component i of Ttp6p13p10 must be present")),
            rx: s[1].as_ref().map(FromValue::from_value),
            rt: FromValue::from_value(s[2].as_ref().expect("component rt of Ttp6p13p10 must be present")),
        }
    }
}
impl ToValue for Ttp6p13p10 {
    fn to_value(&self) -> Value {
        Value::Seq(vec![
            Some(self.i.to_value()),
            self.rx.as_ref().map(|x| x.to_value()),
            Some(self.rt.to_value()),
        ])
    }
}
impl FromValue for Ttp6p13p11 {
    fn from_value(v: &Value) -> Self {
        let s = match v { Value::Seq(s) => s, other => panic!("Ttp6p13p11: expected Seq, got {other:?}") };
        assert_eq!(s.len(), 3, "Ttp6p13p11: component count");
        let _ = s;
        Ttp6p13p11 {
            i: FromValue::from_value(s[0].as_ref().expect("component i of Ttp6p13p11 must be present")),
            rx: s[1].as_ref().map(FromValue::from_value),
            so: s[2].as_ref().map(FromValue::from_value),
        }
    }
}
impl ToValue for Ttp6p13p11 {
    fn to_value(&self) -> Value {
        Value::Seq(vec![
            Some(self.i.to_value()),
            self.rx.as_ref().map(|x| x.to_value()),
            self.so.as_ref().map(|x| x.to_value()),
        ])
    }
}
impl FromValue for Ttp6p13p12 {
    fn from_value(v: &Value) -> Self {
        let s = match v { Value::Seq(s) => s, other => panic!("Ttp6p13p12: expected Seq, got {other:?}") };
        assert_eq!(s.len(), 3, "Ttp6p13p12: component count");
        let _ = s;
        Ttp6p13p12 {
            i: FromValue::from_value(s[0].as_ref().expect("component i of Ttp6p13p12 must be present")),
            rx: s[1].as_ref().map(FromValue::from_value),
            st: FromValue::from_value(s[2].as_ref().expect("component st of Ttp6p13p12 must be present")),
        }
    }
}
impl ToValue for Ttp6p13p12 {
    fn to_value(&self) -> Value {
        Value::Seq(vec![
            Some(self.i.to_value()),
            self.rx.as_ref().map(|x| x.to_value()),
            Some(self.st.to_value()),
        ])
    }
}
